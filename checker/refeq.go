package main

import (
	"bytes"
	"fmt"
	"go/ast"
	"go/printer"
	"go/token"
	"go/types"
	"sort"
	"strings"

	"golang.org/x/tools/go/ast/astutil"
	"golang.org/x/tools/go/packages"
	"golang.org/x/tools/go/ssa"
)

// E6: reference equivalence. Layer 1 = AST normal form (generic erasure + α-renaming);
// layer 2 = canonical path summaries (sets of condition/effect/return rows).

type declUnit struct {
	name string // Type.Method or Func, after the rename map
	decl *ast.FuncDecl
	pkg  *packages.Package
}

// normaliseFunc renders a function in normal form: type parameters and type arguments
// erased, the element type parameter mapped to any, locals α-renamed by binding order.
func normaliseFunc(pkg *packages.Package, fd *ast.FuncDecl, rename map[string]string) string {
	info := pkg.TypesInfo
	names := map[types.Object]string{}
	next := 0
	nameOf := func(obj types.Object) string {
		if n, ok := names[obj]; ok {
			return n
		}
		next++
		n := fmt.Sprintf("v%d", next)
		names[obj] = n
		return n
	}
	// work on a deep copy so that the loaded AST stays intact
	cp := copyNode(fd).(*ast.FuncDecl)
	// map copied identifiers back to the originals for type information
	orig := map[*ast.Ident]*ast.Ident{}
	pairIdents(fd, cp, orig)
	origIdx := map[ast.Node]ast.Node{}
	pairNodes(fd, cp, origIdx)
	cp.Doc = nil
	if cp.Type.TypeParams != nil {
		cp.Type.TypeParams = nil
	}
	res := astutil.Apply(cp, func(c *astutil.Cursor) bool {
		switch n := c.Node().(type) {
		case *ast.IndexExpr:
			if o, ok := origIdx[n].(*ast.IndexExpr); ok {
				if tv, ok := info.Types[o]; ok && tv.IsType() {
					c.Replace(n.X)
					return true
				}
				if id := calleeIdent(o.X); id != nil {
					if _, ok := info.Instances[id]; ok {
						c.Replace(n.X)
						return true
					}
				}
			}
		case *ast.IndexListExpr:
			if o, ok := origIdx[n].(*ast.IndexListExpr); ok {
				if tv, ok := info.Types[o]; ok && tv.IsType() {
					c.Replace(n.X)
					return true
				}
				if id := calleeIdent(o.X); id != nil {
					if _, ok := info.Instances[id]; ok {
						c.Replace(n.X)
						return true
					}
				}
			}
		case *ast.InterfaceType:
			if n.Methods == nil || len(n.Methods.List) == 0 {
				c.Replace(ast.NewIdent("any"))
				return false
			}
		}
		return true
	}, func(c *astutil.Cursor) bool {
		id, ok := c.Node().(*ast.Ident)
		if !ok {
			return true
		}
		o := orig[id]
		if o == nil {
			return true
		}
		obj := info.Defs[o]
		if obj == nil {
			obj = info.Uses[o]
		}
		if obj == nil {
			return true
		}
		switch ob := obj.(type) {
		case *types.Var:
			if ob.IsField() {
				return true
			}
			if ob.Parent() != nil && ob.Parent() == ob.Pkg().Scope() {
				return true // package-level variable: by name
			}
			if id.Name == "_" {
				return true
			}
			id.Name = nameOf(ob)
		case *types.TypeName:
			if _, isTP := ob.Type().(*types.TypeParam); isTP {
				id.Name = "any"
			}
		case *types.Func:
			if r, ok := rename[id.Name]; ok {
				id.Name = r
			}
		}
		return true
	})
	out := res.(*ast.FuncDecl)
	if r, ok := rename[out.Name.Name]; ok {
		out.Name = ast.NewIdent(r)
	}
	var buf bytes.Buffer
	fset := token.NewFileSet()
	(&printer.Config{Mode: printer.RawFormat}).Fprint(&buf, fset, out)
	return stripLayout(buf.String())
}

func calleeIdent(e ast.Expr) *ast.Ident {
	switch x := e.(type) {
	case *ast.Ident:
		return x
	case *ast.SelectorExpr:
		return x.Sel
	}
	return nil
}

func stripLayout(s string) string {
	var lines []string
	for _, l := range strings.Split(s, "\n") {
		l = strings.Join(strings.Fields(l), " ")
		if l != "" {
			lines = append(lines, l)
		}
	}
	return strings.Join(lines, "\n")
}

// copyNode deep-copies an AST through print+reparse-free structural cloning.
func copyNode(n ast.Node) ast.Node {
	return cloneAST(n)
}

// pairIdents walks two structurally identical trees in lock step.
func pairIdents(a, b ast.Node, m map[*ast.Ident]*ast.Ident) {
	var as, bs []*ast.Ident
	ast.Inspect(a, func(n ast.Node) bool {
		if id, ok := n.(*ast.Ident); ok {
			as = append(as, id)
		}
		return true
	})
	ast.Inspect(b, func(n ast.Node) bool {
		if id, ok := n.(*ast.Ident); ok {
			bs = append(bs, id)
		}
		return true
	})
	if len(as) != len(bs) {
		panic("pairIdents: clone mismatch")
	}
	for i := range as {
		m[bs[i]] = as[i]
	}
}

func pairNodes(a, b ast.Node, m map[ast.Node]ast.Node) {
	var as, bs []ast.Node
	ast.Inspect(a, func(n ast.Node) bool {
		if n != nil {
			as = append(as, n)
		}
		return true
	})
	ast.Inspect(b, func(n ast.Node) bool {
		if n != nil {
			bs = append(bs, n)
		}
		return true
	})
	if len(as) != len(bs) {
		panic("pairNodes: clone mismatch")
	}
	for i := range as {
		m[bs[i]] = as[i]
	}
}

// normaliseStruct renders a struct declaration modulo erasure.
func normaliseType(pkg *packages.Package, ts *ast.TypeSpec) string {
	info := pkg.TypesInfo
	cp := cloneAST(ts).(*ast.TypeSpec)
	orig := map[*ast.Ident]*ast.Ident{}
	pairIdents(ts, cp, orig)
	origIdx := map[ast.Node]ast.Node{}
	pairNodes(ts, cp, origIdx)
	cp.TypeParams = nil
	cp.Doc, cp.Comment = nil, nil
	res := astutil.Apply(cp, func(c *astutil.Cursor) bool {
		switch n := c.Node().(type) {
		case *ast.IndexExpr:
			if o, ok := origIdx[n].(*ast.IndexExpr); ok {
				if tv, ok := info.Types[o]; ok && tv.IsType() {
					c.Replace(n.X)
				}
			}
		case *ast.Field:
			n.Doc, n.Comment = nil, nil
		case *ast.InterfaceType:
			if n.Methods == nil || len(n.Methods.List) == 0 {
				c.Replace(ast.NewIdent("any"))
				return false
			}
		}
		return true
	}, func(c *astutil.Cursor) bool {
		if id, ok := c.Node().(*ast.Ident); ok {
			if o := orig[id]; o != nil {
				if obj, ok := info.Uses[o].(*types.TypeName); ok {
					if _, isTP := obj.Type().(*types.TypeParam); isTP {
						id.Name = "any"
					}
				}
			}
		}
		return true
	})
	var buf bytes.Buffer
	(&printer.Config{Mode: printer.RawFormat}).Fprint(&buf, token.NewFileSet(), res)
	return stripLayout(buf.String())
}

func declName(fd *ast.FuncDecl) string {
	if fd.Recv == nil || len(fd.Recv.List) == 0 {
		return fd.Name.Name
	}
	t := fd.Recv.List[0].Type
	for {
		switch x := t.(type) {
		case *ast.StarExpr:
			t = x.X
			continue
		case *ast.IndexExpr:
			t = x.X
			continue
		case *ast.IndexListExpr:
			t = x.X
			continue
		case *ast.ParenExpr:
			t = x.X
			continue
		}
		break
	}
	if id, ok := t.(*ast.Ident); ok {
		return id.Name + "." + fd.Name.Name
	}
	return "?." + fd.Name.Name
}

// ---------------------------------------------------------------------------
// layer 2: canonical path summaries, comparable across packages

type canon struct {
	sites map[string]int
	mod   string
}

func (c *canon) site(k string) string {
	if n, ok := c.sites[k]; ok {
		return fmt.Sprintf("s%d", n)
	}
	c.sites[k] = len(c.sites) + 1
	return fmt.Sprintf("s%d", c.sites[k])
}

func shortFuncName(s string) string {
	// strip package qualification: lists.(*List).insert -> (*List).insert ; container/list.(*List).insert likewise
	if i := strings.Index(s, ".("); i >= 0 {
		return s[i+1:]
	}
	if i := strings.LastIndex(s, "."); i >= 0 && !strings.HasPrefix(s, "builtin.") && !strings.HasPrefix(s, "iface.") {
		return s[i+1:]
	}
	return s
}

func (c *canon) term(t *Term, rename map[string]string) string {
	if t == nil {
		return "_"
	}
	args := func() string {
		var as []string
		for _, a := range t.Args {
			as = append(as, c.term(a, rename))
		}
		return strings.Join(as, ",")
	}
	switch t.Op {
	case "param":
		return fmt.Sprintf("p%d", t.N)
	case "free":
		return fmt.Sprintf("fv%d", t.N)
	case "const":
		return "k" + t.Sym
	case "zero":
		return "zero"
	case "global":
		return "g:" + t.Obj.Name()
	case "func":
		n := shortFuncName(t.Sym)
		if r, ok := rename[n]; ok {
			n = r
		}
		return "fn:" + n
	case "alloc", "mkslice", "mkmap", "mkchan", "closure", "select", "range":
		return t.Op + "@" + c.site(siteKey(t.Val)) + "(" + args() + ")"
	case "loopvar":
		return "lv@" + c.site(siteKey(t.Val))
	case "field", "faddr":
		return t.Op + "(" + c.term(t.Args[0], rename) + "." + t.Obj.Name() + ")"
	case "load", "lookup", "index":
		return fmt.Sprintf("%s(%s;e%d)", t.Op, args(), t.Ep)
	case "call", "next", "recv":
		n := shortFuncName(t.Sym)
		if r, ok := rename[n]; ok {
			n = r
		}
		return fmt.Sprintf("%s:%s(%s;#%d)", t.Op, n, args(), t.Ep)
	case "extract":
		return fmt.Sprintf("x%d(%s)", t.N, args())
	case "conv", "tassert", "iface":
		return t.Op + "(" + args() + ")"
	case "none":
		return "-"
	}
	return t.Op + ":" + t.Sym + "(" + args() + ")"
}

func (c *canon) poly(pl *Poly, rename map[string]string) string {
	var monos []string
	for k, cf := range pl.M {
		if k == "" {
			monos = append(monos, fmt.Sprintf("%d", cf))
			continue
		}
		var fs []string
		for _, a := range strings.Split(k, monoSep) {
			fs = append(fs, c.term(pl.Atoms[a], rename))
		}
		sort.Strings(fs)
		monos = append(monos, fmt.Sprintf("%d*%s", cf, strings.Join(fs, "*")))
	}
	sort.Strings(monos)
	return strings.Join(monos, "+")
}

func (c *canon) path(p *Path, rename map[string]string) string {
	var sb strings.Builder
	ci := 0
	condStr := func(cd Cond) string {
		r := cd.Rel()
		if pl, kind, ok := r.IntNorm(); ok {
			// integer comparisons in polynomial normal form: n <= 0 and n < 1 coincide
			return fmt.Sprintf("[%s %s 0]", c.poly(pl, rename), kind)
		}
		if r.B != nil {
			a, b := c.term(r.A, rename), c.term(r.B, rename)
			if (r.Op == "==" || r.Op == "!=") && b < a {
				a, b = b, a
			}
			return fmt.Sprintf("[%s %s %s]", a, r.Op, b)
		}
		return fmt.Sprintf("[%s %s]", r.Op, c.term(r.A, rename))
	}
	// Tests that follow one another with no effect in between are a conjunction: their order is immaterial (a test that
	// could panic where it stands is rule guard-precedes-use's business), and an integer test that the others of the
	// group imply adds nothing (n >= 0 beside n > 0). They are rendered as a sorted set without the implied ones, so
	// that swapping two exclusive case clauses does not change the summary.
	var group []Cond
	flush := func() {
		if len(group) == 0 {
			return
		}
		var strs []string
		for i, cd := range group {
			implied := false
			if pl, kind, ok := cd.Rel().IntNorm(); ok && kind == ">" {
				var others []Cond
				for j, o := range group {
					if j == i {
						continue
					}
					// an equal test is kept once (the later one goes)
					if opl, okind, ook := o.Rel().IntNorm(); ook && okind == ">" && opl.Equal(pl) {
						if j < i {
							implied = true
						}
						continue
					}
					others = append(others, o)
				}
				if !implied && len(others) > 0 {
					f := lgCollect(others)
					f.gt = append([]*Poly{}, f.gt...)
					for _, q := range f.gt {
						if k, isC := pl.Add(q, -1).IsConst(); isC && k >= 0 {
							implied = true
						}
					}
				}
			}
			if !implied {
				strs = append(strs, condStr(cd))
			}
		}
		sort.Strings(strs)
		for _, x := range strs {
			sb.WriteString(x)
		}
		group = group[:0]
	}
	emitCond := func(cd Cond) { group = append(group, cd) }
	for i, e := range p.Events {
		for ci < len(p.Conds) && p.Conds[ci].NEv <= i {
			emitCond(p.Conds[ci])
			ci++
		}
		flush()
		switch e.Kind {
		case "store":
			fmt.Fprintf(&sb, "ST(%s<-%s)", c.term(e.Addr, rename), c.term(e.Val, rename))
		case "mapupdate":
			fmt.Fprintf(&sb, "MU(%s,%s,%s)", c.term(e.Addr, rename), c.term(e.Key, rename), c.term(e.Val, rename))
		case "call", "go", "defer":
			n := shortFuncName(e.Name)
			if r, ok := rename[n]; ok {
				n = r
			}
			fmt.Fprintf(&sb, "%s:%s(", e.Kind, n)
			if e.Name == "dyn" {
				sb.WriteString(c.term(e.Callee, rename) + ";")
			}
			for _, a := range e.Args {
				sb.WriteString(c.term(a, rename) + ",")
			}
			sb.WriteString(")")
		case "send":
			fmt.Fprintf(&sb, "SEND(%s,%s)", c.term(e.Addr, rename), c.term(e.Val, rename))
		default:
			fmt.Fprintf(&sb, "%s;", strings.ToUpper(e.Kind))
		}
	}
	for ; ci < len(p.Conds); ci++ {
		emitCond(p.Conds[ci])
	}
	flush()
	// the values the loop variables had when each loop was entered (a counter started at 1 is not one started at 0)
	{
		var ins []string
		for _, phis := range p.LoopIn {
			for phi, t := range phis {
				if t != nil && len(t.Args) > 0 && t.Args[0] != nil {
					ins = append(ins, "lv@"+c.site(siteKey(phi))+"="+c.term(t.Args[0], rename))
				}
			}
		}
		if len(ins) > 0 {
			sort.Strings(ins)
			sb.WriteString("ENTER(" + strings.Join(ins, ";") + ")")
		}
	}
	switch p.End {
	case EndReturn:
		sb.WriteString("RET(")
		for _, r := range p.Rets {
			sb.WriteString(c.term(r, rename) + ",")
		}
		sb.WriteString(")")
	case EndPanic:
		sb.WriteString("PANIC(" + c.term(p.Panic, rename) + ")")
	case EndLoopBack:
		sb.WriteString("BACK(")
		var ns []string
		for phi, t := range p.Next {
			ns = append(ns, "lv@"+c.site(siteKey(phi))+"<-"+c.term(t, rename))
		}
		sort.Strings(ns)
		sb.WriteString(strings.Join(ns, ";") + ")")
	}
	return sb.String()
}

// canonPaths renders all paths of a function; paths are kept in DFS order (true edge first),
// which is itself canonical for structurally corresponding CFGs, and then sorted so that
// if-inversion does not matter.
func canonPaths(an *Analysis, fn *ssa.Function, rename map[string]string) ([]string, string) {
	return canonPathsOpt(an, fn, rename, false)
}

func canonPathsOpt(an *Analysis, fn *ssa.Function, rename map[string]string, distinct bool) ([]string, string) {
	fp := an.PathsOf(fn)
	if distinct {
		fp = an.PathsDistinct(fn)
	}
	if fp.Unproven != "" {
		return nil, fp.Unproven
	}
	// Sites (allocations, loop variables) are numbered by first appearance. To make the numbering independent of the
	// order in which the CFG happens to be walked (two exclusive case clauses may change places), each path is first
	// rendered with a numbering of its own; the paths are put in the order of those renderings; and the function-wide
	// numbering is then assigned by first appearance over that order.
	type lp struct {
		local string
		p     *Path
	}
	var lps []lp
	for _, p := range fp.Paths {
		lc := &canon{sites: map[string]int{}}
		lps = append(lps, lp{lc.path(p, rename), p})
	}
	sort.SliceStable(lps, func(i, j int) bool { return lps[i].local < lps[j].local })
	c := &canon{sites: map[string]int{}}
	var out []string
	for _, x := range lps {
		out = append(out, c.path(x.p, rename))
	}
	sort.Strings(out)
	return out, ""
}

var _ = ssa.Function{}

// distinctArgsAtAllCallSites: fn is unexported, never used as a value, and every call site in its package passes
// provably distinct objects for every pair of pointer parameters of the same type (one of them allocated on the
// calling path, or the path has compared them unequal). Returns the number of call sites examined.
func distinctArgsAtAllCallSites(P *Program, an *Analysis, fi *FuncInfo) (bool, int) {
	if fi == nil || fi.Obj.Exported() {
		return false, 0
	}
	fn := fi.SSA
	// pairs of same-typed pointer parameters
	type pair struct{ i, j int }
	var pairs []pair
	for i := range fn.Params {
		for j := i + 1; j < len(fn.Params); j++ {
			_, pi := fn.Params[i].Type().Underlying().(*types.Pointer)
			_, pj := fn.Params[j].Type().Underlying().(*types.Pointer)
			if pi && pj && types.Identical(fn.Params[i].Type(), fn.Params[j].Type()) {
				pairs = append(pairs, pair{i, j})
			}
		}
	}
	if len(pairs) == 0 {
		return false, 0
	}
	sites := 0
	for _, caller := range P.Funcs {
		if caller.Pkg != fi.Pkg {
			continue
		}
		for _, cf := range append([]*ssa.Function{caller.SSA}, caller.Closures...) {
			// any use other than as a static callee disqualifies
			for _, b := range cf.Blocks {
				for _, in := range b.Instrs {
					for _, op := range in.Operands(nil) {
						if f, ok := (*op).(*ssa.Function); ok && (f == fn || f.Origin() == fn) {
							if call, isCall := in.(ssa.CallInstruction); !isCall || call.Common().Value != *op {
								return false, sites
							}
						}
					}
				}
			}
			fp := an.PathsOf(cf)
			if fp.Unproven != "" {
				return false, sites
			}
			for _, p := range fp.Paths {
				for k := range p.Events {
					e := &p.Events[k]
					if (e.Kind != "call" && e.Kind != "go" && e.Kind != "defer") || e.SSAFn == nil {
						continue
					}
					if e.SSAFn != fn && e.SSAFn.Origin() != fn {
						continue
					}
					sites++
					for _, pr := range pairs {
						if pr.j >= len(e.Args) {
							return false, sites
						}
						a, b := e.Args[pr.i], e.Args[pr.j]
						ok := (a.Op == "alloc" && a.Key() != b.Key()) || (b.Op == "alloc" && a.Key() != b.Key())
						for ci, cd := range p.Conds {
							if ci >= e.NCond {
								break
							}
							r := cd.Rel()
							if r.B != nil && r.Op == "!=" && ((r.A.Key() == a.Key() && r.B.Key() == b.Key()) || (r.A.Key() == b.Key() && r.B.Key() == a.Key())) {
								ok = true
							}
						}
						if !ok {
							return false, sites
						}
					}
				}
			}
		}
	}
	return sites > 0, sites
}

// selfEstablishesDistinct: every path of fi that stores anything has, before its first store, a test that found its
// (same-typed) pointer parameters different; the paths on which they coincide change nothing. Summarising the
// function under the distinct-parameter assumption is then exact for every path that has an effect.
func selfEstablishesDistinct(an *Analysis, fi *FuncInfo) bool {
	if fi == nil {
		return false
	}
	fn := fi.SSA
	type pair struct{ i, j int }
	var pairs []pair
	for i := range fn.Params {
		for j := i + 1; j < len(fn.Params); j++ {
			_, pi := fn.Params[i].Type().Underlying().(*types.Pointer)
			_, pj := fn.Params[j].Type().Underlying().(*types.Pointer)
			if pi && pj && types.Identical(fn.Params[i].Type(), fn.Params[j].Type()) {
				pairs = append(pairs, pair{i, j})
			}
		}
	}
	if len(pairs) == 0 {
		return false
	}
	fp := an.PathsOf(fn)
	if fp.Unproven != "" {
		return false
	}
	for _, p := range fp.Paths {
		first := -1
		for k := range p.Events {
			if kd := p.Events[k].Kind; kd == "store" || kd == "mapupdate" || kd == "call" || kd == "go" || kd == "defer" || kd == "send" {
				first = k
				break
			}
		}
		if first < 0 {
			continue
		}
		for _, pr := range pairs {
			ok := false
			for _, cd := range p.Conds {
				if cd.NEv > first {
					break
				}
				r := cd.Rel()
				if r.B != nil && r.Op == "!=" && ((isParam(r.A, pr.i) && isParam(r.B, pr.j)) || (isParam(r.A, pr.j) && isParam(r.B, pr.i))) {
					ok = true
				}
			}
			if !ok {
				return false
			}
		}
	}
	return true
}
