package main

import (
	"fmt"
	"go/ast"
	"go/types"
	"sort"
	"strings"

	"golang.org/x/tools/go/ssa"
)

func init() {
	register(&propSpec{
		id:    "C10",
		level: "other",
		run:   runC10,
		explanation: "Decided on all paths of chans/pubsub.go (go/ssa path summaries with read/write lock state of the PubSub's RWMutex): " +
			"(guarded-by) the subscriber list is read only under RLock or Lock and written only under Lock of the same PubSub (helpers: at every call site; a PubSub allocated in the same call is exempt); (send-covered) 'no send after close': every send on a subscriber channel executes inside a lock region of that PubSub which also contains the read of the list it came from - synchronously, or in a goroutine launched inside the region that the launcher joins (wg.Wait) before leaving the region, the goroutine signalling Done after its send on every path; a goroutine must not read a variable that the enclosing loop overwrites; " +
			"(one-mutex-per-channel) a channel taken from one PubSub's list is not stored into another PubSub (which has its own mutex); (waitgroup) wg.Add(k) runs inside the region before the first launch with k equal, as a polynomial, to the product of the trip counts of the loops enclosing the launch, Wait is on the same WaitGroup; (fan-out) every publisher ranges over the whole list (and the whole event slice, events outer) and performs exactly one send/launch of that event to that subscriber per iteration; " +
			"(close-pairing) Unsub closes exactly the channel at the index it splices out, found by the search for the argument, in one Lock region, and touches nothing on the nil/not-found rows; UnsubAll closes every element and clears the list in one region; there is no other close; (timeout-dichotomy) in every sending helper that calls SendTimeout itself OnPubTimeout is called exactly on the path where it returned false and the hook is set, once, with the same event, and a helper that delegates hands on its own event, channel, timeout and hook; (error-table), (withonly-filter), (sub-appends) as path tables. " +
			"Two genuine defects are known and listed in known_findings.json: the fire-and-forget goroutines of Pub/PubSlice are not covered by the lock (a later Unsub closes the channel under a blocked send) and WithOnly copies a subscriber channel into a PubSub with a separate mutex. NOT decided: eventual delivery of Pub/PubSlice, liveness, deadlock freedom.",
		assumptions: []string{"contracts of sync.RWMutex and sync.WaitGroup", "SendTimeout reports false iff it did not send (property C19)"},
	})
}

type c10 struct {
	c            *Ctx
	fSubs, fMu   *types.Var
	fHook, fTime *types.Var
	funcs        []*FuncInfo
	paths        map[*FuncInfo][]*Path
}

// rwHeldAt: lock mode of a PubSub mutex before event n: "", "R", "W"; base = the PubSub value whose mutex is held
func (x *c10) rwHeldAt(p *Path, n int) (mode string, base *Term, lockIdx int) {
	lockIdx = -1
	for i := 0; i < n && i < len(p.Events); i++ {
		e := &p.Events[i]
		if e.Kind != "call" || len(e.Args) == 0 || !isFieldAddr(e.Args[0], x.fMu, nil) {
			continue
		}
		switch e.Name {
		case "sync.(*RWMutex).Lock":
			mode, base, lockIdx = "W", e.Args[0].Args[0], i
		case "sync.(*RWMutex).RLock":
			mode, base, lockIdx = "R", e.Args[0].Args[0], i
		case "sync.(*RWMutex).Unlock", "sync.(*RWMutex).RUnlock":
			mode, base = "", nil
		}
	}
	return
}

func (x *c10) isSubsLoad(t *Term, base *Term) bool { return isFieldLoad(t, x.fSubs, base) }

// chanFromSubs: t is an element of some PubSub's subscriber list; returns the PubSub value
func (x *c10) chanFromSubs(t *Term) *Term {
	if t == nil {
		return nil
	}
	if t.Op == "load" && t.Args[0].Op == "iaddr" && x.isSubsLoad(t.Args[0].Args[0], nil) {
		return t.Args[0].Args[0].Args[0].Args[0]
	}
	return nil
}

func runC10(c *Ctx) {
	R := c.R
	R.Rule("guarded-by", "subs is read under RLock/Lock and written under Lock of the same PubSub (helpers: at all call sites)", 12)
	R.Rule("send-covered", "every send on a subscriber channel happens inside the lock region that read the list: synchronous, or goroutine joined (wg.Wait) before the unlock", 6)
	R.Rule("one-mutex-per-channel", "a channel from one PubSub's list is not stored into another PubSub", 1)
	R.Rule("waitgroup", "wg.Add(k) inside the region before the launches with k = product of the enclosing loops' trip counts; launched function signals Done once after its send; Wait on the same WaitGroup", 3)
	R.Rule("fan-out", "each publisher: whole subscriber list (inner loop), whole event slice (outer loop), one send/launch of that event to that subscriber per iteration", 6)
	R.Rule("close-pairing", "Unsub closes exactly the channel it splices out; UnsubAll closes all and clears; no other close", 3)
	R.Rule("timeout-dichotomy", "every sending helper either calls SendTimeout itself and calls the hook exactly when it returned false and the hook is set, once, with the event, or hands its own event, channel, timeout and hook on to one that does", 2)
	R.Rule("send-reports", "SendTimeout (the helper every publish variant sends through) returns true exactly on the paths that performed the one send", 1)
	R.Rule("hook-outside-exclusive-lock", "the user's timeout hook (and any other function value) is called while no exclusive lock of the PubSub is held: a hook that publishes or unsubscribes on the same PubSub - which the API invites - would wait for a lock its own caller holds", 1)
	R.Rule("lock-pairing", "on every path each Lock/RLock of the PubSub mutex is released by the matching Unlock/RUnlock before the function returns; nothing is released that is not held; no nested acquisition", 10)
	R.Rule("sub-index", "subIndex scans the whole list, returns i where subs[i] == sub, and -1 after the scan", 1)
	R.Rule("error-table", "Unsub: nil -> ErrSubscriptionNotInitalized, not found -> ErrAlreadyUnsubscribed, found -> nil; state untouched on the error rows", 1)
	R.Rule("withonly-filter", "WithOnly's clone receives exactly the subscribers equal to the argument and the two configuration fields", 1)
	R.Rule("sub-appends", "Sub/SubBuf append one fresh channel of the stated capacity under Lock and return that channel", 2)

	x := &c10{c: c, paths: map[*FuncInfo][]*Path{}}
	x.fSubs = c.P.FieldOf("chans", "PubSub", "subs")
	x.fMu = c.P.FieldOf("chans", "PubSub", "mutex")
	x.fHook = c.P.FieldOf("chans", "PubSub", "OnPubTimeout")
	x.fTime = c.P.FieldOf("chans", "PubSub", "PubTimeoutAfter")
	if x.fSubs == nil || x.fMu == nil || x.fHook == nil || x.fTime == nil {
		R.Unproven("guarded-by", "chans.PubSub", "anchor", "", "fields subs/mutex/OnPubTimeout/PubTimeoutAfter not found")
		return
	}
	for _, fi := range c.P.FuncsOfPkg("chans") {
		if strings.HasPrefix(fi.Name, "chans.(*PubSub).") {
			x.funcs = append(x.funcs, fi)
			ps := c.paths("guarded-by", fi)
			if ps == nil {
				return
			}
			x.paths[fi] = ps
		}
	}
	x.guardedBy()
	x.sendCovered()
	x.oneMutex()
	x.fanOut()
	x.closePairing()
	x.timeoutDichotomy()
	x.errorTable()
	x.withOnly()
	x.subAppends()
	x.hookOutsideExclusiveLock()
}

// ---- hook-outside-exclusive-lock ---------------------------------------------------------

// hookOutsideExclusiveLock: every call of a function value (the OnPubTimeout hook arrives as a parameter or is read
// from the PubSub) in a method of PubSub happens with no sync.Mutex and no write-locked sync.RWMutex held - of
// whatever field, also one added later. Read locks are shared, so a re-entrant publish passes them.
func (x *c10) hookOutsideExclusiveLock() {
	c := x.c
	rule := "hook-outside-exclusive-lock"
	for _, fi := range x.funcs {
		ok, why := true, ""
		calls := 0
		for _, p := range x.paths[fi] {
			held := map[string]string{} // mutex address -> lock call name
			for i := range p.Events {
				e := &p.Events[i]
				if e.Kind == "call" && len(e.Args) >= 1 && e.Args[0] != nil {
					k := e.Args[0].Key()
					switch e.Name {
					case "sync.(*Mutex).Lock", "sync.(*RWMutex).Lock":
						if !e.Deferred {
							held[k] = e.Args[0].String() + " (" + e.Name + ")"
						}
					case "sync.(*Mutex).Unlock", "sync.(*RWMutex).Unlock":
						delete(held, k) // a deferred unlock is replayed where it runs: at the end of the path
					}
				}
				if e.Kind == "call" && e.Name == "dyn" && !e.Invoke {
					calls++
					for _, n := range held {
						ok, why = false, "a function value ("+e.Callee.String()+") is called while "+n+" is held exclusively: a hook that publishes or unsubscribes on the same PubSub blocks for ever"
					}
				}
			}
		}
		if calls == 0 {
			continue
		}
		o := c.R.Decide(ok, rule, fi.Name, "calls", c.pos(fi), "function values are called with no exclusive lock held", why)
		if !ok {
			o.Breaks = "a publish from inside OnPubTimeout never returns; the pair (event, subscriber) ends in neither a delivery nor a hook call"
		}
	}
}

// ---- guarded-by ---------------------------------------------------------------

func (x *c10) guardedBy() {
	c := x.c
	rule := "guarded-by"
	type site struct {
		fi    *FuncInfo
		what  string
		need  string
		local bool
		pos   ssa.Instruction
	}
	sites := map[string]*site{}
	var order []string
	needs := map[*FuncInfo]string{} // function must be entered with the lock: mode
	for _, fi := range x.funcs {
		for _, p := range x.paths[fi] {
			type acc struct {
				what, need string
				n          int
				in         ssa.Instruction
				base       *Term
			}
			var accs []acc
			for _, a := range p.Acc {
				if a.Kind == "load" && isFieldAddr(a.Addr, x.fSubs, nil) && rootOf(a.Addr).Op != "alloc" {
					accs = append(accs, acc{"read of subs", "R", a.NEv, a.Instr, a.Addr.Args[0]})
				}
			}
			for i := range p.Events {
				e := &p.Events[i]
				if e.Kind == "store" && isFieldAddr(e.Addr, x.fSubs, nil) && rootOf(e.Addr).Op != "alloc" {
					accs = append(accs, acc{"write of subs", "W", i, e.Instr, e.Addr.Args[0]})
				}
				// closing or writing an element of the list
				if e.Kind == "call" && e.Name == "builtin.close" && x.chanFromSubs(e.Args[0]) != nil {
					accs = append(accs, acc{"close of a subscriber channel", "W", i, e.Instr, x.chanFromSubs(e.Args[0])})
				}
			}
			for _, a := range accs {
				mode, base, _ := x.rwHeldAt(p, a.n)
				ok := mode != "" && (a.need == "R" || mode == "W") && base != nil && base.Key() == a.base.Key()
				k := fi.Name + "\x00" + instrOrdinal(a.in) + "/" + strings.ReplaceAll(a.what, " ", "-")
				s, has := sites[k]
				if !has {
					s = &site{fi: fi, what: a.what, need: a.need, local: true, pos: a.in}
					sites[k] = s
					order = append(order, k)
				}
				if !ok {
					s.local = false
					if needs[fi] == "" || a.need == "W" {
						needs[fi] = a.need
					}
				}
			}
		}
	}
	// call sites of functions that need the lock
	callersHold := func(fi *FuncInfo) (bool, string) {
		if ast.IsExported(fi.Obj.Name()) {
			return false, "exported method " + fi.Obj.Name() + " touches the list without taking the lock"
		}
		n := 0
		for _, g := range x.funcs {
			for _, p := range x.paths[g] {
				for i := range p.Events {
					e := &p.Events[i]
					if (e.Kind == "call" || e.Kind == "go") && e.SSAFn == fi.SSA {
						n++
						mode, base, _ := x.rwHeldAt(p, i)
						if e.Kind == "go" {
							mode = ""
						}
						if mode == "" || (needs[fi] == "W" && mode != "W") || base == nil || base.Key() != e.Args[0].Key() {
							return false, "called from " + g.Obj.Name() + " without the " + map[string]string{"R": "read", "W": "write"}[needs[fi]] + " lock"
						}
					}
				}
			}
		}
		if n == 0 {
			return false, "no call site establishes the lock"
		}
		return true, fmt.Sprintf("lock held at all %d call sites", n)
	}
	sort.Strings(order)
	for _, k := range order {
		s := sites[k]
		parts := strings.SplitN(k, "\x00", 2)
		if s.local {
			c.R.Held(rule, parts[0], parts[1], c.ipos(s.pos), s.what+" under the "+map[string]string{"R": "read (or write)", "W": "write"}[s.need]+" lock")
			continue
		}
		ok, why := callersHold(s.fi)
		if ok {
			c.R.Held(rule, parts[0], parts[1], c.ipos(s.pos), s.what+": "+why)
		} else {
			o := c.R.Refuted(rule, parts[0], parts[1], c.ipos(s.pos), s.what+" without the lock: "+why)
			o.Breaks = "data race on the subscriber list; a subscriber can be skipped, doubled or sent to after removal"
		}
	}
}

// ---- send-covered + waitgroup -------------------------------------------------

// senders: functions of PubSub that (transitively) send on a channel parameter; value = index of the channel parameter
func (x *c10) senders() map[*ssa.Function]int {
	out := map[*ssa.Function]int{}
	for changed := true; changed; {
		changed = false
		for _, fi := range x.funcs {
			if _, done := out[fi.SSA]; done {
				continue
			}
			for _, p := range x.paths[fi] {
				for i := range p.Events {
					e := &p.Events[i]
					if e.Kind != "call" {
						continue
					}
					chIdx := -1
					if strings.HasSuffix(e.Name, "chans.SendTimeout") || strings.HasSuffix(e.Name, "chans.SendContext") {
						chIdx = 0
						if strings.HasSuffix(e.Name, "SendContext") {
							chIdx = 1
						}
					} else if ci, ok := out[e.SSAFn]; ok {
						chIdx = ci
					}
					if chIdx >= 0 && chIdx < len(e.Args) && e.Args[chIdx].Op == "param" {
						out[fi.SSA] = e.Args[chIdx].N
						changed = true
					}
				}
				for i := range p.Events {
					if p.Events[i].Kind == "send" && p.Events[i].Addr.Op == "param" {
						out[fi.SSA] = p.Events[i].Addr.N
						changed = true
					}
				}
			}
		}
	}
	return out
}

func (x *c10) sendCovered() {
	c := x.c
	senders := x.senders()
	type res struct {
		ok      bool
		why     string
		pos     ssa.Instruction
		selfCov bool
	}
	results := map[string]*res{}
	var order []string
	wgResults := map[string]*res{}
	var wgOrder []string
	for _, fi := range x.funcs {
		if _, isSender := senders[fi.SSA]; isSender {
			continue // the helpers themselves are judged at their call sites
		}
		ps := x.paths[fi]
		loops := findLoops(ps)
		goN, callN := map[ssa.Instruction]int{}, map[ssa.Instruction]int{}
		for _, p := range ps {
			for i := range p.Events {
				e := &p.Events[i]
				if e.Kind != "call" && e.Kind != "go" {
					continue
				}
				var target *ssa.Function = e.SSAFn
				chIdx, isS := senders[target]
				var closureBad string
				if !isS && e.Kind == "go" && e.Callee != nil && e.Callee.Op == "closure" {
					// a goroutine running a closure that sends: look inside
					for _, q := range c.An.PathsOf(target).Paths {
						for j := range q.Events {
							f := &q.Events[j]
							if f.Kind == "call" {
								if _, s2 := senders[f.SSAFn]; s2 || strings.HasSuffix(f.Name, "chans.SendTimeout") {
									isS = true
									chIdx = -1
								}
							}
						}
					}
					if isS {
						// variables shared with the loop
						mc := e.Callee.Val.(*ssa.MakeClosure)
						for _, b := range mc.Bindings {
							if al, ok := b.(*ssa.Alloc); ok {
								if sharedLoopCell(al) {
									closureBad = "the goroutine reads the loop variable " + al.Comment + ", which the loop overwrites while the goroutine runs (one variable per loop in this language version)"
								}
							}
						}
					}
				}
				if !isS {
					continue
				}
				var ch *Term
				if chIdx >= 0 && chIdx < len(e.Args) {
					ch = e.Args[chIdx]
				}
				var ord int
				if e.Kind == "go" {
					if _, seen := goN[e.Instr]; !seen {
						goN[e.Instr] = len(goN)
					}
					ord = goN[e.Instr]
				} else {
					if _, seen := callN[e.Instr]; !seen {
						callN[e.Instr] = len(callN)
					}
					ord = callN[e.Instr]
				}
				k := fi.Name + "\x00" + fmt.Sprintf("%s#%d", e.Kind, ord)
				r, has := results[k]
				if !has {
					r = &res{ok: true, pos: e.Instr}
					results[k] = r
					order = append(order, k)
				}
				fail := func(w string) {
					if r.ok {
						r.ok, r.why = false, w
					}
				}
				if closureBad != "" {
					fail(closureBad)
				}
				if e.Kind == "go" && closureBad == "" && x.selfCovered(target, senders) {
					// (c) the launched function takes the lock itself and re-validates membership before it sends
					r.selfCov = true
					continue
				}
				mode, base, lockIdx := x.rwHeldAt(p, i)
				if mode == "" {
					fail("the send is issued outside any lock region of the PubSub")
					continue
				}
				if ch != nil {
					owner := x.chanFromSubs(ch)
					if owner == nil {
						// a channel parameter forwarded by a helper is fine; anything else unknown
						if ch.Op != "param" {
							fail("the channel sent to is not an element of the subscriber list read under this lock")
						}
					} else if owner.Key() != base.Key() {
						fail("the channel comes from another PubSub's list than the one locked")
					} else {
						// the list must have been read inside the region
						ld := ch.Args[0].Args[0]
						if li, ok := ld.Val.(ssa.Instruction); ok {
							// after, by dominance in one function - or, when the read sits in a helper that is walked through,
							// by its position on the path (accesses carry the number of events before them)
							afterOnPath := false
							for _, ac := range p.Acc {
								if ac.Instr == li && ac.NEv > lockIdx {
									afterOnPath = true
								}
							}
							if lk, ok2 := p.Events[lockIdx].Instr.(ssa.Instruction); ok2 && !instrAfter(lk, li) && !afterOnPath {
								fail("the subscriber list was read before the lock was taken")
							}
						}
					}
				}
				if e.Kind == "call" {
					continue // (a) synchronous inside the region
				}
				// (b) goroutine: must be joined before the region ends
				var wg *Term
				for _, a := range e.Args {
					if a != nil && a.Typ != nil && strings.Contains(typeStr(a.Typ), "sync.WaitGroup") {
						wg = a
					}
				}
				if wg == nil && e.Callee != nil && e.Callee.Op == "closure" {
					for _, b := range e.Callee.Args {
						if b.Typ != nil && strings.Contains(typeStr(b.Typ), "sync.WaitGroup") {
							wg = b
						}
					}
				}
				if wg == nil {
					fail("the send runs in a goroutine that nobody waits for: it can still be blocked on the channel when the region ends, and a later Unsub closes the channel under it")
					continue
				}
				// the launched function must signal Done after its send on every path
				if !x.signalsDoneAfterSend(target, senders) {
					fail("the launched function does not signal Done exactly once after its send on every path")
				}
				// on every exit path of the launcher: Wait(wg) inside the region
				for _, q := range ps {
					if q.End != EndReturn {
						continue
					}
					waitIdx, unlockIdx := -1, -1
					for j := range q.Events {
						f := &q.Events[j]
						if f.Kind == "call" && f.Name == "sync.(*WaitGroup).Wait" && f.Args[0].Key() == wg.Key() && waitIdx < 0 {
							waitIdx = j
						}
						if f.Kind == "call" && (f.Name == "sync.(*RWMutex).RUnlock" || f.Name == "sync.(*RWMutex).Unlock") && isFieldAddr(f.Args[0], x.fMu, nil) {
							unlockIdx = j
						}
					}
					// only paths that went through the region
					if unlockIdx < 0 {
						continue
					}
					// ... and launched something: a path that starts no goroutine has nothing to wait for
					launched := false
					for j := range q.Events {
						f := &q.Events[j]
						if f.Kind == "go" {
							launched = true // any goroutine at all, whatever it is given
						}
					}
					// ... including the ones started in a loop this path went through (the launches are on the loop's
					// back edges, not on the path that leaves it)
					if len(q.LoopAt) > 0 {
						for _, bp := range ps {
							for j := range bp.Events {
								if bp.Events[j].Kind == "go" {
									launched = true // some loop of this function launches; this path has been through its loops
								}
							}
						}
					}
					if !launched && waitIdx < 0 {
						continue
					}
					// the join comes after the launches: after the last goroutine this path starts itself and after every
					// launching loop it has been through
					early := false
					if waitIdx >= 0 {
						for j := range q.Events {
							if q.Events[j].Kind == "go" && j > waitIdx {
								early = true
							}
						}
						for _, bp := range ps {
							if bp.End != EndLoopBack || bp.BackTo == nil {
								continue
							}
							launches := false
							for j := range bp.Events {
								if bp.Events[j].Kind == "go" {
									launches = true
								}
							}
							if !launches {
								continue
							}
							// the loop it closes and every loop that encloses it (the headers it came through)
							hs := []*ssa.BasicBlock{bp.BackTo}
							for h := range bp.LoopAt {
								hs = append(hs, h)
							}
							for _, h := range hs {
								if at, through := q.LoopAt[h]; through && waitIdx < at {
									early = true
								}
							}
						}
					}
					if waitIdx < 0 {
						fail("a path leaves the region without waiting for the goroutines")
					} else if early {
						fail("wg.Wait() runs before the goroutines are started: it waits for a count that nothing brings down (the call never returns), or returns before the hand-offs it is meant to join")
					} else if waitIdx > unlockIdx {
						fail("wg.Wait() runs after the lock is released: the goroutines outlive the region and Unsub may close a channel under a blocked send")
					}
				}
				// waitgroup accounting
				wk := fi.Name + "\x00" + "add"
				wr, hasW := wgResults[wk]
				if !hasW {
					wr = &res{ok: true, pos: e.Instr}
					wgResults[wk] = wr
					wgOrder = append(wgOrder, wk)
				}
				wfail := func(w string) {
					if wr.ok {
						wr.ok, wr.why = false, w
					}
				}
				addIdx := -1
				var addArg *Term
				adds := 0
				for j := range p.Events {
					f := &p.Events[j]
					if f.Kind == "call" && f.Name == "sync.(*WaitGroup).Add" && f.Args[0].Key() == wg.Key() {
						adds++
						if addIdx < 0 {
							addIdx, addArg = j, f.Args[1]
						}
					}
				}
				switch {
				case adds != 1:
					wfail(fmt.Sprintf("wg.Add is called %d times on the path to a launch", adds))
				case addIdx > i:
					wfail("wg.Add runs after a goroutine was launched")
				case addIdx < lockIdx:
					wfail("wg.Add counts the subscribers before the lock is taken: a Sub/Unsub in between makes the count wrong (Wait returns early, or Done panics / Wait hangs)")
				default:
					// one Add(1) per launch, in the same iteration, before the go statement: counts exactly the launches
					if addArg.IsConst("1") {
						inner := true
						enclosing := 0
						for _, li := range loops {
							if at, in := p.LoopAt[li.Hdr]; in && at <= i {
								enclosing++
								if addIdx < at {
									inner = false
								}
							}
						}
						if inner && enclosing > 0 {
							break
						}
					}
					// k = product of trip counts of the loops enclosing the launch
					prod := polyConst(1)
					okLoops := true
					for _, li := range loops {
						if p.LoopIn[li.Hdr] == nil && p.LoopAt[li.Hdr] == 0 {
							if _, in := p.LoopAt[li.Hdr]; !in {
								continue
							}
						}
						if at, in := p.LoopAt[li.Hdr]; !in || at > i {
							continue
						}
						ct := counted(li)
						if ct == nil || ct.Step != 1 || ct.Op != "<" || !ct.First.Equal(polyConst(0)) {
							okLoops = false
							break
						}
						prod = prod.Mul(ToPoly(ct.Bound))
					}
					// under the lock held continuously from Add to the launch, the list cannot change (writers need the
					// write lock - guarded-by), so two reads of it denote the same list: compare modulo load epochs of subs
					norm := func(pl *Poly) string { return c13Poly(x.stripSubsEpochs(pl), nil, nil) }
					if !okLoops {
						wfail("an enclosing loop is not a plain 0..n-1 range")
					} else if norm(ToPoly(addArg)) != norm(prod) {
						wfail(fmt.Sprintf("wg.Add(%s) but the loops launch %s goroutines", ToPoly(addArg), prod))
					}
				}
			}
		}
	}
	sort.Strings(order)
	for _, k := range order {
		r := results[k]
		parts := strings.SplitN(k, "\x00", 2)
		if r.ok && r.selfCov {
			c.R.Held("send-covered", parts[0], parts[1], c.ipos(r.pos), "the launched function takes the PubSub's lock itself and sends only after finding the channel still subscribed, inside that region")
		} else if r.ok {
			c.R.Held("send-covered", parts[0], parts[1], c.ipos(r.pos), "send covered by the lock region that read the list")
		} else {
			o := c.R.Refuted("send-covered", parts[0], parts[1], c.ipos(r.pos), r.why)
			o.Breaks = "'send on closed channel' panic kills the process when an unsubscribe meets an in-flight send"
		}
	}
	sort.Strings(wgOrder)
	for _, k := range wgOrder {
		r := wgResults[k]
		parts := strings.SplitN(k, "\x00", 2)
		if r.ok {
			c.R.Held("waitgroup", parts[0], parts[1], c.ipos(r.pos), "Add(product of the loop trip counts) inside the region before the launches")
		} else {
			o := c.R.Refuted("waitgroup", parts[0], parts[1], c.ipos(r.pos), r.why)
			o.Breaks = "the publisher returns before every hand-off has finished, or blocks forever, or Done panics"
		}
	}
	// the Done discipline of every launched helper
	for fn := range senders {
		fi := c.P.BySSA[fn]
		if fi == nil {
			continue
		}
		hasWG := false
		for _, par := range fn.Params {
			if strings.Contains(typeStr(par.Type()), "sync.WaitGroup") {
				hasWG = true
			}
		}
		if !hasWG {
			continue
		}
		ok := x.signalsDoneAfterSend(fn, senders)
		c.R.Decide(ok, "waitgroup", fi.Name, "done", c.pos(fi), "Done exactly once, after the send, on every path", "does not signal Done exactly once after the send on every path")
	}
}

// stripSubsEpochs rewrites loads of the subscriber list to epoch 0.
func (x *c10) stripSubsEpochs(pl *Poly) *Poly {
	var rw func(t *Term) *Term
	rw = func(t *Term) *Term {
		if t == nil {
			return nil
		}
		cp := *t
		cp.key = ""
		if t.Op == "load" && isFieldAddr(t.Args[0], x.fSubs, nil) {
			cp.Ep = 0
		}
		if len(t.Args) > 0 {
			cp.Args = make([]*Term, len(t.Args))
			for i, a := range t.Args {
				cp.Args[i] = rw(a)
			}
		}
		return &cp
	}
	out := newPoly()
	for k, cf := range pl.M {
		if k == "" {
			out.M[""] += cf
			continue
		}
		m := polyConst(cf)
		for _, a := range strings.Split(k, monoSep) {
			m = m.Mul(polyAtom(rw(pl.Atoms[a])))
		}
		out = out.Add(m, 1)
	}
	return out
}

func sharedLoopCell(al *ssa.Alloc) bool {
	fn := al.Parent()
	if fn == nil || al.Referrers() == nil {
		return false
	}
	// headers
	for _, b := range fn.Blocks {
		for _, pred := range b.Preds {
			if b.Dominates(pred) {
				// loop with header b: body = blocks dominated by b that reach pred ... approximate with domination by b
				for _, r := range *al.Referrers() {
					st, ok := r.(*ssa.Store)
					if !ok || st.Addr != ssa.Value(al) {
						continue
					}
					if b.Dominates(st.Block()) && !b.Dominates(al.Block()) {
						return true
					}
					if b.Dominates(st.Block()) && al.Block() == b {
						return true
					}
				}
			}
		}
	}
	return false
}

func (x *c10) signalsDoneAfterSend(fn *ssa.Function, senders map[*ssa.Function]int) bool {
	if fn == nil {
		return false
	}
	fp := x.c.An.PathsOf(fn)
	if fp.Unproven != "" || len(fp.Paths) == 0 {
		return false
	}
	for _, p := range fp.Paths {
		sendIdx, doneIdx, dones := -1, -1, 0
		for i := range p.Events {
			e := &p.Events[i]
			if e.Kind == "call" {
				if _, s := senders[e.SSAFn]; s || strings.HasSuffix(e.Name, "chans.SendTimeout") {
					sendIdx = i
				}
				if e.Name == "sync.(*WaitGroup).Done" {
					dones++
					doneIdx = i
				}
			}
		}
		if p.End == EndPanic {
			continue
		}
		if dones != 1 || sendIdx < 0 || doneIdx < sendIdx {
			return false
		}
	}
	return true
}

// knownUnsubscribed: the path has found sub absent from base's list (subIndex(base, sub) == -1 or < 0).
func (x *c10) knownUnsubscribed(p *Path, base, sub *Term) bool {
	for _, cd := range p.Conds {
		r := cd.Rel()
		if r.B != nil && r.A.Op == "call" && strings.HasSuffix(r.A.Sym, "(*PubSub).subIndex") && len(r.A.Args) == 2 &&
			r.A.Args[0].Key() == base.Key() && stripConv(r.A.Args[1]).Key() == sub.Key() {
			if (r.Op == "==" && r.B.IsConst("-1")) || (r.Op == "<" && r.B.IsConst("0")) {
				return true
			}
		}
	}
	return false
}

// selfCovered: form (c) of send-covered. On every path of fn, every send (a call of a sending helper or of
// SendTimeout) happens while fn itself holds the PubSub's mutex, after a membership test under that lock has found the
// very channel it sends on in the list (subIndex(o, ch) excluded from being -1). A close needs the write lock, so
// the channel cannot be closed between that test and the send.
func (x *c10) selfCovered(fn *ssa.Function, senders map[*ssa.Function]int) bool {
	if fn == nil {
		return false
	}
	fp := x.c.An.PathsOf(fn)
	if fp.Unproven != "" || len(fp.Paths) == 0 {
		return false
	}
	sends := 0
	for _, p := range fp.Paths {
		for i := range p.Events {
			e := &p.Events[i]
			if e.Kind == "send" {
				return false // a raw send: not through the helper whose timeout handling is checked
			}
			if e.Kind != "call" {
				continue
			}
			chIdx, isS := senders[e.SSAFn]
			if !isS {
				if strings.HasSuffix(e.Name, "chans.SendTimeout") {
					chIdx, isS = 0, true
				} else {
					continue
				}
			}
			sends++
			if chIdx >= len(e.Args) {
				return false
			}
			ch := e.Args[chIdx]
			mode, base, lockIdx := x.rwHeldAt(p, i)
			if mode == "" || base == nil {
				return false
			}
			validated := false
			for _, cd := range p.Conds {
				if cd.NEv <= lockIdx || cd.NEv > i {
					continue
				}
				r := cd.Rel()
				if r.B != nil && r.A.Op == "call" && strings.HasSuffix(r.A.Sym, "(*PubSub).subIndex") && len(r.A.Args) == 2 &&
					r.A.Args[0].Key() == base.Key() && stripConv(r.A.Args[1]).Key() == stripConv(ch).Key() && excludesMinusOne(p, r.A, i) {
					validated = true
				}
			}
			if !validated {
				return false
			}
		}
	}
	return sends > 0
}

// ---- one-mutex-per-channel ----------------------------------------------------

func (x *c10) oneMutex() {
	c := x.c
	type res struct {
		ok      bool
		why     string
		pos     ssa.Instruction
		selfCov bool
	}
	results := map[string]*res{}
	var order []string
	any := false
	for _, fi := range x.funcs {
		n := map[ssa.Instruction]int{}
		for _, p := range x.paths[fi] {
			for i := range p.Events {
				e := &p.Events[i]
				if e.Kind != "store" || !isFieldAddr(e.Addr, x.fSubs, nil) {
					continue
				}
				any = true
				dst := e.Addr.Args[0]
				// every channel flowing into the stored list: elements of appended local arrays
				var chans []*Term
				e.Val.Walk(func(t *Term) bool {
					if t.Op == "alloc" {
						for j := range p.Events {
							f := &p.Events[j]
							if f.Kind == "store" && f.Addr.Op == "iaddr" && f.Addr.Args[0].Key() == t.Key() {
								chans = append(chans, f.Val)
							}
						}
					}
					return true
				})
				if _, seen := n[e.Instr]; !seen {
					n[e.Instr] = len(n)
				}
				k := fi.Name + "\x00" + fmt.Sprintf("store#%d", n[e.Instr])
				r, has := results[k]
				if !has {
					r = &res{ok: true, pos: e.Instr}
					results[k] = r
					order = append(order, k)
				}
				// ... or the whole list of another PubSub handed through a call (slices.Filter, slices.Clone, append, a re-slice)
				e.Val.Walk(func(t *Term) bool {
					if x.isSubsLoad(t, nil) && t.Args[0].Args[0].Key() != dst.Key() {
						r.ok = false
						r.why = "subscriber channels of one PubSub flow (through " + e.Val.String() + ") into another PubSub value, whose own mutex does not exclude the first one's Unsub: a publish through the copy can send on a channel the original closes"
					}
					return true
				})
				for _, ch := range chans {
					if owner := x.chanFromSubs(ch); owner != nil && owner.Key() != dst.Key() {
						r.ok = false
						r.why = "a subscriber channel of one PubSub is stored into another PubSub value, whose own mutex does not exclude the first one's Unsub: a publish through the copy can send on a channel the original closes"
					}
				}
			}
		}
	}
	sort.Strings(order)
	for _, k := range order {
		r := results[k]
		parts := strings.SplitN(k, "\x00", 2)
		if r.ok {
			c.R.Held("one-mutex-per-channel", parts[0], parts[1], c.ipos(r.pos), "the list only receives fresh channels or its own elements")
		} else {
			o := c.R.Refuted("one-mutex-per-channel", parts[0], parts[1], c.ipos(r.pos), r.why)
			o.Breaks = "send on closed channel through the WithOnly copy"
		}
	}
	_ = any
}

// ---- fan-out ----------------------------------------------------------------------

func (x *c10) fanOut() {
	c := x.c
	senders := x.senders()
	for _, row := range []struct {
		name  string
		slice bool
	}{{"Pub", false}, {"PubSlice", true}, {"PubWait", false}, {"PubSliceWait", true}, {"PubSync", false}, {"PubSliceSync", true}} {
		fi := c.fn("fan-out", "chans.(*PubSub)."+row.name)
		if fi == nil {
			continue
		}
		ps := x.paths[fi]
		recv := paramOf(fi, 0)
		evp := paramOf(fi, 1)
		ok, why := true, ""
		loops := findLoops(ps)
		want := 1
		if row.slice {
			want = 2
		}
		if len(loops) != want {
			ok, why = false, fmt.Sprintf("expected %d loop(s), found %d", want, len(loops))
		} else {
			var outer, inner *c14iter
			inner = c14IterOf(loops[len(loops)-1])
			if row.slice {
				outer = c14IterOf(loops[0])
				// loops are ordered by header index: the outer loop's header comes first
				if outer == nil || outer.kind != "slice" || outer.over.Key() != evp.Key() || !outer.full {
					ok, why = false, "the outer loop does not range over the whole event slice (events outer, subscribers inner)"
				}
			}
			if ok && (inner == nil || inner.kind != "slice" || !x.isSubsLoad(inner.over, recv) || !inner.full) {
				ok, why = false, "the inner loop does not range over the whole subscriber list"
			}
			if ok {
				// the innermost body path: exactly one send/launch with (event, subscriber)
				for _, p := range inner.li.Back {
					n := 0
					for i := p.LoopAt[inner.li.Hdr]; i < len(p.Events); i++ {
						e := &p.Events[i]
						if e.Kind != "call" && e.Kind != "go" {
							continue
						}
						chIdx, isS := senders[e.SSAFn]
						if !isS {
							if e.Kind == "go" && e.Callee != nil && e.Callee.Op == "closure" {
								n++ // judged by send-covered; count it as the iteration's launch
							}
							continue
						}
						n++
						if !inner.isElem(e.Args[chIdx]) {
							ok, why = false, "the subscriber sent to is not the current element of the list"
						}
						// event argument: parameter index 1 of send/sendWaitGroup
						evArg := e.Args[1]
						if row.slice {
							if outer == nil || !outer.isElem(evArg) {
								ok, why = false, "the event sent is not the current element of the event slice"
							}
						} else if evArg.Key() != evp.Key() {
							ok, why = false, "the event sent is not the published event"
						}
						// timeout configuration passed through
						if len(e.Args) >= 5 && !(isFieldLoad(e.Args[3], x.fTime, recv) && isFieldLoad(e.Args[4], x.fHook, recv)) {
							ok, why = false, "timeout and hook are not the PubSub's own"
						}
					}
					if n != 1 {
						ok, why = false, fmt.Sprintf("an iteration performs %d sends/launches", n)
					}
					cnt := 0
					for _, cd := range p.Conds {
						if cd.NEv < p.LoopAt[inner.li.Hdr] {
							continue
						}
						// the outer loop's own continue-condition can carry the same event count as the inner header
						if outer != nil && outer.idxPhi != nil {
							olv := outer.li.LV[outer.idxPhi]
							ilvIn := false
							for _, lv := range inner.li.LV {
								if cd.T.ContainsKey(lv.Key()) {
									ilvIn = true
								}
							}
							if olv != nil && cd.T.ContainsKey(olv.Key()) && !ilvIn {
								continue
							}
						}
						cnt++
					}
					if cnt != 1 {
						ok, why = false, "subscribers are skipped conditionally"
					}
				}
				if len(inner.li.Back) != 1 {
					ok, why = false, "the fan-out body branches"
				}
			}
			// nobody is left out by a way round the loops: a path that returns without having entered the fan-out has
			// found that there is nobody to send to, or (slice variants) nothing to send
			if ok {
				first := loops[0]
				for _, p := range ps {
					if p.End != EndReturn {
						continue
					}
					if _, entered := p.LoopAt[first.Hdr]; entered {
						continue
					}
					nothing := false
					for _, cd := range p.Conds {
						pl, kind, isInt := cd.Rel().IntNorm()
						if !isInt {
							continue
						}
						for _, at := range pl.Atoms {
							if at.Op != "builtin" || at.Sym != "len" || len(at.Args) != 1 {
								continue
							}
							if !(x.isSubsLoad(at.Args[0], recv) || (row.slice && at.Args[0].Key() == evp.Key())) {
								continue
							}
							l := ToPoly(at)
							if kind == "=" && pl.Equal(canonSign(l)) || kind == ">" && pl.Equal(polyConst(1).Add(l, -1)) {
								nothing = true
							}
						}
					}
					if !nothing {
						ok, why = false, "a path ("+p.CondString()+") returns without publishing although subscribers (and events) may be there"
					}
				}
			}
		}
		o := c.R.Decide(ok, "fan-out", fi.Name, "loops", c.pos(fi), "whole list"+map[bool]string{true: " x whole event slice, events outer", false: ""}[row.slice]+", one send per pair", why)
		if !ok {
			o.Breaks = "a subscriber misses an event, gets it twice, or gets events out of order"
		}
	}
}

// ---- close-pairing ------------------------------------------------------------------

func (x *c10) closePairing() {
	c := x.c
	// no other close in the package
	var others []string
	for _, fi := range c.P.FuncsOfPkg("chans") {
		for _, fn := range append([]*ssa.Function{fi.SSA}, fi.Closures...) {
			for _, b := range fn.Blocks {
				for _, in := range b.Instrs {
					if call, ok := in.(ssa.CallInstruction); ok {
						if bi, ok := call.Common().Value.(*ssa.Builtin); ok && bi.Name() == "close" {
							if fi.Name != "chans.(*PubSub).Unsub" && fi.Name != "chans.(*PubSub).UnsubAll" && touchesSubs(fn, x.fSubs) {
								others = append(others, fi.Name)
							}
						}
					}
				}
			}
		}
	}
	c.R.Decide(len(others) == 0, "close-pairing", "chans", "only-unsub-closes", "", "channels are closed only by Unsub and UnsubAll", "close also occurs in "+strings.Join(others, ", "))

	if fi := c.fn("close-pairing", "chans.(*PubSub).Unsub"); fi != nil {
		ps := x.paths[fi]
		recv, sub := paramOf(fi, 0), paramOf(fi, 1)
		ok, why := true, ""
		sawFound := false
		for _, p := range ps {
			var closes, stores []*Event
			for i := range p.Events {
				e := &p.Events[i]
				if e.Kind == "call" && e.Name == "builtin.close" {
					closes = append(closes, e)
				}
				if e.Kind == "store" && isFieldAddr(e.Addr, x.fSubs, nil) {
					stores = append(stores, e)
				}
			}
			// found?
			var idx *Term
			found := ""
			for _, cd := range p.Conds {
				r := cd.Rel()
				if r.B != nil && r.A.Op == "call" && strings.HasSuffix(r.A.Sym, "(*PubSub).subIndex") && r.A.Args[0].Key() == recv.Key() && r.A.Args[1].Key() == sub.Key() {
					if excludesMinusOne(p, r.A, len(p.Events)) {
						found, idx = "yes", r.A
					} else if r.Op == "==" && r.B.IsConst("-1") || r.Op == "<" && r.B.IsConst("0") {
						found = "no"
					}
				}
			}
			inlineAt := -1
			if found == "" {
				if row, ix, it := x.unsubInlineSearch(fi, p); row != "" {
					switch row {
					case "found":
						found, idx = "yes", ix
						inlineAt = p.LoopAt[it.li.Hdr]
					case "notfound", "loop":
						found = "no"
					}
				}
			}
			if found != "yes" {
				if len(closes)+len(stores) > 0 {
					ok, why = false, "a channel is closed or the list changed on a path where the argument was not found"
				}
				continue
			}
			sawFound = true
			if len(closes) != 1 || len(stores) != 1 {
				ok, why = false, fmt.Sprintf("the found path closes %d channels and stores the list %d times", len(closes), len(stores))
				continue
			}
			cl := closes[0].Args[0]
			if !(cl.Op == "load" && cl.Args[0].Op == "iaddr" && x.isSubsLoad(cl.Args[0].Args[0], recv) && ToPoly(cl.Args[0].Args[1]).Equal(ToPoly(idx))) {
				ok, why = false, "the channel closed is not the list element at the index found: "+cl.String()
			}
			// a direct write into the list's array is the clearing of the slot the splice vacates: nil, at len-1
			for i := range p.Events {
				e := &p.Events[i]
				if e.Kind != "store" || e.Addr.Op != "iaddr" || !x.isSubsLoad(e.Addr.Args[0], recv) {
					continue
				}
				if e.Val.Op == "load" && e.Val.Args[0].Key() == e.Addr.Key() {
					continue // writes back what is there
				}
				lenSubs := ToPoly(&Term{Op: "builtin", Sym: "len", Args: []*Term{e.Addr.Args[0]}})
				if !e.Val.IsNil() || !ToPoly(e.Addr.Args[1]).Equal(lenSubs.Add(polyConst(1), -1)) {
					ok, why = false, "an element of the subscriber list is overwritten: "+e.String()+" (only the vacated last slot may be cleared)"
				}
				// ... and the slot is vacated only once the elements behind the removed one have been moved down: cleared
				// before that, the nil is moved along and the last subscriber is gone
				shiftAt := -1
				for j := range p.Events {
					f := &p.Events[j]
					if f.Kind == "call" && (f.Name == "builtin.copy" || f.Name == "builtin.append") && len(f.Args) >= 1 && rootOf(f.Args[0]) != nil && x.isSubsLoad(rootOfSlice(f.Args[0]), recv) {
						shiftAt = j
					}
				}
				if shiftAt < 0 || i < shiftAt {
					ok, why = false, "the last slot of the subscriber list is cleared before the elements behind the removed one are moved down: the nil is moved along and a subscriber is lost"
				}
			}
			v := stores[0].Val
			good := v.Op == "builtin" && v.Sym == "append" && len(v.Args) == 2 &&
				v.Args[0].Op == "slice" && x.isSubsLoad(v.Args[0].Args[0], recv) && (v.Args[0].Args[1].Op == "none" || v.Args[0].Args[1].IsConst("0")) && ToPoly(v.Args[0].Args[2]).Equal(ToPoly(idx)) &&
				v.Args[1].Op == "slice" && x.isSubsLoad(v.Args[1].Args[0], recv) && ToPoly(v.Args[1].Args[1]).Equal(ToPoly(idx).Add(polyConst(1), 1)) && v.Args[1].Args[2].Op == "none"
			if !good {
				// equivalent: copy(subs[i:], subs[i+1:]) followed by subs = subs[:len(subs)-1]
				shifted := false
				for i := range p.Events {
					e := &p.Events[i]
					if e.Kind == "call" && e.Name == "builtin.copy" && len(e.Args) == 2 {
						d, src := e.Args[0], e.Args[1]
						if d.Op == "slice" && x.isSubsLoad(d.Args[0], recv) && d.Args[1].Key() == idx.Key() && d.Args[2].Op == "none" &&
							src.Op == "slice" && x.isSubsLoad(src.Args[0], recv) && ToPoly(src.Args[1]).Equal(ToPoly(idx).Add(polyConst(1), 1)) && src.Args[2].Op == "none" {
							shifted = true
						}
					}
				}
				if shifted && v.Op == "slice" && x.isSubsLoad(v.Args[0], recv) && (v.Args[1].Op == "none" || v.Args[1].IsConst("0")) && v.Args[2].Op != "none" {
					lenT := &Term{Op: "builtin", Sym: "len", Args: []*Term{v.Args[0]}}
					good = ToPoly(v.Args[2]).Equal(ToPoly(lenT).Add(polyConst(1), -1))
				}
			}
			if !good {
				ok, why = false, "the list is not spliced as subs[:i] + subs[i+1:] with the index found: "+v.String()
			}
			// the search, the close and the splice are one write-locked region: an index found in an earlier
			// region is stale by the time it is used (another Unsub may have shifted the list in between)
			region := func(e *Event) (string, int) {
				for i := range p.Events {
					if &p.Events[i] == e {
						m, _, li := x.rwHeldAt(p, i)
						return m, li
					}
				}
				return "", -2
			}
			var search *Event
			for i := range p.Events {
				if e := &p.Events[i]; e.Kind == "call" && e.Res != nil && e.Res.Key() == idx.Key() {
					search = e
				}
			}
			if search == nil && inlineAt >= 0 && inlineAt < len(p.Events) {
				search = &p.Events[inlineAt] // the first event of the scan loop stands for the search
			}
			if search == nil {
				ok, why = false, "cannot locate the search for the argument"
			} else {
				ms, ls := region(search)
				mc, lc := region(closes[0])
				mw, lw := region(stores[0])
				if ms != "W" || mc != "W" || mw != "W" || ls != lc || lc != lw {
					ok, why = false, fmt.Sprintf("the index is searched (%s-region #%d), the channel closed (%s-region #%d) and the list spliced (%s-region #%d) in different lock regions: the index is stale when used", ms, ls, mc, lc, mw, lw)
				}
			}
		}
		if ok && !sawFound {
			ok, why = false, "no found path"
		}
		o := c.R.Decide(ok, "close-pairing", fi.Name, "found-path", c.pos(fi), "closes subs[i] and splices out the same i = subIndex(sub)", why)
		if !ok {
			o.Breaks = "the wrong subscriber is closed or removed"
		}
	}
	if fi := c.fn("close-pairing", "chans.(*PubSub).UnsubAll"); fi != nil {
		ps := x.paths[fi]
		recv := paramOf(fi, 0)
		ok, why := true, ""
		loops := findLoops(ps)
		if len(loops) != 1 {
			ok, why = false, "expected one loop closing the channels"
		} else {
			it := c14IterOf(loops[0])
			if it == nil || it.kind != "slice" || !x.isSubsLoad(it.over, recv) || !it.full {
				ok, why = false, "does not range over the whole subscriber list"
			} else {
				for _, p := range it.li.Back {
					n := 0
					for i := p.LoopAt[it.li.Hdr]; i < len(p.Events); i++ {
						e := &p.Events[i]
						if e.Kind == "call" && e.Name == "builtin.close" && it.isElem(e.Args[0]) {
							n++
						} else if e.Kind == "call" && e.Name != "builtin.len" {
							ok, why = false, "the loop body does more than close the current channel ("+e.Name+"): changing the list while ranging over it skips subscribers"
						} else if e.Kind == "store" {
							ok, why = false, "the list is modified while it is being ranged over"
						}
					}
					if n != 1 {
						ok, why = false, "not exactly one close per subscriber"
					}
				}
				for _, p := range it.li.Exit {
					if p.End != EndReturn {
						continue
					}
					cleared := false
					for i := p.LoopAt[it.li.Hdr]; i < len(p.Events); i++ {
						e := &p.Events[i]
						if e.Kind == "store" && isFieldAddr(e.Addr, x.fSubs, recv) && (e.Val.IsNil() || (e.Val.Op == "slice" && e.Val.Args[2].IsConst("0"))) {
							mode, _, _ := x.rwHeldAt(p, i)
							cleared = mode == "W"
						}
					}
					if !cleared {
						ok, why = false, "the list is not cleared in the same write-lock region"
					}
				}
			}
		}
		c.R.Decide(ok, "close-pairing", fi.Name, "all", c.pos(fi), "closes every subscriber once and clears the list in one region", why)
	}
}

// ---- timeout-dichotomy ----------------------------------------------------------------

func (x *c10) timeoutDichotomy() {
	c := x.c
	if c.fn("timeout-dichotomy", "chans.(*PubSub).send") == nil {
		return
	}
	senders := x.senders()
	for _, fi := range x.funcs {
		chIdx, isS := senders[fi.SSA]
		if !isS {
			continue
		}
		x.timeoutDichotomyOf(fi, chIdx, senders)
	}
}

// c10Roles: the parameters of a sending helper by role, found by type: the channel, the event (the channel's element
// type), the timeout (time.Duration) and the hook (a function value)
func c10Roles(fi *FuncInfo, chIdx int) (ev, sub, timeout, hook *Term) {
	if chIdx >= len(fi.SSA.Params) {
		return
	}
	sub = paramOf(fi, chIdx)
	ch, _ := fi.SSA.Params[chIdx].Type().Underlying().(*types.Chan)
	for i, p := range fi.SSA.Params {
		if i == 0 || i == chIdx {
			continue
		}
		switch {
		case ch != nil && ev == nil && types.Identical(p.Type(), ch.Elem()):
			ev = paramOf(fi, i)
		case timeout == nil && p.Type().String() == "time.Duration":
			timeout = paramOf(fi, i)
		default:
			if _, isF := p.Type().Underlying().(*types.Signature); isF && hook == nil {
				hook = paramOf(fi, i)
			}
		}
	}
	return
}

func (x *c10) timeoutDichotomyOf(fi *FuncInfo, chIdx int, senders map[*ssa.Function]int) {
	c := x.c
	ps := x.paths[fi]
	ok, why := true, ""
	ev, sub, timeout, hook := c10Roles(fi, chIdx)
	direct := false
	for _, p := range ps {
		for i := range p.Events {
			e := &p.Events[i]
			if e.Kind == "send" || (e.Kind == "call" && (strings.HasSuffix(e.Name, "chans.SendTimeout") || strings.HasSuffix(e.Name, "chans.SendContext"))) {
				direct = true
			}
		}
	}
	// a helper that sends itself must be given the timeout and the hook; one that delegates may instead read them from
	// the receiver's configuration fields, as the publishers do
	if ev == nil || sub == nil || (direct && (timeout == nil || hook == nil)) {
		c.R.Refuted("timeout-dichotomy", fi.Name, "rows", c.pos(fi), "the sending helper does not receive the event, the channel, the timeout and the hook: it cannot honour the timeout configuration")
		return
	}
	direct = false
	for _, p := range ps {
		for i := range p.Events {
			e := &p.Events[i]
			if e.Kind == "send" || (e.Kind == "call" && (strings.HasSuffix(e.Name, "chans.SendTimeout") || strings.HasSuffix(e.Name, "chans.SendContext"))) {
				direct = true
			}
		}
	}
	if !direct {
		// pass-through: exactly one call of another sending helper per path, with this function's own event, channel, timeout and hook
		for _, p := range ps {
			n := 0
			for i := range p.Events {
				e := &p.Events[i]
				if e.Kind != "call" {
					continue
				}
				ci, isS := senders[e.SSAFn]
				if !isS {
					continue
				}
				n++
				g := c.P.BySSA[e.SSAFn]
				if g == nil {
					ok, why = false, "delegates to a function outside the analysed package"
					continue
				}
				gev, gsub, gto, ghook := c10Roles(g, ci)
				if gev == nil || gsub == nil || gto == nil || ghook == nil {
					ok, why = false, "delegates to "+g.Name+", which does not take event, channel, timeout and hook"
					continue
				}
				arg := func(t *Term) *Term {
					if t.N < len(e.Args) {
						return e.Args[t.N]
					}
					return nil
				}
				same := func(a, b *Term) bool { return a != nil && b != nil && a.Key() == b.Key() }
				recv := paramOf(fi, 0)
				cfg := func(a *Term, f *types.Var) bool { return a != nil && isFieldLoad(a, f, recv) }
				if !same(arg(gev), ev) || !same(arg(gsub), sub) || !(same(arg(gto), timeout) || cfg(arg(gto), x.fTime)) || !(same(arg(ghook), hook) || cfg(arg(ghook), x.fHook)) {
					ok, why = false, "does not hand its own event, channel, timeout and hook (or the receiver's PubTimeoutAfter and OnPubTimeout) on to "+g.Name+": the timeout configuration is lost on this route"
				}
			}
			if n == 0 && p.End == EndReturn && x.knownUnsubscribed(p, paramOf(fi, 0), sub) {
				continue // the channel was found to be no longer subscribed: nothing is due to it
			}
			if n != 1 && p.End != EndPanic {
				ok, why = false, fmt.Sprintf("a path performs %d sends", n)
			}
		}
		o := c.R.Decide(ok, "timeout-dichotomy", fi.Name, "passthrough", c.pos(fi), "one delegation per path, handing on its own event, channel, timeout and hook", why)
		if !ok {
			o.Breaks = "with a positive PubTimeoutAfter a timed-out (event, subscriber) pair ends in neither a delivery nor an OnPubTimeout call on this route"
		}
		return
	}
	sawHook := false
	for _, p := range ps {
		var st, hk []*Event
		for i := range p.Events {
			e := &p.Events[i]
			if e.Kind == "call" && strings.HasSuffix(e.Name, "chans.SendTimeout") {
				st = append(st, e)
			}
			if e.Kind == "call" && e.Name == "dyn" && e.Callee.Key() == hook.Key() {
				hk = append(hk, e)
			}
		}
		if len(st) != 1 || st[0].Args[0].Key() != sub.Key() || st[0].Args[1].Key() != ev.Key() || st[0].Args[2].Key() != timeout.Key() {
			ok, why = false, "not exactly one SendTimeout(sub, ev, timeout)"
			continue
		}
		sent, hookSet := "", ""
		for _, cd := range p.Conds {
			t, pol := stripNot(cd.T, cd.Pol)
			if t.Key() == st[0].Res.Key() {
				sent = map[bool]string{true: "yes", false: "no"}[pol]
			}
			r := cd.Rel()
			if r.B != nil && r.A.Key() == hook.Key() && r.B.IsNil() {
				hookSet = map[string]string{"!=": "yes", "==": "no"}[r.Op]
			}
		}
		wantHook := sent == "no" && hookSet == "yes"
		if wantHook {
			sawHook = true
			if len(hk) != 1 || len(hk[0].Args) != 1 || hk[0].Args[0].Key() != ev.Key() {
				ok, why = false, "on a timeout with the hook set it is not called exactly once with the event"
			}
		} else if len(hk) != 0 {
			ok, why = false, "OnPubTimeout is called although the event was delivered (or without testing the hook)"
		}
		if sent == "" && len(hk) > 0 {
			ok, why = false, "the hook is called without looking at SendTimeout's result"
		}
	}
	if ok && !sawHook {
		ok, why = false, "the timeout hook is never called: the result of SendTimeout is dropped"
	}
	o := c.R.Decide(ok, "timeout-dichotomy", fi.Name, "rows", c.pos(fi), "hook called exactly when SendTimeout returned false and the hook is non-nil", why)
	if !ok {
		o.Breaks = "with a positive PubTimeoutAfter a timed-out (event, subscriber) pair ends in neither a delivery nor an OnPubTimeout call, or in both"
	}
}

// ---- error-table -----------------------------------------------------------------------

func (x *c10) errorTable() {
	c := x.c
	c19Senders(c, "send-reports", true)
	x.lockPairing()
	x.subIndexRule()
	fi := c.fn("error-table", "chans.(*PubSub).Unsub")
	if fi == nil {
		return
	}
	ps := x.paths[fi]
	sub := paramOf(fi, 1)
	ok, why := true, ""
	rows := map[string]bool{}
	isErr := func(t *Term, name string) bool {
		return t != nil && t.Op == "load" && t.Args[0].Op == "global" && t.Args[0].Obj.Name() == name
	}
	for _, p := range ps {
		if p.End == EndLoopBack {
			continue // an iteration of an inline scan; judged by close-pairing
		}
		if p.End != EndReturn || len(p.Rets) != 1 {
			ok, why = false, "path does not return an error value"
			continue
		}
		subNil, found := "", ""
		for _, cd := range p.Conds {
			r := cd.Rel()
			if r.B != nil && r.A.Key() == sub.Key() && r.B.IsNil() {
				subNil = r.Op
			}
			if r.B != nil && r.A.Op == "call" && strings.HasSuffix(r.A.Sym, "subIndex") {
				if excludesMinusOne(p, r.A, len(p.Events)) {
					found = "yes"
				} else if impliesMinusOne(p, r.A) {
					found = "no"
				} else {
					ok, why = false, "a path ("+p.CondString()+") decides on the search result without telling 'not found' (-1) from a position"
				}
			}
		}
		if found == "" && subNil != "==" {
			if row, _, _ := x.unsubInlineSearch(fi, p); row == "found" {
				found = "yes"
			} else if row == "notfound" {
				found = "no"
			}
		}
		ret := p.Rets[0]
		switch {
		case subNil == "==":
			rows["nil"] = true
			if !isErr(ret, "ErrSubscriptionNotInitalized") {
				ok, why = false, "a nil subscription does not yield ErrSubscriptionNotInitalized"
			}
		case found == "no":
			rows["notfound"] = true
			if !isErr(ret, "ErrAlreadyUnsubscribed") {
				ok, why = false, "an unknown subscription does not yield ErrAlreadyUnsubscribed"
			}
		case found == "yes":
			rows["found"] = true
			if !ret.IsNil() {
				ok, why = false, "a successful unsubscribe does not return nil"
			}
		default:
			ok, why = false, "unexpected row "+p.CondString()
		}
	}
	if ok && len(rows) != 3 {
		ok, why = false, "a row is missing"
	}
	c.R.Decide(ok, "error-table", fi.Name, "rows", c.pos(fi), "nil -> ErrSubscriptionNotInitalized; unknown -> ErrAlreadyUnsubscribed; known -> nil", why)
}

// ---- withonly-filter ----------------------------------------------------------------------

// withOnlyViaFilter: WithOnly written with the library's filter helper: on its single path the clone's list is
// slices.Filter(o.subs, func(s) bool { return s == sub }) (the closure: one path, no effect, returns the comparison
// of its parameter with the captured argument), the two configuration fields are copied, the clone is returned.
func (x *c10) withOnlyViaFilter(fi *FuncInfo, p *Path, recv, sub *Term) bool {
	if p.End != EndReturn || len(p.Rets) != 1 || p.Rets[0].Op != "alloc" {
		return false
	}
	clone := p.Rets[0]
	h, t, f := false, false, false
	for i := range p.Events {
		e := &p.Events[i]
		if e.Kind != "store" {
			continue
		}
		switch {
		case isFieldAddr(e.Addr, x.fHook, clone) && isFieldLoad(e.Val, x.fHook, recv):
			h = true
		case isFieldAddr(e.Addr, x.fTime, clone) && isFieldLoad(e.Val, x.fTime, recv):
			t = true
		case isFieldAddr(e.Addr, x.fSubs, clone):
			v := e.Val
			if f || v.Op != "call" || v.Sym != "slices.Filter" || len(v.Args) != 2 || !x.isSubsLoad(v.Args[0], recv) {
				return false
			}
			// the predicate
			var mk *Event
			for j := range p.Events {
				if p.Events[j].Kind == "mkclosure" && p.Events[j].Val.Key() == v.Args[1].Key() {
					mk = &p.Events[j]
				}
			}
			if mk == nil {
				return false
			}
			cp := x.c.An.ClosurePaths(mk)
			if cp.Unproven != "" || len(cp.Paths) != 1 {
				return false
			}
			q := cp.Paths[0]
			if len(q.Events) != 0 || q.End != EndReturn || len(q.Rets) != 1 {
				return false
			}
			r := q.Rets[0]
			if r.Op != "bin" || r.Sym != "==" || len(r.Args) != 2 {
				return false
			}
			isArg := func(a *Term) bool {
				a = stripConv(a)
				return a.Key() == sub.Key() || isParamOrSpill(p, a, 1)
			}
			a0, a1 := r.Args[0], r.Args[1]
			if !((isParam(a0, 0) && isArg(a1)) || (isParam(a1, 0) && isArg(a0))) {
				return false
			}
			f = true
		}
	}
	return h && t && f
}

func (x *c10) withOnly() {
	c := x.c
	fi := c.fn("withonly-filter", "chans.(*PubSub).WithOnly")
	if fi == nil {
		return
	}
	ps := x.paths[fi]
	recv, sub := paramOf(fi, 0), paramOf(fi, 1)
	ok, why := true, ""
	loops := findLoops(ps)
	if len(loops) == 0 && len(ps) == 1 && x.withOnlyViaFilter(fi, ps[0], recv, sub) {
		// the library's own slices.Filter (a fresh slice of exactly the elements that satisfy the predicate - decided by
		// C14's rules, which the dependency closure re-runs here) with the predicate s == sub
		c.R.Held("withonly-filter", fi.Name, "filter", c.pos(fi), "clone = slices.Filter(subs, s == sub) with the same timeout configuration")
		return
	}
	if len(loops) != 1 {
		ok, why = false, "expected one loop over the subscriber list"
	} else {
		it := c14IterOf(loops[0])
		if it == nil || !x.isSubsLoad(it.over, recv) || !it.full {
			ok, why = false, "does not range over the whole subscriber list"
		} else {
			matchAdded := false
			defer func() {
				_ = matchAdded
			}()
			// a way out that does not go through the scan is right only where nothing can match: for a nil argument (the
			// list holds channels made by Sub/SubBuf, never nil) - and then the clone has no subscribers
			for _, p := range ps {
				if p.End != EndReturn {
					continue
				}
				if _, through := p.LoopAt[it.li.Hdr]; through {
					continue
				}
				subNil := false
				for _, cd := range p.Conds {
					r := cd.Rel()
					if r.B != nil && r.Op == "==" && (r.A.Key() == sub.Key() && r.B.IsNil() || r.B.Key() == sub.Key() && r.A.IsNil()) {
						subNil = true
					}
				}
				if !subNil {
					ok, why = false, "a path ("+p.CondString()+") returns without scanning the subscriber list although the argument may be subscribed"
				}
				for i := range p.Events {
					e := &p.Events[i]
					if e.Kind == "store" && isFieldAddr(e.Addr, x.fSubs, nil) && !e.Val.IsNil() {
						ok, why = false, "a path that does not scan the list gives the clone subscribers"
					}
				}
			}
			for _, p := range it.li.Back {
				eq := ""
				for _, cd := range p.Conds {
					r := cd.Rel()
					if r.B != nil && (r.Op == "==" || r.Op == "!=") && ((it.isElem(r.A) && r.B.Key() == sub.Key()) || (it.isElem(r.B) && r.A.Key() == sub.Key())) {
						eq = r.Op
					}
				}
				appended := false
				for i := p.LoopAt[it.li.Hdr]; i < len(p.Events); i++ {
					e := &p.Events[i]
					if e.Kind == "store" && isFieldAddr(e.Addr, x.fSubs, nil) && rootOf(e.Addr).Op == "alloc" {
						v := e.Val
						if v.Op == "builtin" && v.Sym == "append" && len(v.Args) == 2 && isFieldLoad(v.Args[0], x.fSubs, e.Addr.Args[0]) {
							if el, single := appendedElem(p, v.Args[0], v); single && it.isElem(el) {
								appended = true
							}
						}
					}
				}
				switch eq {
				case "==":
					if !appended {
						ok, why = false, "a matching subscriber is not added to the clone"
					} else {
						matchAdded = true
					}
				case "!=":
					if appended {
						ok, why = false, "a non-matching subscriber is added to the clone"
					}
				default:
					// a nil element is skipped without comparing: the list holds channels made by Sub/SubBuf only
					// (sub-appends), never nil, so the row is never taken - it must not add anything
					nilElem := false
					for _, cd := range p.Conds {
						r := cd.Rel()
						if r.B != nil && r.Op == "==" && ((it.isElem(r.A) && r.B.IsNil()) || (it.isElem(r.B) && r.A.IsNil())) {
							nilElem = true
						}
					}
					if !nilElem || appended {
						ok, why = false, "subscribers are not compared with the argument"
					}
				}
			}
			// the clone's list is its own storage: Unsub splices the parent's array in place
			for _, p := range ps {
				for i := range p.Events {
					e := &p.Events[i]
					if e.Kind != "store" || !isFieldAddr(e.Addr, x.fSubs, nil) || rootOf(e.Addr).Op != "alloc" {
						continue
					}
					b := e.Val
					for b != nil && (b.Op == "slice" || (b.Op == "builtin" && b.Sym == "append")) {
						b = b.Args[0]
					}
					if b != nil && x.isSubsLoad(b, recv) {
						ok, why = false, "the clone's list is a (sub-)slice of the parent's backing array ("+e.Val.String()+"): a later Unsub on the parent shifts other subscribers into it"
					}
				}
			}
			for _, p := range it.li.Exit {
				if p.End != EndReturn || len(p.Rets) != 1 || p.Rets[0].Op != "alloc" {
					ok, why = false, "does not return the new PubSub"
					continue
				}
				// the scan is left when the list is exhausted or at the match - never at a subscriber that is not the one
				// asked for
				for _, cd := range p.Conds {
					r := cd.Rel()
					if cd.NEv >= p.LoopAt[it.li.Hdr] && r.B != nil && r.Op == "!=" && ((it.isElem(r.A) && r.B.Key() == sub.Key()) || (it.isElem(r.B) && r.A.Key() == sub.Key())) {
						ok, why = false, "the scan stops at a subscriber that is not the argument: a match further on is never reached"
					}
				}
				clone := p.Rets[0]
				// the search form: the loop is left at the match and the clone gets a one-element list of its own holding
				// exactly the matched subscriber
				for _, cd := range p.Conds {
					r := cd.Rel()
					if cd.NEv < p.LoopAt[it.li.Hdr] || r.B == nil || r.Op != "==" || !((it.isElem(r.A) && r.B.Key() == sub.Key()) || (it.isElem(r.B) && r.A.Key() == sub.Key())) {
						continue
					}
					good := false
					for i := range p.Events {
						e := &p.Events[i]
						if e.Kind != "store" || !isFieldAddr(e.Addr, x.fSubs, clone) {
							continue
						}
						arr := e.Val
						for arr != nil && arr.Op == "slice" {
							arr = arr.Args[0]
						}
						if arr == nil || arr.Op != "alloc" {
							continue
						}
						n, right := 0, false
						for j := range p.Events {
							f := &p.Events[j]
							if f.Kind == "store" && f.Addr.Op == "iaddr" && f.Addr.Args[0].Key() == arr.Key() {
								n++
								right = it.isElem(f.Val) && f.Addr.Args[1].IsConst("0")
							}
						}
						good = n == 1 && right
					}
					// (a path on which the index of the match equals -1 does not exist: positions are not negative)
					impossible := false
					for _, cd2 := range p.Conds {
						if pl, kind, isInt := cd2.Rel().IntNorm(); isInt && kind == "=" {
							// idx + 1 == 0 with idx the current position
							if it.idx != nil && pl.Equal(canonSign(ToPoly(it.idx).Add(polyConst(1), 1))) {
								impossible = true
							}
						}
					}
					if impossible {
						continue
					}
					if good {
						matchAdded = true
					} else {
						ok, why = false, "the search stops at the matching subscriber but the clone does not receive a list of its own holding exactly that subscriber"
					}
				}
				h, t := false, false
				for i := range p.Events {
					e := &p.Events[i]
					if e.Kind == "store" && isFieldAddr(e.Addr, x.fHook, clone) && isFieldLoad(e.Val, x.fHook, recv) {
						h = true
					}
					if e.Kind == "store" && isFieldAddr(e.Addr, x.fTime, clone) && isFieldLoad(e.Val, x.fTime, recv) {
						t = true
					}
				}
				if !h || !t {
					ok, why = false, "the timeout configuration is not copied to the clone"
				}
			}
			if ok && !matchAdded {
				ok, why = false, "no path adds the matching subscriber to the clone"
			}
		}
	}
	c.R.Decide(ok, "withonly-filter", fi.Name, "filter", c.pos(fi), "clone = {s in subs : s == sub} with the same timeout configuration", why)
}

// ---- sub-appends ----------------------------------------------------------------------------

func (x *c10) subAppends() {
	c := x.c
	for _, row := range []struct {
		name string
		cap  func(fi *FuncInfo, t *Term) bool
	}{
		{"Sub", func(fi *FuncInfo, t *Term) bool {
			return isFieldLoad(t, c.P.FieldOf("chans", "PubSub", "DefaultBuffer"), paramOf(fi, 0))
		}},
		{"SubBuf", func(fi *FuncInfo, t *Term) bool { return isParam(t, 1) }},
	} {
		fi := c.fn("sub-appends", "chans.(*PubSub)."+row.name)
		if fi == nil {
			continue
		}
		ps := x.paths[fi]
		recv := paramOf(fi, 0)
		ok, why := len(ps) == 1, "branches"
		if ok {
			p := ps[0]
			var st *Event
			idx := -1
			for i := range p.Events {
				e := &p.Events[i]
				if e.Kind == "store" && isFieldAddr(e.Addr, x.fSubs, recv) {
					st, idx = e, i
				}
			}
			if st == nil {
				ok, why = false, "the list is not extended"
			} else {
				mode, _, _ := x.rwHeldAt(p, idx)
				v := st.Val
				var ch *Term
				if v.Op == "builtin" && v.Sym == "append" && x.isSubsLoad(v.Args[0], recv) {
					for j := range p.Events {
						f := &p.Events[j]
						if f.Kind == "store" && f.Addr.Op == "iaddr" && f.Addr.Args[0].Op == "alloc" {
							ch = f.Val
						}
					}
				}
				switch {
				case mode != "W":
					ok, why = false, "the list is extended without the write lock"
				case ch == nil || ch.Op != "mkchan":
					ok, why = false, "what is appended is not a freshly made channel"
				case !row.cap(fi, ch.Args[0]):
					ok, why = false, "the channel's capacity is not the stated one: "+ch.Args[0].String()
				case len(p.Rets) != 1 || stripIface(p.Rets[0]).Key() != ch.Key():
					ok, why = false, "the channel returned is not the one subscribed"
				}
			}
		}
		c.R.Decide(ok, "sub-appends", fi.Name, "append", c.pos(fi), "appends one fresh channel of the stated capacity under Lock and returns it", why)
	}
}

// ---- lock-pairing ---------------------------------------------------------------------

func (x *c10) lockPairing() {
	c := x.c
	for _, fi := range x.funcs {
		ps := x.paths[fi]
		ok, why := true, ""
		nOps := 0
		for _, p := range ps {
			state := ""
			atHdr := map[int]string{}
			hdrIdx := map[int]bool{}
			for _, at := range p.LoopAt {
				hdrIdx[at] = true
			}
			for i := 0; i <= len(p.Events); i++ {
				if hdrIdx[i] {
					atHdr[i] = state
				}
				if i == len(p.Events) {
					break
				}
				e := &p.Events[i]
				if e.Kind != "call" || len(e.Args) == 0 || !isFieldAddr(e.Args[0], x.fMu, nil) {
					continue
				}
				nOps++
				bad := func(msg string) {
					ok, why = false, fmt.Sprintf("%s on a path (%s)", msg, p.CondString())
				}
				switch e.Name {
				case "sync.(*RWMutex).Lock":
					if state != "" {
						bad("Lock while the mutex is already held (" + state + "): self-deadlock")
					}
					state = "W"
				case "sync.(*RWMutex).RLock":
					if state != "" {
						bad("RLock while the mutex is already held (" + state + ")")
					}
					state = "R"
				case "sync.(*RWMutex).Unlock":
					if state != "W" {
						bad("Unlock without a matching Lock (held: '" + state + "'): fatal error at run time")
					}
					state = ""
				case "sync.(*RWMutex).RUnlock":
					if state != "R" {
						bad("RUnlock without a matching RLock (held: '" + state + "'): fatal error at run time")
					}
					state = ""
				case "sync.(*RWMutex).TryLock", "sync.(*RWMutex).TryRLock":
					bad("Try-lock on the PubSub mutex is not modelled")
				}
			}
			switch p.End {
			case EndReturn:
				if state != "" {
					ok, why = false, fmt.Sprintf("returns with the mutex still held (%s) on a path (%s): every later Sub/Unsub/publish blocks forever", state, p.CondString())
				}
			case EndLoopBack:
				if at, has := p.LoopAt[p.BackTo]; has && atHdr[at] != state {
					ok, why = false, "the lock state changes across a loop iteration"
				}
			}
		}
		if nOps == 0 {
			continue
		}
		o := c.R.Decide(ok, "lock-pairing", fi.Name, "regions", c.pos(fi), "acquisitions and releases pair up in the same mode on every path", why)
		if !ok {
			o.Breaks = "deadlock of all later operations, or a run-time fatal error (unlock of unlocked RWMutex)"
		}
	}
}

// ---- sub-index ------------------------------------------------------------------------

func (x *c10) subIndexRule() {
	c := x.c
	fi := c.P.Func("chans.(*PubSub).subIndex")
	if fi == nil {
		// no helper: Unsub must do the scan itself
		if uf := c.fn("sub-index", "chans.(*PubSub).Unsub"); uf != nil {
			okInline, found, back := false, 0, 0
			for _, p := range x.paths[uf] {
				row, _, it := x.unsubInlineSearch(uf, p)
				if it != nil {
					okInline = true
				}
				switch row {
				case "found":
					found++
				case "loop":
					back++
					// the scan must not continue past a match
					for _, cd := range p.Conds {
						r := cd.Rel()
						if r.B != nil && r.Op == "==" && it.isElem(r.A) {
							okInline = false
						}
					}
				}
			}
			c.R.Decide(okInline && found > 0 && back > 0, "sub-index", uf.Name, "scan", c.pos(uf), "Unsub scans the whole list from the front itself and acts on the first match", "neither a subIndex helper nor an inline scan of the whole subscriber list in Unsub")
		}
		return
	}
	ps := x.paths[fi]
	recv, sub := paramOf(fi, 0), paramOf(fi, 1)
	ok, why := true, ""
	loops := findLoops(ps)
	if len(loops) != 1 {
		ok, why = false, "expected one loop over the subscriber list"
	} else {
		it := c14IterOf(loops[0])
		if it == nil || it.kind != "slice" || !x.isSubsLoad(it.over, recv) || !it.full {
			ok, why = false, "does not scan the whole subscriber list from the front"
		} else {
			hits, miss := 0, 0
			for _, p := range ps {
				if p.End != EndReturn || len(p.Rets) != 1 {
					continue
				}
				eq := ""
				for _, cd := range p.Conds {
					r := cd.Rel()
					if r.B != nil && (r.Op == "==" || r.Op == "!=") && ((it.isElem(r.A) && r.B.Key() == sub.Key()) || (it.isElem(r.B) && r.A.Key() == sub.Key())) {
						eq = r.Op // the last comparison on the path decides
					}
				}
				ret := p.Rets[0]
				switch {
				case ret.IsConst("-1"):
					miss++
					if eq == "==" {
						ok, why = false, "returns -1 right after finding the channel"
					}
				case ToPoly(ret).Equal(ToPoly(it.idx)):
					hits++
					if eq != "==" {
						ok, why = false, "returns an index whose element was not found equal to the argument"
					}
				default:
					ok, why = false, "returns neither the current index nor -1: "+ret.String()
				}
			}
			for _, p := range it.li.Back {
				for _, cd := range p.Conds {
					r := cd.Rel()
					if r.B != nil && r.Op == "==" && ((it.isElem(r.A) && r.B.Key() == sub.Key()) || (it.isElem(r.B) && r.A.Key() == sub.Key())) {
						ok, why = false, "the scan continues past a match"
					}
				}
			}
			if ok && (hits == 0 || miss == 0) {
				ok, why = false, "missing the found or the not-found exit"
			}
		}
	}
	c.R.Decide(ok, "sub-index", fi.Name, "scan", c.pos(fi), "first i with subs[i] == sub, else -1", why)
}

// unsubInlineSearch: Unsub written with its own scan instead of the subIndex helper: one loop over the whole
// subscriber list from the front. For a path it reports "found" (the path has compared the current element equal
// to the argument; idx is the loop's index), "notfound" (the path left the loop at its end), "loop" (a back edge)
// or "" (no such loop in the function).
func (x *c10) unsubInlineSearch(fi *FuncInfo, p *Path) (row string, idx *Term, it *c14iter) {
	ps := x.paths[fi]
	recv, sub := paramOf(fi, 0), paramOf(fi, 1)
	loops := findLoops(ps)
	if len(loops) != 1 {
		return "", nil, nil
	}
	it = c14IterOf(loops[0])
	if it == nil || it.kind != "slice" || !x.isSubsLoad(it.over, recv) || !it.full {
		return "", nil, nil
	}
	if _, entered := p.LoopAt[loops[0].Hdr]; !entered {
		return "", nil, it
	}
	eq := ""
	for _, cd := range p.Conds {
		r := cd.Rel()
		if r.B != nil && (r.Op == "==" || r.Op == "!=") && ((it.isElem(r.A) && r.B.Key() == sub.Key()) || (it.isElem(r.B) && r.A.Key() == sub.Key())) {
			eq = r.Op
		}
	}
	switch {
	case p.End == EndLoopBack:
		return "loop", nil, it
	case eq == "==":
		return "found", it.idx, it
	case eq == "":
		return "notfound", nil, it
	}
	return "", nil, it
}

// touchesSubs: the function is a method of PubSub or reads/writes the subscriber list (a close elsewhere in the
// package, on channels that are not a PubSub's, is none of this property's business).
func touchesSubs(fn *ssa.Function, fSubs *types.Var) bool {
	if fn.Signature.Recv() != nil && strings.Contains(fn.Signature.Recv().Type().String(), "PubSub") {
		return true
	}
	for _, p := range fn.Params {
		if strings.Contains(p.Type().String(), "PubSub") {
			return true
		}
	}
	for _, b := range fn.Blocks {
		for _, in := range b.Instrs {
			if fa, ok := in.(*ssa.FieldAddr); ok {
				if f := fieldVar(fa.X.Type(), fa.Field); f != nil && sameField(f, fSubs) {
					return true
				}
			}
			if fl, ok := in.(*ssa.Field); ok {
				if st, ok2 := fl.X.Type().Underlying().(*types.Struct); ok2 && fl.Field < st.NumFields() && sameField(st.Field(fl.Field), fSubs) {
					return true
				}
			}
		}
	}
	return false
}

// impliesMinusOne: the conditions of p leave -1 as the only value of t among {-1, 0, 1, ...}: t == -1, or t < k with
// k <= 0 (t is a position or the sentinel -1).
func impliesMinusOne(p *Path, t *Term) bool {
	tp := ToPoly(t)
	for _, cd := range p.Conds {
		pl, kind, ok := cd.Rel().IntNorm()
		if !ok {
			continue
		}
		switch kind {
		case "=":
			if pl.Equal(canonSign(tp.Add(polyConst(1), 1))) {
				return true
			}
		case ">":
			// k - t > 0 with k <= 0
			if k, isC := pl.Add(tp, 1).IsConst(); isC && k <= 0 {
				return true
			}
		}
	}
	return false
}

// rootOfSlice: the slice value a window x[a:b] (possibly nested) is taken from.
func rootOfSlice(t *Term) *Term {
	for t != nil && t.Op == "slice" && len(t.Args) > 0 {
		t = t.Args[0]
	}
	return t
}
