package main

import (
	"fmt"
	"go/types"
	"sort"
	"strings"

	"golang.org/x/tools/go/ssa"
)

// ---------------------------------------------------------------------------
// anchors

// fn resolves a function anchor; a missing anchor is an unproven obligation of the rule.
func (c *Ctx) fn(rule, name string) *FuncInfo {
	if c.Only != nil && !c.Only[name] {
		return nil
	}
	fi := c.P.Func(name)
	if fi == nil {
		c.R.Unproven(rule, name, "anchor", "", "anchor no longer resolves: function "+name+" not found in the tree")
	}
	return fi
}

// paths enumerates a function's paths; failure is an unproven obligation.
func (c *Ctx) paths(rule string, fi *FuncInfo) []*Path {
	if fi == nil {
		return nil
	}
	fp := c.An.PathsOf(fi.SSA)
	if fp.Unproven != "" {
		c.R.Unproven(rule, fi.Name, "paths", c.P.Pos(fi.Decl.Pos()), "cannot summarise paths: "+fp.Unproven)
		return nil
	}
	c.R.Analysed["paths"] += len(fp.Paths)
	return fp.Paths
}

func (c *Ctx) pathsOfSSA(rule, construct string, fn *ssa.Function) []*Path {
	fp := c.An.PathsOf(fn)
	if fp.Unproven != "" {
		c.R.Unproven(rule, construct, "paths", "", "cannot summarise paths: "+fp.Unproven)
		return nil
	}
	c.R.Analysed["paths"] += len(fp.Paths)
	return fp.Paths
}

func (c *Ctx) pos(fi *FuncInfo) string {
	if fi == nil {
		return ""
	}
	return c.P.Pos(fi.Decl.Pos())
}

func (c *Ctx) ipos(in ssa.Instruction) string {
	if in == nil {
		return ""
	}
	if in.Pos().IsValid() {
		return c.P.Pos(in.Pos())
	}
	// fall back to the function
	if in.Parent() != nil {
		return c.P.Pos(in.Parent().Pos())
	}
	return ""
}

// ---------------------------------------------------------------------------
// term helpers

func isParam(t *Term, i int) bool { return t != nil && t.Op == "param" && t.N == i }

// isFieldLoad: t is a load of field f of base (any epoch); base nil = any base.
func isFieldLoad(t *Term, f *types.Var, base *Term) bool {
	if t == nil || f == nil {
		return false
	}
	if t.Op == "load" && t.Args[0].Op == "faddr" && sameField(t.Args[0].Obj, f) {
		return base == nil || t.Args[0].Args[0].Key() == base.Key()
	}
	if t.Op == "field" && sameField(t.Obj, f) {
		return base == nil || t.Args[0].Key() == base.Key()
	}
	return false
}

func sameField(o types.Object, f *types.Var) bool {
	v, ok := o.(*types.Var)
	if !ok || f == nil {
		return false
	}
	return v.Origin() == f.Origin()
}

func isFieldAddr(t *Term, f *types.Var, base *Term) bool {
	if t == nil || t.Op != "faddr" || !sameField(t.Obj, f) {
		return false
	}
	return base == nil || t.Args[0].Key() == base.Key()
}

// mentionsField: some sub-term reads or addresses field f.
func mentionsField(t *Term, f *types.Var) bool {
	return t.Contains(func(x *Term) bool {
		return (x.Op == "faddr" || x.Op == "field") && sameField(x.Obj, f)
	})
}

// stripConv removes value-preserving wrappers.
func stripIface(t *Term) *Term {
	for t != nil && t.Op == "iface" {
		t = t.Args[0]
	}
	return t
}

// eventsOf filters events.
func eventsOf(p *Path, pred func(e *Event) bool) []*Event {
	var out []*Event
	for i := range p.Events {
		if pred(&p.Events[i]) {
			out = append(out, &p.Events[i])
		}
	}
	return out
}

func isCallTo(e *Event, names ...string) bool {
	if e.Kind != "call" && e.Kind != "go" && e.Kind != "defer" {
		return false
	}
	for _, n := range names {
		if e.Name == n {
			return true
		}
	}
	return false
}

// callsNamed: non-deferred-registration call events to one of the names.
func callsNamed(p *Path, names ...string) []*Event {
	return eventsOf(p, func(e *Event) bool { return e.Kind == "call" && isCallTo(e, names...) })
}

func condStrings(p *Path) []string {
	var out []string
	for _, c := range p.Conds {
		out = append(out, c.Rel().String())
	}
	return out
}

func pathFacts(p *Path) []string {
	return []string{"path: " + strings.ReplaceAll(strings.TrimSpace(p.String()), "\n  ", " ; ")}
}

// ---------------------------------------------------------------------------
// loops

type LoopInfo struct {
	Hdr   *ssa.BasicBlock
	Phis  []*ssa.Phi
	LV    map[*ssa.Phi]*Term   // loopvar terms
	Init  map[*ssa.Phi]*Term   // value on entry
	Nexts map[*ssa.Phi][]*Term // values on the back edges (one per back path)
	Back  []*Path
	Exit  []*Path // paths that entered the header and left the loop (did not end in a back edge to it)
}

func findLoops(paths []*Path) []*LoopInfo {
	m := map[*ssa.BasicBlock]*LoopInfo{}
	var order []*ssa.BasicBlock
	for _, p := range paths {
		for h := range p.LoopAt {
			lvs := p.LoopIn[h]
			li := m[h]
			if li == nil {
				li = &LoopInfo{Hdr: h, LV: map[*ssa.Phi]*Term{}, Init: map[*ssa.Phi]*Term{}, Nexts: map[*ssa.Phi][]*Term{}}
				m[h] = li
				order = append(order, h)
				for _, in := range h.Instrs {
					if phi, ok := in.(*ssa.Phi); ok {
						li.Phis = append(li.Phis, phi)
					} else {
						break
					}
				}
			}
			for phi, lv := range lvs {
				if _, ok := li.LV[phi]; !ok {
					li.LV[phi] = lv
					if len(lv.Args) > 0 {
						li.Init[phi] = lv.Args[0]
					}
				}
			}
			if p.End == EndLoopBack && p.BackTo == h {
				li.Back = append(li.Back, p)
				for phi, t := range p.Next {
					li.Nexts[phi] = append(li.Nexts[phi], t)
				}
			} else {
				li.Exit = append(li.Exit, p)
			}
		}
	}
	// a deterministic order, outer loops first: by the earliest position at which a path enters the header; a loop of
	// the analysed function before one of a function walked through into it; then by function name and block index
	// (block indices of different functions collide, and map iteration above has no order)
	entry := map[*ssa.BasicBlock]int{}
	for _, p := range paths {
		for h, at := range p.LoopAt {
			if cur, ok := entry[h]; !ok || at < cur {
				entry[h] = at
			}
		}
	}
	var root *ssa.Function
	if len(paths) > 0 {
		root = paths[0].Fn
	}
	rank := func(h *ssa.BasicBlock) int {
		if h.Parent() == root {
			return 0
		}
		return 1
	}
	sort.SliceStable(order, func(i, j int) bool {
		a, b := order[i], order[j]
		if entry[a] != entry[b] {
			return entry[a] < entry[b]
		}
		if rank(a) != rank(b) {
			return rank(a) < rank(b)
		}
		if a.Parent() != b.Parent() {
			return a.Parent().String() < b.Parent().String()
		}
		return a.Index < b.Index
	})
	var out []*LoopInfo
	for _, h := range order {
		out = append(out, m[h])
	}
	return out
}

// Counted describes a loop driven by an integer induction variable.
type Counted struct {
	Loop  *LoopInfo
	Phi   *ssa.Phi
	Idx   *Term  // the term compared in the continue condition and used as index (φ or φ+1)
	First *Poly  // value of Idx in the first iteration
	Step  int64  // change of Idx per iteration
	Op    string // continue condition: Idx Op Bound
	Bound *Term
}

// counted recognises `for i := a; i < n; i += c` and rotated range loops alike.
func counted(li *LoopInfo) *Counted {
	for _, phi := range li.Phis {
		if !isIntegerType(phi.Type()) {
			continue
		}
		lv := li.LV[phi]
		if lv == nil || li.Init[phi] == nil || len(li.Nexts[phi]) == 0 {
			continue
		}
		// all next values must be lv + c with one constant c
		var step int64
		ok := true
		for i, n := range li.Nexts[phi] {
			d := ToPoly(n).Add(ToPoly(lv), -1)
			cst, isC := d.IsConst()
			if !isC || cst == 0 || (i > 0 && cst != step) {
				ok = false
				break
			}
			step = cst
		}
		if !ok {
			continue
		}
		// find the continue condition on a back path: first cond mentioning lv
		if len(li.Back) == 0 {
			continue
		}
		for _, cd := range li.Back[0].Conds {
			if !cd.T.ContainsKey(lv.Key()) {
				continue
			}
			r := cd.Rel()
			if r.B == nil {
				break
			}
			var idx, bound *Term
			op := r.Op
			if r.A.ContainsKey(lv.Key()) && !r.B.ContainsKey(lv.Key()) {
				idx, bound = r.A, r.B
			} else if r.B.ContainsKey(lv.Key()) && !r.A.ContainsKey(lv.Key()) {
				idx, bound = r.B, r.A
				op = flipOp(op)
			} else {
				break
			}
			// idx must be lv + k
			k, isC := ToPoly(idx).Add(ToPoly(lv), -1).IsConst()
			if !isC {
				break
			}
			first := ToPoly(li.Init[phi]).Add(polyConst(k), 1)
			return &Counted{Loop: li, Phi: phi, Idx: idx, First: first, Step: step, Op: op, Bound: bound}
		}
	}
	return nil
}

// fullForward: the loop visits 0,1,...,len(over)-1 in order (over given as a term key).
func (ct *Counted) fullForwardOver(over *Term) bool {
	if ct == nil || ct.Step != 1 || ct.Op != "<" {
		return false
	}
	if f, ok := ct.First.IsConst(); !ok || f != 0 {
		return false
	}
	return isLenOf(ct.Bound, over)
}

func isLenOf(t *Term, x *Term) bool {
	return t != nil && t.Op == "builtin" && t.Sym == "len" && len(t.Args) == 1 && t.Args[0].Key() == x.Key()
}

// elemOf: t is over[idx]
func isElemOf(t *Term, over, idx *Term) bool {
	if t == nil {
		return false
	}
	if t.Op == "load" && t.Args[0].Op == "iaddr" {
		ia := t.Args[0]
		return ia.Args[0].Key() == over.Key() && ToPoly(ia.Args[1]).Equal(ToPoly(idx))
	}
	if t.Op == "index" {
		return t.Args[0].Key() == over.Key() && ToPoly(t.Args[1]).Equal(ToPoly(idx))
	}
	return false
}

// ---------------------------------------------------------------------------
// ordering abstraction: values touched only through comparisons

type Ordering map[string]int // term key -> rank

// weakOrderings enumerates all total preorders of n symbols (as dense rank vectors).
func weakOrderings(n int) [][]int {
	var out [][]int
	var rec func(i int, cur []int)
	rec = func(i int, cur []int) {
		if i == n {
			// dense check: ranks used form 0..k
			used := map[int]bool{}
			mx := 0
			for _, r := range cur {
				used[r] = true
				if r > mx {
					mx = r
				}
			}
			for r := 0; r <= mx; r++ {
				if !used[r] {
					return
				}
			}
			out = append(out, append([]int(nil), cur...))
			return
		}
		for r := 0; r < n; r++ {
			rec(i+1, append(cur, r))
		}
	}
	rec(0, nil)
	return out
}

// evalRel decides a relation under an ordering; ok=false if a side is not ordered.
func (o Ordering) evalRel(r Rel) (val bool, ok bool) {
	if r.B == nil {
		return false, false
	}
	a, okA := o[r.A.Key()]
	b, okB := o[r.B.Key()]
	if !okA || !okB {
		return false, false
	}
	switch r.Op {
	case "<":
		return a < b, true
	case "<=":
		return a <= b, true
	case ">":
		return a > b, true
	case ">=":
		return a >= b, true
	case "==":
		return a == b, true
	case "!=":
		return a != b, true
	}
	return false, false
}

// feasible selects the paths all of whose conditions hold under the ordering.
// unknown is non-empty when some condition cannot be evaluated.
func feasible(paths []*Path, o Ordering, skip func(Cond) bool) (sel []*Path, unknown string) {
	for _, p := range paths {
		all := true
		for _, cd := range p.Conds {
			if skip != nil && skip(cd) {
				continue
			}
			v, ok := o.evalRel(cd.Rel())
			if !ok {
				return nil, "condition not over the compared values: " + cd.Rel().String()
			}
			if !v {
				all = false
				break
			}
		}
		if all {
			sel = append(sel, p)
		}
	}
	return sel, ""
}

func orderingString(names []string, ranks []int) string {
	type pr struct {
		n string
		r int
	}
	var ps []pr
	for i := range names {
		ps = append(ps, pr{names[i], ranks[i]})
	}
	sort.SliceStable(ps, func(i, j int) bool { return ps[i].r < ps[j].r })
	var sb strings.Builder
	for i, p := range ps {
		if i > 0 {
			if ps[i-1].r == p.r {
				sb.WriteString(" = ")
			} else {
				sb.WriteString(" < ")
			}
		}
		sb.WriteString(p.n)
	}
	return sb.String()
}

func sprintf(f string, a ...interface{}) string { return fmt.Sprintf(f, a...) }

// instrAfter: b executes after a on every path reaching b (a's block dominates b's, or same block later).
func instrAfter(a, b ssa.Instruction) bool {
	if a == nil || b == nil || a.Block() == nil || b.Block() == nil || a.Parent() != b.Parent() {
		return false
	}
	if a.Block() == b.Block() {
		ia, ib := -1, -1
		for i, in := range a.Block().Instrs {
			if in == a {
				ia = i
			}
			if in == b {
				ib = i
			}
		}
		return ia >= 0 && ib > ia
	}
	return a.Block().Dominates(b.Block())
}

// rootOf follows faddr/iaddr/load/field chains down to the base term.
func rootOf(t *Term) *Term {
	for t != nil {
		switch t.Op {
		case "faddr", "iaddr", "load", "field", "index", "slice":
			t = t.Args[0]
			continue
		}
		break
	}
	return t
}

func isZeroish(t *Term) bool {
	return t != nil && (t.Op == "zero" || (t.Op == "call" && t.Sym == "typ.Zero") || (t.Op == "const" && (t.Sym == "0" || t.Sym == "nil" || t.Sym == `""` || t.Sym == "false")))
}

// isParamOrSpill: t is parameter idx, or a load of the cell the parameter was spilled to (and nothing else was stored there).
func isParamOrSpill(p *Path, t *Term, idx int) bool {
	if isParam(t, idx) {
		return true
	}
	if t == nil || t.Op != "load" || t.Args[0].Op != "alloc" {
		return false
	}
	cell := t.Args[0]
	n, ok := 0, false
	for i := range p.Events {
		e := &p.Events[i]
		if e.Kind == "store" && e.Addr.Key() == cell.Key() {
			n++
			ok = isParam(e.Val, idx)
		}
	}
	return n == 1 && ok
}

// ---------------------------------------------------------------------------
// hand-written lower-bound bisection (the algorithm of sort.Search, written out)

type bisection struct {
	N    *Term // the searched length (initial hi)
	Mid  *Term // the probe index
	Up   *Path // iteration that continues with lo = mid+1 (the probe is before the answer)
	Down *Path // iteration that continues with hi = mid   (the probe is at or after the answer)
	Hdr  *LoopInfo
}

func stripConv(t *Term) *Term {
	for t != nil && t.Op == "conv" {
		t = t.Args[0]
	}
	return t
}

// isMidpoint: t is floor((lo+hi)/2) written as (lo+hi)/2, int(uint(lo+hi)>>1) or lo+(hi-lo)/2.
func isMidpoint(t, lo, hi *Term) bool {
	t = stripConv(t)
	if t == nil || t.Op != "bin" || len(t.Args) != 2 {
		return false
	}
	sum := ToPoly(lo).Add(ToPoly(hi), 1)
	a, b := stripConv(t.Args[0]), stripConv(t.Args[1])
	switch t.Sym {
	case "/":
		return b.IsConst("2") && ToPoly(a).Equal(sum)
	case ">>":
		return b.IsConst("1") && ToPoly(a).Equal(sum)
	case "+":
		// lo + (hi-lo)/2 in either operand order
		for k := 0; k < 2; k++ {
			if a.Key() == lo.Key() && b.Op == "bin" && (b.Sym == "/" && stripConv(b.Args[1]).IsConst("2") || b.Sym == ">>" && stripConv(b.Args[1]).IsConst("1")) &&
				ToPoly(stripConv(b.Args[0])).Equal(ToPoly(hi).Add(ToPoly(lo), -1)) {
				return true
			}
			a, b = b, a
		}
	}
	return false
}

// lowerBoundBisection recognises, among the paths of a function,
//
//	lo, hi := 0, N
//	for lo < hi { mid := (lo+hi)/2; if <probe before answer> { lo = mid+1 } else { hi = mid } }
//	return lo
//
// The caller still has to check N and what the two iterations test about the probe. With a predicate that is
// false before the answer and true from it on, this returns the first index where it is true (sort.Search).
func lowerBoundBisection(ps []*Path) (*bisection, string) {
	loops := findLoops(ps)
	if len(loops) != 1 {
		return nil, fmt.Sprintf("%d loops", len(loops))
	}
	li := loops[0]
	if len(li.Phis) != 2 {
		return nil, "the loop does not carry exactly lo and hi"
	}
	for swap := 0; swap < 2; swap++ {
		pl, ph := li.Phis[0], li.Phis[1]
		if swap == 1 {
			pl, ph = ph, pl
		}
		lo, hi := li.LV[pl], li.LV[ph]
		if in := li.Init[pl]; in == nil || !in.IsConst("0") {
			continue
		}
		N := li.Init[ph]
		if N == nil {
			continue
		}
		b := &bisection{N: N, Hdr: li}
		ok := len(li.Back) == 2
		for _, p := range li.Back {
			// continue condition lo < hi
			cont := false
			for _, cd := range p.Conds {
				if pl2, kind, isInt := cd.Rel().IntNorm(); isInt && kind == ">" && pl2.Equal(ToPoly(hi).Add(ToPoly(lo), -1)) {
					cont = true
				}
			}
			if !cont {
				ok = false
				break
			}
			nl, nh := p.Next[pl], p.Next[ph]
			switch {
			case nh != nil && nh.Key() == hi.Key() && nl != nil:
				// lo = mid + 1
				mid := stripConv(nl)
				if mid.Op == "bin" && mid.Sym == "+" && stripConv(mid.Args[1]).IsConst("1") && isMidpoint(mid.Args[0], lo, hi) {
					b.Up, b.Mid = p, stripConv(mid.Args[0])
				} else if mid.Op == "bin" && mid.Sym == "+" && stripConv(mid.Args[0]).IsConst("1") && isMidpoint(mid.Args[1], lo, hi) {
					b.Up, b.Mid = p, stripConv(mid.Args[1])
				} else {
					ok = false
				}
			case nl != nil && nl.Key() == lo.Key() && nh != nil:
				if isMidpoint(nh, lo, hi) {
					b.Down = p
				} else {
					ok = false
				}
			default:
				ok = false
			}
		}
		if !ok || b.Up == nil || b.Down == nil {
			continue
		}
		// exits: only lo >= hi, returning lo (or hi, equal there)
		exits := 0
		for _, p := range li.Exit {
			if p.End == EndPanic {
				continue
			}
			if p.End != EndReturn || len(p.Rets) != 1 {
				return nil, "an exit of the loop does not return one value"
			}
			done := false
			for _, cd := range p.Conds {
				if pl2, kind, isInt := cd.Rel().IntNorm(); isInt && kind == ">" && pl2.Equal(ToPoly(lo).Add(ToPoly(hi), -1).Add(polyConst(1), 1)) {
					done = true
				}
			}
			if !done || !(p.Rets[0].Key() == lo.Key() || p.Rets[0].Key() == hi.Key()) {
				return nil, "the loop is left other than by lo >= hi returning lo"
			}
			exits++
		}
		if exits == 0 {
			return nil, "no exit"
		}
		return b, ""
	}
	return nil, "not lo, hi := 0, N; for lo < hi { mid := (lo+hi)/2; lo = mid+1 | hi = mid }; return lo"
}

// probeCond: the condition an iteration tests beyond the loop's own continue-condition (nil if none or several).
func (b *bisection) probeCond(p *Path) *Cond {
	at := p.LoopAt[b.Hdr.Hdr]
	var out *Cond
	n := 0
	for i := range p.Conds {
		cd := &p.Conds[i]
		if cd.NEv < at {
			continue
		}
		if cd.T.ContainsKey(b.Mid.Key()) {
			out = cd
			n++
		}
	}
	if n != 1 {
		return nil
	}
	return out
}

// typeFrame (rule `method-frame`): the rules of a container property are tables over the methods that the property
// names. Every OTHER function of the package that gets hold of the container - a method of the type added later (a
// String for fmt, a Len, a Reset), or a package function taking it - must leave it alone, or the tables are not the
// whole story: it may write nothing but its own locals (no element store, no store through the receiver, no call of
// anything that writes its arguments), by the bottom-up effect summary. One obligation per such function.
func typeFrame(c *Ctx, rule, pkg string, typeNames []string, modelled map[string]bool) {
	isT := func(t types.Type) bool {
		if p, ok := t.(*types.Pointer); ok {
			t = p.Elem()
		}
		var name string
		switch n := t.(type) {
		case *types.Named:
			if n.Obj().Pkg() == nil || shortPkg(n.Obj().Pkg().Path()) != pkg {
				return false
			}
			name = n.Obj().Name()
		default:
			return false
		}
		for _, tn := range typeNames {
			if tn == name {
				return true
			}
		}
		return false
	}
	for _, fi := range c.P.FuncsOfPkg(pkg) {
		if modelled[fi.Name] || c.P.Skip[fi] {
			continue
		}
		sig := fi.Obj.Type().(*types.Signature)
		touches := sig.Recv() != nil && isT(sig.Recv().Type())
		for i := 0; i < sig.Params().Len() && !touches; i++ {
			touches = isT(sig.Params().At(i).Type())
		}
		if !touches {
			continue
		}
		if isResetOnly(c, fi) {
			c.R.Held(rule, fi.Name, "read-only", c.pos(fi), "only empties the container (truncation to a prefix, nil, or the list's Init): what remains keeps its order")
			continue
		}
		es := c.An.FuncEffects(fi.SSA)
		var writes []string
		if es.all {
			writes = append(writes, "anything (a call whose effects are unknown, a lock or a channel operation)")
		}
		for cl := range es.cls {
			writes = append(writes, cl)
		}
		sort.Strings(writes)
		o := c.R.Decide(len(writes) == 0, rule, fi.Name, "read-only", c.pos(fi), "writes nothing but its own locals",
			"is not one of the methods the rules of this check model, yet it may write "+strings.Join(writes, ", ")+": the container can change behind the modelled operations")
		if len(writes) > 0 {
			o.Breaks = "an accessor, formatter or helper that reorders, truncates or overwrites the container breaks the order and content the modelled operations maintain"
		}
	}
}

// isResetOnly: a Clear/Reset/Truncate-style addition: on every path the only effects are stores to the receiver
// itself of nil, the zero value or a prefix re-slice of its own current contents ((*s)[:k]), and calls of Init or Len
// on a list field of the receiver. Dropping elements from the removal end, or all of them, cannot reorder what
// stays.
func isResetOnly(c *Ctx, fi *FuncInfo) bool {
	sig := fi.Obj.Type().(*types.Signature)
	if sig.Recv() == nil || len(fi.Closures) > 0 {
		return false
	}
	fp := c.An.PathsOf(fi.SSA)
	if fp.Unproven != "" || len(fp.Paths) == 0 {
		return false
	}
	recv := paramOf(fi, 0)
	any := false
	for _, p := range fp.Paths {
		for i := range p.Events {
			e := &p.Events[i]
			switch {
			case e.Kind == "store" && e.Addr.Op == "alloc":
			case e.Kind == "store" && e.Addr.Key() == recv.Key():
				v := e.Val
				ok := v.IsNil() || v.Op == "zero"
				if v.Op == "slice" && len(v.Args) >= 1 && v.Args[0].Op == "load" && v.Args[0].Args[0].Key() == recv.Key() {
					// (*s)[lo:hi]: a prefix when lo is absent or 0
					ok = len(v.Args) < 2 || v.Args[1] == nil || v.Args[1] == noneTerm || v.Args[1].IsConst("0")
				}
				if !ok {
					return false
				}
				any = true
			case e.Kind == "call" && (e.Name == "builtin.len" || e.Name == "builtin.cap"):
			case e.Kind == "call" && (strings.HasSuffix(e.Name, "(*List).Init") || strings.HasSuffix(e.Name, "(*List).Len")) && len(e.Args) >= 1 && e.Args[0].Op == "faddr" && e.Args[0].Args[0].Key() == recv.Key():
				if strings.HasSuffix(e.Name, ".Init") {
					any = true
				}
			default:
				return false
			}
		}
	}
	return any
}
