package main

import (
	"fmt"
	"go/types"
	"strings"
)

// Symbolic in-order sequences of binary trees over path summaries.
//
// For one path, the stores of the path are replayed into a field memory (last store wins; a whole-struct
// store copies the fields). The tree below a node pointer is then rendered as its in-order sequence of atoms:
//
//	S(x)        the (unopened) subtree that pointer x held on entry
//	V(v)        one node carrying value v
//	ins(K,v)    the result of add(tree with sequence K, v)
//	rm(K,v)     the first result of remove(tree with sequence K, v)
//	first(K), rest(K)   the two results of popLeftMost(tree with sequence K); first(K) rest(K) = K
//
// A pointer is opened (rendered as left-sequence, V(value), right-sequence) exactly when the path dereferences it,
// the same on the entry state and on the exit state, so that two renderings are comparable atom by atom.
// Calls to functions whose own paths are shown to conserve the sequence (rebalance and the rotations) are
// transparent: the sequence of their result is the sequence of their argument at the time of the call.
//
// Assumptions (stated in the evidence): the structure is a tree (distinct access paths denote distinct nodes),
// and a callee handed a subtree changes nothing outside it.

type shapeEnv struct {
	a        *avlAnchors
	p        *Path
	opened   map[string]bool     // node keys dereferenced on this path
	nilKnown map[string]bool     // node keys known nil by a path condition
	elems    map[string][]string // K -> its atoms (for first/rest merging)
	conserve func(name string) bool
	paren    bool // render the tree shape (parentheses, · for an empty subtree) instead of the flat sequence
}

// nodeKey renders a pointer term without epochs: the access path from the parameters.
func nodeKey(t *Term) string {
	if t == nil {
		return "_"
	}
	switch t.Op {
	case "load":
		if len(t.Args) == 1 && t.Args[0].Op == "faddr" {
			return nodeKey(t.Args[0].Args[0]) + "." + t.Args[0].Obj.Name()
		}
		if len(t.Args) == 1 {
			return "*" + nodeKey(t.Args[0])
		}
	case "field":
		// a field of a loaded struct value is the content of that field of the pointee
		if t.Args[0].Op == "load" && len(t.Args[0].Args) == 1 {
			return nodeKey(t.Args[0].Args[0]) + "." + t.Obj.Name()
		}
		return nodeKey(t.Args[0]) + "." + t.Obj.Name()
	case "param":
		return fmt.Sprintf("p%d", t.N)
	case "extract":
		return fmt.Sprintf("%s.%d", nodeKey(t.Args[0]), t.N)
	}
	return t.Key()
}

func (a *avlAnchors) fieldAddr(base *Term, f *types.Var) *Term {
	return &Term{Op: "faddr", Args: []*Term{base}, Obj: f}
}

func (a *avlAnchors) initLoad(base *Term, f *types.Var) *Term {
	return &Term{Op: "load", Args: []*Term{a.fieldAddr(base, f)}}
}

func newShapeEnv(a *avlAnchors, p *Path, conserve func(string) bool) *shapeEnv {
	s := &shapeEnv{a: a, p: p, opened: map[string]bool{}, nilKnown: map[string]bool{}, elems: map[string][]string{}, conserve: conserve}
	visit := func(t *Term) {
		if t == nil {
			return
		}
		t.Walk(func(x *Term) bool {
			if (x.Op == "faddr" || x.Op == "field") && len(x.Args) == 1 {
				if sameField(x.Obj, a.nLeft) || sameField(x.Obj, a.nRight) || sameField(x.Obj, a.nValue) || sameField(x.Obj, a.nHeight) {
					b := x.Args[0]
					if x.Op == "field" && b.Op == "load" && len(b.Args) == 1 {
						b = b.Args[0]
					}
					s.opened[nodeKey(b)] = true
				}
			}
			return true
		})
	}
	for i := range p.Events {
		e := &p.Events[i]
		visit(e.Addr)
		visit(e.Val)
		visit(e.Key)
		for _, x := range e.Args {
			visit(x)
		}
		// a whole-node copy dereferences its source
		if e.Kind == "store" && e.Val != nil && e.Val.Op == "load" && len(e.Val.Args) == 1 && s.isNodeStruct(e.Val.Typ) {
			s.opened[nodeKey(e.Val.Args[0])] = true
		}
	}
	for _, ac := range p.Acc {
		visit(ac.Addr)
	}
	for _, cd := range p.Conds {
		visit(cd.T)
		r := cd.Rel()
		if r.B != nil && r.Op == "==" {
			if r.B.IsNil() {
				s.nilKnown[nodeKey(r.A)] = true
			} else if r.A.IsNil() {
				s.nilKnown[nodeKey(r.B)] = true
			}
		}
	}
	for _, r := range p.Rets {
		visit(r)
	}
	return s
}

func (s *shapeEnv) isNodeStruct(t types.Type) bool {
	if t == nil {
		return false
	}
	st, ok := t.Underlying().(*types.Struct)
	if !ok {
		return false
	}
	for i := 0; i < st.NumFields(); i++ {
		if sameField(st.Field(i), s.a.nLeft) {
			return true
		}
	}
	return false
}

type shapeMem map[string]*Term

// replay builds the field memory after the first n events of the path.
func (s *shapeEnv) replay(n int) shapeMem {
	mem := shapeMem{}
	fields := []*types.Var{s.a.nLeft, s.a.nRight, s.a.nValue, s.a.nHeight}
	for i := 0; i < n && i < len(s.p.Events); i++ {
		e := &s.p.Events[i]
		if e.Kind != "store" || e.Addr == nil {
			continue
		}
		if e.Addr.Op == "faddr" && len(e.Addr.Args) == 1 {
			mem[nodeKey(e.Addr.Args[0])+"."+e.Addr.Obj.Name()] = e.Val
			continue
		}
		if e.Val != nil && s.isNodeStruct(e.Val.Typ) {
			dst := nodeKey(e.Addr)
			switch e.Val.Op {
			case "load":
				src := e.Val.Args[0]
				for _, f := range fields {
					mem[dst+"."+f.Name()] = s.read(mem, src, f)
				}
			case "struct":
				st := e.Val.Typ.Underlying().(*types.Struct)
				for k := 0; k < st.NumFields() && k < len(e.Val.Args); k++ {
					mem[dst+"."+st.Field(k).Name()] = e.Val.Args[k]
				}
			}
		}
	}
	return mem
}

// read: the content of base.f in mem; untouched fields of a node allocated on this path are zero, those of the
// node popLeftMost handed out follow its contract (left nil, right stale), everything else is the entry content.
func (s *shapeEnv) read(mem shapeMem, base *Term, f *types.Var) *Term {
	if v, ok := mem[nodeKey(base)+"."+f.Name()]; ok {
		return v
	}
	if base.Op == "alloc" {
		return &Term{Op: "const", Sym: "nil"}
	}
	if base.Op == "extract" && base.N == 1 && base.Args[0].Op == "call" && strings.HasSuffix(base.Args[0].Sym, "popLeftMost") {
		if sameField(f, s.a.nLeft) {
			return &Term{Op: "const", Sym: "nil"}
		}
		if sameField(f, s.a.nRight) {
			return &Term{Op: "const", Sym: "STALE"}
		}
	}
	return s.a.initLoad(base, f)
}

func (s *shapeEnv) callIndex(call *Term) int {
	for i := range s.p.Events {
		e := &s.p.Events[i]
		if e.Kind == "call" && e.Res != nil && e.Res.Key() == call.Key() {
			return i
		}
	}
	return -1
}

func join(xs []string) string { return strings.Join(xs, " ") }

// seq renders the in-order sequence of the tree below pointer t, in memory mem.
func (s *shapeEnv) seq(mem shapeMem, t *Term, depth int) []string {
	t = stripIface(t)
	if t == nil {
		return []string{"?"}
	}
	if depth > 10 {
		return []string{"CYCLE"}
	}
	if t.IsNil() || (t.Op == "const" && t.Sym == "nil") {
		if s.paren {
			return []string{"·"}
		}
		return nil
	}
	if t.Op == "const" && t.Sym == "STALE" {
		return []string{"STALE(right pointer of the popped node, which still points into the remainder)"}
	}
	if s.nilKnown[nodeKey(t)] {
		if s.paren {
			return []string{"·"}
		}
		return nil
	}
	if t.Op == "call" && len(t.Args) > 0 {
		idx := s.callIndex(t)
		if idx < 0 {
			return []string{"?call " + t.Sym}
		}
		at := s.replay(idx)
		switch {
		case s.conserve(t.Sym):
			return s.seq(at, t.Args[0], depth+1)
		case strings.HasSuffix(t.Sym, "(*node).add") && len(t.Args) >= 2:
			k := join(s.seq(at, t.Args[0], depth+1))
			if k == "" {
				return []string{"V(" + nodeKey(t.Args[1]) + ")"}
			}
			return []string{"ins(" + k + "," + nodeKey(t.Args[1]) + ")"}
		}
		return []string{"?call " + t.Sym}
	}
	if t.Op == "extract" && t.Args[0].Op == "call" {
		call := t.Args[0]
		idx := s.callIndex(call)
		if idx >= 0 && len(call.Args) > 0 {
			at := s.replay(idx)
			switch {
			case strings.HasSuffix(call.Sym, "(*node).remove") && t.N == 0 && len(call.Args) >= 2:
				return []string{"rm(" + join(s.seq(at, call.Args[0], depth+1)) + "," + nodeKey(call.Args[1]) + ")"}
			case strings.HasSuffix(call.Sym, "(*node).popLeftMost") && t.N == 0:
				el := s.seq(at, call.Args[0], depth+1)
				k := join(el)
				s.elems[k] = el
				return []string{"rest(" + k + ")"}
			case strings.HasSuffix(call.Sym, "(*node).popLeftMost") && t.N == 1:
				el := s.seq(at, call.Args[0], depth+1)
				k := join(el)
				s.elems[k] = el
				var out []string
				out = append(out, s.seq(mem, s.read(mem, t, s.a.nLeft), depth+1)...)
				out = append(out, "first("+k+")")
				out = append(out, s.seq(mem, s.read(mem, t, s.a.nRight), depth+1)...)
				return out
			}
		}
		return []string{"?result of " + call.Sym}
	}
	k := nodeKey(t)
	if s.opened[k] || t.Op == "alloc" {
		var out []string
		if s.paren {
			out = append(out, "(")
		}
		out = append(out, s.seq(mem, s.read(mem, t, s.a.nLeft), depth+1)...)
		out = append(out, "V("+nodeKey(s.read(mem, t, s.a.nValue))+")")
		out = append(out, s.seq(mem, s.read(mem, t, s.a.nRight), depth+1)...)
		if s.paren {
			out = append(out, ")")
		}
		return out
	}
	return []string{"S(" + k + ")"}
}

// norm merges adjacent first(K) rest(K) back into K's atoms.
func (s *shapeEnv) norm(xs []string) []string {
	for changed := true; changed; {
		changed = false
		for i := 0; i+1 < len(xs); i++ {
			if strings.HasPrefix(xs[i], "first(") && strings.HasPrefix(xs[i+1], "rest(") && xs[i][6:] == xs[i+1][5:] {
				k := xs[i][6 : len(xs[i])-1]
				var out []string
				out = append(out, xs[:i]...)
				out = append(out, s.elems[k]...)
				out = append(out, xs[i+2:]...)
				xs = out
				changed = true
				break
			}
		}
	}
	return xs
}

func (s *shapeEnv) final() shapeMem { return s.replay(len(s.p.Events)) }

// valueAtom: the V(...) atom of node pointer t in mem (first(K) for the node popLeftMost hands out).
func (s *shapeEnv) valueAtom(mem shapeMem, t *Term) string {
	if t.Op == "extract" && t.N == 1 && t.Args[0].Op == "call" && strings.HasSuffix(t.Args[0].Sym, "popLeftMost") {
		call := t.Args[0]
		if idx := s.callIndex(call); idx >= 0 {
			el := s.seq(s.replay(idx), call.Args[0], 1)
			k := join(el)
			s.elems[k] = el
			return "first(" + k + ")"
		}
	}
	return "V(" + nodeKey(s.read(mem, t, s.a.nValue)) + ")"
}

func seqEq(a, b []string) bool { return join(a) == join(b) }

// without removes the first occurrence of atom x.
func without(xs []string, x string) ([]string, bool) {
	for i, y := range xs {
		if y == x {
			out := append([]string{}, xs[:i]...)
			return append(out, xs[i+1:]...), true
		}
	}
	return xs, false
}
