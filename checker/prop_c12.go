package main

import (
	"fmt"
	"go/types"

	"golang.org/x/tools/go/ssa"
)

func init() {
	register(&propSpec{
		id:    "C12",
		level: "other",
		run:   runC12,
		explanation: "Decided from the path summaries of the splice helpers (index relations as polynomial normal forms): " +
			"(shift-distance) Insert/InsertSlice grow the slice by g = 1 resp. len(values) with append, then shift with ONE overlapping copy whose source starts at index and whose destination starts exactly g later, both taken from the slice AFTER growth, then write the g new elements starting at index; Remove/RemoveSlice shift left with one copy whose destination starts at index and whose source starts exactly r = 1 resp. length later, then truncate to len-r of the same slice; " +
			"(result-fresh) Concat, Clone and Repeat return a slice that originates from make on every path (append(a, b...) or a re-slice as a result shares storage and is refuted); (concat-layout) a is copied to [0:len a] and b to [len a:]; (fill-doubling) Fill returns at once for an empty slice, writes element 0, and doubles a prefix copy copy(s[i:], s[:i]) with i starting at 1 while i < len; (reverse-walk) Reverse swaps positions i and j with i counting up from 0 and j down from len-1 while i < len/2; (grow) Grow returns append(slice, make(S, n)...) on its only path. " +
			"NOT decided: the resulting contents for every (len, cap, index) - that depends on append/copy run-time semantics, which are trusted.",
		assumptions: []string{"Go semantics of append (preserves the prefix; new elements as given), copy (memmove semantics for overlapping slices), make (zeroed)"},
	})
}

func runC12(c *Ctx) {
	R := c.R
	R.Rule("shift-distance", "insert: append g elements, copy(s[index+g:], s[index:]) on the grown slice, write g elements at index; remove: copy(s[index:], s[index+r:]), truncate to len-r", 4)
	R.Rule("result-fresh", "Concat, Clone, Repeat return a slice made by make on every path", 3)
	R.Rule("concat-layout", "copy(result[:len(a)], a); copy(result[len(a):], b); len(result) = len(a)+len(b)", 1)
	R.Rule("fill-doubling", "empty -> return; s[0]=v; for i:=1; i<len; i+=i { copy(s[i:], s[:i]) }", 1)
	R.Rule("reverse-walk", "i from 0 up, j from len-1 down, swap s[i],s[j], while i < len/2", 1)
	R.Rule("grow", "Grow = append(slice, make(S, n)...)", 1)

	c12Splice(c, "shift-distance", true)
	// ---- result-fresh + layout
	if fi := c.fn("result-fresh", "slices.Concat"); fi != nil {
		if ps := c.paths("result-fresh", fi); ps != nil {
			a, b := paramOf(fi, 0), paramOf(fi, 1)
			fresh, why := true, ""
			lay, whyL := true, ""
			for _, p := range ps {
				if p.End != EndReturn || len(p.Rets) != 1 {
					lay, whyL = false, fmt.Sprintf("a path (%s) does not return the concatenation: it panics or never ends", p.CondString())
					continue
				}
				// append(append(make(S, 0, n), a...), b...): built by appending to a fresh EMPTY slice - whatever its
				// capacity, the result is storage of this call holding a followed by b
				if r := p.Rets[0]; r.Op == "builtin" && r.Sym == "append" && len(r.Args) == 2 && r.Args[1].Key() == b.Key() {
					if in := r.Args[0]; in.Op == "builtin" && in.Sym == "append" && len(in.Args) == 2 && in.Args[1].Key() == a.Key() &&
						in.Args[0].Op == "mkslice" && len(in.Args[0].Args) >= 1 && in.Args[0].Args[0].IsConst("0") {
						continue
					}
				}
				if len(p.Rets) != 1 || p.Rets[0].Op != "mkslice" {
					fresh, why = false, fmt.Sprintf("a path (%s) returns %s, which is not a freshly made slice: the result shares memory with an input", p.CondString(), p.Rets[0])
					lay, whyL = false, "no fresh result"
					continue
				}
				res := p.Rets[0]
				lenA := &Term{Op: "builtin", Sym: "len", Args: []*Term{a}}
				lenB := &Term{Op: "builtin", Sym: "len", Args: []*Term{b}}
				if !ToPoly(res.Args[0]).Equal(ToPoly(lenA).Add(ToPoly(lenB), 1)) {
					lay, whyL = false, "the result's length is not len(a)+len(b)"
				}
				gotA, gotB := false, false
				for i := range p.Events {
					e := &p.Events[i]
					if e.Kind != "call" || e.Name != "builtin.copy" {
						continue
					}
					d := e.Args[0]
					if d.Op == "slice" && d.Args[0].Key() == res.Key() {
						lo := d.Args[1]
						if lo.Op == "none" {
							lo = intConst(0)
						}
						if ToPoly(lo).Equal(polyConst(0)) && e.Args[1].Key() == a.Key() && (d.Args[2].Op == "none" || ToPoly(d.Args[2]).Equal(ToPoly(lenA))) {
							gotA = true
						}
						if ToPoly(lo).Equal(ToPoly(lenA)) && e.Args[1].Key() == b.Key() && d.Args[2].Op == "none" {
							gotB = true
						}
						// n := copy(result, a) - with len(result) = len(a)+len(b) >= len(a), n is len(a)
						if lo.Op == "call" && lo.Sym == "builtin.copy" && len(lo.Args) == 2 && lo.Args[0].Key() == res.Key() && lo.Args[1].Key() == a.Key() &&
							e.Args[1].Key() == b.Key() && d.Args[2].Op == "none" && ToPoly(res.Args[0]).Equal(ToPoly(lenA).Add(ToPoly(lenB), 1)) {
							gotB = true
						}
					}
					if d.Key() == res.Key() && e.Args[1].Key() == a.Key() {
						gotA = true
					}
				}
				if !gotA || !gotB {
					lay, whyL = false, "a is not copied to [0:len a] and b to [len a:]"
				}
			}
			o := R.Decide(fresh, "result-fresh", fi.Name, "make", c.pos(fi), "result comes from make on every path", why)
			if !fresh {
				o.Breaks = "writing through the result changes an input (or the reverse)"
			}
			R.Decide(lay, "concat-layout", fi.Name, "copies", c.pos(fi), "len = len(a)+len(b); a then b", whyL)
		}
	}
	c12CloneRow(c, "result-fresh")
	if fi := c.fn("result-fresh", "slices.Repeat"); fi != nil {
		if ps := c.paths("result-fresh", fi); ps != nil {
			ok, why := true, ""
			for _, p := range ps {
				if len(p.Rets) != 1 || p.Rets[0].Op != "mkslice" || !isParam(p.Rets[0].Args[0], 1) {
					ok, why = false, "does not return make([]E, count)"
					continue
				}
				filled := false
				for i := range p.Events {
					e := &p.Events[i]
					if e.Kind == "call" && e.Name == "slices.Fill" && e.Args[0].Key() == p.Rets[0].Key() && isParam(e.Args[1], 0) {
						filled = true
					}
				}
				if !filled {
					ok, why = false, "the new slice is not filled with the value"
				}
			}
			R.Decide(ok, "result-fresh", fi.Name, "make", c.pos(fi), "make(count) filled with the value", why)
		}
	}
	c12Fill(c, "fill-doubling")
	// ---- Reverse
	if fi := c.fn("reverse-walk", "slices.Reverse"); fi != nil {
		if ps := c.paths("reverse-walk", fi); ps != nil {
			s := paramOf(fi, 0)
			ok, why := true, ""
			loops := findLoops(ps)
			if len(loops) == 1 && len(loops[0].Phis) == 1 && c12ReverseOneIndex(ps, loops[0], s) {
				// one index over the first half, the mirror position computed from it: same walk
			} else if len(loops) != 1 || len(loops[0].Phis) != 2 {
				ok, why = false, "expected one loop with two induction variables"
			} else {
				li := loops[0]
				var up, down *ssa.Phi
				lenS := &Term{Op: "builtin", Sym: "len", Args: []*Term{s}}
				for _, phi := range li.Phis {
					init := li.Init[phi]
					if init != nil && init.IsConst("0") {
						up = phi
					} else if init != nil && ToPoly(init).Equal(ToPoly(lenS).Add(polyConst(1), -1)) {
						down = phi
					}
				}
				if up == nil || down == nil {
					ok, why = false, "the two indices do not start at 0 and len-1"
				} else {
					iT, jT := li.LV[up], li.LV[down]
					for _, p := range li.Back {
						if !ToPoly(p.Next[up]).Equal(ToPoly(iT).Add(polyConst(1), 1)) || !ToPoly(p.Next[down]).Equal(ToPoly(jT).Add(polyConst(1), -1)) {
							ok, why = false, "the indices do not move towards each other by one"
						}
						// body restricted to loop events
						body := &Path{Events: p.Events[p.LoopAt[li.Hdr]:], End: EndReturn}
						if !isSwap(body, s, iT, jT) {
							ok, why = false, "the body does not swap exactly s[i] and s[j]"
						}
						// continue condition
						good := false
						for _, cd := range p.Conds {
							r := cd.Rel()
							if r.B == nil || !cd.T.ContainsKey(iT.Key()) {
								continue
							}
							if r.Op == "<" && r.A.Key() == iT.Key() {
								b := r.B
								if b.Key() == jT.Key() {
									good = true
								}
								if b.Op == "bin" && b.Sym == "/" && isLenOf(b.Args[0], s) && b.Args[1].IsConst("2") {
									good = true
								}
							}
						}
						if !good {
							ok, why = false, "the loop does not run while i < len/2 (or i < j): walking further swaps everything back"
						}
					}
					if len(li.Back) != 1 {
						ok, why = false, "the loop body branches"
					}
				}
			}
			R.Decide(ok, "reverse-walk", fi.Name, "table", c.pos(fi), "i=0 up, j=len-1 down, swap, while i < len/2", why)
		}
	}
	// ---- Grow
	if fi := c.fn("grow", "slices.Grow"); fi != nil {
		if ps := c.paths("grow", fi); ps != nil {
			s, n := paramOf(fi, 0), paramOf(fi, 1)
			ok, why := len(ps) == 1, fmt.Sprintf("%d paths: a path that re-slices into spare capacity exposes stale memory instead of zero values", len(ps))
			if ok {
				r := ps[0].Rets[0]
				if !(r.Op == "builtin" && r.Sym == "append" && len(r.Args) == 2 && r.Args[0].Key() == s.Key() && r.Args[1].Op == "mkslice" && r.Args[1].Args[0].Key() == n.Key()) {
					ok, why = false, "does not return append(slice, make(S, n)...): "+r.String()
				}
			}
			o := R.Decide(ok, "grow", fi.Name, "table", c.pos(fi), "append(slice, make(S, n)...)", why)
			if !ok {
				o.Breaks = "the appended elements are not zero"
			}
		}
	}
}

// c12Splice decides the insert/remove primitives (shift distances on the grown slice, truncation); C07 re-uses
// the single-element rows, on which Sorted.Add/Remove/RemoveAt rest.
// c12CloneRow decides slices.Clone: a make of the argument's length (or append to an empty make of that capacity)
// with the contents copied, on every path. C07 and C08 re-run it as `clone-helper` when their code copies through it.
func c12CloneRow(c *Ctx, rule string) {
	R := c.R
	if fi := c.fn(rule, "slices.Clone"); fi != nil {
		if ps := c.paths(rule, fi); ps != nil {
			s := paramOf(fi, 0)
			ok, why := true, ""
			for _, p := range ps {
				if r := p.Rets[0]; len(p.Rets) == 1 && r.Op == "builtin" && r.Sym == "append" && len(r.Args) == 2 && r.Args[0].Op == "mkslice" &&
					r.Args[0].Args[0].IsConst("0") && len(r.Args[0].Args) > 1 && isLenOf(r.Args[0].Args[1], s) && r.Args[1].Key() == s.Key() {
					continue // append(make(S, 0, len(slice)), slice...): fresh, same length and capacity
				}
				if len(p.Rets) != 1 || p.Rets[0].Op != "mkslice" || !isLenOf(p.Rets[0].Args[0], s) {
					ok, why = false, fmt.Sprintf("a path returns %s, not make(S, len(slice))", p.Rets[0])
					continue
				}
				copied := false
				for i := range p.Events {
					e := &p.Events[i]
					if e.Kind == "call" && e.Name == "builtin.copy" && e.Args[0].Key() == p.Rets[0].Key() && e.Args[1].Key() == s.Key() {
						copied = true
					}
				}
				if !copied {
					ok, why = false, "the contents are not copied"
				}
			}
			R.Decide(ok, rule, fi.Name, "make", c.pos(fi), "make(len)+copy on every path", why)
		}
	}
}

func c12Splice(c *Ctx, rule string, withMulti bool) {
	R := c.R
	sliceLo := func(t *Term) (*Term, *Term, bool) { // base, lo ; only open-ended s[lo:]
		if t.Op != "slice" || t.Args[2].Op != "none" || t.Args[3].Op != "none" {
			return nil, nil, false
		}
		lo := t.Args[1]
		if lo.Op == "none" {
			lo = intConst(0)
		}
		return t.Args[0], lo, true
	}
	// ---- insertions
	for _, ins := range []struct {
		name  string
		multi bool
	}{{"slices.Insert", false}, {"slices.InsertSlice", true}} {
		if ins.multi && !withMulti {
			continue
		}
		fi := c.fn(rule, ins.name)
		ps := c.paths(rule, fi)
		if ps == nil {
			continue
		}
		ptr, index, val := paramOf(fi, 0), paramOf(fi, 1), paramOf(fi, 2)
		// inserting at index == len(*slice) moves nothing: there the splice is the append alone
		{
			var rest []*Path
			for _, p := range ps {
				if !c12EndAppend(p, ptr, index, val, ins.multi) {
					rest = append(rest, p)
				}
			}
			if len(rest) > 0 {
				ps = rest
			}
		}
		ok, why := len(ps) == 1, "the function branches (a path that skips the growth or the shift must be justified separately)"
		// the single-element form as a call of the slice form with a one-element slice holding the value
		if ok && !ins.multi {
			p := ps[0]
			calls := callsNamed(p, "slices.InsertSlice")
			if len(calls) == 1 && len(calls[0].Args) == 3 && calls[0].Args[0].Key() == ptr.Key() && calls[0].Args[1].Key() == index.Key() {
				arr := calls[0].Args[2]
				for arr != nil && arr.Op == "slice" {
					arr = arr.Args[0]
				}
				holds, others := 0, 0
				for i := range p.Events {
					e := &p.Events[i]
					switch {
					case e.Kind == "store" && e.Addr.Op == "iaddr" && arr != nil && e.Addr.Args[0].Key() == arr.Key():
						if e.Val.Key() == val.Key() && e.Addr.Args[1].IsConst("0") {
							holds++
						} else {
							holds = -99
						}
					case e.Kind == "store" && e.Addr.Op == "alloc":
					case e.Kind == "call" && e == calls[0]:
					default:
						others++
					}
				}
				oneElem := false
				if arr != nil && arr.Op == "alloc" {
					if pt, isP := arr.Typ.Underlying().(*types.Pointer); isP {
						if at, isA := pt.Elem().Underlying().(*types.Array); isA && at.Len() == 1 {
							oneElem = true
						}
					}
				}
				if holds == 1 && others == 0 && oneElem {
					R.Held(rule, fi.Name, "splice", c.pos(fi), "InsertSlice(slice, index, {value}): the slice form with one element (decided as slices.InsertSlice)")
					continue
				}
			}
		}
		if ok {
			p := ps[0]
			var grown *Term
			var growIdx int
			var copies []*Event
			var elemStores []*Event
			for i := range p.Events {
				e := &p.Events[i]
				switch {
				case e.Kind == "store" && e.Addr.Key() == ptr.Key():
					if grown != nil {
						ok, why = false, "stores *slice twice"
					}
					grown, growIdx = e.Val, i
				case e.Kind == "call" && e.Name == "builtin.copy":
					copies = append(copies, e)
				case e.Kind == "store" && e.Addr.Op == "iaddr" && e.Addr.Args[0].Op == "alloc":
				case e.Kind == "store" && e.Addr.Op == "iaddr":
					elemStores = append(elemStores, e)
				case e.Kind == "call" && (e.Name == "builtin.append" || e.Name == "builtin.len"):
				default:
					ok, why = false, "unexpected effect "+e.String()
				}
			}
			if ok && grown == nil {
				ok, why = false, "*slice is never grown"
			}
			var g *Poly
			if ok {
				old := &Term{Op: "load", Args: []*Term{ptr}}
				if !(grown.Op == "builtin" && grown.Sym == "append" && len(grown.Args) == 2 && grown.Args[0].Op == "load" && grown.Args[0].Args[0].Key() == ptr.Key()) {
					ok, why = false, "*slice is not grown with append(*slice, ...): "+grown.String()
				} else if ins.multi {
					if grown.Args[1].Key() != val.Key() {
						ok, why = false, "does not append the values"
					}
					g = ToPoly(&Term{Op: "builtin", Sym: "len", Args: []*Term{val}})
				} else {
					g = polyConst(1)
				}
				_ = old
			}
			if ok {
				// shift copy: first copy after growth
				var shift *Event
				for _, cp := range copies {
					for i := range p.Events {
						if &p.Events[i] == cp && i > growIdx && shift == nil {
							shift = cp
						}
					}
				}
				if shift == nil {
					ok, why = false, "no shifting copy after the growth"
				} else {
					db, dlo, ok1 := sliceLo(shift.Args[0])
					sb, slo, ok2 := sliceLo(shift.Args[1])
					switch {
					case !ok1 || !ok2:
						ok, why = false, "the shifting copy is not of the form copy(s[a:], s[b:])"
					case db.Key() != grown.Key():
						ok, why = false, "the shifting copy does not write into the slice after growth (the stale header is one element short, or no longer the same array)"
					case sb.Key() != grown.Key() && !(sb.Op == "load" && sb.Args[0].Key() == ptr.Key() && grown.Args[0].Key() == sb.Key()):
						ok, why = false, "the shifting copy reads from something other than the slice (before or after growth)"
					case !ToPoly(slo).Equal(ToPoly(index)):
						ok, why = false, "the shift's source does not start at index: "+slo.String()
					case !ToPoly(dlo).Add(ToPoly(slo), -1).Equal(g):
						ok, why = false, fmt.Sprintf("the shift distance is %s, the slice grew by %s", ToPoly(dlo).Add(ToPoly(slo), -1), g)
					}
				}
			}
			idxOf := func(ev *Event) int {
				for i := range p.Events {
					if &p.Events[i] == ev {
						return i
					}
				}
				return -1
			}
			if ok {
				// the new elements are written after the shift: written first, they are moved along (duplicated) and the
				// element that stood at index is overwritten
				shiftIdx := -1
				for _, cp := range copies {
					if i := idxOf(cp); i > growIdx && shiftIdx < 0 {
						shiftIdx = i
					}
				}
				for _, es := range elemStores {
					if idxOf(es) < shiftIdx {
						ok, why = false, "the value is written at index before the elements from index on are shifted out of the way: it is moved along with them and the element that stood there is lost"
					}
				}
				if ins.multi {
					for _, cp := range copies {
						if i := idxOf(cp); i > growIdx && i != shiftIdx && i < shiftIdx {
							ok, why = false, "the values are copied in before the shift"
						}
					}
				}
			}
			if ok {
				if ins.multi {
					filled := false
					for _, cp := range copies {
						db, dlo, ok1 := sliceLo(cp.Args[0])
						if ok1 && db.Key() == grown.Key() && ToPoly(dlo).Equal(ToPoly(index)) && cp.Args[1].Key() == val.Key() {
							filled = true
						}
					}
					if !filled || len(copies) != 2 {
						ok, why = false, "the inserted values are not copied to s[index:]"
					}
				} else {
					if len(elemStores) != 1 || elemStores[0].Addr.Args[0].Key() != grown.Key() || !ToPoly(elemStores[0].Addr.Args[1]).Equal(ToPoly(index)) || elemStores[0].Val.Key() != val.Key() || len(copies) != 1 {
						ok, why = false, "the value is not written to s[index] of the grown slice"
					}
				}
			}
		}
		o := R.Decide(ok, rule, fi.Name, "splice", c.pos(fi), "append; copy(s[index+g:], s[index:]) on the grown slice; write at index", why)
		if !ok {
			o.Breaks = "elements after the insertion point are shifted by the wrong distance or from a stale slice: a value is lost or duplicated for some index/capacity"
		}
	}
	// ---- removals
	for _, rm := range []struct {
		name  string
		multi bool
	}{{"slices.Remove", false}, {"slices.RemoveSlice", true}} {
		if rm.multi && !withMulti {
			continue
		}
		fi := c.fn(rule, rm.name)
		ps := c.paths(rule, fi)
		if ps == nil {
			continue
		}
		ptr, index := paramOf(fi, 0), paramOf(fi, 1)
		r := polyConst(1)
		if rm.multi {
			r = ToPoly(paramOf(fi, 2))
		}
		ok, why := len(ps) == 1, "the function branches"
		if ok && !rm.multi {
			p := ps[0]
			calls := callsNamed(p, "slices.RemoveSlice")
			if len(calls) == 1 && len(p.Events) == 1 && len(calls[0].Args) == 3 && calls[0].Args[0].Key() == ptr.Key() && calls[0].Args[1].Key() == index.Key() && calls[0].Args[2].IsConst("1") {
				R.Held(rule, fi.Name, "splice", c.pos(fi), "RemoveSlice(slice, index, 1): the slice form with length one (decided as slices.RemoveSlice)")
				continue
			}
		}
		if ok {
			p := ps[0]
			var cp, st *Event
			for i := range p.Events {
				e := &p.Events[i]
				switch {
				case e.Kind == "call" && e.Name == "builtin.copy":
					if cp != nil {
						ok, why = false, "more than one copy"
					}
					cp = e
				case e.Kind == "store" && e.Addr.Key() == ptr.Key():
					if st != nil {
						ok, why = false, "stores *slice twice"
					}
					st = e
				case e.Kind == "call" && e.Name == "builtin.len":
				default:
					ok, why = false, "unexpected effect "+e.String()
				}
			}
			if ok && (cp == nil || st == nil) {
				ok, why = false, "missing the shift or the truncation"
			}
			if ok {
				db, dlo, ok1 := sliceLo(cp.Args[0])
				sb, slo, ok2 := sliceLo(cp.Args[1])
				isOld := func(t *Term) bool { return t.Op == "load" && t.Args[0].Key() == ptr.Key() }
				switch {
				case !ok1 || !ok2 || !isOld(db) || db.Key() != sb.Key():
					ok, why = false, "the shift is not copy(s[a:], s[b:]) on *slice"
				case !ToPoly(dlo).Equal(ToPoly(index)):
					ok, why = false, "the shift's destination does not start at index"
				case !ToPoly(slo).Add(ToPoly(dlo), -1).Equal(r):
					ok, why = false, fmt.Sprintf("the shift distance is %s, %s elements are removed", ToPoly(slo).Add(ToPoly(dlo), -1), r)
				default:
					v := st.Val
					lenOld := &Term{Op: "builtin", Sym: "len", Args: []*Term{db}}
					if !(v.Op == "slice" && v.Args[0].Key() == db.Key() && (v.Args[1].Op == "none" || v.Args[1].IsConst("0")) && v.Args[2].Op != "none" && v.Args[3].Op == "none" &&
						ToPoly(v.Args[2]).Equal(ToPoly(lenOld).Add(r, -1))) {
						ok, why = false, fmt.Sprintf("the slice is not truncated to len-%s: %s", r, v)
					}
				}
			}
		}
		o := R.Decide(ok, rule, fi.Name, "splice", c.pos(fi), "copy(s[index:], s[index+r:]); s = s[:len-r]", why)
		if !ok {
			o.Breaks = "the wrong elements are dropped or the length shrinks by the wrong amount"
		}
	}
}

// c12Fill decides slices.Fill (exponential copy); C08 re-uses it, because New2DFilled and Array2D.Fill fill through it.
func c12Fill(c *Ctx, rule string) {
	R := c.R
	if fi := c.fn(rule, "slices.Fill"); fi != nil {
		if ps := c.paths(rule, fi); ps != nil {
			s, v := paramOf(fi, 0), paramOf(fi, 1)
			ok, why := true, ""
			loops := findLoops(ps)
			if len(loops) != 1 || len(loops[0].Phis) != 1 {
				ok, why = false, "expected one loop with one induction variable"
			} else {
				li := loops[0]
				phi := li.Phis[0]
				lv := li.LV[phi]
				init := li.Init[phi]
				if init == nil || !init.IsConst("1") {
					ok, why = false, "the prefix length does not start at 1"
				}
				for _, p := range ps {
					inLoop := p.LoopIn[li.Hdr] != nil
					if !inLoop {
						// the empty row
						emp := false
						lenS := &Term{Op: "builtin", Sym: "len", Args: []*Term{s}}
						for _, cd := range p.Conds {
							if pl, kind, isInt := cd.Rel().IntNorm(); isInt {
								// len == 0, or len < 1 (a length is never negative)
								if kind == "=" && pl.Equal(canonSign(ToPoly(lenS))) {
									emp = true
								}
								if kind == ">" && pl.Equal(polyConst(1).Add(ToPoly(lenS), -1)) {
									emp = true
								}
							}
						}
						if !emp || len(eventsOf(p, func(e *Event) bool { return e.Kind == "store" || (e.Kind == "call" && e.Name == "builtin.copy") })) != 0 {
							ok, why = false, "a path avoids the loop without the slice being empty"
						}
						continue
					}
					// a path that knows the slice to be empty has nothing to fill (the loop test fails at once)
					{
						lenS := &Term{Op: "builtin", Sym: "len", Args: []*Term{s}}
						empty := false
						for _, cd := range p.Conds {
							if pl, kind, isInt := cd.Rel().IntNorm(); isInt {
								if kind == "=" && pl.Equal(canonSign(ToPoly(lenS))) {
									empty = true
								}
								if kind == ">" && pl.Equal(polyConst(1).Add(ToPoly(lenS), -1)) {
									empty = true
								}
							}
						}
						if empty && p.End != EndLoopBack && len(eventsOf(p, func(e *Event) bool { return e.Kind == "store" || (e.Kind == "call" && e.Name == "builtin.copy") })) == 0 {
							continue
						}
						// an iteration on an empty slice is infeasible: the prefix length starts at 1 and only grows,
						// and the iteration needs prefix < len <= 0
						if empty && p.End == EndLoopBack && init != nil && init.IsConst("1") {
							infeasible := false
							for _, cd := range p.Conds {
								if pl, kind, isInt := cd.Rel().IntNorm(); isInt && kind == ">" && pl.Equal(ToPoly(lenS).Add(ToPoly(lv), -1)) {
									infeasible = true
								}
							}
							if infeasible {
								continue
							}
						}
					}
					// element 0 written before the loop
					first := false
					for i := 0; i < p.LoopAt[li.Hdr] && i < len(p.Events); i++ {
						e := &p.Events[i]
						if e.Kind == "store" && e.Addr.Op == "iaddr" && e.Addr.Args[0].Key() == s.Key() && e.Addr.Args[1].IsConst("0") && e.Val.Key() == v.Key() {
							first = true
						}
					}
					if !first {
						ok, why = false, "element 0 is not set to the value before doubling"
					}
					// ... and only once the slice is known not to be empty (Fill of an empty slice fills nothing, it
					// does not fail with an index error)
					for i := 0; i < p.LoopAt[li.Hdr] && i < len(p.Events); i++ {
						e := &p.Events[i]
						if !(e.Kind == "store" && e.Addr.Op == "iaddr" && e.Addr.Args[0].Key() == s.Key() && e.Addr.Args[1].IsConst("0")) {
							continue
						}
						lenS := ToPoly(&Term{Op: "builtin", Sym: "len", Args: []*Term{s}})
						guarded := false
						for _, cd := range p.Conds {
							if cd.NEv > i {
								continue
							}
							if pl, kind, isInt := cd.Rel().IntNorm(); isInt {
								if kind == "!=" && pl.Equal(canonSign(lenS)) || kind == ">" && pl.Equal(lenS) {
									guarded = true
								}
							}
						}
						if !guarded {
							ok, why = false, "slice[0] is written without the slice being known to be non-empty: Fill panics on an empty slice"
						}
					}
					// continue condition i < len(s)
					var cont *Rel
					for _, cd := range p.Conds {
						if cd.T.ContainsKey(lv.Key()) {
							r := cd.Rel()
							cont = &r
						}
					}
					if cont == nil {
						ok, why = false, "no loop condition"
						continue
					}
					if p.End == EndLoopBack {
						lenS := &Term{Op: "builtin", Sym: "len", Args: []*Term{s}}
						pl, kind, isInt := cont.IntNorm()
						if !(isInt && kind == ">" && pl.Equal(ToPoly(lenS).Add(ToPoly(lv), -1))) {
							ok, why = false, "the loop does not run while i < len(slice): "+cont.String()+" (a different bound leaves the tail unset for some lengths)"
						}
						var cp *Event
						n := 0
						for i := p.LoopAt[li.Hdr]; i < len(p.Events); i++ {
							e := &p.Events[i]
							if e.Kind == "call" && e.Name == "builtin.copy" {
								cp = e
								n++
							}
							if e.Kind == "store" {
								ok, why = false, "stores inside the doubling loop"
							}
						}
						if n != 1 {
							ok, why = false, "not exactly one copy per iteration"
						} else {
							d, src := cp.Args[0], cp.Args[1]
							good := d.Op == "slice" && d.Args[0].Key() == s.Key() && d.Args[1].Key() == lv.Key() && d.Args[2].Op == "none" &&
								src.Op == "slice" && src.Args[0].Key() == s.Key() && (src.Args[1].Op == "none" || src.Args[1].IsConst("0")) && src.Args[2].Key() == lv.Key()
							if !good {
								ok, why = false, "the iteration is not copy(s[i:], s[:i])"
							}
						}
						nx := p.Next[phi]
						// i += copy(s[i:], s[:i]): copy reports min(len-i, i) - i itself (a doubling) in every round but
						// the last, where it reports what was left and i reaches len: the loop ends with the slice filled
						byCopy := false
						if cp != nil && cp.Res != nil && n == 1 {
							byCopy = ToPoly(nx).Equal(ToPoly(lv).Add(polyAtom(cp.Res), 1))
						}
						if !byCopy && !ToPoly(nx).Equal(ToPoly(lv).Add(ToPoly(lv), 1)) {
							ok, why = false, "i is not doubled: "+nx.String()
						}
					} else {
						// exit: nothing after the loop
						for i := p.LoopAt[li.Hdr]; i < len(p.Events); i++ {
							e := &p.Events[i]
							if e.Kind == "store" || (e.Kind == "call" && e.Name == "builtin.copy") {
								ok, why = false, "work after the loop: the table 'doubling until i >= len' no longer describes the function"
							}
						}
					}
				}
			}
			o := R.Decide(ok, rule, fi.Name, "table", c.pos(fi), "empty: return; s[0]=v; i=1; while i<len: copy(s[i:], s[:i]); i+=i", why)
			if !ok {
				o.Breaks = "some lengths leave elements unset"
			}
		}
	}
}

// c12EndAppend: the path has established index == len(*slice) and does nothing but *slice = append(*slice, value(s)).
func c12EndAppend(p *Path, ptr, index, val *Term, multi bool) bool {
	if p.End != EndReturn {
		return false
	}
	atEnd := false
	lenOld := ToPoly(&Term{Op: "builtin", Sym: "len", Args: []*Term{{Op: "load", Args: []*Term{ptr}}}})
	for _, cd := range p.Conds {
		if pl, kind, isInt := cd.Rel().IntNorm(); isInt && kind == "=" && pl.Equal(canonSign(ToPoly(index).Add(lenOld, -1))) {
			atEnd = true
		}
	}
	if !atEnd {
		return false
	}
	var grown *Term
	held := 0
	for i := range p.Events {
		e := &p.Events[i]
		switch {
		case e.Kind == "store" && e.Addr.Key() == ptr.Key():
			if grown != nil {
				return false
			}
			grown = e.Val
		case e.Kind == "store" && e.Addr.Op == "iaddr" && e.Addr.Args[0].Op == "alloc":
			if e.Val.Key() != val.Key() || !e.Addr.Args[1].IsConst("0") {
				return false
			}
			held++
		case e.Kind == "call" && (e.Name == "builtin.append" || e.Name == "builtin.len"):
		default:
			return false
		}
	}
	if grown == nil || !(grown.Op == "builtin" && grown.Sym == "append" && len(grown.Args) == 2 && grown.Args[0].Op == "load" && grown.Args[0].Args[0].Key() == ptr.Key()) {
		return false
	}
	if multi {
		return grown.Args[1].Key() == val.Key()
	}
	arr := grown.Args[1]
	for arr != nil && arr.Op == "slice" {
		arr = arr.Args[0]
	}
	if arr == nil || arr.Op != "alloc" || held != 1 {
		return false
	}
	if pt, isP := arr.Typ.Underlying().(*types.Pointer); isP {
		if at, isA := pt.Elem().Underlying().(*types.Array); isA && at.Len() == 1 {
			return true
		}
	}
	return false
}

// c12ReverseOneIndex: Reverse written with one index: i runs over exactly the first half (a range over
// slice[:len/2], or 0 <= i < len/2 counted by one) and each iteration swaps slice[i] with slice[len-1-i], nothing else.
func c12ReverseOneIndex(ps []*Path, li *LoopInfo, s *Term) bool {
	ct := counted(li)
	if ct == nil || ct.Step != 1 || ct.Op != "<" || ct.First == nil {
		return false
	}
	if k, isC := ct.First.IsConst(); !isC || k != 0 {
		return false
	}
	lenS := &Term{Op: "builtin", Sym: "len", Args: []*Term{s}}
	half := func(t *Term) bool {
		return t != nil && t.Op == "bin" && t.Sym == "/" && len(t.Args) == 2 && t.Args[0].Key() == lenS.Key() && t.Args[1].IsConst("2")
	}
	// the bound: len/2, or the length of slice[:len/2]
	bd := ct.Bound
	if bd != nil && bd.Op == "builtin" && bd.Sym == "len" && len(bd.Args) == 1 {
		if over := bd.Args[0]; over.Op == "slice" && over.Args[0].Key() == s.Key() && (over.Args[1].Op == "none" || over.Args[1].IsConst("0")) {
			bd = over.Args[2]
		}
	}
	if !half(bd) {
		return false
	}
	it := struct{ idx *Term }{ct.Idx}
	if len(li.Back) != 1 {
		return false
	}
	p := li.Back[0]
	var sts []*Event
	for k := p.LoopAt[li.Hdr]; k < len(p.Events); k++ {
		e := &p.Events[k]
		switch {
		case e.Kind == "store" && e.Addr.Op == "alloc":
		case e.Kind == "call" && e.Name == "builtin.len":
		case e.Kind == "store":
			sts = append(sts, e)
		default:
			return false
		}
	}
	if len(sts) != 2 {
		return false
	}
	a, b := sts[0], sts[1]
	if a.Addr.Op != "iaddr" || b.Addr.Op != "iaddr" || a.Addr.Args[0].Key() != s.Key() || b.Addr.Args[0].Key() != s.Key() {
		return false
	}
	A, B := a.Addr.Args[1], b.Addr.Args[1]
	// values crossed, both read before either store (the first store's value is a load of the other cell taken at
	// entry, the second store's value the first cell's entry value)
	isLoadOf := func(v, idx *Term) bool {
		return v.Op == "load" && v.Args[0].Op == "iaddr" && v.Args[0].Args[0].Key() == s.Key() && ToPoly(v.Args[0].Args[1]).Equal(ToPoly(idx))
	}
	if !isLoadOf(a.Val, B) || !isLoadOf(b.Val, A) {
		return false
	}
	// mirror positions: A + B == len - 1, and one of them is the loop index
	if !ToPoly(A).Add(ToPoly(B), 1).Equal(ToPoly(lenS).Add(polyConst(1), -1)) {
		return false
	}
	return ToPoly(A).Equal(ToPoly(it.idx)) || ToPoly(B).Equal(ToPoly(it.idx))
}
