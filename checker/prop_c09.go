package main

import (
	"fmt"
	"go/types"
	"strings"
)

func init() {
	register(&propSpec{
		id:    "C09",
		level: "other",
		run:   runC09,
		explanation: "KeyedMutex/KeyedRWMutex map each key to one sync.Mutex/RWMutex stored in a sync2.Map. Per-key mutual exclusion on a never-seen key needs two racing callers to agree on ONE mutex; decided on every path of every method: " +
			"(single-loadorstore) exactly one operation on the key map per path, it is LoadOrStore, its key is the method's key and its value a freshly allocated mutex (a Load followed by Store is refuted: two goroutines would install two mutexes); " +
			"(operate-on-actual) the mutex operated on is the FIRST RESULT of that LoadOrStore (the one everybody agrees on), never the freshly allocated candidate; " +
			"(method-table) LockKey->Lock, TryLockKey->TryLock with its result returned, UnlockKey->Unlock, RLockKey->RLock, TryRLockKey->TryRLock, RUnlockKey->RUnlock, ClearKey->Delete(key); exactly one mutex operation per path; Try* call nothing that blocks; " +
			"(nothing-held-while-blocking) when the per-key Lock/RLock (the only blocking operation) is called no other lock is held, and there is no channel operation or callback, so waiting for one key cannot delay another; the map's own mutex is only held for bounded map code (map/no-callback-under-lock). " +
			"The atomicity of Map.LoadOrStore is covered by re-running all map protocol rules (prefix 'map/'). NOT decided: fairness; ClearKey under contention (excluded by the property).",
		assumptions: []string{"sync.Mutex/RWMutex contracts", "Map.LoadOrStore is atomic (necessary protocol conditions checked by the map/ rules)"},
	})
}

func runC09(c *Ctx) {
	R := c.R
	R.Rule("single-loadorstore", "each locking method performs exactly one operation on the key map per path: LoadOrStore(key, fresh mutex)", 9)
	R.Rule("operate-on-actual", "the mutex operated on is the first result of that LoadOrStore, not the freshly allocated one", 9)
	R.Rule("method-table", "each method calls exactly the matching sync.(RW)Mutex operation once; Try* return its result and never block; ClearKey = Delete(key)", 11)
	R.Rule("nothing-held-while-blocking", "no lock is held and no channel operation or callback occurs around the per-key blocking call", 9)

	table := []struct {
		typ, method, op string
		try             bool
	}{
		{"KeyedMutex", "LockKey", "sync.(*Mutex).Lock", false},
		{"KeyedMutex", "TryLockKey", "sync.(*Mutex).TryLock", true},
		{"KeyedMutex", "UnlockKey", "sync.(*Mutex).Unlock", false},
		{"KeyedRWMutex", "LockKey", "sync.(*RWMutex).Lock", false},
		{"KeyedRWMutex", "TryLockKey", "sync.(*RWMutex).TryLock", true},
		{"KeyedRWMutex", "UnlockKey", "sync.(*RWMutex).Unlock", false},
		{"KeyedRWMutex", "RLockKey", "sync.(*RWMutex).RLock", false},
		{"KeyedRWMutex", "TryRLockKey", "sync.(*RWMutex).TryRLock", true},
		{"KeyedRWMutex", "RUnlockKey", "sync.(*RWMutex).RUnlock", false},
	}
	for _, row := range table {
		name := "sync2.(*" + row.typ + ")." + row.method
		fi := c.fn("single-loadorstore", name)
		ps := c.paths("single-loadorstore", fi)
		if ps == nil {
			continue
		}
		mField := c.P.FieldOf("sync2", row.typ, "m")
		if mField == nil {
			R.Unproven("single-loadorstore", name, "anchor", "", "field m not found")
			continue
		}
		if n := c.P.NamedType("sync2", row.typ); n != nil {
			if st := n.Underlying().(*types.Struct); st.NumFields() != 1 {
				R.Refuted("single-loadorstore", name, "state", c.pos(fi), fmt.Sprintf("%s has %d fields; per-key state outside the map is not covered", row.typ, st.NumFields()))
			}
		}
		recv := paramOf(fi, 0)
		ok1, why1 := true, ""
		ok2, why2 := true, ""
		ok3, why3 := true, ""
		ok4, why4 := true, ""
		for _, p := range ps {
			var mapOps, mtxOps, others []*Event
			for i := range p.Events {
				e := &p.Events[i]
				switch {
				case e.Kind == "call" && len(e.Args) > 0 && isFieldAddr(e.Args[0], mField, recv):
					mapOps = append(mapOps, e)
				case e.Kind == "call" && (strings.HasPrefix(e.Name, "sync.(*Mutex).") || strings.HasPrefix(e.Name, "sync.(*RWMutex).")):
					mtxOps = append(mtxOps, e)
				case e.Kind == "store" && rootOf(e.Addr).Op == "alloc":
				default:
					others = append(others, e)
				}
			}
			// Load first, LoadOrStore only on a miss: the mutex of a key already in the map is found without allocating
			// a candidate; a first use still agrees on one mutex through LoadOrStore. Reduce both shapes to the single
			// deciding operation: the Load on its hit path, the LoadOrStore after a Load that missed.
			loadFirst := false
			if len(mapOps) >= 1 && mapOps[0].Name == "sync2.(*Map).Load" && len(mapOps[0].Args) == 2 && isParam(mapOps[0].Args[1], 1) && !(isUnlockRow(row.op) && len(mapOps) == 1) {
				ld := mapOps[0]
				hit := ""
				for _, cd := range p.Conds {
					t, pol := stripNot(cd.T, cd.Pol)
					if t.Op == "extract" && t.N == 1 && t.Args[0].Key() == ld.Res.Key() {
						hit = map[bool]string{true: "yes", false: "no"}[pol]
					}
				}
				switch {
				case hit == "yes" && len(mapOps) == 1:
					loadFirst = true
					// operate on the mutex the lookup found
					if len(mtxOps) != 1 || mtxOps[0].Name != row.op {
						ok3, why3 = false, "does not perform exactly "+row.op+" on the mutex found by Load"
					} else if mtxOps[0].Args[0].Key() != (&Term{Op: "extract", Args: []*Term{ld.Res}, N: 0}).Key() {
						ok2, why2 = false, "operates on "+mtxOps[0].Args[0].String()+", not on the mutex the lookup returned"
					} else if row.try && (p.End != EndReturn || len(p.Rets) != 1 || p.Rets[0].Key() != mtxOps[0].Res.Key()) {
						ok3, why3 = false, "does not return the Try operation's result"
					}
					if len(others) > 0 {
						ok4, why4 = false, "other effects around the per-key operation: "+others[0].String()
					}
					if len(p.Conds) != 1 {
						ok4, why4 = false, "the method branches on more than the lookup: "+p.CondString()
					}
					continue
				case hit == "no" && len(mapOps) == 2:
					loadFirst = true
					mapOps = mapOps[1:] // the LoadOrStore decides; judged below
				}
			}
			if len(mapOps) != 1 {
				names := []string{}
				for _, o := range mapOps {
					names = append(names, o.Name)
				}
				ok1, why1 = false, fmt.Sprintf("%d operations on the key map on one path (%s): racing callers of a new key can end up with different mutexes", len(mapOps), strings.Join(names, ", "))
				continue
			}
			mo := mapOps[0]
			isUnlock := strings.HasSuffix(row.op, ".Unlock") || strings.HasSuffix(row.op, ".RUnlock")
			if isUnlock && mo.Name == "sync2.(*Map).Load" && len(mo.Args) == 2 && isParam(mo.Args[1], 1) {
				// releasing: the key's mutex is in the map already if the key is held, so a plain Load finds the shared
				// mutex; a miss (the key was never locked) must not go on to operate on anything
				found := ""
				for _, cd := range p.Conds {
					t, pol := stripNot(cd.T, cd.Pol)
					if t.Op == "extract" && t.N == 1 && t.Args[0].Key() == mo.Res.Key() {
						found = map[bool]string{true: "yes", false: "no"}[pol]
					} else {
						ok4, why4 = false, "the method branches on something other than the lookup: "+p.CondString()
					}
				}
				switch found {
				case "no":
					if len(mtxOps) != 0 {
						ok3, why3 = false, "a key without a mutex is operated on all the same"
					}
				case "yes":
					actual := &Term{Op: "extract", Args: []*Term{mo.Res}, N: 0}
					if len(mtxOps) != 1 || mtxOps[0].Name != row.op {
						ok3, why3 = false, "does not perform exactly "+row.op+" on the mutex found"
					} else if mtxOps[0].Args[0].Key() != actual.Key() {
						ok2, why2 = false, "operates on "+mtxOps[0].Args[0].String()+", not on the mutex the lookup returned"
					}
				default:
					ok1, why1 = false, "the result of Load is used without testing that the key has a mutex"
				}
				if len(others) > 0 {
					ok4, why4 = false, "other effects around the per-key operation: "+others[0].String()
				}
				continue
			}
			if mo.Name != "sync2.(*Map).LoadOrStore" {
				ok1, why1 = false, "the key map operation is "+mo.Name+", not LoadOrStore"
				continue
			}
			if len(mo.Args) != 3 || !isParam(mo.Args[1], 1) {
				ok1, why1 = false, "LoadOrStore is not keyed by the method's key"
				continue
			}
			if mo.Args[2].Op != "alloc" {
				ok1, why1 = false, "the candidate value is not a freshly allocated mutex: "+mo.Args[2].String()
				continue
			}
			if len(mtxOps) != 1 {
				ok3, why3 = false, fmt.Sprintf("%d mutex operations on one path", len(mtxOps))
				continue
			}
			mx := mtxOps[0]
			if mx.Name != row.op {
				ok3, why3 = false, "calls "+mx.Name+", expected "+row.op
			}
			actual := &Term{Op: "extract", Args: []*Term{mo.Res}, N: 0}
			if mx.Args[0].Key() != actual.Key() {
				if mx.Args[0].Key() == mo.Args[2].Key() {
					ok2, why2 = false, "operates on the freshly allocated candidate mutex instead of the one LoadOrStore returned"
				} else {
					ok2, why2 = false, "operates on "+mx.Args[0].String()+", not on LoadOrStore's first result"
				}
			}
			if row.try {
				if p.End != EndReturn || len(p.Rets) != 1 || p.Rets[0].Key() != mx.Res.Key() {
					ok3, why3 = false, "does not return the Try operation's result"
				}
			}
			if len(others) > 0 {
				ok4, why4 = false, "other effects around the per-key operation: "+others[0].String()
			}
			if len(p.Conds) != 0 && !(loadFirst && len(p.Conds) == 1) {
				ok4, why4 = false, "the method branches: "+p.CondString()
			}
		}
		o := R.Decide(ok1, "single-loadorstore", name, "map-op", c.pos(fi), "one LoadOrStore(key, new mutex)", why1)
		if !ok1 {
			o.Breaks = "two goroutines using a new key at the same moment get two different mutexes: no mutual exclusion"
		}
		R.Decide(ok2 && ok1, "operate-on-actual", name, "mutex", c.pos(fi), "operates on LoadOrStore's first result", why2+map[bool]string{true: "", false: " (map operation not established)"}[ok1])
		R.Decide(ok3 && ok1, "method-table", name, "op", c.pos(fi), row.op, why3+map[bool]string{true: "", false: " (map operation not established)"}[ok1])
		R.Decide(ok4 && ok1, "nothing-held-while-blocking", name, "region", c.pos(fi), "nothing else happens around the per-key operation", why4+map[bool]string{true: "", false: " (map operation not established)"}[ok1])
	}
	for _, typ := range []string{"KeyedMutex", "KeyedRWMutex"} {
		name := "sync2.(*" + typ + ").ClearKey"
		fi := c.fn("method-table", name)
		ps := c.paths("method-table", fi)
		if ps == nil {
			continue
		}
		mField := c.P.FieldOf("sync2", typ, "m")
		recv := paramOf(fi, 0)
		ok := len(ps) == 1 && len(ps[0].Events) == 1 && ps[0].Events[0].Name == "sync2.(*Map).Delete" && isFieldAddr(ps[0].Events[0].Args[0], mField, recv) && isParam(ps[0].Events[0].Args[1], 1)
		R.Decide(ok, "method-table", name, "op", c.pos(fi), "Delete(key) on the key map", "ClearKey is not exactly Delete(key)")
	}
	runMapProtocol(c, "map/")
}

func isUnlockRow(op string) bool {
	return strings.HasSuffix(op, ".Unlock") || strings.HasSuffix(op, ".RUnlock")
}
