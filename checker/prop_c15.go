package main

import (
	"fmt"
	"go/types"
	"strings"
)

func init() {
	register(&propSpec{
		id:    "C15",
		level: "other",
		run:   runC15,
		explanation: "The sorting/searching helpers are adapters over sort.Sort/Stable/Reverse/Search and rand.Shuffle; with the documented contracts of those the property is exactly: right entry point, right adapter, right predicate. Decided from path summaries of every function: " +
			"(entry-table) each Sort* function makes exactly one call of sort.Sort (sort.Stable for the Stable variants) on an adapter value wrapping ITS slice (and its less), the net direction (adapter Less operand order combined with the number of sort.Reverse wrappers) is ascending/descending as promised; " +
			"(adapter) for the adapter type actually passed (resolved through types): Len = length of the wrapped slice, Swap(i,j) exchanges exactly positions i and j (both values read before either write), Less(i,j) is s[i]<s[j] or less(s[i],s[j]) - decided by order abstraction so that any equivalent spelling is accepted; " +
			"(search-predicate) BinarySearch/BinarySearchFunc return sort.Search over the whole length with the predicate 'element >= target' (evaluated under every ordering of element and target) resp. !less(element); " +
			"(shuffle) Shuffle calls rand.Shuffle, ShuffleRand calls the Shuffle METHOD OF ITS GENERATOR PARAMETER (the parameter shadows the package), both over the whole length with a closure swapping i and j of the slice. " +
			"NOT decided: that sort.Sort/Stable/Search and rand.Shuffle meet their contracts (trusted).",
		assumptions: []string{"documented contracts of sort.Sort, sort.Stable, sort.Reverse, sort.Search, rand.Shuffle, (*rand.Rand).Shuffle"},
	})
}

type adapterInfo struct {
	typeName string
	slice    *Term // term of the wrapped slice inside the value passed (param of the entry function)
	less     *Term // less function term or nil
}

func runC15(c *Ctx) {
	R := c.R
	R.Rule("entry-table", "each Sort* function makes exactly one call to sort.Sort (Stable variants: sort.Stable) on an adapter of its own slice; net direction is as promised", 6)
	R.Rule("adapter", "adapter types passed to sort: Len = len(wrapped), Swap exchanges exactly i and j, Less(i,j) = s[i]<s[j] resp. less(s[i],s[j]) (or exactly the reverse; nothing else)", 3)
	R.Rule("search-predicate", "BinarySearch = sort.Search(len(slice), element >= target); BinarySearchFunc = sort.Search(len(slice), !less(element))", 2)
	R.Rule("shuffle", "Shuffle = rand.Shuffle(len, swap i,j); ShuffleRand = generator.Shuffle(len, swap i,j) on the generator parameter", 2)

	adapterDirs := map[string]string{} // adapter type -> asc|desc
	checkAdapter := func(tn string) string {
		if d, ok := adapterDirs[tn]; ok {
			return d
		}
		d := c15Adapter(c, tn)
		adapterDirs[tn] = d
		return d
	}

	table := []struct {
		name   string
		stable bool
		desc   bool
		fn     bool
	}{
		{"slices.Sort", false, false, false},
		{"slices.SortFunc", false, false, true},
		{"slices.SortDesc", false, true, false},
		{"slices.SortDescFunc", false, true, true},
		{"slices.SortStableFunc", true, false, true},
		{"slices.SortStableDescFunc", true, true, true},
	}
	for _, row := range table {
		rule := "entry-table"
		fi := c.fn(rule, row.name)
		ps := c.paths(rule, fi)
		if ps == nil {
			continue
		}
		// an early return for slices of fewer than two elements is a no-op fast path: sorting them changes nothing.
		// Such a path (no effect at all, one condition that bounds len(slice) by 1) is set aside.
		if len(ps) == 2 {
			var rest []*Path
			lenS := ToPoly(&Term{Op: "builtin", Sym: "len", Args: []*Term{paramOf(fi, 0)}})
			for _, p := range ps {
				trivial := p.End == EndReturn && len(p.Conds) == 1 && len(p.Rets) == 0 &&
					impliesNonPositive(p.Conds[0].Rel(), lenS.Add(polyConst(1), -1))
				for i := range p.Events {
					if p.Events[i].Name != "builtin.len" {
						trivial = false
					}
				}
				if !trivial {
					rest = append(rest, p)
				}
			}
			if len(rest) == 1 {
				ps = rest
			}
		}
		if len(ps) != 1 {
			R.Unproven(rule, fi.Name, "call", c.pos(fi), fmt.Sprintf("%d paths; expected the single delegation to package sort", len(ps)))
			continue
		}
		p := ps[0]
		var sortCalls, revCalls, other []*Event
		for i := range p.Events {
			e := &p.Events[i]
			switch {
			case e.Kind == "store" && e.Addr.Op == "faddr" && e.Addr.Args[0].Op == "alloc":
			case e.Kind == "store" && e.Addr.Op == "alloc":
			case e.Kind == "call" && (e.Name == "sort.Sort" || e.Name == "sort.Stable"):
				sortCalls = append(sortCalls, e)
			case e.Kind == "call" && e.Name == "sort.Reverse":
				revCalls = append(revCalls, e)
			case e.Kind == "mkclosure":
				// a comparison closure wrapped around less: examined below
			case e.Kind == "call" && e.Name == "builtin.len":
				// pure
			default:
				other = append(other, e)
			}
		}
		if len(sortCalls) != 1 || len(other) != 0 {
			msg := "not exactly one sort.Sort/sort.Stable call"
			if len(other) > 0 {
				msg = "unexpected effect " + other[0].String()
			}
			R.Unproven(rule, fi.Name, "call", c.pos(fi), msg)
			continue
		}
		sc := sortCalls[0]
		// unwrap Reverse chain
		arg := sc.Args[0]
		nrev := 0
		for arg.Op == "call" && arg.Sym == "sort.Reverse" {
			nrev++
			arg = arg.Args[0]
		}
		if nrev != len(revCalls) {
			R.Unproven(rule, fi.Name, "call", c.pos(fi), "a sort.Reverse result is not what is sorted")
			continue
		}
		if arg.Op != "iface" {
			R.Unproven(rule, fi.Name, "call", c.pos(fi), "the sorted value is not an adapter value: "+arg.String())
			continue
		}
		ad := arg.Args[0]
		tn := arg.Sym
		// the adapter must wrap param 0 (and param 1 as less for Func variants)
		wrapsSlice, wrapsLess := false, !row.fn
		flipped := false
		if isParam(ad, 0) {
			wrapsSlice = true
		}
		if ad.Op == "struct" {
			for _, a := range ad.Args {
				if isParam(a, 0) {
					wrapsSlice = true
				}
				if isParam(a, 1) {
					wrapsLess = true
				}
				if a.Op == "closure" {
					// func(a, b) bool { return less(b, a) } (flipped) or less(a, b) (plain)
					for j := range p.Events {
						if p.Events[j].Kind == "mkclosure" && p.Events[j].Val.Key() == a.Key() {
							cp := c.An.ClosurePaths(&p.Events[j])
							if cp.Unproven == "" && len(cp.Paths) == 1 && len(cp.Paths[0].Rets) == 1 && len(cp.Paths[0].Events) == 1 {
								r := cp.Paths[0].Rets[0]
								x := &Term{Op: "param", N: 0, Fn: p.Events[j].SSAFn}
								y := &Term{Op: "param", N: 1, Fn: p.Events[j].SSAFn}
								if r.Op == "call" && r.Sym == "dyn" && len(r.Args) == 3 && isParam(r.Args[0], 1) {
									if r.Args[1].Key() == y.Key() && r.Args[2].Key() == x.Key() {
										wrapsLess, flipped = true, true
									} else if r.Args[1].Key() == x.Key() && r.Args[2].Key() == y.Key() {
										wrapsLess = true
									}
								}
							}
						}
					}
				}
			}
		}
		if !wrapsSlice || !wrapsLess {
			R.Refuted(rule, fi.Name, "call", c.pos(fi), "the adapter does not wrap the function's own slice"+map[bool]string{true: " and less function", false: ""}[row.fn]+": "+ad.String())
			continue
		}
		wantEntry := "sort.Sort"
		if row.stable {
			wantEntry = "sort.Stable"
		}
		if sc.Name != wantEntry {
			o := R.Refuted(rule, fi.Name, "call", c.ipos(sc.Instr), fmt.Sprintf("calls %s where %s is required", sc.Name, wantEntry))
			if row.stable {
				o.Breaks = "elements the order cannot distinguish lose their original relative order"
			}
			continue
		}
		dir := checkAdapter(tn)
		if dir == "" {
			R.Unproven(rule, fi.Name, "call", c.pos(fi), "adapter "+tn+" is not a recognised ordering adapter (see adapter obligations)")
			continue
		}
		net := dir
		if nrev%2 == 1 {
			net = map[string]string{"asc": "desc", "desc": "asc"}[net]
		}
		if flipped {
			net = map[string]string{"asc": "desc", "desc": "asc"}[net]
		}
		want := "asc"
		if row.desc {
			want = "desc"
		}
		R.Decide(net == want, rule, fi.Name, "call", c.ipos(sc.Instr),
			fmt.Sprintf("one %s on %s of its own slice, %d Reverse, net order %s", sc.Name, tn, nrev, net),
			fmt.Sprintf("net order is %s (adapter %s, %d sort.Reverse), promised %s", net, dir, nrev, want))
	}

	// ---- BinarySearch
	for _, bs := range []struct {
		name string
		fn   bool
	}{{"slices.BinarySearch", false}, {"slices.BinarySearchFunc", true}} {
		rule := "search-predicate"
		fi := c.fn(rule, bs.name)
		ps := c.paths(rule, fi)
		if ps == nil {
			continue
		}
		if bis, _ := lowerBoundBisection(ps); bis != nil {
			// the bisection of sort.Search written out
			slice := paramOf(fi, 0)
			good, whyB := isLenOf(bis.N, slice), "does not search the whole length of the slice"
			isElem := func(t *Term) bool {
				return t != nil && t.Op == "load" && t.Args[0].Op == "iaddr" && t.Args[0].Args[0].Key() == slice.Key() && stripConv(t.Args[0].Args[1]).Key() == bis.Mid.Key()
			}
			// before(cd): the condition says "the probed element is before the answer" (elem < target resp. less(elem))
			before := func(cd *Cond) (known, isBefore bool) {
				if cd == nil {
					return false, false
				}
				if bs.fn {
					t, pol := stripNot(cd.T, cd.Pol)
					if t.Op == "call" && t.Sym == "dyn" && len(t.Args) == 2 && isParam(t.Args[0], 1) && isElem(t.Args[1]) {
						return true, pol
					}
					return false, false
				}
				r := cd.Rel()
				value := paramOf(fi, 1)
				if r.B == nil {
					return false, false
				}
				switch {
				case isElem(r.A) && r.B.Key() == value.Key():
					switch r.Op {
					case "<":
						return true, true
					case ">=":
						return true, false
					}
				case isElem(r.B) && r.A.Key() == value.Key():
					switch r.Op {
					case ">":
						return true, true
					case "<=":
						return true, false
					}
				}
				return false, false
			}
			if good {
				k1, b1 := before(bis.probeCond(bis.Up))
				k2, b2 := before(bis.probeCond(bis.Down))
				if !(k1 && b1 && k2 && !b2) {
					good, whyB = false, "the bisection does not move lo past the probe exactly when the probed element is before the target"
				}
			}
			for _, p := range ps {
				for i := range p.Events {
					e := &p.Events[i]
					if (e.Kind == "call" && e.Name != "builtin.len" && !(e.Name == "dyn" && bs.fn)) || (e.Kind == "store" && e.Addr.Op != "alloc") {
						good, whyB = false, "unexpected effect "+e.String()
					}
				}
			}
			R.Decide(good, rule, fi.Name, "predicate", c.pos(fi), "hand-written bisection of sort.Search over len(slice): the first position whose element is not before the target", whyB)
			continue
		}
		// an assertion on sort.Search's result being inside [0, n] (its contract) cannot fire: such panic paths are set aside
		{
			var rest []*Path
			for _, p := range ps {
				drop := false
				if p.End == EndPanic && len(p.Conds) > 0 {
					last := p.Conds[len(p.Conds)-1].Rel()
					if pl, kind, isInt := last.IntNorm(); isInt && kind == ">" {
						for _, at := range pl.Atoms {
							if at.Op != "call" || at.Sym != "sort.Search" || len(at.Args) < 1 {
								continue
							}
							S, N := polyAtom(at), ToPoly(at.Args[0])
							if pl.Equal(polyConst(0).Add(S, -1)) || pl.Equal(S.Add(N, -1)) {
								drop = true
							}
						}
					}
				}
				if !drop {
					rest = append(rest, p)
				}
			}
			if len(rest) > 0 {
				ps = rest
			}
		}
		if len(ps) != 1 {
			R.Unproven(rule, fi.Name, "predicate", c.pos(fi), fmt.Sprintf("%d paths; expected the single delegation to sort.Search (an extra fast path must be shown to return the lower bound, which these rules cannot do)", len(ps)))
			continue
		}
		p := ps[0]
		calls := callsNamed(p, "sort.Search")
		mk := eventsOf(p, func(e *Event) bool { return e.Kind == "mkclosure" })
		if len(calls) != 1 || len(mk) != 1 || len(p.Rets) != 1 || p.Rets[0].Key() != calls[0].Res.Key() {
			R.Unproven(rule, fi.Name, "predicate", c.pos(fi), "does not return the result of one sort.Search call")
			continue
		}
		sc := calls[0]
		slice := paramOf(fi, 0)
		if !isLenOf(sc.Args[0], slice) {
			R.Refuted(rule, fi.Name, "predicate", c.ipos(sc.Instr), "searches over "+sc.Args[0].String()+" instead of the whole length of the slice")
			continue
		}
		if sc.Args[1].Key() != mk[0].Val.Key() {
			R.Unproven(rule, fi.Name, "predicate", c.pos(fi), "predicate is not the local closure")
			continue
		}
		cp := c.An.ClosurePaths(mk[0])
		if cp.Unproven != "" || len(cp.Paths) == 0 {
			R.Unproven(rule, fi.Name, "predicate", c.pos(fi), "cannot summarise the predicate: "+cp.Unproven)
			continue
		}
		iT := &Term{Op: "param", N: 0, Fn: mk[0].SSAFn}
		var elem *Term
		// find the element term slice[i]
		for _, q := range cp.Paths {
			for _, r := range q.Rets {
				r.Walk(func(x *Term) bool {
					if isElemOf(x, slice, iT) {
						elem = x
					}
					return true
				})
			}
			for _, cd := range q.Conds {
				cd.T.Walk(func(x *Term) bool {
					if isElemOf(x, slice, iT) {
						elem = x
					}
					return true
				})
			}
		}
		if elem == nil {
			R.Refuted(rule, fi.Name, "predicate", c.pos(fi), "the predicate does not look at slice[i]")
			continue
		}
		if !bs.fn {
			value := paramOf(fi, 1)
			bad, unk := "", ""
			for _, ranks := range weakOrderings(2) {
				o := Ordering{elem.Key(): ranks[0], value.Key(): ranks[1]}
				sel, u := feasible(cp.Paths, o, nil)
				if u != "" || len(sel) != 1 || len(sel[0].Rets) != 1 {
					unk = "cannot evaluate the predicate under " + orderingString([]string{"elem", "target"}, ranks) + " " + u
					break
				}
				ret := sel[0].Rets[0]
				got, ok := false, false
				if ret.Op == "const" {
					got, ok = ret.Sym == "true", true
				} else {
					got, ok = o.evalRel(NormRel(ret, true))
				}
				if !ok {
					unk = "predicate result not over element and target: " + ret.String()
					break
				}
				if got != (ranks[0] >= ranks[1]) {
					bad = fmt.Sprintf("for %s the predicate is %v; a lower-bound search needs element >= target", orderingString([]string{"elem", "target"}, ranks), got)
					break
				}
			}
			switch {
			case unk != "":
				R.Unproven(rule, fi.Name, "predicate", c.pos(fi), unk)
			case bad != "":
				o := R.Refuted(rule, fi.Name, "predicate", c.pos(fi), bad)
				o.Breaks = "returns an upper bound / wrong insertion point among duplicates"
			default:
				R.Held(rule, fi.Name, "predicate", c.pos(fi), "sort.Search(len(slice), slice[i] >= target) under all orderings")
			}
		} else {
			isLessCall := func(t *Term) bool {
				return t.Op == "call" && t.Sym == "dyn" && len(t.Args) == 2 && isParam(t.Args[0], 1) && t.Args[1].Key() == elem.Key()
			}
			ok := len(cp.Paths) >= 1
			for _, q := range cp.Paths {
				if len(q.Rets) != 1 {
					ok = false
					continue
				}
				if len(q.Conds) == 0 {
					r := NormRel(q.Rets[0], true)
					if !(r.Op == "false" && isLessCall(r.A)) {
						ok = false
					}
					continue
				}
				for _, cd := range q.Conds {
					t, pol := stripNot(cd.T, cd.Pol)
					if !isLessCall(t) || !q.Rets[0].IsConst(fmt.Sprint(!pol)) {
						ok = false
					}
				}
			}
			R.Decide(ok, rule, fi.Name, "predicate", c.pos(fi), "sort.Search(len(slice), !less(slice[i]))", "predicate is not !less(slice[i])")
		}
	}

	// ---- Shuffle
	for _, sh := range []struct {
		name   string
		callee string
		recv   bool
	}{{"slices.Shuffle", "math/rand.Shuffle", false}, {"slices.ShuffleRand", "math/rand.(*Rand).Shuffle", true}} {
		rule := "shuffle"
		fi := c.fn(rule, sh.name)
		ps := c.paths(rule, fi)
		if ps == nil {
			continue
		}
		if len(ps) != 1 {
			R.Unproven(rule, fi.Name, "call", c.pos(fi), "more than one path")
			continue
		}
		p := ps[0]
		var shuf []*Event
		for i := range p.Events {
			e := &p.Events[i]
			if e.Kind == "call" && strings.HasSuffix(e.Name, "Shuffle") {
				shuf = append(shuf, e)
			}
		}
		mk := eventsOf(p, func(e *Event) bool { return e.Kind == "mkclosure" })
		if len(shuf) != 1 || len(mk) != 1 {
			R.Unproven(rule, fi.Name, "call", c.pos(fi), "not exactly one Shuffle call with one closure")
			continue
		}
		e := shuf[0]
		if e.Name != sh.callee {
			o := R.Refuted(rule, fi.Name, "call", c.ipos(e.Instr), fmt.Sprintf("calls %s, expected %s", e.Name, sh.callee))
			if sh.recv {
				o.Breaks = "ShuffleRand ignores the supplied generator: not a deterministic function of it"
			}
			continue
		}
		args := e.Args
		if sh.recv {
			if !isParam(args[0], 1) {
				R.Refuted(rule, fi.Name, "call", c.ipos(e.Instr), "Shuffle is not called on the generator parameter")
				continue
			}
			args = args[1:]
		}
		slice := paramOf(fi, 0)
		okLen := isLenOf(args[0], slice)
		okSwap := false
		if len(mk) > 0 && args[1].Key() == mk[0].Val.Key() && strings.HasSuffix(mk[0].Val.Sym, "$bound") {
			// a method value adapter.Swap: the adapter's Swap must exchange i and j of a value wrapping the slice
			if target := boundTarget(mk[0].SSAFn); target != nil && len(mk[0].Val.Args) == 1 {
				recvT := mk[0].Val.Args[0]
				wraps := false
				if recvT.Op == "struct" {
					for _, a := range recvT.Args {
						if a.Key() == slice.Key() {
							wraps = true
						}
					}
				} else if recvT.Key() == slice.Key() {
					wraps = true
				}
				if tfi := c.P.BySSA[target]; tfi != nil && wraps && target.Name() == "Swap" {
					tps := c.An.PathsOf(target).Paths
					var w *Term
					rt := target.Params[0].Type()
					rp := &Term{Op: "param", N: 0, Fn: target}
					if _, isSl := rt.Underlying().(*types.Slice); isSl {
						w = rp
					} else if st, isSt := rt.Underlying().(*types.Struct); isSt {
						for k := 0; k < st.NumFields(); k++ {
							if _, isSl := st.Field(k).Type().Underlying().(*types.Slice); isSl {
								w = &Term{Op: "field", Args: []*Term{rp}, Obj: st.Field(k).Origin(), Typ: st.Field(k).Type()}
							}
						}
					}
					if w != nil && len(tps) == 1 {
						okSwap = isSwap(tps[0], w, &Term{Op: "param", N: 1, Fn: target}, &Term{Op: "param", N: 2, Fn: target})
					}
				}
			}
		} else if args[1].Key() == mk[0].Val.Key() {
			cp := c.An.ClosurePaths(mk[0])
			if cp.Unproven == "" && len(cp.Paths) == 1 {
				iT := &Term{Op: "param", N: 0, Fn: mk[0].SSAFn}
				jT := &Term{Op: "param", N: 1, Fn: mk[0].SSAFn}
				okSwap = isSwap(cp.Paths[0], slice, iT, jT)
			}
		}
		R.Decide(okLen && okSwap, rule, fi.Name, "call", c.ipos(e.Instr), e.Name+"(len(slice), swap slice[i],slice[j])",
			fmt.Sprintf("whole length: %v, closure swaps i and j of the slice: %v", okLen, okSwap))
	}
}

// isSwap: the path's only effects are the two stores exchanging over[i] and over[j], both values read before either write.
func isSwap(p *Path, over, i, j *Term) bool {
	var sts []*Event
	for k := range p.Events {
		e := &p.Events[k]
		if e.Kind == "store" && e.Addr.Op == "alloc" {
			continue // spill of a value receiver
		}
		if e.Kind == "call" && e.Name == "builtin.len" {
			continue
		}
		if e.Kind != "store" {
			return false
		}
		sts = append(sts, e)
	}
	if len(sts) != 2 || p.End != EndReturn {
		return false
	}
	isAddr := func(a *Term, idx *Term) bool {
		return a.Op == "iaddr" && a.Args[0].Key() == over.Key() && a.Args[1].Key() == idx.Key()
	}
	isVal := func(v *Term, idx *Term) bool {
		return v.Op == "load" && isAddr(v.Args[0], idx)
	}
	a, b := sts[0], sts[1]
	ok1 := isAddr(a.Addr, i) && isVal(a.Val, j) && isAddr(b.Addr, j) && isVal(b.Val, i)
	ok2 := isAddr(a.Addr, j) && isVal(a.Val, i) && isAddr(b.Addr, i) && isVal(b.Val, j)
	if !ok1 && !ok2 {
		return false
	}
	// both loads at the entry epoch (before either store)
	return a.Val.Ep == b.Val.Ep
}

// c15Adapter checks Len/Swap/Less of the adapter type and returns the direction of Less ("asc", "desc") or "".
func c15Adapter(c *Ctx, typeName string) string {
	rule := "adapter"
	// typeName like slices.sortLess[E]
	base := typeName
	if i := strings.Index(base, "["); i >= 0 {
		base = base[:i]
	}
	short := base
	if i := strings.LastIndex(base, "."); i >= 0 {
		short = base[i+1:]
	}
	find := func(m string) *FuncInfo {
		for _, pre := range []string{"slices.(" + short + ").", "slices.(*" + short + ")."} {
			if fi := c.P.Func(pre + m); fi != nil {
				return fi
			}
		}
		c.R.Unproven(rule, "slices."+short, m, "", "adapter method "+m+" not found")
		return nil
	}
	wrapped := func(fi *FuncInfo) *Term {
		// receiver itself if slice-typed, else its single slice-typed field
		recv := paramOf(fi, 0)
		rt := fi.SSA.Params[0].Type()
		if _, ok := rt.Underlying().(*types.Slice); ok {
			return recv
		}
		if st, ok := rt.Underlying().(*types.Struct); ok {
			for k := 0; k < st.NumFields(); k++ {
				if _, ok := st.Field(k).Type().Underlying().(*types.Slice); ok {
					return &Term{Op: "field", Args: []*Term{recv}, Obj: st.Field(k).Origin(), Typ: st.Field(k).Type()}
				}
			}
		}
		return nil
	}
	dir := ""
	okAll := true
	if fi := find("Len"); fi != nil {
		ps := c.paths(rule, fi)
		w := wrapped(fi)
		ok := ps != nil && w != nil && len(ps) == 1 && len(ps[0].Rets) == 1 && isLenOf(ps[0].Rets[0], w)
		c.R.Decide(ok, rule, fi.Name, "Len", c.pos(fi), "length of the wrapped slice", "Len is not len(wrapped slice)")
		okAll = okAll && ok
	} else {
		okAll = false
	}
	if fi := find("Swap"); fi != nil {
		ps := c.paths(rule, fi)
		w := wrapped(fi)
		ok := ps != nil && w != nil && len(ps) == 1 && isSwap(ps[0], w, paramOf(fi, 1), paramOf(fi, 2))
		c.R.Decide(ok, rule, fi.Name, "Swap", c.pos(fi), "exchanges exactly positions i and j", "Swap does not exchange exactly positions i and j of the wrapped slice")
		okAll = okAll && ok
	} else {
		okAll = false
	}
	if fi := find("Less"); fi != nil {
		ps := c.paths(rule, fi)
		w := wrapped(fi)
		verdict := Unproven
		msg := "Less not recognised"
		if ps != nil && w != nil {
			iT, jT := paramOf(fi, 1), paramOf(fi, 2)
			var ei, ej *Term
			collect := func(t *Term) {
				t.Walk(func(x *Term) bool {
					if isElemOf(x, w, iT) {
						ei = x
					}
					if isElemOf(x, w, jT) {
						ej = x
					}
					return true
				})
			}
			for _, p := range ps {
				for _, r := range p.Rets {
					collect(r)
				}
				for _, cd := range p.Conds {
					collect(cd.T)
				}
				for _, e := range p.Events {
					for _, a := range e.Args {
						if a != nil {
							collect(a)
						}
					}
				}
			}
			if ei == nil || ej == nil {
				verdict, msg = Refuted, "Less does not compare elements i and j of the wrapped slice"
			} else if len(ps) == 1 && len(ps[0].Rets) == 1 && ps[0].Rets[0].Op == "call" && ps[0].Rets[0].Sym == "dyn" {
				// less(s[i], s[j]) through a function field
				call := ps[0].Rets[0]
				if len(call.Args) == 3 && call.Args[1].Key() == ei.Key() && call.Args[2].Key() == ej.Key() {
					verdict, msg, dir = Held, "less(s[i], s[j])", "asc"
				} else if len(call.Args) == 3 && call.Args[1].Key() == ej.Key() && call.Args[2].Key() == ei.Key() {
					verdict, msg, dir = Held, "less(s[j], s[i])", "desc"
				} else {
					verdict, msg = Refuted, "Less calls the user function with unexpected arguments: "+call.String()
				}
			} else {
				// comparison: decide by order abstraction
				asc, desc := true, true
				for _, ranks := range weakOrderings(2) {
					o := Ordering{ei.Key(): ranks[0], ej.Key(): ranks[1]}
					sel, u := feasible(ps, o, nil)
					if u != "" || len(sel) != 1 || len(sel[0].Rets) != 1 {
						asc, desc = false, false
						msg = "cannot evaluate Less under an ordering: " + u
						break
					}
					ret := sel[0].Rets[0]
					got, ok := false, false
					if ret.Op == "const" {
						got, ok = ret.Sym == "true", true
					} else {
						got, ok = o.evalRel(NormRel(ret, true))
					}
					if !ok {
						asc, desc = false, false
						msg = "Less result is not a comparison of the two elements: " + ret.String()
						break
					}
					if got != (ranks[0] < ranks[1]) {
						asc = false
					}
					if got != (ranks[0] > ranks[1]) {
						desc = false
					}
				}
				switch {
				case asc:
					verdict, msg, dir = Held, "s[i] < s[j]", "asc"
				case desc:
					verdict, msg, dir = Held, "s[i] > s[j]", "desc"
				default:
					if !strings.HasPrefix(msg, "cannot") && !strings.HasPrefix(msg, "Less result") {
						verdict, msg = Refuted, "Less is neither s[i]<s[j] nor s[i]>s[j] (a non-strict or negated comparison is not a strict weak ordering; it breaks sort.Stable's guarantee)"
					}
				}
			}
		}
		c.R.add(rule, fi.Name, "Less", verdict, c.pos(fi), msg)
		okAll = okAll && verdict == Held
	} else {
		okAll = false
	}
	if !okAll {
		return ""
	}
	return dir
}
