package main

import (
	"fmt"
	"go/types"
	"sort"
	"strings"

	"golang.org/x/tools/go/ssa"
)

func init() {
	register(&propSpec{
		id:    "C02",
		level: "other",
		run:   runC02,
		explanation: "Decides, on all paths of the node-level functions of avl/avl.go, that the code is the textbook AVL update - the structural necessary conditions of 'every node's subtree heights differ by at most one': " +
			"(height-refresh) whenever a function stores to a child field of a node - or calls a shape-changing function on one of its children, which changes the subtree in place even when the same pointer comes back (a call whose change flag is false on the path is exempt) - and that node then flows upwards (is returned, stored as somebody's child, or handed to a function that may return it unchanged), its cached height has been recomputed by calcHeight after the last child store - otherwise the parent reads a stale height and never rotates; " +
			"(rebalance-on-return) every function that returns a subtree root after storing to one of its child fields returns the result of rebalance (or of a rotation) on it; (height-convention) the empty-subtree height returned by leftHeight/rightHeight is exactly one less than calcHeight of a leaf, a one-child node is 1 + that child's height, a two-child node 1 + max; " +
			"(rotation-table) balance() reports a lean exactly when the child heights differ by more than one, and rebalance maps (outer lean, STRICT sign of the heavy child's lean) to the four rotations - double rotation exactly when the heavy child leans the other way, single otherwise, nothing when balanced; rotations are classified structurally (which child is promoted; a double rotation rotates the child the other way first); " +
			"(rotation-heights) inside a rotation the demoted node is re-linked and re-heighted before the promoted node's height is computed. " +
			"NOT decided: the induction from these rules to |lean| <= 1 at every node and the 1.44*log2 depth bound; comparator-call counts.",
		assumptions: []string{"an AVL update built from these ingredients maintains balance (textbook argument, not machine-checked)"},
	})
}

func runC02(c *Ctx) {
	R := c.R
	R.Rule("height-refresh", "a node whose child field was stored has its height recomputed (calcHeight, after the last child store) before it flows upwards", 8)
	R.Rule("rebalance-on-return", "a function that stored to a child field of the subtree root it returns, returns rebalance(root) or a rotation of it", 3)
	R.Rule("max-helper", "typ.Max (which calcHeight uses for a node with two children) returns an argument that is >= all the others, under every ordering of its arguments (C20's row, re-run here)", 1)
	c20MinMaxRows(c, "max-helper", false, true)
	R.Rule("fresh-node-height", "every node allocated in the package starts with the cached height of its shape: the leaf height (empty+1) without children, calcHeight after the child stores otherwise", 1)
	R.Rule("leaf-insertion", "a node created on the insertion path (add, Tree.Add and the new helpers they call) is a leaf: it is given no existing subtree as a child - the height argument allows an insertion to grow a subtree by one level only", 1)
	R.Rule("rotation-shape", "single rotations: the returned tree is (L n RL) r RR for a left rotation, LL l (LR n R) for a right rotation, in terms of the entry state", 2)
	R.Rule("height-convention", "empty subtree = leaf height - 1; one child: 1 + its height; two children: 1 + max", 3)
	R.Rule("rotation-table", "balance leans iff heights differ by > 1; rebalance: heavy side + strict opposite lean of the heavy child -> double rotation, else single; balanced -> unchanged", 5)
	R.Rule("rotation-heights", "in a rotation the demoted node is linked under the promoted one and re-heighted before the promoted node's height is computed", 2)

	a := avlResolve(c, "height-refresh")
	if a == nil {
		return
	}
	nodeFuncs := []*FuncInfo{}
	for _, fi := range c.P.FuncsOfPkg("avl") {
		if strings.HasPrefix(fi.Name, "avl.(*node).") {
			nodeFuncs = append(nodeFuncs, fi)
		}
	}
	paths := map[*FuncInfo][]*Path{}
	for _, fi := range nodeFuncs {
		ps := c.paths("height-refresh", fi)
		if ps == nil {
			return
		}
		// an explicit panic for a missing child that the code is about to dereference anyway (rotating around a pivot
		// that is not there) is the nil dereference with a better message: not a path of its own
		var rest []*Path
		var pivot *types.Var
		var pivotTerm *Term
		for _, p := range ps {
			if p.End == EndPanic && len(p.Conds) == 1 && len(p.Events) == 0 {
				r := p.Conds[0].Rel()
				if r.B != nil && r.Op == "==" && r.B.IsNil() && (isFieldLoad(r.A, a.nLeft, paramOf(fi, 0)) || isFieldLoad(r.A, a.nRight, paramOf(fi, 0))) {
					pivot = a.nLeft
					if isFieldLoad(r.A, a.nRight, paramOf(fi, 0)) {
						pivot = a.nRight
					}
					pivotTerm = r.A
					continue
				}
			}
			rest = append(rest, p)
		}
		// every remaining path writes a field OF that child (the rotation re-links the pivot): it dereferences the child
		// whatever else it decides, so without the guard it would have panicked on nil just the same
		if pivot != nil {
			for _, p := range rest {
				writes := false
				for i := range p.Events {
					e := &p.Events[i]
					if e.Kind == "store" && e.Addr.Op == "faddr" {
						b := e.Addr.Args[0]
						ofCopy := b.Op == "field" && sameField(b.Obj, pivot) && len(b.Args) == 1 && b.Args[0].Op == "load" && b.Args[0].Args[0].Key() == paramOf(fi, 0).Key()
						if ofCopy || isFieldLoad(b, pivot, paramOf(fi, 0)) || b.ContainsKey(pivotTerm.Key()) {
							writes = true
						}
					}
				}
				if !writes {
					rest = nil
					break
				}
			}
		}
		// (only for straight-line functions - the rotations: what remains is a single path that dereferences the child
		// without any test, so the guard adds no case of its own)
		if pivot != nil && len(rest) > 0 {
			ps = rest
		}
		paths[fi] = ps
	}
	isChildAddr := func(t *Term) bool { return isFieldAddr(t, a.nLeft, nil) || isFieldAddr(t, a.nRight, nil) }

	// ---- height-store: whatever is written into a node's cached height is that same node's computed height
	R.Rule("height-store", "every store to the cached height of an existing node X writes calcHeight(X) - X's own height, not another node's, not a constant", 5)
	for _, fi := range nodeFuncs {
		ok, why := true, ""
		n := 0
		for _, p := range paths[fi] {
			for i := range p.Events {
				e := &p.Events[i]
				if e.Kind != "store" || !isFieldAddr(e.Addr, a.nHeight, nil) {
					continue
				}
				X := e.Addr.Args[0]
				if X.Op == "alloc" {
					continue // a node made here: fresh-node-height
				}
				n++
				v := e.Val
				if !(v.Op == "call" && strings.HasSuffix(v.Sym, "(*node).calcHeight") && len(v.Args) == 1 && v.Args[0].Key() == X.Key()) {
					ok, why = false, fmt.Sprintf("the height of %s is set to %s, which is not calcHeight of that node", X, v)
				}
			}
		}
		if n > 0 {
			o := R.Decide(ok, "height-store", fi.Name, "stores", c.pos(fi), "each height store is X.height = X.calcHeight()", why)
			if !ok {
				o.Breaks = "a node's cached height is wrong: later balance decisions above it are made on a false height"
			}
		}
	}

	// ---- classify rotations structurally
	// kind "L": returns the receiver's right child as new root (rotate left); "R": mirror
	kind := map[*FuncInfo]string{}
	for _, fi := range nodeFuncs {
		ps := paths[fi]
		if len(ps) == 0 {
			continue
		}
		k := ""
		all := true
		for _, p := range ps {
			if p.End != EndReturn || len(p.Rets) != 1 {
				all = false
				continue
			}
			r := p.Rets[0]
			recv := paramOf(fi, 0)
			promotes := func(t *Term, f *types.Var) bool {
				// field(load(n), f) [copy of *n] or load(&n.f)
				if t.Op == "field" && sameField(t.Obj, f) && t.Args[0].Op == "load" && t.Args[0].Args[0].Key() == recv.Key() {
					return true
				}
				return isFieldLoad(t, f, recv)
			}
			switch {
			case promotes(r, a.nRight):
				if k != "" && k != "L" {
					all = false
				}
				k = "L"
			case promotes(r, a.nLeft):
				if k != "" && k != "R" {
					all = false
				}
				k = "R"
			default:
				all = false
			}
		}
		if all && k != "" {
			// must also re-link: the demoted copy becomes the opposite child of the promoted node
			kind[fi] = k
		}
	}
	// doubles: store n.right <- R-rotation(n.right); return L-rotation(n)   => "RL" (for a right-heavy node)
	for _, fi := range nodeFuncs {
		if kind[fi] != "" {
			continue
		}
		ps := paths[fi]
		if len(ps) != 1 || len(ps[0].Rets) != 1 {
			continue
		}
		p := ps[0]
		recv := paramOf(fi, 0)
		r := p.Rets[0]
		if r.Op != "call" || len(r.Args) != 1 || r.Args[0].Key() != recv.Key() {
			continue
		}
		outer := c.P.Func(r.Sym)
		if outer == nil || kind[outer] == "" {
			continue
		}
		var childStore *Event
		n := 0
		for i := range p.Events {
			e := &p.Events[i]
			if e.Kind == "store" {
				n++
				childStore = e
			}
		}
		if n != 1 || !isChildAddr(childStore.Addr) || childStore.Addr.Args[0].Key() != recv.Key() {
			continue
		}
		v := childStore.Val
		if v.Op != "call" || len(v.Args) != 1 {
			continue
		}
		inner := c.P.Func(v.Sym)
		if inner == nil || kind[inner] == "" {
			continue
		}
		side := a.childField(childStore.Addr)
		// inner rotation applied to the same child it is stored into
		if !isFieldLoad(v.Args[0], map[string]*types.Var{"left": a.nLeft, "right": a.nRight}[side], recv) {
			continue
		}
		// right-heavy double: child = right, inner = R, outer = L
		if side == "right" && kind[inner] == "R" && kind[outer] == "L" {
			kind[fi] = "RL"
		}
		if side == "left" && kind[inner] == "L" && kind[outer] == "R" {
			kind[fi] = "LR"
		}
	}

	// ---- which callees may return their receiver unchanged (so a stale height escapes through them)
	mayReturnRecv := map[*FuncInfo]bool{}
	for _, fi := range nodeFuncs {
		recv := paramOf(fi, 0)
		for _, p := range paths[fi] {
			for _, r := range p.Rets {
				if r.Key() == recv.Key() {
					mayReturnRecv[fi] = true
				}
			}
		}
	}
	// transitively: returns the result of a callee that may return ITS receiver, called on our receiver
	for changed := true; changed; {
		changed = false
		for _, fi := range nodeFuncs {
			if mayReturnRecv[fi] {
				continue
			}
			recv := paramOf(fi, 0)
			for _, p := range paths[fi] {
				for _, r := range p.Rets {
					if r.Op == "call" && len(r.Args) > 0 && r.Args[0].Key() == recv.Key() {
						if cal := c.P.Func(r.Sym); cal != nil && mayReturnRecv[cal] {
							mayReturnRecv[fi] = true
							changed = true
						}
					}
				}
			}
		}
	}

	// ---- which functions change the shape or the heights below their receiver (directly or through a callee)
	mutates := map[*FuncInfo]bool{}
	for changed := true; changed; {
		changed = false
		for _, fi := range nodeFuncs {
			if mutates[fi] {
				continue
			}
			for _, p := range paths[fi] {
				for i := range p.Events {
					e := &p.Events[i]
					if e.Kind == "store" && (isChildAddr(e.Addr) || isFieldAddr(e.Addr, a.nHeight, nil)) {
						mutates[fi] = true
					}
					if e.Kind == "call" {
						if cal := c.P.BySSA[e.SSAFn]; cal != nil && mutates[cal] {
							mutates[fi] = true
						}
					}
				}
			}
			if mutates[fi] {
				changed = true
			}
		}
	}

	// reportsChange: a function with a boolean result that is the constant true on every path that may change anything
	// (by induction over the call depth: a recursive call whose flag is false on the path has changed nothing). A call of
	// such a function whose flag is known false on a path is not a modification.
	reportsChange := map[*FuncInfo]int{}
	flagFalse := func(p *Path, e *Event, k int) bool {
		if e.Res == nil {
			return false
		}
		fk := (&Term{Op: "extract", Args: []*Term{e.Res}, N: k}).Key()
		for _, cd := range p.Conds {
			t, pol := stripNot(cd.T, cd.Pol)
			if t.Key() == fk && !pol {
				return true
			}
		}
		return false
	}
	for _, fi := range nodeFuncs {
		if !mutates[fi] {
			continue
		}
		res := fi.SSA.Signature.Results()
		for k := 0; k < res.Len(); k++ {
			if b, isB := res.At(k).Type().Underlying().(*types.Basic); !isB || b.Kind() != types.Bool {
				continue
			}
			all := true
			for _, p := range paths[fi] {
				mut := false
				for i := range p.Events {
					e := &p.Events[i]
					if e.Kind == "store" && (isChildAddr(e.Addr) || isFieldAddr(e.Addr, a.nHeight, nil)) {
						mut = true
					}
					if e.Kind == "call" {
						if cal := c.P.BySSA[e.SSAFn]; cal != nil && mutates[cal] && !(cal == fi && flagFalse(p, e, k)) {
							mut = true
						}
					}
				}
				if mut && !(p.End == EndReturn && k < len(p.Rets) && p.Rets[k].IsConst("true")) {
					all = false
				}
			}
			if all {
				reportsChange[fi] = k
				break
			}
		}
	}

	// ---- height-refresh & rebalance-on-return
	type res struct {
		ok  bool
		why string
		pos ssa.Instruction
	}
	hr := map[string]*res{}
	var hrOrder []string
	for _, fi := range nodeFuncs {
		rbOK, rbWhy, rbAny := true, "", false
		for _, p := range paths[fi] {
			// child stores per node
			lastChildStore := map[string]int{}
			nodes := map[string]*Term{}
			for i := range p.Events {
				e := &p.Events[i]
				if e.Kind == "store" && isChildAddr(e.Addr) {
					X := e.Addr.Args[0]
					lastChildStore[X.Key()] = i
					nodes[X.Key()] = X
				}
				// a shape-changing function called on X's child changes X's subtree in place, whether or not the child
				// pointer is stored back: it counts as a modification of X at this point
				if e.Kind == "call" && len(e.Args) > 0 && e.Args[0].Op == "load" && isChildAddr(e.Args[0].Args[0]) {
					cal := c.P.BySSA[e.SSAFn]
					k, reports := reportsChange[cal]
					if cal != nil && mutates[cal] && !(reports && flagFalse(p, e, k)) {
						X := e.Args[0].Args[0].Args[0]
						lastChildStore[X.Key()] = i
						nodes[X.Key()] = X
					}
				}
			}
			for key, X := range nodes {
				last := lastChildStore[key]
				// escape points after the last child store
				escapes := []struct {
					idx  int
					what string
					in   ssa.Instruction
				}{}
				for i := last + 1; i < len(p.Events); i++ {
					e := &p.Events[i]
					if e.Kind == "store" && isChildAddr(e.Addr) && e.Val.Key() == X.Key() {
						escapes = append(escapes, struct {
							idx  int
							what string
							in   ssa.Instruction
						}{i, "is linked as a child", e.Instr})
					}
					if e.Kind == "call" && len(e.Args) > 0 && e.Args[0].Key() == X.Key() {
						if cal := c.P.BySSA[e.SSAFn]; cal != nil && mayReturnRecv[cal] {
							escapes = append(escapes, struct {
								idx  int
								what string
								in   ssa.Instruction
							}{i, "is handed to " + cal.Obj.Name() + ", which may return it unchanged", e.Instr})
						}
					}
				}
				if p.End == EndReturn {
					for _, r := range p.Rets {
						if r.Key() == X.Key() {
							escapes = append(escapes, struct {
								idx  int
								what string
								in   ssa.Instruction
							}{len(p.Events), "is returned", nil})
						}
					}
				}
				// a local copy (alloc) that escapes by address: &prevRoot stored as child
				for _, esc := range escapes {
					refreshed := false
					for i := last + 1; i < esc.idx && i < len(p.Events); i++ {
						e := &p.Events[i]
						if e.Kind == "store" && isFieldAddr(e.Addr, a.nHeight, X) && e.Val.Op == "call" && strings.HasSuffix(e.Val.Sym, "(*node).calcHeight") && e.Val.Args[0].Key() == X.Key() {
							// the calcHeight call itself must come after the last child store
							for j := last + 1; j <= i; j++ {
								if p.Events[j].Kind == "call" && p.Events[j].Res != nil && p.Events[j].Res.Key() == e.Val.Key() {
									refreshed = true
								}
							}
						}
					}
					// handed to a function that may return it unchanged, whose result is re-heighted right afterwards: what
					// comes back - the node itself or the root of a rotation - has its height recomputed before it flows
					// upwards, provided the callee does not itself consume the receiver's cached height
					if !refreshed && strings.HasPrefix(esc.what, "is handed to") && esc.idx < len(p.Events) {
						call := &p.Events[esc.idx]
						if cal := c.P.BySSA[call.SSAFn]; cal != nil && call.Res != nil && !readsOwnHeight(c, cal, a) {
							for i := esc.idx + 1; i < len(p.Events); i++ {
								e := &p.Events[i]
								if e.Kind == "store" && isFieldAddr(e.Addr, a.nHeight, call.Res) && e.Val.Op == "call" && strings.HasSuffix(e.Val.Sym, "(*node).calcHeight") && e.Val.Args[0].Key() == call.Res.Key() {
									refreshed = true
								}
								// the result must not flow anywhere before that
								if !refreshed && e.Kind == "store" && e.Val != nil && e.Val.Key() == call.Res.Key() {
									break
								}
							}
						}
					}
					k := fi.Name + "\x00" + "node-" + nodeLabel(X) + "/" + strings.Fields(esc.what)[1]
					r, has := hr[k]
					if !has {
						r = &res{ok: true, pos: p.Events[last].Instr}
						hr[k] = r
						hrOrder = append(hrOrder, k)
					}
					if !refreshed {
						r.ok = false
						if p.Events[last].Kind == "call" {
							r.why = fmt.Sprintf("after %s changed its subtree in place, node %s %s without its height having been recomputed (path: %s)", p.Events[last].Name, nodeLabel(X), esc.what, p.CondString())
						} else {
							r.why = fmt.Sprintf("after its %s child is stored, node %s %s without its height having been recomputed (path: %s)", a.childField(p.Events[last].Addr), nodeLabel(X), esc.what, p.CondString())
						}
					}
				}
			}
			// rebalance-on-return: the returned root had a child stored here -> must come back through rebalance/rotation
			if p.End == EndReturn && len(p.Rets) > 0 && kind[fi] == "" {
				for _, r := range p.Rets {
					if r.Typ == nil || !strings.Contains(typeStr(r.Typ), "avl.node") {
						continue
					}
					// direct return of a node whose child was stored on this path
					if _, stored := nodes[r.Key()]; stored {
						rbAny = true
						rbOK, rbWhy = false, fmt.Sprintf("returns %s itself after storing one of its children: the subtree is never rebalanced on this path (%s)", nodeLabel(r), p.CondString())
					}
					if r.Op == "call" && len(r.Args) > 0 {
						if _, stored := nodes[r.Args[0].Key()]; stored {
							rbAny = true
							cal := c.P.Func(r.Sym)
							isReb := cal != nil && (strings.HasSuffix(r.Sym, "(*node).rebalance") || kind[cal] != "")
							if !isReb {
								rbOK, rbWhy = false, fmt.Sprintf("returns %s of the modified node, which is neither rebalance nor a rotation", r.Sym)
							}
						}
					}
				}
			}
		}
		if rbAny {
			o := R.Decide(rbOK, "rebalance-on-return", fi.Name, "returns", c.pos(fi), "every modified subtree root is returned through rebalance", rbWhy)
			if !rbOK {
				o.Breaks = "a node whose subtree heights differ by two is left in place"
			}
		}
	}
	sort.Strings(hrOrder)
	for _, k := range hrOrder {
		r := hr[k]
		parts := strings.SplitN(k, "\x00", 2)
		if r.ok {
			R.Held("height-refresh", parts[0], parts[1], c.ipos(r.pos), "height recomputed after the last child store, before the node flows upwards")
		} else {
			o := R.Refuted("height-refresh", parts[0], parts[1], c.ipos(r.pos), r.why)
			o.Breaks = "ancestors compute balance factors from a stale height and miss a lean of two: no rotation happens (sorted input builds a chain)"
		}
	}

	// ---- height-convention
	cNil := map[string]*Term{}
	for _, side := range []struct {
		name string
		f    *types.Var
	}{{"avl.(*node).leftHeight", a.nLeft}, {"avl.(*node).rightHeight", a.nRight}} {
		fi := c.fn("height-convention", side.name)
		if fi == nil {
			continue
		}
		ps := paths[fi]
		recv := paramOf(fi, 0)
		ok, why := len(ps) == 2, "expected the nil row and the child row"
		for _, p := range ps {
			if len(p.Conds) != 1 || len(p.Rets) != 1 {
				ok, why = false, "unexpected shape"
				continue
			}
			r := p.Conds[0].Rel()
			if r.B == nil || !r.B.IsNil() || !isFieldLoad(r.A, side.f, recv) {
				ok, why = false, "does not test its own child for nil"
				continue
			}
			if r.Op == "==" {
				if p.Rets[0].Op != "const" {
					ok, why = false, "the empty-subtree height is not a constant"
				} else {
					cNil[side.name] = p.Rets[0]
				}
			} else {
				ch := &Term{Op: "load", Args: []*Term{{Op: "faddr", Args: []*Term{recv}, Obj: side.f}}}
				if !(isFieldLoad(p.Rets[0], a.nHeight, nil) && p.Rets[0].Args[0].Args[0].Op == "load" && isFieldAddr(p.Rets[0].Args[0].Args[0].Args[0], side.f, recv)) {
					ok, why = false, "does not return the child's cached height"
				}
				_ = ch
			}
		}
		R.Decide(ok, "height-convention", side.name, "rows", c.pos(fi), "nil -> constant, else the child's height", why)
	}
	if fi := c.fn("height-convention", "avl.(*node).calcHeight"); fi != nil {
		ps := paths[fi]
		recv := paramOf(fi, 0)
		ok, why := true, ""
		l, r := cNil["avl.(*node).leftHeight"], cNil["avl.(*node).rightHeight"]
		if l == nil || r == nil || l.Sym != r.Sym {
			ok, why = false, "leftHeight and rightHeight disagree on the height of an empty subtree"
		} else {
			cn, _ := l.IntVal()
			for _, p := range ps {
				if len(p.Rets) != 1 {
					ok, why = false, "path does not return"
					continue
				}
				ln, rn := "", ""
				for _, cd := range p.Conds {
					rl := cd.Rel()
					if rl.B != nil && rl.B.IsNil() {
						if isFieldLoad(rl.A, a.nLeft, recv) {
							ln = rl.Op
						}
						if isFieldLoad(rl.A, a.nRight, recv) {
							rn = rl.Op
						}
					}
				}
				pl := ToPoly(p.Rets[0])
				isCall := func(t *Term, suffix string) bool {
					return t.Op == "call" && strings.HasSuffix(t.Sym, suffix) && len(t.Args) >= 1 && t.Args[0].Key() == recv.Key()
				}
				isMax := func(t *Term) bool {
					if !(t.Op == "call" && strings.HasSuffix(t.Sym, "typ.Max")) || len(t.Args) != 1 {
						return false
					}
					// the variadic array must hold exactly this node's two child heights
					arr := t.Args[0]
					for arr != nil && arr.Op == "slice" {
						arr = arr.Args[0]
					}
					sawL, sawR, other := false, false, false
					for i := range p.Events {
						e := &p.Events[i]
						if e.Kind == "store" && e.Addr.Op == "iaddr" && arr != nil && e.Addr.Args[0].Key() == arr.Key() {
							switch {
							case isCall(e.Val, "leftHeight"):
								sawL = true
							case isCall(e.Val, "rightHeight"):
								sawR = true
							default:
								other = true
							}
						}
					}
					return sawL && sawR && !other
				}
				onePlus := func(pred func(*Term) bool) bool {
					if pl.M[""] != 1 || len(pl.M) != 2 {
						return false
					}
					for k, cf := range pl.M {
						if k != "" && cf == 1 && pred(pl.Atoms[k]) {
							return true
						}
					}
					return false
				}
				switch {
				case ln == "==" && rn == "==":
					if v, isC := pl.IsConst(); !isC || v != cn+1 {
						ok, why = false, fmt.Sprintf("a leaf has height %s but an empty subtree has height %d: they must differ by exactly one (a node whose only child has height 1 would count as balanced)", p.Rets[0], cn)
					}
				case ln == "==" && rn == "!=":
					if !onePlus(func(t *Term) bool { return isCall(t, "rightHeight") }) && !onePlus(isMax) {
						ok, why = false, "right child only: height is not 1 + rightHeight"
					}
				case ln == "!=" && rn == "==":
					if !onePlus(func(t *Term) bool { return isCall(t, "leftHeight") }) && !onePlus(isMax) {
						ok, why = false, "left child only: height is not 1 + leftHeight"
					}
				case ln == "!=" && rn == "!=":
					if !onePlus(isMax) {
						ok, why = false, "two children: height is not 1 + max(leftHeight, rightHeight)"
					}
				default:
					// no nil special-casing: 1 + max throughout is the same table given the convention
					if !onePlus(isMax) {
						ok, why = false, "unrecognised height computation: "+p.Rets[0].String()
					}
				}
			}
		}
		o := R.Decide(ok, "height-convention", fi.Name, "table", c.pos(fi), "leaf = empty + 1; one child: 1 + child; two: 1 + max", why)
		if !ok {
			o.Breaks = "balance factors are off by one on one side: chains of depth two are never rotated"
		}
	}

	// ---- rotation-table: balance()
	leanConst := map[string]string{} // const -> "L" (left heavy) / "R" / "0"
	if fi := c.fn("rotation-table", "avl.(*node).balance"); fi != nil {
		ps := paths[fi]
		recv := paramOf(fi, 0)
		ok, why := true, ""
		for _, p := range ps {
			if len(p.Rets) != 1 || p.Rets[0].Op != "const" {
				ok, why = false, "balance does not return constants"
				continue
			}
			// facts: LH - RH - 1 > 0 => left heavy ; RH - LH - 1 > 0 => right heavy ; else balanced
			verdict := "0"
			for _, cd := range p.Conds {
				rl := cd.Rel()
				pl, k, isInt := rl.IntNorm()
				if !isInt || k != ">" {
					ok, why = false, "unexpected test "+rl.String()
					continue
				}
				var lh, rh *Term
				for _, at := range pl.Atoms {
					if at.Op == "call" && strings.HasSuffix(at.Sym, "leftHeight") && at.Args[0].Key() == recv.Key() {
						lh = at
					}
					if at.Op == "call" && strings.HasSuffix(at.Sym, "rightHeight") && at.Args[0].Key() == recv.Key() {
						rh = at
					}
				}
				if lh == nil || rh == nil || len(pl.Atoms) != 2 {
					ok, why = false, "balance compares something other than the two child heights"
					continue
				}
				cl, cr, k0 := pl.Coef(lh.Key()), pl.Coef(rh.Key()), pl.M[""]
				switch {
				case cl == 1 && cr == -1 && k0 == -1: // LH - RH > 1
					verdict = "L"
				case cl == -1 && cr == 1 && k0 == -1: // RH - LH > 1
					verdict = "R"
				case cl == -1 && cr == 1 && k0 == 2, cl == 1 && cr == -1 && k0 == 2:
					// negation of a lean test: LH-RH <= 1  <=> RH - LH + 2 > 0
				default:
					ok, why = false, "the lean threshold is not 'heights differ by more than one': "+rl.String()
				}
			}
			if prev, has := leanConst[p.Rets[0].Sym]; has && prev != verdict {
				ok, why = false, "the same constant is returned for different leans"
			}
			leanConst[p.Rets[0].Sym] = verdict
		}
		if ok {
			seen := map[string]bool{}
			for _, v := range leanConst {
				seen[v] = true
			}
			if !(seen["L"] && seen["R"] && seen["0"]) {
				ok, why = false, "balance does not distinguish left-heavy, right-heavy and balanced"
			}
		}
		R.Decide(ok, "rotation-table", fi.Name, "threshold", c.pos(fi), "left-heavy iff LH-RH > 1, right-heavy iff RH-LH > 1, else balanced", why)
	}
	// ---- rotation-table: rebalance
	if fi := c.fn("rotation-table", "avl.(*node).rebalance"); fi != nil {
		ps := paths[fi]
		recv := paramOf(fi, 0)
		rows := map[string]bool{}
		ok, why := true, ""
		for _, p := range ps {
			if len(p.Rets) != 1 {
				ok, why = false, "path does not return"
				continue
			}
			// outer lean from conditions on balance(n)
			outer := ""
			unknownOuter := false
			for _, cd := range p.Conds {
				rl := cd.Rel()
				if rl.B == nil || rl.B.Op != "const" {
					continue
				}
				if rl.A.Op == "call" && strings.HasSuffix(rl.A.Sym, "(*node).balance") && rl.A.Args[0].Key() == recv.Key() {
					lean, known := leanConst[rl.B.Sym]
					if !known {
						unknownOuter = true
						continue
					}
					if rl.Op == "==" {
						outer = lean
					}
				}
			}
			if unknownOuter {
				ok, why = false, "rebalance compares balance() with a constant balance() never returns"
				continue
			}
			if outer == "" {
				// balanced: both leans excluded by tests of balance(n) - or the node's own (refreshed) height is below two,
				// which leaves no room for subtrees that differ by two
				notR, notL, isBal, low := false, false, false, false
				for _, cd := range p.Conds {
					rl := cd.Rel()
					if rl.B != nil && rl.B.Op == "const" && rl.A.Op == "call" && strings.HasSuffix(rl.A.Sym, "(*node).balance") && rl.A.Args[0].Key() == recv.Key() {
						lean := leanConst[rl.B.Sym]
						switch {
						case rl.Op == "!=" && lean == "R":
							notR = true
						case rl.Op == "!=" && lean == "L":
							notL = true
						case rl.Op == "==" && lean != "R" && lean != "L":
							isBal = true
						}
					}
					if pl, k, isInt := rl.IntNorm(); isInt {
						for _, at := range pl.Atoms {
							if isFieldLoad(at, a.nHeight, recv) {
								h := ToPoly(at)
								if k == ">" && (pl.Equal(polyConst(2).Add(h, -1)) || pl.Equal(polyConst(1).Add(h, -1))) {
									low = true // height < 2, height < 1
								}
								if k == "=" && (pl.Equal(canonSign(h)) || pl.Equal(canonSign(h.Add(polyConst(1), -1)))) {
									low = true // height == 0, height == 1
								}
							}
						}
					}
				}
				if !(notR && notL) && !isBal && !low {
					ok, why = false, "a path ("+p.CondString()+") leaves the node as it is without having found it balanced"
					continue
				}
				outer = "0"
			}
			// inner: strict comparison between the heavy child's two heights
			heavy := map[string]*types.Var{"R": a.nRight, "L": a.nLeft}[outer]
			inner := "" // "opp" (child leans the other way), "same-or-even"
			childNil := false
			for _, cd := range p.Conds {
				rl := cd.Rel()
				if rl.B != nil && rl.B.IsNil() && heavy != nil && isFieldLoad(rl.A, heavy, recv) && rl.Op == "==" {
					childNil = true
				}
				pl, k, isInt := rl.IntNorm()
				if !isInt || k != ">" || heavy == nil {
					continue
				}
				var lh, rh *Term
				for _, at := range pl.Atoms {
					if at.Op == "call" && strings.HasSuffix(at.Sym, "leftHeight") && isFieldLoad(at.Args[0], heavy, recv) {
						lh = at
					}
					if at.Op == "call" && strings.HasSuffix(at.Sym, "rightHeight") && isFieldLoad(at.Args[0], heavy, recv) {
						rh = at
					}
				}
				if lh == nil || rh == nil {
					// the pinned defect: inner test through balance() (needs a lean of two)
					continue
				}
				cl, cr, k0 := pl.Coef(lh.Key()), pl.Coef(rh.Key()), pl.M[""]
				// opposite lean for a right-heavy node: child's LH > RH  (LH - RH > 0)
				type sg struct{ cl, cr, k int64 }
				oppStrict := sg{1, -1, 0}
				notOpp := sg{-1, 1, 1} // RH - LH + 1 > 0  <=> LH <= RH
				if outer == "L" {
					oppStrict = sg{-1, 1, 0}
					notOpp = sg{1, -1, 1}
				}
				got := sg{cl, cr, k0}
				switch got {
				case oppStrict:
					inner = "opp"
				case notOpp:
					inner = "not-opp"
				default:
					ok, why = false, fmt.Sprintf("the %s-heavy case chooses its rotation by %s; the double rotation is needed exactly when the heavy child leans the other way (strictly)", map[string]string{"L": "left", "R": "right"}[outer], rl.String())
				}
			}
			// inner test via balance() of the child (threshold two): wrong
			for _, cd := range p.Conds {
				rl := cd.Rel()
				if rl.A != nil && rl.A.Op == "call" && strings.HasSuffix(rl.A.Sym, "(*node).balance") && heavy != nil && isFieldLoad(rl.A.Args[0], heavy, recv) {
					ok, why = false, "the rotation is chosen by balance() of the heavy child, which only reports a lean of two or more - a state a child of an AVL node is never in"
				}
			}
			// what is returned
			ret := p.Rets[0]
			action := "?"
			if ret.Key() == recv.Key() {
				action = "none"
			} else if ret.Op == "call" && len(ret.Args) == 1 && ret.Args[0].Key() == recv.Key() {
				if cal := c.P.Func(ret.Sym); cal != nil && kind[cal] != "" {
					action = kind[cal]
				}
			}
			want := ""
			switch {
			case outer == "0":
				want = "none"
			case outer == "R" && inner == "opp":
				want = "RL"
			case outer == "R" && (inner == "not-opp" || childNil):
				want = "L"
			case outer == "L" && inner == "opp":
				want = "LR"
			case outer == "L" && (inner == "not-opp" || childNil):
				want = "R"
			default:
				if ok {
					ok, why = false, fmt.Sprintf("a %s-heavy path does not test the lean of its heavy child", outer)
				}
				continue
			}
			rows[outer+"/"+inner] = true
			if action != want {
				ok, why = false, fmt.Sprintf("for lean=%s, heavy child %s: rebalance performs %s, the AVL table requires %s", outer, inner, action, want)
			}
		}
		for _, need := range []string{"0/", "R/opp", "R/not-opp", "L/opp", "L/not-opp"} {
			if ok && !rows[need] {
				ok, why = false, "missing table row "+need
			}
		}
		o := R.Decide(ok, "rotation-table", fi.Name, "rows", c.pos(fi), "5 rows: balanced->none; right-heavy: child leans left->double, else single left; mirrored", why)
		if !ok {
			o.Breaks = "a zig-zag gets a single rotation (stays unbalanced) or an even child gets a double rotation (leaves an unbalanced node behind after a deletion)"
		}
	}
	// rotations recognised
	for _, want := range []string{"L", "R", "RL", "LR"} {
		found := ""
		for fi, k := range kind {
			if k == want {
				found = fi.Name
			}
		}
		R.Decide(found != "", "rotation-table", "avl.(*node)", "rotation-"+want, "", "rotation of kind "+want+": "+found, "no function implements the "+want+" rotation structurally")
		if found != "" {
			R.Cover(found, "rotation-table")
		}
	}
	// ---- leaf-insertion: what an insertion creates is a leaf
	{
		family := map[*FuncInfo]bool{}
		var q []*FuncInfo
		for _, n := range []string{"avl.(*node).add", "avl.(*Tree).Add"} {
			if fi := c.P.Func(n); fi != nil {
				family[fi] = true
				q = append(q, fi)
			}
		}
		for len(q) > 0 {
			f := q[0]
			q = q[1:]
			for _, g := range c.P.calleesOf(f, false) {
				if g != nil && !family[g] && g.Pkg == f.Pkg && !c.An.Baseline[g.Name] {
					family[g] = true
					q = append(q, g)
				}
			}
		}
		var fam []*FuncInfo
		for fi := range family {
			fam = append(fam, fi)
		}
		sort.Slice(fam, func(i, j int) bool { return fam[i].Name < fam[j].Name })
		for _, fi := range fam {
			fp := c.An.PathsOf(fi.SSA)
			if fp.Unproven != "" {
				continue
			}
			ok, why := true, ""
			for _, p := range fp.Paths {
				for i := range p.Events {
					e := &p.Events[i]
					if e.Kind != "store" {
						continue
					}
					if e.Addr.Op == "alloc" && e.Val != nil && e.Val.Op == "struct" && isNodeStructType(a, e.Val.Typ) {
						st := e.Val.Typ.Underlying().(*types.Struct)
						for k := 0; k < st.NumFields() && k < len(e.Val.Args); k++ {
							f := st.Field(k)
							if v := e.Val.Args[k]; (sameField(f, a.nLeft) || sameField(f, a.nRight)) && !v.IsNil() && !isZeroish(v) {
								ok, why = false, "the new node is created with "+v.String()+" as its "+f.Name()+" child"
							}
						}
					}
					if e.Addr.Op == "faddr" && e.Addr.Args[0].Op == "alloc" && isNodePtrType(a, e.Addr.Args[0].Typ) &&
						(sameField(e.Addr.Obj, a.nLeft) || sameField(e.Addr.Obj, a.nRight)) && !e.Val.IsNil() && !isZeroish(e.Val) {
						ok, why = false, "the new node is given "+e.Val.String()+" as a child"
					}
				}
			}
			o := R.Decide(ok, "leaf-insertion", fi.Name, "allocs", c.pos(fi), "every node created on the insertion path is a leaf", why+": a node put on top of an existing subtree is not an insertion at a leaf - the subtree below it can be two or more levels taller than its empty other side, which one rotation does not repair")
			if !ok {
				o.Breaks = "the tree is no longer height-balanced after inserting (e.g. an equal value)"
			}
		}
	}
	// ---- fresh-node-height: a node created in the package starts with the height its shape has
	{
		leaf := int64(-999)
		if l := cNil["avl.(*node).leftHeight"]; l != nil {
			if v, okc := l.IntVal(); okc {
				leaf = v + 1
			}
		}
		for _, fi := range c.P.FuncsOfPkg("avl") {
			fp := c.An.PathsOf(fi.SSA)
			if fp.Unproven != "" {
				continue
			}
			ok, why := true, ""
			nAlloc := 0
			seen := map[string]bool{}
			for _, p := range fp.Paths {
				type info struct {
					copyOf      bool
					children    int
					lastChild   int
					heightStore *Event
					heightIdx   int
				}
				nodes := map[string]*info{}
				var order []string
				get := func(t *Term) *info {
					k := t.Key()
					if nodes[k] == nil {
						nodes[k] = &info{lastChild: -1, heightIdx: -1}
						order = append(order, k)
					}
					return nodes[k]
				}
				for i := range p.Events {
					e := &p.Events[i]
					if e.Kind != "store" {
						continue
					}
					if e.Addr.Op == "alloc" && e.Val != nil && isNodeStructType(a, e.Val.Typ) {
						in := get(e.Addr)
						if e.Val.Op == "load" {
							in.copyOf = true
						} else if e.Val.Op == "struct" {
							st := e.Val.Typ.Underlying().(*types.Struct)
							for k := 0; k < st.NumFields() && k < len(e.Val.Args); k++ {
								f := st.Field(k)
								v := e.Val.Args[k]
								if (sameField(f, a.nLeft) || sameField(f, a.nRight)) && !v.IsNil() && !isZeroish(v) {
									in.children++
									in.lastChild = i
								}
								if sameField(f, a.nHeight) && !isZeroish(v) {
									in.heightStore, in.heightIdx = e, i
								}
							}
						}
						continue
					}
					if e.Addr.Op == "faddr" && e.Addr.Args[0].Op == "alloc" && isNodePtrType(a, e.Addr.Args[0].Typ) {
						in := get(e.Addr.Args[0])
						switch {
						case sameField(e.Addr.Obj, a.nLeft), sameField(e.Addr.Obj, a.nRight):
							if !e.Val.IsNil() && !isZeroish(e.Val) {
								in.children++
								in.lastChild = i
							}
						case sameField(e.Addr.Obj, a.nHeight):
							in.heightStore, in.heightIdx = e, i
						}
					}
				}
				for _, k := range order {
					in := nodes[k]
					if in.copyOf {
						continue // a copy of an existing node: height-refresh covers its child stores
					}
					if !seen[k] {
						seen[k] = true
						nAlloc++
					}
					isCalc := in.heightStore != nil && in.heightStore.Val != nil && in.heightStore.Val.Op == "call" && strings.HasSuffix(in.heightStore.Val.Sym, "calcHeight")
					switch {
					case in.children == 0:
						var hv int64
						if in.heightStore != nil && !isCalc {
							v, okc := in.heightStore.Val.IntVal()
							if !okc {
								ok, why = false, "a new leaf's height is set to "+in.heightStore.Val.String()+", which is not known to be the leaf height"
								continue
							}
							hv = v
						}
						if !isCalc && hv != leaf {
							ok, why = false, fmt.Sprintf("a new leaf starts with height %d, but calcHeight gives a leaf %d (empty subtree + 1): its parent's balance is computed from a wrong height", hv, leaf)
						}
					default:
						if !isCalc || in.heightIdx < in.lastChild {
							ok, why = false, "a new node is given children but its cached height is not computed from them (calcHeight after the child stores): every such node claims to be a leaf"
						}
					}
				}
			}
			if nAlloc == 0 {
				continue
			}
			o := R.Decide(ok, "fresh-node-height", fi.Name, "allocs", c.pos(fi), fmt.Sprintf("%d node allocation(s) start with the height of their shape", nAlloc), why)
			if !ok {
				o.Breaks = "stale cached heights: rotations are skipped or misapplied in trees built through this path"
			}
		}
	}
	// ---- rotation-shape: a single rotation promotes the heavy child and re-hangs the three subtrees in order
	for _, fi := range nodeFuncs {
		k := kind[fi]
		if k != "L" && k != "R" {
			continue
		}
		recv := paramOf(fi, 0)
		ok, why := true, ""
		for _, p := range paths[fi] {
			if p.End != EndReturn || len(p.Rets) != 1 {
				continue
			}
			s := newShapeEnv(a, p, func(string) bool { return false })
			s.paren = true
			T := func(x *Term) string { return join(s.seq(shapeMem{}, x, 1)) }
			nl, nr := a.initLoad(recv, a.nLeft), a.initLoad(recv, a.nRight)
			vn := "V(" + nodeKey(a.initLoad(recv, a.nValue)) + ")"
			var want string
			if k == "L" {
				r := nr
				vr := "V(" + nodeKey(a.initLoad(r, a.nValue)) + ")"
				want = "( ( " + T(nl) + " " + vn + " " + T(a.initLoad(r, a.nLeft)) + " ) " + vr + " " + T(a.initLoad(r, a.nRight)) + " )"
			} else {
				l := nl
				vl := "V(" + nodeKey(a.initLoad(l, a.nValue)) + ")"
				want = "( " + T(a.initLoad(l, a.nLeft)) + " " + vl + " ( " + T(a.initLoad(l, a.nRight)) + " " + vn + " " + T(nr) + " ) )"
			}
			got := join(s.seq(s.final(), p.Rets[0], 0))
			if got != want {
				ok, why = false, fmt.Sprintf("on path (%s) the returned tree has the shape %s; a %s-rotation yields %s", p.CondString(), got, map[string]string{"L": "left", "R": "right"}[k], want)
			}
		}
		o := R.Decide(ok, "rotation-shape", fi.Name, "relink", c.pos(fi), "the heavy child becomes the root, the old root its inner child, the three subtrees keep their order", why)
		if !ok {
			o.Breaks = "the rotation does not reduce the lean (or loses a subtree): balance is not restored"
		}
	}
	// ---- rotation-heights
	for fi, k := range kind {
		if k != "L" && k != "R" {
			continue
		}
		ps := paths[fi]
		ok, why := true, ""
		for _, p := range ps {
			// promoted node = returned term; demoted = local copy (alloc)
			prom := p.Rets[0]
			var demoted *Term
			linkIdx, demHeightIdx, promCalcIdx, promHeightIdx := -1, -1, -1, -1
			for i := range p.Events {
				e := &p.Events[i]
				if e.Kind == "store" && isChildAddr(e.Addr) && e.Addr.Args[0].Key() == prom.Key() && e.Val.Op == "alloc" {
					demoted = e.Val
					linkIdx = i
				}
			}
			if demoted == nil {
				ok, why = false, "the demoted node is not linked under the promoted one"
				continue
			}
			for i := range p.Events {
				e := &p.Events[i]
				if e.Kind == "store" && isFieldAddr(e.Addr, a.nHeight, demoted) {
					demHeightIdx = i
				}
				if e.Kind == "call" && strings.HasSuffix(e.Name, "calcHeight") && e.Args[0].Key() == prom.Key() {
					promCalcIdx = i
				}
				if e.Kind == "store" && isFieldAddr(e.Addr, a.nHeight, prom) {
					promHeightIdx = i
				}
			}
			if demHeightIdx < 0 || promCalcIdx < 0 || promHeightIdx < 0 {
				ok, why = false, "a height is not recomputed"
			} else if !(demHeightIdx < promCalcIdx && linkIdx < promCalcIdx && promCalcIdx < promHeightIdx) {
				ok, why = false, "the promoted node's height is computed before the demoted node is linked and re-heighted"
			}
		}
		R.Decide(ok, "rotation-heights", fi.Name, "order", c.pos(fi), "demoted: relink, height; then promoted: link, height", why)
	}
	R.Rule("state-frame", "who may write: only the functions that the height and rotation rules model (add, remove, popLeftMost, the rotations, Tree.Add) store to the height, left or right of an existing node; every other function of the package (calcHeight, balance, the walkers, ...) stores to none of them", 30)
	avlFrame(c, a, "state-frame", []*types.Var{a.nHeight, a.nLeft, a.nRight}, "shape/height", "height-refresh", "rebalance-on-return", "rotation-shape", "rotation-heights", "rotation-table", "fresh-node-height")
}

func nodeLabel(t *Term) string {
	s := t.String()
	if len(s) > 40 {
		s = s[:40]
	}
	return strings.ReplaceAll(s, " ", "")
}

func isNodeStructType(a *avlAnchors, t types.Type) bool {
	if t == nil {
		return false
	}
	st, ok := t.Underlying().(*types.Struct)
	if !ok {
		return false
	}
	for i := 0; i < st.NumFields(); i++ {
		if sameField(st.Field(i), a.nLeft) {
			return true
		}
	}
	return false
}

// readsOwnHeight: some path of fi reads the cached height field of its own receiver (directly; reading the children's
// heights through leftHeight/rightHeight is the normal case and does not count).
func readsOwnHeight(c *Ctx, fi *FuncInfo, a *avlAnchors) bool {
	fp := c.An.PathsOf(fi.SSA)
	if fp.Unproven != "" {
		return true
	}
	recv := paramOf(fi, 0)
	isOwn := func(t *Term) bool {
		return t != nil && t.Contains(func(x *Term) bool {
			if x.Op == "load" && len(x.Args) == 1 && isFieldAddr(x.Args[0], a.nHeight, recv) {
				return true
			}
			return x.Op == "field" && sameField(x.Obj, a.nHeight) && len(x.Args) == 1 && x.Args[0].Key() == recv.Key()
		})
	}
	for _, p := range fp.Paths {
		for _, cd := range p.Conds {
			if isOwn(cd.T) {
				return true
			}
		}
		for i := range p.Events {
			e := &p.Events[i]
			if e.Kind == "store" && isFieldAddr(e.Addr, a.nHeight, recv) {
				continue
			}
			if isOwn(e.Val) {
				return true
			}
			for _, x := range e.Args {
				if isOwn(x) {
					return true
				}
			}
		}
		for _, r := range p.Rets {
			if isOwn(r) {
				return true
			}
		}
	}
	return false
}
