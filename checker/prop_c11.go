package main

import (
	"fmt"
	"go/types"
	"strings"
)

func init() {
	register(&propSpec{
		id:    "C11",
		level: "other",
		run:   runC11,
		explanation: "Decided on all paths of maps/bimap.go: every write to one index is paired with the matching write to the other on the same path, stale partners are evicted, and the two maps do not escape. " +
			"(views) Len/Get*/Contains* are single lookups in the matching map returning that lookup's own results, Range iterates forward and stops on false, Clear clears both maps; " +
			"(paired-insert) every forward[k]=v has reverse[v]=k with the same two values on the same path, and vice versa; (paired-delete) every delete of a key in one map is paired, on the same path, with the delete (or overwrite) of its partner in the other, the partner being obtained by a lookup whose presence flag is true on that path; " +
			"(evict-stale) every path of Add decides BOTH 'key already mapped' and 'value already mapped' and evicts the old value's reverse entry resp. the old key's forward entry before inserting; (who-may-write / no-escape) only Add/RemoveForward/RemoveReverse/Clear write the maps and no method hands them out; (clone-detached) Clone returns fresh copies of both maps on every path. " +
			"NOT decided: the inductive step from paired writes to 'inverse bijections after every history' (an argument about runtime state; immediate for Go maps).",
		assumptions: []string{"Go map semantics (delete of a missing key is a no-op; lookups return the zero value and false when absent)"},
	})
}

func runC11(c *Ctx) {
	R := c.R
	R.Rule("views", "Len = len(forward); Get*/Contains* = one lookup in the matching map; Range walks forward and stops on false; Clear clears both", 7)
	R.Rule("paired-insert", "forward[k]=v and reverse[v]=k always come together with the same k, v", 1)
	R.Rule("paired-delete", "a delete in one map comes with the delete/overwrite of its partner in the other; the partner comes from a lookup known to have hit", 3)
	R.Rule("remove-effective", "RemoveForward/RemoveReverse leave the maps untouched only where a lookup missed (or the partner found does not point back)", 2)
	R.Rule("evict-stale", "Add decides both collisions on every path and evicts the stale reverse/forward entries before inserting", 1)
	R.Rule("who-may-write", "only Add, RemoveForward, RemoveReverse and Clear write the maps; none of the methods returns them", 1)
	R.Rule("clone-detached", "Clone returns fresh copies of both maps on every path", 2)

	fF := c.P.FieldOf("maps", "Bimap", "forward")
	fR := c.P.FieldOf("maps", "Bimap", "reverse")
	if fF == nil || fR == nil {
		R.Unproven("views", "maps.Bimap", "anchor", "", "fields forward/reverse not found")
		return
	}
	R.Rule("lazy-init", "forward and reverse are (re)created together and only when absent; entries are inserted only into a map that exists on that path", 1)
	c11LazyInit(c, fF, fR)
	// which map is a term? "F", "R" or ""
	mapKind := func(p *Path, recv *Term, t *Term) string {
		if t == nil {
			return ""
		}
		if isFieldLoad(t, fF, recv) {
			return "F"
		}
		if isFieldLoad(t, fR, recv) {
			return "R"
		}
		// a fresh map stored into the field on this path
		for i := range p.Events {
			e := &p.Events[i]
			if e.Kind == "store" && e.Val.Key() == t.Key() {
				if isFieldAddr(e.Addr, fF, recv) {
					return "F"
				}
				if isFieldAddr(e.Addr, fR, recv) {
					return "R"
				}
			}
		}
		return ""
	}
	// ---- views
	type view struct {
		name string
		kind string // map
		ret  string // "both" | "ok"
	}
	lookupFn := map[string]string{} // function name -> "F"/"R" for Get*
	for _, v := range []view{{"GetForward", "F", "both"}, {"GetReverse", "R", "both"}, {"ContainsForward", "F", "ok"}, {"ContainsReverse", "R", "ok"}} {
		fi := c.fn("views", "maps.(*Bimap)."+v.name)
		ps := c.paths("views", fi)
		if ps == nil {
			continue
		}
		recv := paramOf(fi, 0)
		ok := len(ps) == 1 && len(ps[0].Events) == 0
		if ok {
			p := ps[0]
			var lk *Term
			for _, r := range p.Rets {
				r.Walk(func(x *Term) bool {
					if x.Op == "lookup" {
						lk = x
					}
					return true
				})
			}
			ok = lk != nil && mapKind(p, recv, lk.Args[0]) == v.kind && isParam(lk.Args[1], 1) && lk.Sym == "commaok"
			if ok {
				e0 := &Term{Op: "extract", Args: []*Term{lk}, N: 0}
				e1 := &Term{Op: "extract", Args: []*Term{lk}, N: 1}
				if v.ret == "both" {
					ok = len(p.Rets) == 2 && p.Rets[0].Key() == e0.Key() && p.Rets[1].Key() == e1.Key()
				} else {
					ok = len(p.Rets) == 1 && p.Rets[0].Key() == e1.Key()
				}
			}
		}
		R.Decide(ok, "views", fi.Name, "lookup", c.pos(fi), "one comma-ok lookup of the argument in the "+map[string]string{"F": "forward", "R": "reverse"}[v.kind]+" map, its own results returned", "is not a single lookup in the matching map returning that lookup's results")
		if ok && v.ret == "both" {
			lookupFn["maps.(*Bimap)."+v.name] = v.kind
		}
	}
	if fi := c.fn("views", "maps.(*Bimap).Len"); fi != nil {
		if ps := c.paths("views", fi); ps != nil {
			recv := paramOf(fi, 0)
			ok := true
			saw := false
			for _, p := range ps {
				if len(p.Rets) != 1 {
					ok = false
					continue
				}
				r := p.Rets[0]
				if r.Op == "builtin" && r.Sym == "len" && isFieldLoad(r.Args[0], fF, recv) {
					saw = true
				} else if !(r.IsConst("0") && len(p.Conds) == 1 && p.Conds[0].Rel().Op == "==" && isParam(p.Conds[0].Rel().A, 0)) {
					ok = false
				}
			}
			R.Decide(ok && saw, "views", fi.Name, "len", c.pos(fi), "len(forward), 0 for a nil receiver", "Len is not len(forward)")
		}
	}
	if fi := c.fn("views", "maps.(*Bimap).Range"); fi != nil {
		if ps := c.paths("views", fi); ps != nil {
			recv := paramOf(fi, 0)
			cb := paramOf(fi, 1)
			ok, why := true, ""
			sawStop := false
			for _, p := range ps {
				for i := range p.Events {
					e := &p.Events[i]
					switch {
					case e.Kind == "range":
						if !isFieldLoad(e.Addr, fF, recv) {
							ok, why = false, "iterates something other than the forward map"
						}
					case e.Kind == "next":
					case e.Kind == "call" && e.Name == "dyn" && e.Callee.Key() == cb.Key():
						nx := e.Args[0]
						if !(len(e.Args) == 2 && nx.Op == "extract" && nx.N == 1 && e.Args[1].Op == "extract" && e.Args[1].N == 2 && nx.Args[0].Key() == e.Args[1].Args[0].Key()) {
							ok, why = false, "the callback does not get the iteration's key and value"
						}
						resFalse := false
						for _, cd := range p.Conds {
							t, pol := stripNot(cd.T, cd.Pol)
							if t.Key() == e.Res.Key() && !pol {
								resFalse = true
								if p.End == EndLoopBack {
									ok, why = false, "keeps iterating after the callback returned false"
								} else {
									sawStop = true
								}
							}
						}
						if p.End != EndLoopBack && !resFalse {
							ok, why = false, "stops although the callback did not return false: the remaining pairs are never visited"
						}
					default:
						ok, why = false, "unexpected effect "+e.String()
					}
				}
			}
			if ok && !sawStop {
				ok, why = false, "the callback's result does not stop the iteration"
			}
			R.Decide(ok, "views", fi.Name, "iterate", c.pos(fi), "ranges over forward, stops when the callback returns false", why)
		}
	}
	// maps.Clear / maps.Clone helpers
	clearOK := false
	if fi := c.fn("views", "maps.Clear"); fi != nil {
		if ps := c.paths("views", fi); ps != nil {
			m := paramOf(fi, 0)
			clearOK = true
			dels := 0
			for _, p := range ps {
				for i := range p.Events {
					e := &p.Events[i]
					switch {
					case e.Kind == "range" && e.Addr.Key() == m.Key(), e.Kind == "next":
					case e.Kind == "call" && e.Name == "builtin.delete" && e.Args[0].Key() == m.Key() && e.Args[1].Op == "extract" && e.Args[1].N == 1 && e.Args[1].Args[0].Op == "next":
						dels++
						if p.End != EndLoopBack {
							clearOK = false
						}
					default:
						clearOK = false
					}
				}
			}
			clearOK = clearOK && dels == 1
			R.Decide(clearOK, "views", fi.Name, "deletes-all", c.pos(fi), "deletes every key it ranges over", "maps.Clear does not delete every key of its argument")
		}
	}
	cloneOK := false
	if fi := c.fn("clone-detached", "maps.Clone"); fi != nil {
		if ps := c.paths("clone-detached", fi); ps != nil {
			m := paramOf(fi, 0)
			cloneOK = true
			var fresh *Term
			copies := 0
			for _, p := range ps {
				for i := range p.Events {
					e := &p.Events[i]
					switch {
					case e.Kind == "range" && e.Addr.Key() == m.Key(), e.Kind == "next", e.Kind == "call" && e.Name == "builtin.len":
					case e.Kind == "mapupdate" && e.Addr.Op == "mkmap" && e.Key.Op == "extract" && e.Key.N == 1 && e.Val.Op == "extract" && e.Val.N == 2 && e.Key.Args[0].Key() == e.Val.Args[0].Key():
						copies++
						fresh = e.Addr
					default:
						cloneOK = false
					}
				}
				if p.End == EndReturn {
					if len(p.Rets) != 1 || p.Rets[0].Op != "mkmap" {
						// nil in -> nil out is fine too
						if !(len(p.Rets) == 1 && p.Rets[0].IsNil()) {
							cloneOK = false
						}
					} else if fresh != nil && p.Rets[0].Key() != fresh.Key() {
						cloneOK = false
					}
				}
			}
			cloneOK = cloneOK && copies == 1
			o := R.Decide(cloneOK, "clone-detached", fi.Name, "fresh", c.pos(fi), "returns a freshly made map holding every entry of the argument", "maps.Clone does not return a fresh map with all entries (it may return its argument)")
			if !cloneOK {
				o.Breaks = "a clone shares storage with its original"
			}
		}
	}
	if fi := c.fn("views", "maps.(*Bimap).Clear"); fi != nil {
		if ps := c.paths("views", fi); ps != nil {
			recv := paramOf(fi, 0)
			ok := len(ps) == 1 && clearOK
			if len(ps) > 1 {
				// written out as two delete-everything loops
				f, r := c11ClearingLoops(ps, recv, fF, fR)
				if len(f) > 0 && len(r) > 0 && len(findLoops(ps)) == 2 {
					R.Held("views", fi.Name, "both", c.pos(fi), "clears forward and reverse (two delete-everything loops)")
					goto clearDone
				}
			}
			if ok {
				seen := map[string]bool{}
				for i := range ps[0].Events {
					e := &ps[0].Events[i]
					if e.Kind == "call" && e.Name == "maps.Clear" {
						seen[mapKind(ps[0], recv, e.Args[0])] = true
					} else if e.Kind == "store" && (isFieldAddr(e.Addr, fF, recv) || isFieldAddr(e.Addr, fR, recv)) && (e.Val.IsNil() || e.Val.Op == "mkmap") {
						seen[map[bool]string{true: "F", false: "R"}[isFieldAddr(e.Addr, fF, recv)]] = true
					} else {
						ok = false
					}
				}
				ok = ok && seen["F"] && seen["R"]
			}
			R.Decide(ok, "views", fi.Name, "both", c.pos(fi), "clears forward and reverse", "Clear does not clear both maps")
		clearDone:
		}
	}

	// ---- pairing rules over all methods of Bimap
	writers := map[string]bool{}
	insOK, insWhy := true, ""
	nIns := 0
	for _, fi := range c.P.FuncsOfPkg("maps") {
		if !strings.HasPrefix(fi.Name, "maps.(*Bimap).") && !strings.HasPrefix(fi.Name, "maps.(Bimap).") {
			continue
		}
		ps := c.paths("paired-insert", fi)
		if ps == nil {
			continue
		}
		recv := paramOf(fi, 0)
		delOK, delWhy := true, ""
		nDel := 0
		remOK, remWhy := true, ""
		nRem := 0
		// clearing loops: for k := range m { delete(m, k) } over the forward and over the reverse map
		clearKey := map[string]bool{}
		cleared := map[string]bool{}
		{
			f, r := c11ClearingLoops(ps, recv, fF, fR)
			for k := range f {
				clearKey[k] = true
				cleared["F"] = true
			}
			for k := range r {
				clearKey[k] = true
				cleared["R"] = true
			}
		}
		clearsBoth := cleared["F"] && cleared["R"]
		for _, p := range ps {
			type ins struct{ k, v *Term }
			var fIns, rIns []ins
			type del struct {
				kind string
				key  *Term
				idx  int
			}
			var dels []del
			for i := range p.Events {
				e := &p.Events[i]
				if e.Kind == "mapupdate" {
					switch mapKind(p, recv, e.Addr) {
					case "F":
						fIns = append(fIns, ins{e.Key, e.Val})
						writers[fi.Name] = true
					case "R":
						rIns = append(rIns, ins{e.Val, e.Key})
						writers[fi.Name] = true
					}
				}
				if e.Kind == "call" && e.Name == "builtin.delete" {
					if k := mapKind(p, recv, e.Args[0]); k != "" {
						dels = append(dels, del{k, e.Args[1], i})
						writers[fi.Name] = true
					}
				}
				if e.Kind == "call" && e.Name == "maps.Clear" && mapKind(p, recv, e.Args[0]) != "" {
					writers[fi.Name] = true
				}
				if e.Kind == "store" && (isFieldAddr(e.Addr, fF, recv) || isFieldAddr(e.Addr, fR, recv)) {
					writers[fi.Name] = true
				}
			}
			// remove-effective: a removal that changes nothing has missed something - a lookup came back empty, or the
			// partner it found does not point back
			if strings.Contains(fi.Name, ").Remove") && p.End == EndReturn && len(dels) == 0 {
				missed := false
				for _, cd := range p.Conds {
					t, pol := stripNot(cd.T, cd.Pol)
					if !pol && t.Op == "extract" && t.N == 1 && (t.Args[0].Op == "lookup" || t.Args[0].Op == "call") {
						missed = true
					}
					r := cd.Rel()
					if r.B != nil && r.Op == "!=" {
						for _, side := range [][2]*Term{{r.A, r.B}, {r.B, r.A}} {
							if side[0].Op == "extract" && side[0].N == 0 && side[0].Args[0].Op == "lookup" && side[1].Op == "param" {
								missed = true
							}
						}
					}
				}
				if !missed {
					remOK, remWhy = false, fmt.Sprintf("%s: a path (%s) returns without deleting although every lookup on it found what it looked for", fi.Name, p.CondString())
				}
				nRem++
			} else if strings.Contains(fi.Name, ").Remove") && p.End == EndReturn {
				nRem++
				// ... and a removal that deletes has found its own argument in one of the maps first (comma-ok): a partner
				// taken from a lookup that may have missed is the zero value, and the pair deleted is somebody else's
				hit := false
				arg := paramOf(fi, 1)
				for _, cd := range p.Conds {
					t, pol := stripNot(cd.T, cd.Pol)
					if pol && t.Op == "extract" && t.N == 1 && t.Args[0].Op == "lookup" && len(t.Args[0].Args) == 2 && mapKind(p, recv, t.Args[0].Args[0]) != "" && t.Args[0].Args[1].Key() == arg.Key() {
						hit = true
					}
					// or through the Get*/Contains* views of the same Bimap
					if pol && t.Op == "extract" && t.N == 1 && t.Args[0].Op == "call" && strings.Contains(t.Args[0].Sym, "(*Bimap).Get") && len(t.Args[0].Args) == 2 && t.Args[0].Args[1].Key() == arg.Key() {
						hit = true
					}
					if pol && t.Op == "call" && strings.Contains(t.Sym, "(*Bimap).Contains") && len(t.Args) == 2 && t.Args[1].Key() == arg.Key() {
						hit = true
					}
				}
				if !hit {
					remOK, remWhy = false, fmt.Sprintf("%s: a path (%s) deletes without having found its own argument present", fi.Name, p.CondString())
				}
			}
			// paired-insert
			for _, a := range fIns {
				nIns++
				found := false
				for _, b := range rIns {
					if a.k.Key() == b.k.Key() && a.v.Key() == b.v.Key() {
						found = true
					}
				}
				if !found {
					insOK, insWhy = false, fmt.Sprintf("%s: forward[%s] = %s without reverse[%s] = %s on the same path", fi.Name, a.k, a.v, a.v, a.k)
				}
			}
			for _, b := range rIns {
				found := false
				for _, a := range fIns {
					if a.k.Key() == b.k.Key() && a.v.Key() == b.v.Key() {
						found = true
					}
				}
				if !found {
					insOK, insWhy = false, fmt.Sprintf("%s: reverse[%s] = %s without forward[%s] = %s on the same path", fi.Name, b.v, b.k, b.k, b.v)
				}
			}
			// paired-delete
			// partnerOf: a deleted key K in map X is "the partner of P" if K = lookup(otherMap, P).0 (direct or via Get*), with the hit known
			hitKnown := func(lk *Term) bool {
				for _, cd := range p.Conds {
					t, pol := stripNot(cd.T, cd.Pol)
					if pol && t.Op == "extract" && t.N == 1 && t.Args[0].Key() == lk.Key() {
						return true
					}
				}
				return false
			}
			// returns (otherMapKind, partnerKeyTerm, lookupTerm) if key is the value component of a lookup
			asLookupValue := func(key *Term) (string, *Term, *Term) {
				if key.Op != "extract" || key.N != 0 {
					return "", nil, nil
				}
				lk := key.Args[0]
				if lk.Op == "lookup" {
					return mapKind(p, recv, lk.Args[0]), lk.Args[1], lk
				}
				if lk.Op == "call" && lookupFn[lk.Sym] != "" && len(lk.Args) == 2 && lk.Args[0].Key() == recv.Key() {
					return lookupFn[lk.Sym], lk.Args[1], lk
				}
				return "", nil, nil
			}
			for _, d := range dels {
				nDel++
				other := map[string]string{"F": "R", "R": "F"}[d.kind]
				paired := false
				// a delete-everything loop over one map, with the same loop for the other map in the same function
				if clearsBoth && clearKey[d.key.Key()] {
					continue
				}
				// case 1: d.key = otherMap[P].0 (hit known) and P is deleted from / overwritten in otherMap on this path
				if mk, P, lk := asLookupValue(d.key); mk == other && P != nil {
					if !hitKnown(lk) {
						delOK, delWhy = false, fmt.Sprintf("deletes %s[%s] where the key comes from a lookup that is not known to have hit on this path: for an absent argument the zero key's entry is deleted", map[string]string{"F": "forward", "R": "reverse"}[d.kind], d.key)
						continue
					}
					for _, d2 := range dels {
						if d2.kind == other && d2.key.Key() == P.Key() {
							paired = true
						}
					}
					if other == "F" {
						for _, a := range fIns {
							if a.k.Key() == P.Key() {
								paired = true
							}
						}
					} else {
						for _, b := range rIns {
							if b.v.Key() == P.Key() {
								paired = true
							}
						}
					}
				}
				// case 2: some delete in the other map has a key that is the lookup value of d.key
				for _, d2 := range dels {
					if d2.kind != other {
						continue
					}
					if mk, P, lk := asLookupValue(d2.key); mk == d.kind && P != nil && P.Key() == d.key.Key() && hitKnown(lk) {
						paired = true
					}
				}
				if !paired {
					delOK, delWhy = false, fmt.Sprintf("delete(%s, %s) has no matching delete/overwrite of its partner in the other map on the same path (%s)", map[string]string{"F": "forward", "R": "reverse"}[d.kind], d.key, p.CondString())
				}
			}
		}
		if nRem > 0 {
			o := R.Decide(remOK, "remove-effective", fi.Name, "rows", c.pos(fi), "a path without a delete has a lookup that missed (or a partner that does not point back)", remWhy)
			if !remOK {
				o.Breaks = "a pair that is present survives its removal"
			}
		}
		if nDel > 0 {
			o := R.Decide(delOK, "paired-delete", fi.Name, "deletes", c.pos(fi), "every delete is paired with its partner's delete/overwrite, partner known present", delWhy)
			if !delOK {
				o.Breaks = "one direction keeps an entry the other no longer has: GetForward and GetReverse disagree"
			}
		}
		// no-escape
		for _, p := range ps {
			for _, r := range p.Rets {
				if mapKind(p, recv, r) != "" {
					writers["ESCAPE "+fi.Name] = true
				}
				if r.Op == "struct" {
					for _, a := range r.Args {
						if mapKind(p, recv, a) != "" {
							writers["ESCAPE "+fi.Name] = true
						}
					}
				}
				if r.Op == "load" && r.Args[0].Key() == recv.Key() {
					writers["ESCAPE "+fi.Name] = true
				}
			}
		}
	}
	R.Decide(insOK && nIns > 0, "paired-insert", "maps.(*Bimap)", "inserts", "", fmt.Sprintf("all %d forward inserts are paired with the mirrored reverse insert", nIns), insWhy)
	allowed := map[string]bool{"maps.(*Bimap).Add": true, "maps.(*Bimap).RemoveForward": true, "maps.(*Bimap).RemoveReverse": true, "maps.(*Bimap).Clear": true}
	bad := []string{}
	for w := range writers {
		if !allowed[w] {
			bad = append(bad, w)
		}
	}
	R.Decide(len(bad) == 0, "who-may-write", "maps.(*Bimap)", "writers", "", "maps written only by Add/RemoveForward/RemoveReverse/Clear; never handed out", "unexpected writer or escape: "+strings.Join(bad, ", "))

	// ---- evict-stale
	if fi := c.fn("evict-stale", "maps.(*Bimap).Add"); fi != nil {
		if ps := c.paths("evict-stale", fi); ps != nil {
			recv := paramOf(fi, 0)
			ok, why := true, ""
			for _, p := range ps {
				if p.End != EndReturn {
					continue
				}
				// presence decisions
				fwd, rev := "", "" // "hit"/"miss"
				var oldVal, oldKey *Term
				for _, cd := range p.Conds {
					t, pol := stripNot(cd.T, cd.Pol)
					if t.Op != "extract" || t.N != 1 {
						continue
					}
					lk := t.Args[0]
					kind, arg := "", (*Term)(nil)
					if lk.Op == "lookup" {
						kind, arg = mapKind(p, recv, lk.Args[0]), lk.Args[1]
					} else if lk.Op == "call" && lookupFn[lk.Sym] != "" {
						kind, arg = lookupFn[lk.Sym], lk.Args[1]
					}
					if kind == "F" && isParam(arg, 1) {
						fwd = map[bool]string{true: "hit", false: "miss"}[pol]
						oldVal = &Term{Op: "extract", Args: []*Term{lk}, N: 0}
					}
					if kind == "R" && isParam(arg, 2) {
						rev = map[bool]string{true: "hit", false: "miss"}[pol]
						oldKey = &Term{Op: "extract", Args: []*Term{lk}, N: 0}
					}
				}
				// the pair is there already: forward[key] was found and equals the value (and then, the two maps being
				// inverse - which is what every rule of this check maintains - reverse[value] is key): nothing to evict,
				// nothing to write
				if fwd == "hit" && rev == "" && oldVal != nil {
					same, effects := false, false
					for _, cd := range p.Conds {
						r := cd.Rel()
						if r.B != nil && r.Op == "==" && (r.A.Key() == oldVal.Key() && isParam(r.B, 2) || r.B.Key() == oldVal.Key() && isParam(r.A, 2)) {
							same = true
						}
					}
					for i := range p.Events {
						e := &p.Events[i]
						if e.Kind == "mapupdate" || e.Kind == "store" && rootOf(e.Addr).Op != "alloc" || e.Kind == "call" && e.Name == "builtin.delete" {
							effects = true
						}
					}
					if same && !effects {
						continue
					}
				}
				if fwd == "" || rev == "" {
					ok, why = false, fmt.Sprintf("a path of Add does not decide both collisions (key mapped: %q, value mapped: %q): when key and value both collide with different pairs only one stale entry is evicted", fwd, rev)
					continue
				}
				firstIns := len(p.Events)
				for i := range p.Events {
					if p.Events[i].Kind == "mapupdate" && i < firstIns {
						firstIns = i
					}
				}
				hasDel := func(kind string, key *Term) bool {
					for i := 0; i < firstIns; i++ {
						e := &p.Events[i]
						if e.Kind == "call" && e.Name == "builtin.delete" && mapKind(p, recv, e.Args[0]) == kind && e.Args[1].Key() == key.Key() {
							return true
						}
					}
					return false
				}
				if fwd == "hit" && !hasDel("R", oldVal) {
					ok, why = false, "the key is already mapped but the old value's reverse entry is not deleted before inserting"
				}
				if rev == "hit" && !hasDel("F", oldKey) {
					ok, why = false, "the value is already mapped but the old key's forward entry is not deleted before inserting"
				}
			}
			o := R.Decide(ok, "evict-stale", fi.Name, "collisions", c.pos(fi), "both collisions decided on every path; stale entries evicted before the paired insert", why)
			if !ok {
				o.Breaks = "a stale entry survives a re-add and shows up in a later lookup of the other direction"
			}
		}
	}
	// ---- clone-detached
	if fi := c.fn("clone-detached", "maps.(*Bimap).Clone"); fi != nil {
		if ps := c.paths("clone-detached", fi); ps != nil {
			recv := paramOf(fi, 0)
			ok, why := true, ""
			// a copy written out as a loop: a fresh map filled with every (key, value) of the receiver's map
			copiedByLoop := func(m *Term, want *types.Var) bool {
				if m.Op != "mkmap" {
					return false
				}
				for _, li := range findLoops(ps) {
					it := c14IterOf(li)
					if it == nil || it.kind != "map" || !isFieldLoad(it.over, want, recv) {
						continue
					}
					good := len(li.Back) > 0
					for _, q := range li.Back {
						n := 0
						for i := q.LoopAt[li.Hdr]; i < len(q.Events); i++ {
							e := &q.Events[i]
							if e.Kind == "mapupdate" && e.Addr.Key() == m.Key() {
								if it.isKey(e.Key) && it.isElem(e.Val) {
									n++
								} else {
									n = -99
								}
							}
						}
						conds := 0
						for _, cd := range q.Conds {
							if cd.NEv >= q.LoopAt[li.Hdr] {
								conds++
							}
						}
						if n != 1 || conds != 1 {
							good = false
						}
					}
					if good {
						return true
					}
				}
				// the reverse index rebuilt as the inverse of the forward one (or the other way round): every (k, v) of the
				// receiver's OTHER map stored as m[v] = k - the same map as a copy whenever the two directions are inverse
				// of each other, which is the invariant every rule here maintains
				other := fF
				if sameField(want, fF) {
					other = fR
				}
				for _, li := range findLoops(ps) {
					it := c14IterOf(li)
					if it == nil || it.kind != "map" || !isFieldLoad(it.over, other, recv) {
						continue
					}
					good := len(li.Back) > 0
					for _, q := range li.Back {
						n := 0
						for i := q.LoopAt[li.Hdr]; i < len(q.Events); i++ {
							e := &q.Events[i]
							if e.Kind == "mapupdate" && e.Addr.Key() == m.Key() {
								if it.isElem(e.Key) && it.isKey(e.Val) {
									n++
								} else {
									n = -99
								}
							}
						}
						conds := 0
						for _, cd := range q.Conds {
							if cd.NEv >= q.LoopAt[li.Hdr] {
								conds++
							}
						}
						if n != 1 || conds != 1 {
							good = false
						}
					}
					if good {
						return true
					}
				}
				return false
			}
			for _, p := range ps {
				if p.End != EndReturn {
					continue
				}
				if len(p.Rets) == 1 && (p.Rets[0].Op == "zero" || p.Rets[0].Op == "struct" && isZeroTerm(p.Rets[0].Args[0]) && isZeroTerm(p.Rets[0].Args[1])) {
					// the zero Bimap shares nothing and is an empty, usable map (lazy-init rule): it is a clone of the
					// receiver exactly when both of the receiver's maps are known to be empty on this path
					empty := map[*types.Var]bool{}
					for _, cd := range p.Conds {
						pl, kind, isInt := cd.Rel().IntNorm()
						if !isInt {
							continue
						}
						for _, at := range pl.Atoms {
							if at.Op != "builtin" || at.Sym != "len" || len(at.Args) != 1 {
								continue
							}
							lenF := ToPoly(at)
							for _, f := range []*types.Var{fF, fR} {
								if isFieldLoad(at.Args[0], f, recv) && (kind == "=" && pl.Equal(canonSign(lenF)) || kind == ">" && pl.Equal(polyConst(1).Add(lenF, -1))) {
									empty[f] = true
								}
							}
						}
					}
					if !empty[fF] || !empty[fR] {
						ok, why = false, "a path returns an empty Bimap although the receiver's maps are not both known to be empty ("+p.CondString()+")"
					}
					continue
				}
				if len(p.Rets) != 1 || p.Rets[0].Op != "struct" {
					ok, why = false, "a path returns something other than a freshly built Bimap ("+p.CondString()+"): the receiver's maps are shared"
					continue
				}
				st := p.Rets[0]
				stt := st.Typ.Underlying().(*types.Struct)
				for k := 0; k < stt.NumFields(); k++ {
					v := st.Args[k]
					want := fF
					if sameField(stt.Field(k), fR) {
						want = fR
					}
					if copiedByLoop(v, want) {
						continue
					}
					if v.Op == "call" && v.Sym == "maps.Clone" && !cloneOK {
						ok, why = false, "maps.Clone is not known to return a fresh map"
					}
					if !(v.Op == "call" && v.Sym == "maps.Clone" && isFieldLoad(v.Args[0], want, recv)) {
						ok, why = false, "field "+stt.Field(k).Name()+" of the clone is "+v.String()+", not a fresh copy of the receiver's map"
					}
				}
			}
			o := R.Decide(ok, "clone-detached", fi.Name, "fresh", c.pos(fi), "both maps copied with maps.Clone on every path", why)
			if !ok {
				o.Breaks = "clone and original share a map: a change to one shows in the other"
			}
		}
	}
}

// c11LazyInit: the two maps are created together, re-created only when absent, and written only when present.
func c11LazyInit(c *Ctx, fF, fR *types.Var) {
	rule := "lazy-init"
	R := c.R
	for _, fi := range c.P.FuncsOfPkg("maps") {
		if !strings.HasPrefix(fi.Name, "maps.(*Bimap).") && !strings.HasPrefix(fi.Name, "maps.(Bimap).") {
			continue
		}
		fp := c.An.PathsOf(fi.SSA)
		if fp.Unproven != "" {
			continue
		}
		recv := paramOf(fi, 0)
		ok, why := true, ""
		n := 0
		for _, p := range fp.Paths {
			if p.End == EndPanic {
				continue
			}
			var stF, stR []*Event
			for i := range p.Events {
				e := &p.Events[i]
				if e.Kind == "store" && isFieldAddr(e.Addr, fF, recv) {
					stF = append(stF, e)
				}
				if e.Kind == "store" && isFieldAddr(e.Addr, fR, recv) {
					stR = append(stR, e)
				}
			}
			absentBefore := func(ncond int) bool {
				for i, cd := range p.Conds {
					if i >= ncond {
						break
					}
					r := cd.Rel()
					if r.B != nil && r.Op == "==" && r.B.IsNil() && (isFieldLoad(r.A, fF, recv) || isFieldLoad(r.A, fR, recv)) {
						return true
					}
				}
				return false
			}
			presentBefore := func(ncond int) bool {
				for i, cd := range p.Conds {
					if i >= ncond {
						break
					}
					r := cd.Rel()
					if r.B != nil && r.Op == "!=" && r.B.IsNil() && (isFieldLoad(r.A, fF, recv) || isFieldLoad(r.A, fR, recv)) {
						return true
					}
				}
				return false
			}
			// Inductive reading: the rule shows that every method keeps "both nil or both there" provided it holds on
			// entry (it does for the zero value, and only these methods write the fields). A path whose tests of the
			// ENTRY state say that exactly one of the two maps is nil starts outside the invariant and does not occur.
			{
				firstStore := func(sts []*Event) int {
					if len(sts) == 0 {
						return 1 << 30
					}
					return sts[0].NCond
				}
				entry := map[string]string{} // field -> "nil" / "set", from tests made before that field was stored
				for i, cd := range p.Conds {
					r := cd.Rel()
					if r.B == nil || !r.B.IsNil() || (r.Op != "==" && r.Op != "!=") {
						continue
					}
					v := map[string]string{"==": "nil", "!=": "set"}[r.Op]
					if isFieldLoad(r.A, fF, recv) && i < firstStore(stF) {
						entry["F"] = v
					}
					if isFieldLoad(r.A, fR, recv) && i < firstStore(stR) {
						entry["R"] = v
					}
				}
				if entry["F"] != "" && entry["R"] != "" && entry["F"] != entry["R"] {
					continue
				}
			}
			if len(stF)+len(stR) > 0 {
				n++
				if len(stF) != len(stR) {
					ok, why = false, fmt.Sprintf("a path (%s) replaces one of the two maps without the other: one direction stays nil (the next insert panics) or keeps stale entries", p.CondString())
				}
				for _, e := range append(append([]*Event{}, stF...), stR...) {
					if e.Val.Op == "mkmap" && !absentBefore(e.NCond) {
						ok, why = false, fmt.Sprintf("a path (%s) re-creates a map that may hold entries", p.CondString())
					}
				}
			}
			for i := range p.Events {
				e := &p.Events[i]
				if e.Kind != "mapupdate" {
					continue
				}
				n++
				m := e.Addr
				switch {
				case m.Op == "mkmap":
				case isFieldLoad(m, fF, recv) || isFieldLoad(m, fR, recv):
					if !presentBefore(e.NCond) {
						ok, why = false, fmt.Sprintf("a path (%s) inserts into a map that has not been found non-nil (nor created on this path)", p.CondString())
					}
				}
			}
		}
		if n == 0 {
			continue
		}
		o := R.Decide(ok, rule, fi.Name, "maps", c.pos(fi), "maps created in pairs, only when absent; inserts only into maps that exist", why)
		if !ok {
			o.Breaks = "assignment to entry in nil map (panic) or all pairs dropped by an unconditional re-creation"
		}
	}
}

// c11ClearingLoops finds loops of the form `for k := range m { delete(m, k) }` over the forward / reverse map of recv
// and returns the keys (term keys) they delete.
func c11ClearingLoops(ps []*Path, recv *Term, fF, fR *types.Var) (fwd, rev map[string]bool) {
	fwd, rev = map[string]bool{}, map[string]bool{}
	for _, li := range findLoops(ps) {
		it := c14IterOf(li)
		if it == nil || it.kind != "map" || len(li.Back) == 0 {
			continue
		}
		var into map[string]bool
		if isFieldLoad(it.over, fF, recv) {
			into = fwd
		} else if isFieldLoad(it.over, fR, recv) {
			into = rev
		}
		if into == nil {
			continue
		}
		all := true
		var keyT *Term
		for _, q := range li.Back {
			n := 0
			for i := q.LoopAt[li.Hdr]; i < len(q.Events); i++ {
				e := &q.Events[i]
				if e.Kind == "call" && e.Name == "builtin.delete" && e.Args[0].Key() == it.over.Key() && it.isKey(e.Args[1]) {
					n++
					keyT = e.Args[1]
				} else if e.Kind == "call" || e.Kind == "mapupdate" || e.Kind == "store" {
					n = -99
				}
			}
			conds := 0
			for _, cd := range q.Conds {
				if cd.NEv >= q.LoopAt[li.Hdr] {
					conds++
				}
			}
			if n != 1 || conds != 1 {
				all = false
			}
		}
		if all && keyT != nil {
			into[keyT.Key()] = true
		}
	}
	return
}
