package main

import (
	"flag"
	"fmt"
	"os"
	"path/filepath"
	"runtime/debug"
	"sort"
	"strconv"
	"strings"
	"time"

	"golang.org/x/tools/go/ssa"
)

type Ctx struct {
	An    *Analysis
	P     *Program
	R     *Report
	Tier  string
	Verif string
	Repo  string
	Only  map[string]bool // while set: anchors outside this set resolve to nothing, silently (a rule set re-run for a few functions)
}

type propSpec struct {
	id          string
	level       string
	run         func(c *Ctx)
	explanation string
	assumptions []string
}

var props = map[string]*propSpec{}

func register(p *propSpec) { props[p.id] = p }

var trustedBase = []string{
	"go/parser, go/types, go/ssa, go/packages of golang.org/x/tools v0.29.0 with the sandbox's default go toolchain",
	"the Go memory model and the documented contracts of the standard-library primitives the code wraps (sync, sync/atomic, sort, math/rand, append, copy, select, maps)",
	"the rule tables in /verif/checker (each row cites the clause of the property it encodes)",
}

func main() {
	prop := flag.String("prop", "", "property id (C01..C20)")
	tier := flag.String("tier", "quick", "quick|thorough")
	repo := flag.String("repo", "/repo", "source tree to analyse")
	verif := flag.String("verif", "/verif", "verif directory (evidence, replay, known findings)")
	dump := flag.String("dump", "", "dump path summaries of functions whose name contains this string")
	noFix := flag.Bool("nofixtures", false, "skip fixture self-checks")
	viewFlag := flag.Int("view", 0, "debug: run the rules on this inlining view only")
	modeFlag := flag.Int("mode", 0, "inlining view for -dump (0 none, 1 new helpers, 2 all same-package functions)")
	listFuncs := flag.Bool("listfuncs", false, "print the names of all functions of the tree (to regenerate baseline_funcs.txt)")
	listSigs := flag.Bool("listsigs", false, "print name<TAB>signature shape for every function of the tree (to regenerate baseline_sigs.txt)")
	listFields := flag.Bool("listfields", false, "print rel|Type|field|type for every struct field of the tree (to regenerate baseline_fields.txt)")
	overlayArg := flag.String("overlay", "", "relpath=file: analyse the tree with this file's content in place of relpath (in memory)")
	patchFile := flag.String("patch", "", "analyse the tree as if this unified diff (paths relative to the tree root, -p1) were applied (in memory, via an overlay; the tree itself is not touched)")
	genMut := flag.String("genmutants", "", "debug: write the sweep's mutants of -prop into this directory (index.txt lists them)")
	flag.Parse()
	start := time.Now()
	if *genMut != "" {
		os.MkdirAll(*genMut, 0o755)
		var idx strings.Builder
		maxMut := 250
		if v, err := strconv.Atoi(os.Getenv("SWEEP_MAX")); err == nil && v > 0 {
			maxMut = v
		}
		for i, m := range genMutants(*repo, anchorFiles(*verif, *prop), anchorRanges(*verif, *prop), maxMut, 0) {
			name := fmt.Sprintf("m%03d.go", i)
			os.WriteFile(filepath.Join(*genMut, name), m.src, 0o644)
			fmt.Fprintf(&idx, "%s\t%s\t%s\n", name, m.file, m.desc)
		}
		os.WriteFile(filepath.Join(*genMut, "index.txt"), []byte(idx.String()), 0o644)
		return
	}
	if t := os.Getenv("VERIF_TIER"); t != "" && *tier == "" {
		*tier = t
	}
	seed := 0
	if s := os.Getenv("VERIF_SEED"); s != "" {
		seed, _ = strconv.Atoi(s)
	}
	if *listFields {
		P, err := Load(LoadOpts{Dir: *repo, Tags: "verif", MinPkgs: 1})
		if err != nil {
			fmt.Println("load error:", err)
			os.Exit(2)
		}
		for _, l := range P.ListFields() {
			fmt.Println(l)
		}
		return
	}
	if *listSigs {
		P, err := Load(LoadOpts{Dir: *repo, Tags: "verif", MinPkgs: 1})
		if err != nil {
			fmt.Println("load error:", err)
			os.Exit(2)
		}
		for _, l := range P.ListSigs() {
			fmt.Println(l)
		}
		return
	}
	if *listFuncs {
		P, err := Load(LoadOpts{Dir: *repo, Tags: "verif", MinPkgs: 1})
		if err != nil {
			fmt.Println("load error:", err)
			os.Exit(2)
		}
		for _, fi := range P.Funcs {
			fmt.Println(fi.Name)
		}
		return
	}
	if *dump != "" {
		var ov map[string][]byte
		if *overlayArg != "" {
			if parts := strings.SplitN(*overlayArg, "=", 2); len(parts) == 2 {
				if b, rerr := os.ReadFile(parts[1]); rerr == nil {
					abs, _ := filepath.Abs(filepath.Join(*repo, parts[0]))
					ov = map[string][]byte{abs: b}
				}
			}
		}
		if *patchFile != "" {
			ov, _ = patchOverlay(*repo, *patchFile)
		}
		P, err := Load(LoadOpts{Dir: *repo, Tags: "verif", MinPkgs: 1, Overlay: ov})
		if err != nil {
			fmt.Println("load error:", err)
			os.Exit(2)
		}
		an := NewAnalysis(P)
		an.Mode = *modeFlag
		total := 0
		for _, fi := range P.Funcs {
			if *dump != "all" && !strings.Contains(fi.Name, *dump) {
				continue
			}
			fns := append([]*ssa.Function{fi.SSA}, fi.Closures...)
			for _, fn := range fns {
				fp := an.PathsOf(fn)
				total += len(fp.Paths)
				if *dump == "all" {
					fmt.Printf("%-50s %3d paths %s\n", fi.Name+"/"+fn.Name(), len(fp.Paths), fp.Unproven)
					continue
				}
				fmt.Printf("=== %s / %s  (%d paths) %s\n", fi.Name, fn.Name(), len(fp.Paths), fp.Unproven)
				for i, p := range fp.Paths {
					fmt.Printf("-- path %d blocks %v\n%s", i, p.Blocks, p)
				}
			}
		}
		fmt.Printf("functions %d, total paths %d, %.2fs\n", len(P.Funcs), total, time.Since(start).Seconds())
		return
	}
	spec := props[*prop]
	if spec == nil {
		var ids []string
		for id := range props {
			ids = append(ids, id)
		}
		sort.Strings(ids)
		fmt.Println("unknown property; have:", ids)
		os.Exit(2)
	}
	R := NewReport(spec.id, *tier)
	known, err := loadKnown(*verif + "/known_findings.json")
	if err != nil {
		fmt.Println("cannot read known_findings.json:", err)
		os.Exit(2)
	}
	var overlay map[string][]byte
	if *overlayArg != "" {
		parts := strings.SplitN(*overlayArg, "=", 2)
		if len(parts) == 2 {
			if b, rerr := os.ReadFile(parts[1]); rerr == nil {
				abs, _ := filepath.Abs(filepath.Join(*repo, parts[0]))
				overlay = map[string][]byte{abs: b}
			}
		}
	}
	if *patchFile != "" {
		var perr error
		overlay, perr = patchOverlay(*repo, *patchFile)
		if perr != nil {
			fmt.Println("PATCH-STALE:", perr)
			os.Exit(3)
		}
	}
	P, err := Load(LoadOpts{Dir: *repo, Tags: "verif", MinPkgs: 10, Overlay: overlay})
	c := &Ctx{R: R, Tier: *tier, Verif: *verif, Repo: *repo}
	if err != nil && overlay != nil {
		fmt.Println("OVERLAY-INVALID:", err)
		os.Exit(4)
	}
	if err != nil {
		R.Unproven("load", "(tree)", "typecheck", "", "the tree does not load or type-check: "+err.Error())
	} else {
		c.P = P
		c.An = NewAnalysis(P)
		if *viewFlag > 0 {
			c.An.Mode = *viewFlag
			c.P.Skip = newHelpers(c.P, c.An.Baseline)
		}
		for _, rn := range P.Renamed {
			R.Notes = append(R.Notes, "renamed anchor recovered (the rules are applied to it under its old name): "+rn)
		}
		R.Analysed["packages"] = len(P.Pkgs)
		R.Analysed["files"] = P.NFiles
		R.Analysed["functions"] = len(P.Funcs)
		ncl := 0
		for _, f := range P.Funcs {
			ncl += len(f.Closures)
		}
		R.Analysed["closures"] = ncl
		func() {
			defer func() {
				if r := recover(); r != nil {
					R.Unproven("internal", "(checker)", "panic", "", fmt.Sprintf("checker panicked: %v", r))
					if os.Getenv("TYPCHECK_TRACE") != "" {
						debug.PrintStack()
					}
				}
			}()
			spec.run(c)
			upgradeByInlining(c, spec)
			runDepClosure(c)
			runLateGuard(c)
			if !*noFix {
				runFixtures(c, spec)
			}
			if *tier == "thorough" {
				runThorough(c, spec)
				if !*noFix {
					runSweep(c, spec, int64(seed))
				}
			}
		}()
	}
	os.Exit(R.Finish(*verif, known, start, seed, spec.level, spec.explanation, spec.assumptions, trustedBase))
}
