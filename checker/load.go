package main

import (
	_ "embed"
	"fmt"
	"go/ast"
	"go/token"
	"go/types"
	"os"
	"path/filepath"
	"sort"
	"strings"

	"golang.org/x/tools/go/packages"
	"golang.org/x/tools/go/ssa"
	"golang.org/x/tools/go/ssa/ssautil"
)

// Program is the loaded, type-checked and SSA-built view of one source tree (E1).
type Program struct {
	Renamed []string // renamed anchors recovered by applyRenames (new -> baseline name)
	Dir     string
	Fset    *token.FileSet
	Pkgs    []*packages.Package          // packages of the tree itself (not deps)
	All     map[string]*packages.Package // every package by path, deps included
	SSA     *ssa.Program
	Funcs   []*FuncInfo // every FuncDecl of the tree, sorted by name
	ByName  map[string]*FuncInfo
	ByObj   map[*types.Func]*FuncInfo
	BySSA   map[*ssa.Function]*FuncInfo
	ModPath string
	NFiles  int
	Skip    map[*FuncInfo]bool // functions not analysed standalone on the current view (new helpers walked through at their call sites)
}

// FuncInfo ties a source function to its SSA form.
type FuncInfo struct {
	Name     string // pkg.Func or pkg.(*Recv).Method / pkg.(Recv).Method, package = last path element
	Pkg      *packages.Package
	Decl     *ast.FuncDecl
	Obj      *types.Func
	SSA      *ssa.Function
	Closures []*ssa.Function // transitively
}

func shortPkg(path string) string {
	if i := strings.LastIndex(path, "/"); i >= 0 {
		return path[i+1:]
	}
	return path
}

// funcName renders a stable, position-free name for a function object.
// funcAlias: renamed unexported functions answer to the name the rules know them by (see applyRenames).
var funcAlias = map[*types.Func]string{}

func funcName(obj *types.Func, modPath string) string {
	if obj == nil {
		return "?"
	}
	if a, ok := funcAlias[obj.Origin()]; ok {
		return a
	}
	pkg := ""
	if obj.Pkg() != nil {
		p := obj.Pkg().Path()
		if p == modPath {
			pkg = obj.Pkg().Name()
		} else if strings.HasPrefix(p, modPath+"/") {
			pkg = strings.TrimPrefix(p, modPath+"/")
		} else {
			pkg = p
		}
	}
	sig, _ := obj.Type().(*types.Signature)
	if sig != nil && sig.Recv() != nil {
		rt := sig.Recv().Type()
		ptr := false
		if p, ok := rt.(*types.Pointer); ok {
			rt = p.Elem()
			ptr = true
		}
		name := "?"
		switch t := rt.(type) {
		case *types.Named:
			name = t.Obj().Name()
		case *types.Alias:
			name = t.Obj().Name()
		default:
			name = types.TypeString(rt, func(*types.Package) string { return "" })
		}
		if ptr {
			return fmt.Sprintf("%s.(*%s).%s", pkg, name, obj.Name())
		}
		return fmt.Sprintf("%s.(%s).%s", pkg, name, obj.Name())
	}
	return pkg + "." + obj.Name()
}

type LoadOpts struct {
	Dir      string
	Patterns []string
	Tags     string
	GOARCH   string
	Tests    bool
	MinPkgs  int
	Overlay  map[string][]byte
}

func Load(o LoadOpts) (*Program, error) {
	env := []string{}
	for _, e := range os.Environ() {
		if strings.HasPrefix(e, "GOWORK=") || strings.HasPrefix(e, "GOFLAGS=") || strings.HasPrefix(e, "GOPROXY=") ||
			strings.HasPrefix(e, "GOARCH=") || strings.HasPrefix(e, "GOTOOLCHAIN=") || strings.HasPrefix(e, "GOSUMDB=") {
			continue
		}
		env = append(env, e)
	}
	env = append(env, "GOWORK=off", "GOFLAGS=-mod=mod", "GOPROXY=off", "GOSUMDB=off", "GOTOOLCHAIN=local")
	if o.GOARCH != "" {
		env = append(env, "GOARCH="+o.GOARCH)
	}
	cfg := &packages.Config{
		Mode:  packages.LoadAllSyntax,
		Dir:   o.Dir,
		Env:   env,
		Tests: o.Tests,
	}
	if len(o.Overlay) > 0 {
		cfg.Overlay = o.Overlay
	}
	if o.Tags != "" {
		cfg.BuildFlags = []string{"-tags", o.Tags}
	}
	pats := o.Patterns
	if len(pats) == 0 {
		pats = []string{"./..."}
	}
	pkgs, err := packages.Load(cfg, pats...)
	if err != nil {
		return nil, fmt.Errorf("load: %v", err)
	}
	var errs []string
	packages.Visit(pkgs, nil, func(p *packages.Package) {
		for _, e := range p.Errors {
			errs = append(errs, e.Error())
		}
	})
	if len(errs) > 0 {
		sort.Strings(errs)
		if len(errs) > 8 {
			errs = errs[:8]
		}
		return nil, fmt.Errorf("type errors: %s", strings.Join(errs, "; "))
	}
	if len(pkgs) < o.MinPkgs {
		return nil, fmt.Errorf("loaded %d packages, expected at least %d", len(pkgs), o.MinPkgs)
	}
	prog, _ := ssautil.AllPackages(pkgs, ssa.InstantiateGenerics*0)
	prog.Build()
	P := &Program{Dir: o.Dir, Pkgs: pkgs, SSA: prog, All: map[string]*packages.Package{},
		ByName: map[string]*FuncInfo{}, ByObj: map[*types.Func]*FuncInfo{}, BySSA: map[*ssa.Function]*FuncInfo{}}
	if len(pkgs) > 0 {
		P.Fset = pkgs[0].Fset
	}
	packages.Visit(pkgs, nil, func(p *packages.Package) { P.All[p.PkgPath] = p })
	// module path = shortest package path among roots sharing a prefix
	for _, p := range pkgs {
		if p.Module != nil {
			P.ModPath = p.Module.Path
			break
		}
	}
	if P.ModPath == "" && len(pkgs) > 0 {
		P.ModPath = pkgs[0].PkgPath
		for _, p := range pkgs {
			if len(p.PkgPath) < len(P.ModPath) {
				P.ModPath = p.PkgPath
			}
		}
	}
	sort.Slice(pkgs, func(i, j int) bool { return pkgs[i].PkgPath < pkgs[j].PkgPath })
	for _, p := range pkgs {
		if strings.HasSuffix(p.ID, ".test") || strings.Contains(p.ID, "[") {
			// test variants are loaded (thorough tier) only to be type-checked
			continue
		}
		for _, f := range p.Syntax {
			fn := p.Fset.Position(f.Pos()).Filename
			if strings.HasSuffix(fn, "_test.go") {
				continue
			}
			P.NFiles++
			for _, d := range f.Decls {
				fd, ok := d.(*ast.FuncDecl)
				if !ok || fd.Body == nil {
					continue
				}
				obj, _ := p.TypesInfo.Defs[fd.Name].(*types.Func)
				if obj == nil {
					continue
				}
				sf := prog.FuncValue(obj)
				if sf == nil {
					return nil, fmt.Errorf("no SSA for %s", obj.FullName())
				}
				fi := &FuncInfo{Name: funcName(obj, P.ModPath), Pkg: p, Decl: fd, Obj: obj, SSA: sf}
				var walk func(f *ssa.Function)
				walk = func(f *ssa.Function) {
					for _, a := range f.AnonFuncs {
						fi.Closures = append(fi.Closures, a)
						P.BySSA[a] = fi
						walk(a)
					}
				}
				walk(sf)
				P.Funcs = append(P.Funcs, fi)
				if _, dup := P.ByName[fi.Name]; dup && fi.Name != "" && !strings.HasSuffix(fi.Name, ".init") {
					return nil, fmt.Errorf("duplicate function name %s", fi.Name)
				}
				P.ByName[fi.Name] = fi
				P.ByObj[obj] = fi
				P.BySSA[sf] = fi
			}
		}
	}
	P.applyRenames(baselineFuncs())
	sort.Slice(P.Funcs, func(i, j int) bool { return P.Funcs[i].Name < P.Funcs[j].Name })
	return P, nil
}

// applyRenames: an unexported function the rules are anchored on may have been renamed. If a baseline name is gone and
// exactly one function that is not in the baseline has the same package, receiver and parameter/result types, that
// function answers to the old name from here on (in anchors and in every call event). This never hides anything: the
// rules are applied to the candidate as they would have been to the original, and fail closed if it is something else.
func (P *Program) applyRenames(baseline map[string]bool) {
	if P.ModPath != "gopkg.in/typ.v4" || len(baseline) == 0 {
		return
	}
	shape := funcShape
	baseShapes := baselineShapes()
	byShape := map[string][]*FuncInfo{}
	for _, fi := range P.Funcs {
		if !baseline[fi.Name] && !fi.Obj.Exported() {
			byShape[shape(fi)] = append(byShape[shape(fi)], fi)
		}
	}
	if len(byShape) == 0 {
		return
	}
	// shapes of the missing baseline functions are not recorded; recover them from the name alone: the prefix
	// (package and receiver) must match and the candidate must be the only new function with that prefix and shape
	var missing []string
	for name := range baseline {
		if P.ByName[name] == nil {
			missing = append(missing, name)
		}
	}
	sort.Strings(missing)
	used := map[*FuncInfo]bool{}
	for _, name := range missing {
		i := strings.LastIndex(name, ".")
		if i < 0 || i+1 >= len(name) || !(name[i+1] >= 'a' && name[i+1] <= 'z' || name[i+1] == '_') {
			continue // only unexported names
		}
		prefix := name[:i+1]
		var cands []*FuncInfo
		for sh, fis := range byShape {
			if strings.HasPrefix(sh, prefix+"|") || strings.HasPrefix(sh, prefix+"->") {
				for _, fi := range fis {
					if !used[fi] {
						cands = append(cands, fi)
					}
				}
			}
		}
		// other missing names with the same prefix compete for the same candidates: require a 1:1 situation
		competitors := 0
		for _, m := range missing {
			if strings.HasPrefix(m, prefix) && strings.LastIndex(m, ".") == i {
				competitors++
			}
		}
		if len(cands) != 1 || competitors != 1 {
			// several helpers of one receiver renamed at once: tell them apart by their signatures, which the
			// baseline records - one new function and one missing name per (receiver, signature)
			want, known := baseShapes[name]
			if !known {
				continue
			}
			var same []*FuncInfo
			for _, fi := range cands {
				if shape(fi) == want {
					same = append(same, fi)
				}
			}
			rivals := 0
			for _, m := range missing {
				if baseShapes[m] == want {
					rivals++
				}
			}
			if len(same) != 1 || rivals != 1 {
				continue
			}
			cands = same
		}
		fi := cands[0]
		used[fi] = true
		P.Renamed = append(P.Renamed, fi.Name+" -> "+name)
		delete(P.ByName, fi.Name)
		fi.Name = name
		P.ByName[name] = fi
		funcAlias[fi.Obj.Origin()] = name
	}
}

// Pos renders a position relative to the tree root.
func (P *Program) Pos(p token.Pos) string {
	if !p.IsValid() {
		return "-"
	}
	pos := P.Fset.Position(p)
	rel, err := filepath.Rel(P.Dir, pos.Filename)
	if err != nil || strings.HasPrefix(rel, "..") {
		rel = pos.Filename
	}
	return fmt.Sprintf("%s:%d", rel, pos.Line)
}

// Func looks a function up by stable name; nil when the anchor no longer resolves.
func (P *Program) Func(name string) *FuncInfo { return P.ByName[name] }

// PkgByShort returns the package of the tree with the given path relative to the module ("" = root).
func (P *Program) PkgByRel(rel string) *packages.Package {
	want := P.ModPath
	if rel != "" {
		want = P.ModPath + "/" + rel
	}
	for _, p := range P.Pkgs {
		if p.PkgPath == want && !strings.Contains(p.ID, "[") && !strings.HasSuffix(p.ID, ".test") {
			return p
		}
	}
	return nil
}

// FuncsOfPkg lists the functions of one package (relative path).
func (P *Program) FuncsOfPkg(rel string) []*FuncInfo {
	p := P.PkgByRel(rel)
	var out []*FuncInfo
	for _, f := range P.Funcs {
		if f.Pkg == p && !P.Skip[f] {
			out = append(out, f)
		}
	}
	return out
}

// NamedType finds a named type of a package by name.
func (P *Program) NamedType(rel, name string) *types.Named {
	p := P.PkgByRel(rel)
	if p == nil {
		return nil
	}
	o := p.Types.Scope().Lookup(name)
	if o == nil {
		return nil
	}
	n, _ := o.Type().(*types.Named)
	return n
}

// FieldOf finds a struct field object of a named type.
func (P *Program) FieldOf(rel, typ, field string) *types.Var {
	n := P.NamedType(rel, typ)
	if n == nil {
		return nil
	}
	st, _ := n.Underlying().(*types.Struct)
	if st == nil {
		return nil
	}
	for i := 0; i < st.NumFields(); i++ {
		if st.Field(i).Name() == field {
			return st.Field(i)
		}
	}
	// a renamed field: the baseline knows the type this field had; if exactly one field of the struct has that type
	// and a name the baseline does not know for this struct, it answers to the old name (the rules are applied to it
	// unchanged, so nothing is hidden if it is something else)
	want, known := baselineFieldType(rel, typ, field)
	if !known {
		return nil
	}
	q := func(*types.Package) string { return "" }
	var cand *types.Var
	for i := 0; i < st.NumFields(); i++ {
		f := st.Field(i)
		if _, isBase := baselineFieldType(rel, typ, f.Name()); isBase {
			continue
		}
		if types.TypeString(f.Type(), q) == want {
			if cand != nil {
				return nil // ambiguous
			}
			cand = f
		}
	}
	if cand != nil {
		note := rel + "." + typ + "." + cand.Name() + " -> " + field + " (field)"
		dup := false
		for _, r := range P.Renamed {
			if r == note {
				dup = true
			}
		}
		if !dup {
			P.Renamed = append(P.Renamed, note)
		}
	}
	return cand
}

//go:embed baseline_fields.txt
var baselineFieldsTxt string

var baselineFieldsMap map[string]string

// baselineFieldType: the type (as a package-less string) that field had in the tree the rules were written against.
func baselineFieldType(rel, typ, field string) (string, bool) {
	if baselineFieldsMap == nil {
		baselineFieldsMap = map[string]string{}
		for _, l := range strings.Split(baselineFieldsTxt, "\n") {
			parts := strings.SplitN(strings.TrimSpace(l), "|", 4)
			if len(parts) == 4 {
				baselineFieldsMap[parts[0]+"|"+parts[1]+"|"+parts[2]] = parts[3]
			}
		}
	}
	t, ok := baselineFieldsMap[rel+"|"+typ+"|"+field]
	return t, ok
}

// ListFields prints rel|Type|field|type for every struct type of the tree (to regenerate baseline_fields.txt).
func (P *Program) ListFields() []string {
	var out []string
	q := func(*types.Package) string { return "" }
	for _, p := range P.Pkgs {
		if strings.HasSuffix(p.ID, ".test") || strings.Contains(p.ID, "[") {
			continue
		}
		rel := ""
		if p.PkgPath != P.ModPath {
			rel = strings.TrimPrefix(p.PkgPath, P.ModPath+"/")
		}
		sc := p.Types.Scope()
		for _, name := range sc.Names() {
			tn, ok := sc.Lookup(name).(*types.TypeName)
			if !ok {
				continue
			}
			st, ok := tn.Type().Underlying().(*types.Struct)
			if !ok {
				continue
			}
			for i := 0; i < st.NumFields(); i++ {
				out = append(out, rel+"|"+name+"|"+st.Field(i).Name()+"|"+types.TypeString(st.Field(i).Type(), q))
			}
		}
	}
	sort.Strings(out)
	return out
}

//go:embed baseline_sigs.txt
var baselineSigsTxt string

// baselineShapes: name -> receiver-and-signature shape of every function of the tree the rules were written against
// (regenerate with `typcheck -listsigs`).
func baselineShapes() map[string]string {
	m := map[string]string{}
	for _, l := range strings.Split(baselineSigsTxt, "\n") {
		if i := strings.Index(l, "\t"); i > 0 {
			m[l[:i]] = strings.TrimSpace(l[i+1:])
		}
	}
	return m
}

// ListSigs prints name<TAB>shape for every function (to regenerate baseline_sigs.txt).
func (P *Program) ListSigs() []string {
	var out []string
	for _, fi := range P.Funcs {
		out = append(out, fi.Name+"\t"+funcShape(fi))
	}
	sort.Strings(out)
	return out
}

func funcShape(fi *FuncInfo) string {
	sig := fi.Obj.Type().(*types.Signature)
	var sb strings.Builder
	i := strings.LastIndex(fi.Name, ".")
	sb.WriteString(fi.Name[:i+1]) // package and receiver
	q := func(*types.Package) string { return "" }
	for k := 0; k < sig.Params().Len(); k++ {
		sb.WriteString("|" + types.TypeString(sig.Params().At(k).Type(), q))
	}
	sb.WriteString("->")
	for k := 0; k < sig.Results().Len(); k++ {
		sb.WriteString("|" + types.TypeString(sig.Results().At(k).Type(), q))
	}
	if sig.Variadic() {
		sb.WriteString("...")
	}
	return sb.String()
}
