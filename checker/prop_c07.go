package main

import (
	"fmt"
	"go/types"
	"sort"
	"strings"

	"golang.org/x/tools/go/ssa"
)

func init() {
	register(&propSpec{
		id:    "C07",
		level: "other",
		run:   runC07,
		explanation: "Decided from the path summaries of slices/sorted.go (and the sentinel discipline package-wide): who may write the backing slice and how, that nothing aliases it, that positions come from a lower-bound search and are validated with ==, and that the -1 sentinel never reaches an index. " +
			"(sentinel-guard) a value returned by a function that can return the literal -1 never reaches an index/slice expression or an index parameter unless a comparison excluding -1 dominates the use; (encapsulation) Sorted.slice is written only through Insert in Add and through Remove in Remove/RemoveAt, never returned or handed to another callee that could keep or write it; " +
			"(input-copied) NewSorted builds its slice with make+copy on every path and never writes or sorts its argument; (sorted-on-entry) it sorts that fresh copy with a less(s[i],s[j]) adapter; (insert-at-search) Add inserts at, and returns, search(value); (lower-bound) search is sort.Search over the whole length with the predicate !less(s[i], value); " +
			"(index-validates) Index returns a non-sentinel only after s[i]==value with 0<=i<Len; (remove-validated) Remove deletes only at a position that Index validated, returns that position, and on the other path - taken only when Index(value) is known to be -1 - returns -1 having changed nothing; (position) Get/RemoveAt act on exactly the given index. " +
			"NOT decided: that these compose to 'sorted after every history' (needs sort.Search's semantics on sorted data - trusted - plus the splice clauses of C12).",
		assumptions: []string{"contracts of sort.Search and sort.SliceStable", "slices.Insert/Remove splice exactly one element at the given index (property C12)"},
	})
}

// sentinelFuncs: functions that can return the literal -1 on some path.
func sentinelFuncs(c *Ctx) map[*ssa.Function]bool {
	out := map[*ssa.Function]bool{}
	for _, fi := range c.P.Funcs {
		sig := fi.Obj.Type().(*types.Signature)
		if sig.Results().Len() != 1 || !isIntegerType(sig.Results().At(0).Type()) {
			continue
		}
		fp := c.An.PathsOf(fi.SSA)
		for _, p := range fp.Paths {
			if p.End == EndReturn && len(p.Rets) == 1 && p.Rets[0].IsConst("-1") {
				out[fi.SSA] = true
			}
		}
	}
	return out
}

// indexParams: parameters that flow into an index or slice bound (directly or through a callee's index parameter).
func indexParams(c *Ctx) map[*ssa.Function]map[int]bool {
	out := map[*ssa.Function]map[int]bool{}
	mark := func(fn *ssa.Function, i int) bool {
		if out[fn] == nil {
			out[fn] = map[int]bool{}
		}
		if out[fn][i] {
			return false
		}
		out[fn][i] = true
		return true
	}
	for changed := true; changed; {
		changed = false
		for _, fi := range c.P.Funcs {
			fp := c.An.PathsOf(fi.SSA)
			for _, p := range fp.Paths {
				visit := func(t *Term) {
					t.Walk(func(x *Term) bool {
						var idxs []*Term
						switch x.Op {
						case "iaddr", "index":
							idxs = []*Term{x.Args[1]}
						case "slice":
							idxs = []*Term{x.Args[1], x.Args[2]}
						}
						for _, it := range idxs {
							if it == nil {
								continue
							}
							it.Walk(func(y *Term) bool {
								if y.Op == "param" && y.Fn == fi.SSA {
									if mark(fi.SSA, y.N) {
										changed = true
									}
								}
								return true
							})
						}
						return true
					})
				}
				for i := range p.Events {
					e := &p.Events[i]
					for _, t := range append([]*Term{e.Addr, e.Key, e.Val}, e.Args...) {
						if t != nil {
							visit(t)
						}
					}
					if e.Kind == "call" && e.SSAFn != nil && out[e.SSAFn] != nil {
						for ai, a := range e.Args {
							if out[e.SSAFn][ai] && a != nil {
								a.Walk(func(y *Term) bool {
									if y.Op == "param" && y.Fn == fi.SSA {
										if mark(fi.SSA, y.N) {
											changed = true
										}
									}
									return true
								})
							}
						}
					}
				}
				for _, r := range p.Rets {
					visit(r)
				}
				for _, cd := range p.Conds {
					visit(cd.T)
				}
			}
		}
	}
	return out
}

// excludesMinusOne: the conditions before event n exclude t == -1.
func excludesMinusOne(p *Path, t *Term, nEv int) bool {
	tp := ToPoly(t)
	for _, cd := range p.Conds {
		if cd.NEv > nEv {
			continue
		}
		r := cd.Rel()
		pl, kind, ok := r.IntNorm()
		if !ok {
			continue
		}
		switch kind {
		case "!=":
			// t + 1 != 0
			if pl.Equal(canonSign(tp.Add(polyConst(1), 1))) {
				return true
			}
		case ">":
			// P = t + 1 + k with k <= 0  => t >= 0
			if k, isC := pl.Add(tp, -1).Add(polyConst(1), -1).IsConst(); isC && k <= 0 {
				return true
			}
		}
	}
	return false
}

func runC07(c *Ctx) {
	R := c.R
	R.Rule("sentinel-guard", "a result of a function that can return -1 reaches an index, a slice bound or an index parameter only after a comparison that excludes -1", 3)
	R.Rule("encapsulation", "Sorted.slice is written only via Insert (Add) and Remove (Remove, RemoveAt); never returned, sub-sliced out, or passed to another callee that could keep or write it", 3)
	R.Rule("splice-primitives", "slices.Insert / slices.Remove (which Add, Remove and RemoveAt delegate to): grow by one, shift by one from index on the grown slice, write at index; shift down by one, truncate by one", 2)
	R.Rule("input-copied", "every constructor of Sorted builds its slice with make+copy on every path (or hands its argument to one that does); the argument is never written or sorted", 2)
	R.Rule("sorted-on-entry", "every constructor of Sorted sorts the fresh copy with a less(s[i], s[j]) adapter over the less function it keeps", 2)
	R.Rule("insert-at-search", "Add inserts at search(value) and returns that same position", 1)
	R.Rule("lower-bound", "search = sort.Search(len(slice), !less(slice[i], value))", 1)
	R.Rule("index-validates", "Index returns a position only after slice[i] == value with 0 <= i < Len", 1)
	R.Rule("remove-validated", "Remove deletes only at the validated position, returns it, and otherwise returns -1 without changing anything", 1)
	R.Rule("bounds-table", "Get and RemoveAt proceed exactly on 0 <= index < Len and panic exactly outside", 2)
	R.Rule("len-table", "Len of a non-nil Sorted is len(slice)", 1)
	R.Rule("panic-justified", "methods of Sorted panic explicitly only for a nil receiver, a nil comparator or an index outside [0,Len)", 4)
	R.Rule("position", "Get returns slice[index]; RemoveAt removes at exactly index; Contains agrees with Index", 3)

	sliceF := c.P.FieldOf("slices", "Sorted", "slice")
	lessF := c.P.FieldOf("slices", "Sorted", "less")
	if sliceF == nil || lessF == nil {
		R.Unproven("encapsulation", "slices.Sorted", "anchor", "", "fields slice/less not found")
		return
	}
	// ---- sentinel-guard (whole tree)
	sent := sentinelFuncs(c)
	ipar := indexParams(c)
	type sres struct {
		ok  bool
		why string
		pos ssa.Instruction
	}
	sresults := map[string]*sres{}
	var sorder []string
	for _, fi := range c.P.Funcs {
		fp := c.An.PathsOf(fi.SSA)
		for _, p := range fp.Paths {
			// sentinel-valued call results on this path
			isSent := func(t *Term) bool {
				if t.Op != "call" {
					return false
				}
				if fn, ok := t.Val.(*ssa.Call); ok {
					if sc := fn.Call.StaticCallee(); sc != nil {
						if sc.Origin() != nil {
							sc = sc.Origin()
						}
						return sent[sc]
					}
				}
				return false
			}
			use := func(t *Term, nEv int, in ssa.Instruction, what string) {
				t.Walk(func(x *Term) bool {
					if !isSent(x) {
						return true
					}
					k := fi.Name + "\x00" + what + "/" + instrOrdinal(valInstr(x, in))
					r, has := sresults[k]
					if !has {
						r = &sres{ok: true, pos: valInstr(x, in)}
						sresults[k] = r
						sorder = append(sorder, k)
					}
					if !excludesMinusOne(p, x, nEv) {
						r.ok = false
						r.why = fmt.Sprintf("the result of %s (which returns -1 for 'not found') is used as %s on a path that has not excluded -1", x.Sym, what)
					}
					return false
				})
			}
			for i := range p.Events {
				e := &p.Events[i]
				for _, t := range append([]*Term{e.Addr, e.Val}, e.Args...) {
					if t == nil {
						continue
					}
					t.Walk(func(x *Term) bool {
						switch x.Op {
						case "iaddr", "index":
							use(x.Args[1], i, e.Instr, "an index")
						case "slice":
							use(x.Args[1], i, e.Instr, "a slice bound")
							use(x.Args[2], i, e.Instr, "a slice bound")
						}
						return true
					})
				}
				if e.Kind == "call" && e.SSAFn != nil && ipar[e.SSAFn] != nil {
					for ai, a := range e.Args {
						if ipar[e.SSAFn][ai] && a != nil {
							use(a, i, e.Instr, "the index argument of "+e.Name)
						}
					}
				}
			}
			for _, r := range p.Rets {
				r.Walk(func(x *Term) bool {
					switch x.Op {
					case "iaddr", "index":
						use(x.Args[1], len(p.Events), nil, "an index")
					case "slice":
						use(x.Args[1], len(p.Events), nil, "a slice bound")
						use(x.Args[2], len(p.Events), nil, "a slice bound")
					}
					return true
				})
			}
		}
	}
	sort.Strings(sorder)
	for _, k := range sorder {
		r := sresults[k]
		parts := strings.SplitN(k, "\x00", 2)
		if r.ok {
			R.Held("sentinel-guard", parts[0], parts[1], c.ipos(r.pos), "guarded by a comparison excluding -1")
		} else {
			o := R.Refuted("sentinel-guard", parts[0], parts[1], c.ipos(r.pos), r.why)
			o.Breaks = "the 'absent' case panics with an index/slice bounds error instead of being reported"
		}
	}
	R.Analysed["sentinel_functions"] = len(sent)

	// ---- encapsulation
	allowedPtr := map[string]map[string]bool{
		"slices.(*Sorted).Add":      {"slices.Insert": true},
		"slices.(*Sorted).Remove":   {"slices.Remove": true},
		"slices.(*Sorted).RemoveAt": {"slices.Remove": true},
	}
	readers := map[string]bool{"fmt.Sprint": true, "builtin.len": true, "fmt.Sprintf": true, "fmt.Sprintln": true}
	for _, fi := range c.P.FuncsOfPkg("slices") {
		touches := false
		bad := ""
		for _, fn := range append([]*ssa.Function{fi.SSA}, fi.Closures...) {
			fp := c.An.PathsOf(fn)
			for _, p := range fp.Paths {
				isSliceVal := func(t *Term) bool {
					if t == nil {
						return false
					}
					t = stripIface(t)
					for t.Op == "slice" {
						t = t.Args[0]
					}
					return isFieldLoad(t, sliceF, nil)
				}
				for i := range p.Events {
					e := &p.Events[i]
					if e.Kind == "store" && isFieldAddr(e.Addr, sliceF, nil) && rootOf(e.Addr).Op != "alloc" {
						touches = true
						bad = "direct store to the slice field"
					}
					if e.Kind == "store" && e.Val != nil && isSliceVal(e.Val) && e.Addr.Op != "alloc" && !(e.Addr.Op == "iaddr" && e.Addr.Args[0].Op == "alloc") {
						touches = true
						bad = "the backing slice is stored elsewhere: " + e.String()
					}
					if e.Kind == "store" && e.Addr.Op == "iaddr" && isSliceVal(e.Addr.Args[0]) {
						touches = true
						bad = "an element is written in place"
					}
					if e.Kind == "call" || e.Kind == "go" || e.Kind == "defer" {
						for _, a := range e.Args {
							if a == nil {
								continue
							}
							if isFieldAddr(a, sliceF, nil) {
								touches = true
								if !allowedPtr[fi.Name][e.Name] {
									bad = "the address of the slice field is passed to " + e.Name
								}
							}
							if isSliceVal(a) {
								touches = true
								if !readers[e.Name] && !c07PureReader(c, e) {
									bad = "the backing slice is passed to " + e.Name + ", which could keep or write it"
								}
							}
						}
					}
				}
				for _, r := range p.Rets {
					if isSliceVal(r) {
						touches = true
						bad = "the backing slice (or a sub-slice of it) is returned: callers can reorder it"
					}
					if r.Op == "struct" {
						for _, a := range r.Args {
							if isSliceVal(a) {
								touches = true
								bad = "the backing slice is shared with a returned value"
							}
						}
					}
				}
				for _, a := range p.Acc {
					if a.Kind == "load" && isFieldAddr(a.Addr, sliceF, nil) {
						touches = true
					}
				}
			}
		}
		if !touches {
			continue
		}
		if bad != "" {
			o := R.Refuted("encapsulation", fi.Name, "slice-field", c.pos(fi), bad)
			o.Breaks = "code outside Add/Remove can reorder the contents: sortedness is lost"
		} else {
			R.Held("encapsulation", fi.Name, "slice-field", c.pos(fi), "reads the backing slice, or changes it only through its designated primitive")
		}
	}

	// ---- the primitives Add/Remove/RemoveAt delegate to
	c12Splice(c, "splice-primitives", true)
	// ---- constructors: every function of the package that returns a Sorted
	nctor := 0
	for _, fi := range c.P.FuncsOfPkg("slices") {
		sig := fi.Obj.Type().(*types.Signature)
		if sig.Results().Len() != 1 || sig.Recv() != nil {
			continue
		}
		if nt, ok := sig.Results().At(0).Type().(*types.Named); !ok || nt.Origin().Obj().Name() != "Sorted" {
			continue
		}
		nctor++
		c7Ctor(c, fi, sliceF)
	}
	c.R.Analysed["constructors of Sorted"] = nctor
	// ---- search: lower bound
	searchFi := c.fn("lower-bound", "slices.(*Sorted).search")
	if searchFi != nil {
		if ps := c.paths("lower-bound", searchFi); ps != nil {
			recv := paramOf(searchFi, 0)
			ok, why := true, ""
			n := 0
			// the search written out as the bisection of sort.Search
			if bis, _ := lowerBoundBisection(ps); bis != nil {
				good := bis.N.Op == "builtin" && bis.N.Sym == "len" && isFieldLoad(bis.N.Args[0], sliceF, recv)
				whyB := "does not search the whole length of the slice"
				probeIsLess := func(cd *Cond) (bool, bool) { // (is less(slice[mid], value), polarity)
					if cd == nil {
						return false, false
					}
					t, pol := stripNot(cd.T, cd.Pol)
					okc := t.Op == "call" && t.Sym == "dyn" && len(t.Args) == 3 && isFieldLoad(t.Args[0], lessF, recv) &&
						t.Args[1].Op == "load" && t.Args[1].Args[0].Op == "iaddr" && isFieldLoad(t.Args[1].Args[0].Args[0], sliceF, recv) &&
						stripConv(t.Args[1].Args[0].Args[1]).Key() == bis.Mid.Key() && isParam(t.Args[2], 1)
					return okc, pol
				}
				if good {
					upOK, upPol := probeIsLess(bis.probeCond(bis.Up))
					dnOK, dnPol := probeIsLess(bis.probeCond(bis.Down))
					if !(upOK && upPol && dnOK && !dnPol) {
						good, whyB = false, "the bisection does not move lo past the probe exactly when less(slice[mid], value)"
					}
				}
				// nothing but the guard for an uninitialised comparator may precede it
				for _, p := range ps {
					if p.End == EndPanic {
						continue
					}
					for i := range p.Events {
						e := &p.Events[i]
						if e.Kind == "call" && e.Name != "builtin.len" && !(e.Name == "dyn" && isFieldLoad(e.Callee, lessF, recv)) {
							good, whyB = false, "unexpected call "+e.Name
						}
						if e.Kind == "store" && e.Addr.Op != "alloc" {
							good, whyB = false, "the search writes memory"
						}
					}
				}
				o := R.Decide(good, "lower-bound", searchFi.Name, "predicate", c.pos(searchFi), "hand-written bisection of sort.Search over len(slice) with the probe less(slice[mid], value): the first position not less than the value", whyB)
				if !good {
					o.Breaks = "Index is not the FIRST position of the value / Add's position is wrong among duplicates"
				}
				ps = nil // decided above
			}
			for _, p := range ps {
				if p.End == EndPanic {
					continue
				}
				n++
				calls := callsNamed(p, "sort.Search")
				mk := eventsOf(p, func(e *Event) bool { return e.Kind == "mkclosure" })
				if len(calls) != 1 || len(mk) != 1 || len(p.Rets) != 1 || p.Rets[0].Key() != calls[0].Res.Key() {
					ok, why = false, "does not return the result of one sort.Search call (a hand-written search must be shown to return the FIRST position not less than the value, which these rules cannot do)"
					continue
				}
				sl := &Term{Op: "load", Args: []*Term{{Op: "faddr", Args: []*Term{recv}, Obj: sliceF}}}
				a0 := calls[0].Args[0]
				if !(a0.Op == "builtin" && a0.Sym == "len" && isFieldLoad(a0.Args[0], sliceF, recv)) {
					ok, why = false, "searches over "+a0.String()+" instead of the whole length"
					continue
				}
				_ = sl
				cp := c.An.ClosurePaths(mk[0])
				good := cp.Unproven == "" && len(cp.Paths) == 1 && len(cp.Paths[0].Rets) == 1
				if good {
					r := NormRel(cp.Paths[0].Rets[0], true)
					iT := &Term{Op: "param", N: 0, Fn: mk[0].SSAFn}
					good = r.Op == "false" && r.A.Op == "call" && r.A.Sym == "dyn" && len(r.A.Args) == 3 &&
						isFieldLoad(r.A.Args[0], lessF, recv) &&
						r.A.Args[1].Op == "load" && r.A.Args[1].Args[0].Op == "iaddr" && isFieldLoad(r.A.Args[1].Args[0].Args[0], sliceF, recv) && r.A.Args[1].Args[0].Args[1].Key() == iT.Key() &&
						isParam(r.A.Args[2], 1)
					if !good {
						why = "the predicate is " + cp.Paths[0].Rets[0].String() + ", not !less(slice[i], value)"
					}
				} else {
					why = "the predicate branches or cannot be summarised"
				}
				if !good {
					ok = false
				}
			}
			if ps != nil {
				if n == 0 {
					ok, why = false, "no returning path"
				}
				o := R.Decide(ok, "lower-bound", searchFi.Name, "predicate", c.pos(searchFi), "sort.Search(len(slice), !less(slice[i], value))", why)
				if !ok {
					o.Breaks = "Index is not the FIRST position of the value / Add's position is wrong among duplicates"
				}
			}
		}
	}
	// ---- Add
	if fi := c.fn("insert-at-search", "slices.(*Sorted).Add"); fi != nil {
		if ps := c.paths("insert-at-search", fi); ps != nil {
			recv := paramOf(fi, 0)
			ok, why := true, ""
			n := 0
			for _, p := range ps {
				if p.End == EndPanic {
					continue
				}
				n++
				ins := callsNamed(p, "slices.Insert")
				if len(ins) != 1 || len(p.Rets) != 1 {
					ok, why = false, "not exactly one Insert"
					continue
				}
				idx := ins[0].Args[1]
				if !(idx.Op == "call" && idx.Sym == "slices.(*Sorted).search" && idx.Args[0].Key() == recv.Key() && isParam(idx.Args[1], 1)) {
					ok, why = false, "the insertion position is "+idx.String()+", not search(value)"
				} else if !isFieldAddr(ins[0].Args[0], sliceF, recv) || !isParam(ins[0].Args[2], 1) {
					ok, why = false, "does not insert the value into the receiver's slice"
				} else if p.Rets[0].Key() != idx.Key() {
					ok, why = false, "returns "+p.Rets[0].String()+", not the position inserted at"
				}
			}
			R.Decide(ok && n > 0, "insert-at-search", fi.Name, "position", c.pos(fi), "Insert(&slice, search(value), value); returns that position", why)
		}
	}
	// ---- Index
	if fi := c.fn("index-validates", "slices.(*Sorted).Index"); fi != nil {
		if ps := c.paths("index-validates", fi); ps != nil {
			recv := paramOf(fi, 0)
			ok, why := true, ""
			sawHit, sawMiss := false, false
			for _, p := range ps {
				if p.End != EndReturn || len(p.Rets) != 1 {
					ok, why = false, "path does not return"
					continue
				}
				r := p.Rets[0]
				if r.IsConst("-1") {
					sawMiss = true
					// a miss must be justified by the LAST test on the path being exactly one of:
					// position < 0, position >= Len, slice[position] != value
					if len(p.Conds) == 0 {
						ok, why = false, "reports a miss unconditionally"
						continue
					}
					last := p.Conds[len(p.Conds)-1].Rel()
					just := false
					var pos *Term
					for i := range p.Events {
						if e := &p.Events[i]; e.Kind == "call" && e.Name == "slices.(*Sorted).search" {
							pos = e.Res
						}
					}
					if pos != nil && last.B != nil {
						if last.Op == "!=" {
							a, b := last.A, last.B
							for k := 0; k < 2; k++ {
								if a.Op == "load" && a.Args[0].Op == "iaddr" && isFieldLoad(a.Args[0].Args[0], sliceF, recv) && a.Args[0].Args[1].Key() == pos.Key() && isParam(b, 1) {
									just = true
								}
								a, b = b, a
							}
						}
						if pl, kind, isInt := last.IntNorm(); isInt && kind == ">" {
							pp := ToPoly(pos)
							if pl.Equal(polyConst(0).Add(pp, -1)) {
								just = true
							}
							for _, at := range pl.Atoms {
								if (at.Op == "call" && at.Sym == "slices.(*Sorted).Len") || (at.Op == "builtin" && at.Sym == "len" && isFieldLoad(at.Args[0], sliceF, recv)) {
									if pl.Equal(pp.Add(polyAtom(at), -1).Add(polyConst(1), 1)) {
										just = true
									}
								}
							}
						}
					}
					if !just {
						ok, why = false, "a miss is reported on a path whose deciding test is not one of: position < 0, position >= Len, slice[position] != value ("+last.String()+")"
					}
					continue
				}
				sawHit = true
				// equality with value at r, and r < Len, r >= 0
				eq, lo, hi := false, false, false
				for _, cd := range p.Conds {
					rl := cd.Rel()
					if rl.B == nil {
						continue
					}
					a, b := rl.A, rl.B
					if rl.Op == "==" {
						for k := 0; k < 2; k++ {
							if a.Op == "load" && a.Args[0].Op == "iaddr" && isFieldLoad(a.Args[0].Args[0], sliceF, recv) && a.Args[0].Args[1].Key() == r.Key() && isParam(b, 1) {
								eq = true
							}
							a, b = b, a
						}
					}
					if pl, kind, okk := rl.IntNorm(); okk && kind == ">" {
						rp := ToPoly(r)
						if k, isC := pl.Add(rp, -1).Add(polyConst(1), -1).IsConst(); isC && k <= 0 {
							lo = true
						}
						// Len(s) - r > 0
						for _, at := range pl.Atoms {
							if (at.Op == "call" && at.Sym == "slices.(*Sorted).Len") || (at.Op == "builtin" && at.Sym == "len" && isFieldLoad(at.Args[0], sliceF, recv)) {
								if k, isC := pl.Add(polyAtom(at), -1).Add(rp, 1).IsConst(); isC && k <= 0 {
									hi = true
								}
							}
						}
					}
				}
				if !eq {
					ok, why = false, "a position is returned without slice[position] == value having been tested"
				} else if !hi {
					ok, why = false, "a position is returned without position < Len having been tested"
				}
				_ = lo
				if !(r.Op == "call" && r.Sym == "slices.(*Sorted).search" && isParam(r.Args[1], 1)) {
					ok, why = false, "the position is not search(value)"
				}
			}
			if ok && !(sawHit && sawMiss) {
				ok, why = false, "missing the found or the not-found row"
			}
			R.Decide(ok, "index-validates", fi.Name, "rows", c.pos(fi), "search(value) validated by slice[i] == value and i < Len; else -1", why)
		}
	}
	// ---- Remove
	if fi := c.fn("remove-validated", "slices.(*Sorted).Remove"); fi != nil {
		if ps := c.paths("remove-validated", fi); ps != nil {
			recv := paramOf(fi, 0)
			ok, why := true, ""
			sawRm, sawNo := false, false
			for _, p := range ps {
				if p.End != EndReturn || len(p.Rets) != 1 {
					ok, why = false, "path does not return"
					continue
				}
				rms := eventsOf(p, func(e *Event) bool {
					return e.Kind == "call" && (e.Name == "slices.Remove" || e.Name == "slices.RemoveSlice" || e.Name == "slices.(*Sorted).RemoveAt")
				})
				muts := eventsOf(p, func(e *Event) bool { return e.Kind == "store" && rootOf(e.Addr).Op != "alloc" })
				if len(rms) == 0 {
					sawNo = true
					isMinus1 := p.Rets[0].IsConst("-1")
					if !isMinus1 {
						// a value known to be -1 on this path
						for _, cd := range p.Conds {
							if pl, kind, okk := cd.Rel().IntNorm(); okk && kind == "=" && pl.Equal(canonSign(ToPoly(p.Rets[0]).Add(polyConst(1), 1))) {
								isMinus1 = true
							}
							// r < 0 together with r >= -1 (Index never returns less than -1) is also -1
							if pl, kind, okk := cd.Rel().IntNorm(); okk && kind == ">" && pl.Equal(polyConst(0).Add(ToPoly(p.Rets[0]), -1)) && p.Rets[0].Op == "call" && strings.HasSuffix(p.Rets[0].Sym, ".Index") {
								isMinus1 = true
							}
						}
					}
					if !isMinus1 || len(muts) > 0 {
						ok, why = false, "the path that removes nothing does not return -1 with the contents untouched"
					}
					// the row is taken only when the value is absent: the path knows Index(value) == -1 (as == -1, or as < 0,
					// Index never returning less than -1), or that the validating comparison failed
					absent := false
					for _, cd := range p.Conds {
						rl := cd.Rel()
						pl, kind, okk := rl.IntNorm()
						if okk {
							for _, x := range subtermsWhere(cd.T, func(t *Term) bool {
								return t.Op == "call" && t.Sym == "slices.(*Sorted).Index" && len(t.Args) == 2 && t.Args[0].Key() == recv.Key() && isParam(t.Args[1], 1)
							}) {
								if kind == "=" && pl.Equal(canonSign(ToPoly(x).Add(polyConst(1), 1))) {
									absent = true
								}
								if kind == ">" && pl.Equal(polyConst(0).Add(ToPoly(x), -1)) {
									absent = true
								}
							}
						}
						if rl.B != nil && rl.Op == "!=" {
							a, b := rl.A, rl.B
							for k := 0; k < 2; k++ {
								if a.Op == "load" && a.Args[0].Op == "iaddr" && isFieldLoad(a.Args[0].Args[0], sliceF, recv) && isParam(b, 1) {
									absent = true
								}
								a, b = b, a
							}
						}
					}
					if ok && !absent {
						ok, why = false, "a path returns -1 and removes nothing without knowing that Index(value) is -1: a value that is present (at a position the guard also covers) is not removed"
					}
					continue
				}
				sawRm = true
				if len(rms) != 1 {
					ok, why = false, "removes more than once"
					continue
				}
				idx := rms[0].Args[1]
				validated := idx.Op == "call" && idx.Sym == "slices.(*Sorted).Index" && idx.Args[0].Key() == recv.Key() && isParam(idx.Args[1], 1)
				if !validated {
					// or an explicit equality test on the path
					for _, cd := range p.Conds {
						rl := cd.Rel()
						if rl.B != nil && rl.Op == "==" {
							a, b := rl.A, rl.B
							for k := 0; k < 2; k++ {
								if a.Op == "load" && a.Args[0].Op == "iaddr" && isFieldLoad(a.Args[0].Args[0], sliceF, recv) && a.Args[0].Args[1].Key() == idx.Key() && isParam(b, 1) {
									validated = true
								}
								a, b = b, a
							}
						}
					}
				}
				if !validated {
					ok, why = false, "removes at "+idx.String()+", a position not validated to hold the value (an absent value deletes its neighbour)"
				} else if p.Rets[0].Key() != idx.Key() {
					ok, why = false, "does not return the position it removed at"
				}
			}
			if ok && !(sawRm && sawNo) {
				ok, why = false, "missing the removing or the not-found row"
			}
			o := R.Decide(ok, "remove-validated", fi.Name, "rows", c.pos(fi), "removes at Index(value) only, returns it; else -1 and no change", why)
			if !ok {
				o.Breaks = "Remove of an absent value deletes another element"
			}
		}
	}
	// ---- bounds-table: Get / RemoveAt proceed exactly for 0 <= index < Len and panic otherwise
	for _, name := range []string{"slices.(*Sorted).Get", "slices.(*Sorted).RemoveAt"} {
		fi := c.fn("bounds-table", name)
		ps := c.paths("bounds-table", fi)
		if ps == nil {
			continue
		}
		recv, index := paramOf(fi, 0), paramOf(fi, 1)
		ok, why := true, ""
		nOK, nPanic := 0, 0
		for _, p := range ps {
			lo, hi, below, above := false, false, false, false
			// the first event that acts on the Sorted (a write through the receiver, or a call of a splice primitive or of
			// another method): the bounds have to be settled before it
			firstAct := len(p.Events)
			for i := range p.Events {
				e := &p.Events[i]
				acts := e.Kind == "store" && rootOf(e.Addr).Key() == recv.Key() || e.Kind == "mapupdate" ||
					e.Kind == "call" && strings.HasPrefix(e.Name, "slices.") && e.Name != "slices.(*Sorted).Len"
				if acts && i < firstAct {
					firstAct = i
				}
			}
			late := false
			for _, cd := range p.Conds {
				pl, kind, isInt := cd.Rel().IntNorm()
				if !isInt || kind != ">" {
					continue
				}
				ip := ToPoly(index)
				if cd.NEv > firstAct && (pl.Coef(index.Key()) != 0) {
					late = true
				}
				if pl.Equal(ip.Add(polyConst(1), 1)) { // index + 1 > 0
					lo = true
				}
				if pl.Equal(polyConst(0).Add(ip, -1)) { // -index > 0
					below = true
				}
				for _, at := range pl.Atoms {
					isLen := (at.Op == "call" && at.Sym == "slices.(*Sorted).Len" && at.Args[0].Key() == recv.Key()) || (at.Op == "builtin" && at.Sym == "len" && isFieldLoad(at.Args[0], sliceF, recv))
					if !isLen {
						continue
					}
					lp := polyAtom(at)
					if pl.Equal(lp.Add(ip, -1)) { // Len - index > 0
						hi = true
					}
					if pl.Equal(ip.Add(lp, -1).Add(polyConst(1), 1)) { // index - Len + 1 > 0
						above = true
					}
				}
			}
			switch p.End {
			case EndPanic:
				nPanic++
				if !below && !above {
					ok, why = false, "a path panics although neither index < 0 nor index >= Len holds on it: "+p.CondString()
				}
			case EndReturn:
				nOK++
				if !lo || !hi {
					ok, why = false, "a path proceeds without having established 0 <= index < Len exactly: "+p.CondString()
				}
			}
			if late {
				ok, why = false, "the index is tested only after the method has already acted on the slice: the position is judged against the changed contents ("+p.CondString()+")"
			}
		}
		if ok && (nOK == 0 || nPanic == 0) {
			ok, why = false, "missing the proceeding or the panicking row"
		}
		R.Decide(ok, "bounds-table", fi.Name, "rows", c.pos(fi), "proceeds exactly when 0 <= index < Len, panics otherwise", why)
	}
	// ---- len-table and panic-justified
	if fi := c.fn("len-table", "slices.(*Sorted).Len"); fi != nil {
		if ps := c.paths("len-table", fi); ps != nil {
			recv := paramOf(fi, 0)
			ok, why := true, ""
			live := 0
			for _, p := range ps {
				if p.End != EndReturn || len(p.Rets) != 1 {
					ok, why = false, "a path of Len does not return"
					continue
				}
				recvNil := false
				for _, cd := range p.Conds {
					r := cd.Rel()
					if r.B != nil && r.Op == "==" && r.B.IsNil() && r.A.Key() == recv.Key() {
						recvNil = true
					}
				}
				if recvNil {
					continue // behaviour on a nil receiver is outside the property
				}
				live++
				if !isLenOf(p.Rets[0], &Term{Op: "load", Args: []*Term{{Op: "faddr", Args: []*Term{recv}, Obj: sliceF}}}) {
					ok, why = false, "for a non-nil receiver Len returns "+p.Rets[0].String()+", not len(slice)"
				}
			}
			if ok && live == 0 {
				ok, why = false, "no path for a non-nil receiver"
			}
			R.Decide(ok, "len-table", fi.Name, "rows", c.pos(fi), "non-nil receiver -> len(slice)", why)
		}
	}
	for _, fi := range c.P.FuncsOfPkg("slices") {
		if !strings.HasPrefix(fi.Name, "slices.(*Sorted).") && !strings.HasPrefix(fi.Name, "slices.(Sorted).") {
			continue
		}
		fp := c.An.PathsOf(fi.SSA)
		if fp.Unproven != "" {
			continue
		}
		recv := paramOf(fi, 0)
		lessF := c.P.FieldOf("slices", "Sorted", "less")
		ok, why := true, ""
		np, nret := 0, 0
		for _, p := range fp.Paths {
			if p.End == EndReturn {
				nret++
			}
			if p.End != EndPanic {
				continue
			}
			np++
			if len(p.Conds) == 0 {
				ok, why = false, "panics unconditionally"
				continue
			}
			last := p.Conds[len(p.Conds)-1].Rel()
			just := false
			if last.B != nil && last.Op == "==" && last.B.IsNil() && (last.A.Key() == recv.Key() || isFieldLoad(last.A, lessF, recv)) {
				just = true // nil receiver / uninitialised comparator
			}
			if pl, kind, isInt := last.IntNorm(); isInt && kind == ">" && len(fi.SSA.Params) > 1 {
				ip := ToPoly(paramOf(fi, 1))
				if pl.Equal(polyConst(0).Add(ip, -1)) {
					just = true
				}
				for _, at := range pl.Atoms {
					if (at.Op == "call" && at.Sym == "slices.(*Sorted).Len") || (at.Op == "builtin" && at.Sym == "len") {
						if pl.Equal(ip.Add(polyAtom(at), -1).Add(polyConst(1), 1)) {
							just = true
						}
					}
				}
			}
			// a guard on the result of search (the lower bound computed by sort.Search over [0, len], rule lower-bound)
			// being negative or beyond len(slice): cannot fire
			if pl, kind, isInt := last.IntNorm(); isInt && kind == ">" {
				for _, at := range pl.Atoms {
					if at.Op != "call" || !strings.HasSuffix(at.Sym, "(*Sorted).search") {
						continue
					}
					sp := polyAtom(at)
					if pl.Equal(polyConst(0).Add(sp, -1)) { // search < 0
						just = true
					}
					for _, at2 := range pl.Atoms {
						if at2.Op == "builtin" && at2.Sym == "len" && len(at2.Args) == 1 && isFieldLoad(at2.Args[0], sliceF, recv) && pl.Equal(sp.Add(polyAtom(at2), -1)) { // search > len
							just = true
						}
					}
				}
			}
			if !just {
				ok, why = false, "panics on a path decided by "+last.String()+", which is none of: nil receiver, nil comparator, index < 0, index >= Len"
			}
		}
		if np == 0 {
			continue
		}
		if ok && nret == 0 {
			ok, why = false, "every path panics"
		}
		R.Decide(ok, "panic-justified", fi.Name, "panics", c.pos(fi), fmt.Sprintf("%d explicit panics, each decided by a nil receiver/comparator or an out-of-range index", np), why)
	}
	// ---- positions
	if fi := c.fn("position", "slices.(*Sorted).Get"); fi != nil {
		if ps := c.paths("position", fi); ps != nil {
			recv := paramOf(fi, 0)
			ok := false
			all := true
			for _, p := range ps {
				if p.End != EndReturn {
					continue
				}
				r := p.Rets[0]
				if r.Op == "load" && r.Args[0].Op == "iaddr" && isFieldLoad(r.Args[0].Args[0], sliceF, recv) && isParam(r.Args[0].Args[1], 1) {
					ok = true
				} else {
					all = false
				}
			}
			R.Decide(ok && all, "position", fi.Name, "index", c.pos(fi), "returns slice[index]", "does not return slice[index]")
		}
	}
	if fi := c.fn("position", "slices.(*Sorted).RemoveAt"); fi != nil {
		if ps := c.paths("position", fi); ps != nil {
			recv := paramOf(fi, 0)
			ok, any := true, false
			for _, p := range ps {
				if p.End != EndReturn {
					continue
				}
				any = true
				rms := callsNamed(p, "slices.Remove")
				if len(rms) != 1 || !isFieldAddr(rms[0].Args[0], sliceF, recv) || !isParam(rms[0].Args[1], 1) {
					ok = false
				}
			}
			R.Decide(ok && any, "position", fi.Name, "index", c.pos(fi), "Remove(&slice, index)", "does not remove exactly at index")
		}
	}
	if fi := c.fn("position", "slices.(*Sorted).Contains"); fi != nil {
		if ps := c.paths("position", fi); ps != nil {
			ok := len(ps) == 1 && len(ps[0].Rets) == 1
			if ok {
				r := NormRel(ps[0].Rets[0], true)
				ok = false
				if r.B != nil && r.A.Op == "call" && r.A.Sym == "slices.(*Sorted).Index" && isParam(r.A.Args[1], 1) {
					// Index(value) != -1, or >= 0, or > -1 (Index returns -1 or a position)
					if pl, kind, isInt := r.IntNorm(); isInt {
						idx1 := ToPoly(r.A).Add(polyConst(1), 1)
						ok = (kind == "!=" && pl.Equal(canonSign(idx1))) || (kind == ">" && pl.Equal(idx1))
					}
				}
			}
			R.Decide(ok, "position", fi.Name, "agrees", c.pos(fi), "Index(value) != -1", "Contains is not Index(value) != -1")
		}
	}
}

// c7Ctor decides input-copied and sorted-on-entry for one function that returns a Sorted: it either builds the
// value itself (fresh copy of its slice parameter, sorted with the less function that it stores), or hands its
// slice parameter to another constructor of the package, which is decided the same way.
func c7Ctor(c *Ctx, fi *FuncInfo, sliceF *types.Var) {
	R := c.R
	{
		if ps := c.paths("input-copied", fi); ps != nil {
			values := paramOf(fi, 0)
			ok, why := true, ""
			okS, whyS := true, ""
			for _, p := range ps {
				if p.End == EndReturn && len(p.Rets) == 1 && p.Rets[0].Op == "call" && p.Rets[0].Sym != fi.Name && isSortedCtorName(c, p.Rets[0].Sym) &&
					len(p.Rets[0].Args) > 0 && stripIface(p.Rets[0].Args[0]).Key() == values.Key() {
					// delegation: the other constructor is decided by the same rules; here the slice may only be handed over
					for i := range p.Events {
						e := &p.Events[i]
						if e.Kind == "store" && rootOf(e.Addr).Key() == values.Key() {
							ok, why = false, "writes the caller's slice"
						}
						if (e.Kind == "call" || e.Kind == "go" || e.Kind == "defer") && (e.Res == nil || e.Res.Key() != p.Rets[0].Key()) && e.Name != "builtin.len" {
							for _, a := range e.Args {
								if a != nil && stripIface(a).Key() == values.Key() {
									ok, why = false, "passes the caller's slice to "+e.Name+" (reorders or keeps it)"
								}
							}
						}
					}
					continue
				}
				if p.End != EndReturn || len(p.Rets) != 1 || p.Rets[0].Op != "struct" {
					ok, why = false, "a path does not return a Sorted literal"
					okS, whyS = false, "a path does not return a Sorted literal"
					continue
				}
				st := p.Rets[0]
				stt := st.Typ.Underlying().(*types.Struct)
				var sv, lessP *Term
				for i := 0; i < stt.NumFields(); i++ {
					if sameField(stt.Field(i), sliceF) {
						sv = st.Args[i]
					} else {
						lessP = st.Args[i]
					}
				}
				copied := false
				// append(make(S, 0, n), values...) is a fresh copy as well
				if sv != nil && sv.Op == "builtin" && sv.Sym == "append" && len(sv.Args) == 2 && sv.Args[0].Op == "mkslice" && sv.Args[0].Args[0].IsConst("0") && sv.Args[1].Key() == values.Key() {
					copied = true
				} else if sv != nil && sv.Op == "call" && sv.Sym == "slices.Clone" && len(sv.Args) == 1 && sv.Args[0].Key() == values.Key() {
					copied = true // the library's own copying helper, decided by the clone-helper rule (dependency closure)
				} else if sv == nil || sv.Op != "mkslice" {
					ok, why = false, fmt.Sprintf("on a path the Sorted keeps %s, not a fresh copy of the input (%s)", sv, p.CondString())
					continue
				} else if !isLenOf(sv.Args[0], values) {
					ok, why = false, "the fresh slice does not have the input's length"
				}
				var sortCall *Event
				sortIdx, lastFill := -1, -1
				for i := range p.Events {
					e := &p.Events[i]
					if e.Kind == "call" && e.Name == "builtin.copy" && e.Args[0].Key() == sv.Key() && e.Args[1].Key() == values.Key() {
						copied = true
					}
					// anything that writes the fresh slice: the sort has to come after all of it
					if e.Kind == "call" && e.Name == "builtin.copy" && rootOf(e.Args[0]).Key() == sv.Key() || e.Kind == "store" && rootOf(e.Addr).Key() == sv.Key() {
						lastFill = i
					}
					if e.Kind == "call" && strings.HasPrefix(e.Name, "sort.") {
						sortCall = e
						sortIdx = i
					}
					// the argument must not be written / sorted
					if e.Kind == "store" && rootOf(e.Addr).Key() == values.Key() {
						ok, why = false, "writes the caller's slice"
					}
					if e.Kind == "call" && e.Name != "builtin.copy" && e.Name != "builtin.len" && e.Name != "builtin.append" && e.Name != "slices.Clone" {
						for _, a := range e.Args {
							if a != nil && stripIface(a).Key() == values.Key() {
								ok, why = false, "passes the caller's slice to "+e.Name+" (reorders or keeps it)"
							}
						}
					}
					if e.Kind == "call" && e.Name == "builtin.copy" && e.Args[0].Key() == values.Key() {
						ok, why = false, "copies INTO the caller's slice"
					}
				}
				if !copied {
					ok, why = false, "the input is not copied into the fresh slice"
				}
				// sorted-on-entry
				if sortCall == nil {
					// fewer than two elements are in order under any less function
					short := false
					lenV := ToPoly(&Term{Op: "builtin", Sym: "len", Args: []*Term{values}})
					for _, cd := range p.Conds {
						if pl, kind, isInt := cd.Rel().IntNorm(); isInt && kind == ">" {
							// c - len(values) > 0 with c <= 2
							for _, k := range []int64{2, 1} {
								if pl.Equal(polyConst(k).Add(lenV, -1)) {
									short = true
								}
							}
						} else if isInt && kind == "=" && pl.Equal(canonSign(lenV)) {
							short = true
						}
					}
					if !short || !copied && sv.Op == "mkslice" {
						okS, whyS = false, "the copy is not sorted"
					}
					continue
				}
				if lastFill > sortIdx {
					okS, whyS = false, "the fresh slice is written after it was sorted (the input is copied in, or an element stored, behind the sort): the Sorted starts out of order"
				}
				switch sortCall.Name {
				case "sort.SliceStable", "sort.Slice":
					if stripIface(sortCall.Args[0]).Key() != sv.Key() {
						okS, whyS = false, "sorts something other than the fresh copy"
						break
					}
					var mk *Event
					for i := range p.Events {
						if p.Events[i].Kind == "mkclosure" && p.Events[i].Val.Key() == sortCall.Args[1].Key() {
							mk = &p.Events[i]
						}
					}
					if mk == nil {
						okS, whyS = false, "the less adapter is not a local closure"
						break
					}
					cp := c.An.ClosurePaths(mk)
					good := cp.Unproven == "" && len(cp.Paths) == 1 && len(cp.Paths[0].Rets) == 1
					if good {
						r := cp.Paths[0].Rets[0]
						iT := &Term{Op: "param", N: 0, Fn: mk.SSAFn}
						jT := &Term{Op: "param", N: 1, Fn: mk.SSAFn}
						good = lessP != nil && r.Op == "call" && r.Sym == "dyn" && len(r.Args) == 3 && r.Args[0].Key() == lessP.Key() &&
							isElemOf(r.Args[1], sv, iT) && isElemOf(r.Args[2], sv, jT)
					}
					if !good {
						okS, whyS = false, "the adapter is not less(slice[i], slice[j]) on the fresh copy, with the less function that the Sorted keeps"
					}
				default:
					okS, whyS = false, "sorted through "+sortCall.Name+", which these rules do not know"
				}
			}
			o := R.Decide(ok, "input-copied", fi.Name, "copy", c.pos(fi), "make(len(values)) + copy(values) on every path; the argument is only read", why)
			if !ok {
				o.Breaks = "the Sorted aliases the caller's slice: either side's later writes corrupt the other"
			}
			R.Decide(okS, "sorted-on-entry", fi.Name, "sort", c.pos(fi), "stable sort of the fresh copy with less(s[i], s[j]) (or delegation to a constructor that does)", whyS)
		}
	}
}

func isSortedCtorName(c *Ctx, name string) bool {
	// only constructors the rules were written against: a new helper is judged where it is inlined, not trusted by name
	if !c.An.Baseline[name] {
		return false
	}
	for _, fi := range c.P.FuncsOfPkg("slices") {
		if fi.Name != name {
			continue
		}
		sig := fi.Obj.Type().(*types.Signature)
		if sig.Results().Len() != 1 || sig.Recv() != nil {
			return false
		}
		nt, ok := sig.Results().At(0).Type().(*types.Named)
		return ok && nt.Origin().Obj().Name() == "Sorted"
	}
	return false
}

// c07PureReader: the callee is a function of the module that, by its effect summary, writes nothing but its own
// locals, and that cannot hand the slice back: it returns only values without reference components (an index, a flag,
// an element count), or it is slices.Clone, whose fresh result the clone-helper rule decides.
func c07PureReader(c *Ctx, e *Event) bool {
	if e.SSAFn == nil {
		return false
	}
	fi := c.P.BySSA[e.SSAFn]
	if fi == nil || e.SSAFn != fi.SSA {
		if o := e.SSAFn.Origin(); o != nil {
			fi = c.P.BySSA[o]
		}
		if fi == nil {
			return false
		}
	}
	es := c.An.FuncEffects(fi.SSA)
	if es.all || len(es.cls) > 0 {
		return false
	}
	if fi.Name == "slices.Clone" {
		return true
	}
	res := fi.Obj.Type().(*types.Signature).Results()
	for i := 0; i < res.Len(); i++ {
		if b, ok := res.At(i).Type().Underlying().(*types.Basic); !ok || b.Kind() == types.UnsafePointer {
			return false
		}
	}
	return true
}
