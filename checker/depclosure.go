package main

import (
	"fmt"
	"go/types"
	"sort"
	"strings"

	"golang.org/x/tools/go/ssa"
)

// Dependency closure (rule `dep-closure`, every property): the functions a check examines are the constructs its
// obligations name. Whatever those functions call inside the module - directly, through closures, method values, or
// through the sets.Set interface - decides their behaviour just as much, so each such callee must itself be examined
// by a rule of the same check, or be listed in depExempt with the reason why its behaviour cannot matter to the
// property. A change "elsewhere" (a helper in another file or package that the anchored code rests on) can therefore
// not slip between the checks: either a rule looks at the helper, or this rule reports that nothing does.

// calleesOf: module-internal functions fn may call (static callees, functions whose value is taken, interface
// methods resolved by name over the module's types), closures included.
func (P *Program) calleesOf(fi *FuncInfo, followIface bool) []*FuncInfo {
	seen := map[*FuncInfo]bool{}
	var out []*FuncInfo
	add := func(f *ssa.Function) {
		if f == nil {
			return
		}
		if f.Origin() != nil {
			f = f.Origin()
		}
		// bound method wrappers and thunks: resolve to the method object
		g := P.BySSA[f]
		if g == nil && f.Object() != nil {
			if o, ok := f.Object().(*types.Func); ok {
				g = P.ByObj[o.Origin()]
			}
		}
		if g == nil && f.Synthetic != "" {
			// wrappers: the wrapped function is the only static callee inside
			for _, b := range f.Blocks {
				for _, in := range b.Instrs {
					if c, ok := in.(ssa.CallInstruction); ok {
						if sc := c.Common().StaticCallee(); sc != nil {
							if sc.Origin() != nil {
								sc = sc.Origin()
							}
							if h := P.BySSA[sc]; h != nil {
								g = h
							}
						}
					}
				}
			}
		}
		if g != nil && g != fi && !seen[g] {
			seen[g] = true
			out = append(out, g)
		}
	}
	fns := append([]*ssa.Function{fi.SSA}, fi.Closures...)
	for _, fn := range fns {
		for _, b := range fn.Blocks {
			for _, in := range b.Instrs {
				if c, ok := in.(ssa.CallInstruction); ok {
					cc := c.Common()
					if cc.IsInvoke() {
						if !followIface {
							continue
						}
						// interface call: the module's methods of that name whose receiver type has every method of
						// the interface (by name - the interfaces here are generic, instantiation is not attempted)
						iface, _ := cc.Value.Type().Underlying().(*types.Interface)
						for _, cand := range P.Funcs {
							if cand.Obj.Name() != cc.Method.Name() {
								continue
							}
							sig := cand.Obj.Type().(*types.Signature)
							if sig.Recv() == nil {
								continue
							}
							if iface != nil && !hasAllMethods(sig.Recv().Type(), iface) {
								continue
							}
							add(cand.SSA)
						}
					} else if sc := cc.StaticCallee(); sc != nil {
						add(sc)
					}
				}
				// function values: operands that are functions (method values, function arguments)
				for _, op := range in.Operands(nil) {
					if op == nil || *op == nil {
						continue
					}
					switch v := (*op).(type) {
					case *ssa.Function:
						if v.Parent() == nil { // closures of fi are already walked
							add(v)
						}
					case *ssa.MakeClosure:
						if f, ok := v.Fn.(*ssa.Function); ok && f.Parent() == nil {
							add(f)
						}
					}
				}
			}
		}
	}
	sort.Slice(out, func(i, j int) bool { return out[i].Name < out[j].Name })
	return out
}

func hasAllMethods(recv types.Type, iface *types.Interface) bool {
	ms := types.NewMethodSet(types.NewPointer(derefType(recv)))
	for i := 0; i < iface.NumMethods(); i++ {
		found := false
		for j := 0; j < ms.Len(); j++ {
			if ms.At(j).Obj().Name() == iface.Method(i).Name() {
				found = true
				break
			}
		}
		if !found {
			return false
		}
	}
	return true
}

func derefType(t types.Type) types.Type {
	if p, ok := t.(*types.Pointer); ok {
		return p.Elem()
	}
	return t
}

// helperRule: a module function that code of other properties rests on, with the rule that decides it.
type helperRule struct {
	rule      string
	statement string
	run       func(c *Ctx, rule string)
}

var helperRules = map[string]helperRule{
	"typ.Zero": {"zero-helper", "typ.Zero, with which this code builds its empty/absent results, returns the zero value of its type parameter on its single path, without any test, call or effect (C20's row, re-run here)",
		func(c *Ctx, rule string) { c20ZeroRows(c, rule, "typ.Zero") }},
	"typ.Compare": {"compare-helper", "typ.Compare, which avl.NewOrdered installs as the comparator, returns 1 / -1 / 0 for a > b / a < b / otherwise under every ordering of its arguments, through comparisons only (C20's row, re-run here)",
		func(c *Ctx, rule string) { c20CompareLessRows(c, rule, true, false) }},
	"typ.Less": {"less-helper", "typ.Less, which NewSortedOrdered installs as the order, is a < b under every ordering of its arguments, through the comparison only (C20's row, re-run here)",
		func(c *Ctx, rule string) { c20CompareLessRows(c, rule, false, true) }},
	"typ.Max": {"max-helper", "typ.Max returns an argument that is >= all the others, under every ordering of its arguments (C20's row, re-run here)",
		func(c *Ctx, rule string) { c20MinMaxRows(c, rule, false, true) }},
	"maps.(Set).Add": {"set-helper", "maps.Set.Has is the presence flag of the map lookup and maps.Set.Add stores and reports true exactly when the value was absent - the set the exclusion helpers are built on (C03's rows, re-run here)",
		c03SetCore},
	"maps.(Set).Has": {"set-helper", "", c03SetCore},
	"slices.Clone": {"clone-helper", "slices.Clone returns a freshly made slice of its argument's length with the contents copied, on every path (C12's row, re-run here)",
		func(c *Ctx, rule string) { c12CloneRow(c, rule) }},
	"slices.Fill": {"fill-helper", "slices.Fill sets every element of its argument to the value (C12's row, re-run here)",
		func(c *Ctx, rule string) { c12Fill(c, rule) }},
}

// depExempt: functions of the module whose behaviour cannot matter to a property through a caller, one reason each
// (key: property id + " " + function name, or "* " + function name for all properties).
var depExempt = map[string]string{}

// examinedFuncs: the functions named as constructs by the obligations recorded so far (C06 and the list/ rules name
// methods as pkg.Type.Method), plus those a rule declared covered as part of another construct.
func examinedFuncs(c *Ctx) map[*FuncInfo]bool {
	ex := map[*FuncInfo]bool{}
	look := func(name string) bool {
		if fi := c.P.Func(name); fi != nil {
			ex[fi] = true
			return true
		}
		// pkg.Type.Method -> pkg.(*Type).Method | pkg.(Type).Method
		if parts := strings.Split(name, "."); len(parts) == 3 && !strings.Contains(name, "(") {
			for _, f := range []string{"%s.(*%s).%s", "%s.(%s).%s"} {
				if fi := c.P.Func(fmt.Sprintf(f, parts[0], parts[1], parts[2])); fi != nil {
					ex[fi] = true
					return true
				}
			}
		}
		return false
	}
	for _, o := range c.R.Obs {
		// rules that only establish that a function keeps OUT of some state (the map's internals, a container) say
		// nothing about what the function does: they do not make it examined
		if strings.HasSuffix(o.Rule, "encapsulation") && strings.HasSuffix(o.Instance, "map-fields") || o.Rule == "method-frame" || o.Rule == "dep-closure" {
			continue
		}
		name := o.Construct
		if look(name) {
			continue
		}
		// constructs like "pkg.(*T).M/closure" or "pkg.F#2"
		for _, sep := range []string{"/", "#", "$", " "} {
			if i := strings.Index(name, sep); i > 0 {
				look(name[:i])
			}
		}
	}
	for name := range c.R.Covers {
		look(name)
	}
	return ex
}

// runDepClosure: rule dep-closure (see the head of this file). Roots are the examined functions declared in the
// property's anchored files; the closure follows static callees and function values (interface calls on a value the
// caller supplied are that value's own contract and are not followed; where a property rests on a particular
// implementation it runs that implementation's rules itself). A reachable function that no obligation names is
// decided by its helper rule if it has one (the rule is run here, under its own name), is passed through if it is not
// in the baseline (a new helper is seen through by the inlining views, which judge its body at the call site), and is
// otherwise reported: the property rests on code that no rule of this check has looked at.
func runDepClosure(c *Ctx) {
	if c.P == nil {
		return
	}
	rule := "dep-closure"
	c.R.Rule(rule, "every function of the module that the examined code of this property calls (directly, through closures or as a function value) is itself examined by a rule of this check - a helper in another file or package is decided by its own helper rule, re-run here", 0)
	// roots: the examined functions of the packages the property is anchored in (by directory, so that a function moved
	// to another file of its package stays a root)
	files := map[string]bool{}
	for _, f := range anchorFiles(c.Verif, c.R.Prop) {
		dir := "."
		if i := strings.LastIndex(f, "/"); i >= 0 {
			dir = f[:i]
		}
		files[dir] = true
	}
	if len(files) == 0 {
		c.R.Unproven(rule, "(anchors)", "files", "", "the property's anchored files could not be read from properties.jsonl")
		return
	}
	baseline := c.An.Baseline
	ex := examinedFuncs(c)
	var q []*FuncInfo
	seen := map[*FuncInfo]bool{}
	for _, fi := range c.P.Funcs {
		pos := c.P.Pos(fi.Decl.Pos())
		if i := strings.LastIndex(pos, ":"); i > 0 {
			pos = pos[:i]
		}
		dir := "."
		if i := strings.LastIndex(pos, "/"); i >= 0 {
			dir = pos[:i]
		}
		if files[dir] && ex[fi] {
			seen[fi] = true
			q = append(q, fi)
		}
	}
	via := map[*FuncInfo]string{}
	ranHelper := map[string]bool{}
	nDeps := 0
	for len(q) > 0 {
		f := q[0]
		q = q[1:]
		for _, g := range c.P.calleesOf(f, false) {
			if seen[g] {
				continue
			}
			seen[g] = true
			via[g] = f.Name
			q = append(q, g)
			if ex[g] {
				nDeps++
				continue
			}
			if why, ok := depExempt[c.R.Prop+" "+g.Name]; ok {
				c.R.Held(rule, g.Name, "exempt", c.pos(g), "exempt: "+why)
				continue
			}
			if why, ok := depExempt["* "+g.Name]; ok {
				c.R.Held(rule, g.Name, "exempt", c.pos(g), "exempt: "+why)
				continue
			}
			if h, ok := helperRules[g.Name]; ok {
				if !ranHelper[h.rule] {
					ranHelper[h.rule] = true
					if _, have := c.R.Rules[h.rule]; !have {
						c.R.Rule(h.rule, h.statement, 1)
						h.run(c, h.rule)
					}
				}
				c.R.Held(rule, g.Name, "helper-rule", c.pos(g), "reached from "+f.Name+"; decided by rule "+h.rule)
				nDeps++
				continue
			}
			if home := homeOf(g.Name); home != "" && home != c.R.Prop && baseline[g.Name] {
				// a function that another property's rules decide: run those rules for this one function and take
				// over what they say about it
				if n := runHomeRules(c, home, g.Name); n > 0 {
					c.R.Held(rule, g.Name, "home-rules", c.pos(g), fmt.Sprintf("reached from %s; decided by %d obligation(s) of %s's rules, re-run here for this function (rule %s-rules)", f.Name, n, home, home))
					nDeps++
					continue
				}
			}
			if len(baseline) > 0 && !baseline[g.Name] {
				// a new function: its body is judged where it is called, on the view that walks through new functions of
				// the caller's package (which decides the caller's obligations); keep following its callees. A new
				// function that view cannot walk through (another package, or recursive among new functions) is code
				// nobody has looked at.
				if g.Pkg == f.Pkg && !c.An.isRecursiveAmongNew(g.SSA) {
					c.R.Held(rule, g.Name, "new-helper", c.pos(g), "reached from "+f.Name+"; not in the baseline: judged at its call sites by the inlining views")
					continue
				}
				c.R.Unproven(rule, g.Name, "unexamined", c.pos(g), "the examined code of this property calls the new function "+g.Name+" (from "+f.Name+"), which is not walked through at its call sites (it is in another package, or recursive): no rule of this check examines it")
				continue
			}
			c.R.Unproven(rule, g.Name, "unexamined", c.pos(g), "the examined code of this property calls "+g.Name+" (from "+f.Name+"), and no rule of this check examines that function: a change there would go unnoticed")
		}
	}
	c.R.Analysed["dependencies_followed"] = nDeps
}

// homeOf: the property whose rules decide a function of the module ("" = none).
func homeOf(name string) string {
	has := func(p string) bool { return strings.HasPrefix(name, p) }
	in := func(pkg string, fns ...string) bool {
		for _, f := range fns {
			if name == pkg+"."+f {
				return true
			}
		}
		return false
	}
	switch {
	case has("avl."):
		return "C01"
	case has("arrays."):
		return "C08"
	case has("sync2.(*Map)."), has("sync2.(*entry)."), name == "sync2.newEntry":
		return "C04"
	case has("sync2.(*Set)."), has("maps.(Set)."), has("sets."), in("maps", "NewSetFromSlice", "NewSetFromKeys", "NewSetFromValues"), in("sync2", "NewSetFromSlice", "NewSetFromKeys", "NewSetFromValues"):
		return "C03"
	case has("sync2.(*KeyedMutex)."), has("sync2.(*KeyedRWMutex)."):
		return "C09"
	case has("sync2.(*Once"):
		return "C17"
	case has("sync2.(*AtomicValue)."), has("sync2.(*Pool)."):
		return "C18"
	case has("lists.(*Queue)."), has("lists.(*Stack)."):
		return "C16"
	case has("lists."):
		return "C06"
	case has("chans.(*PubSub)."):
		return "C10"
	case has("chans."):
		return "C19"
	case has("maps.(*Bimap)."):
		return "C11"
	case has("maps."):
		return "C14"
	case has("slices.(*Sorted)."), has("slices.(Sorted)."), in("slices", "NewSorted", "NewSortedOrdered"):
		return "C07"
	case in("slices", "Insert", "InsertSlice", "Remove", "RemoveSlice", "Concat", "Clone", "Repeat", "Fill", "Reverse", "Grow"):
		return "C12"
	case in("slices", "Chunk", "ChunkFunc", "Windowed", "WindowedFunc", "Pairs", "PairsFunc"):
		return "C13"
	case has("slices.(sort"), in("slices", "Sort", "SortDesc", "SortFunc", "SortDescFunc", "SortStableFunc", "SortStableDescFunc", "BinarySearch", "BinarySearchFunc", "Shuffle", "ShuffleRand"):
		return "C15"
	case has("slices."):
		return "C14"
	case has("typ."):
		return "C20"
	}
	return ""
}

// runHomeRules runs the rule set of property `home` on the current tree restricted to function fn (anchors of other
// functions resolve to nothing), on a report of its own, and imports the obligations it yields for fn under the rule
// `<home>-rules`. Returns how many were imported. Floors and controls of the home property are its own business and
// are not evaluated here.
func runHomeRules(c *Ctx, home, fn string) int {
	spec := props[home]
	if spec == nil {
		return 0
	}
	R2 := NewReport(home, c.Tier)
	c2 := &Ctx{R: R2, P: c.P, An: c.An, Tier: c.Tier, Verif: c.Verif, Repo: c.Repo, Only: map[string]bool{fn: true}}
	func() {
		defer func() {
			if r := recover(); r != nil {
				R2.Obs = nil
			}
		}()
		spec.run(c2)
	}()
	rule := home + "-rules"
	n := 0
	for _, o := range R2.Obs {
		if o.Construct != fn {
			continue
		}
		if n == 0 {
			if _, have := c.R.Rules[rule]; !have {
				c.R.Rule(rule, "functions that the examined code calls and that property "+home+"'s rules decide are decided here by those rules, re-run for just these functions", 0)
			}
		}
		no := c.R.add(rule, o.Construct, o.Rule+"/"+o.Instance, o.Verdict, o.Pos, o.Msg, o.Facts...)
		no.Breaks = o.Breaks
		n++
	}
	return n
}
