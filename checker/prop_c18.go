package main

import (
	"fmt"
	"strings"
)

func init() {
	register(&propSpec{
		id:    "C18",
		level: "other",
		run:   runC18,
		explanation: "AtomicValue wraps atomic.Value and Pool wraps sync.Pool; register linearizability and no-double-hand-out are the wrapped primitives' contracts PROVIDED each method is exactly one operation of the primitive whose own result is what is reported, and the wrapper adds no unsynchronised shared state. Decided on all paths (go/ssa path summaries): " +
			"(atomic-table) Store = one atom.Store(val); Load = one atom.Load(), nil -> zero, else the loaded value; Swap = one atom.Swap(new) returning the value it REPLACED (nil -> zero); CompareAndSwap = one atom.CompareAndSwap(old,new) in that order returning its result; every path performs exactly one atomic operation (a Load+Store 'swap' or a shortcut path without the operation is refuted); " +
			"(no-unsynchronised-receiver-write) no method of Pool/AtomicValue stores to memory reachable from its receiver (such a store is a data race between concurrent callers); " +
			"(pool-handout) Get returns the wrapped pool's Get() result, or New()'s result / the zero value exactly when that gave nothing usable, and the value it returns flows nowhere else (not back into the pool, not into a field); Put passes its argument to the wrapped Put exactly once. " +
			"NOT decided: linearizability of atomic.Value and the hand-out discipline of sync.Pool themselves (trusted contracts).",
		assumptions: []string{"contracts of sync/atomic.Value (Load/Store/Swap/CompareAndSwap are atomic) and sync.Pool (an item is handed to one Get)"},
	})
}

func runC18(c *Ctx) {
	R := c.R
	R.Rule("atomic-table", "each AtomicValue method is exactly one operation on the receiver's atomic.Value, with arguments and result mapped as specified, on every path", 4)
	R.Rule("no-unsynchronised-receiver-write", "no method of AtomicValue or Pool stores to memory reachable from its receiver", 6)
	R.Rule("pool-handout", "Get hands out pool.Get()'s value, or New()/zero when that is empty, and keeps no other reference; Put = one pool.Put(x)", 2)

	atomField := c.P.FieldOf("sync2", "AtomicValue", "atom")
	poolField := c.P.FieldOf("sync2", "Pool", "pool")
	newField := c.P.FieldOf("sync2", "Pool", "New")

	// ---- no-unsynchronised-receiver-write
	for _, fi := range c.P.FuncsOfPkg("sync2") {
		if !(strings.HasPrefix(fi.Name, "sync2.(*AtomicValue).") || strings.HasPrefix(fi.Name, "sync2.(*Pool).") ||
			strings.HasPrefix(fi.Name, "sync2.(AtomicValue).") || strings.HasPrefix(fi.Name, "sync2.(Pool).")) {
			continue
		}
		rule := "no-unsynchronised-receiver-write"
		ps := c.paths(rule, fi)
		if ps == nil {
			continue
		}
		recv := paramOf(fi, 0)
		bad := ""
		badPos := c.pos(fi)
		for _, p := range ps {
			for i := range p.Events {
				e := &p.Events[i]
				if (e.Kind == "store" || e.Kind == "mapupdate") && rootOf(e.Addr).Key() == recv.Key() {
					bad = e.String()
					badPos = c.ipos(e.Instr)
				}
			}
		}
		// closures of the method must not write receiver memory either
		for _, cl := range fi.Closures {
			cp := c.An.PathsOf(cl)
			for _, p := range cp.Paths {
				for i := range p.Events {
					e := &p.Events[i]
					if e.Kind == "store" && !(e.Addr.Op == "alloc") {
						if r := rootOf(e.Addr); r.Op == "free" || r.Key() == recv.Key() {
							bad = "in closure: " + e.String()
						}
					}
				}
			}
		}
		if bad != "" {
			o := R.Refuted(rule, fi.Name, "stores", badPos, "plain store to memory shared through the receiver: "+bad)
			o.Breaks = "data race between concurrent callers (the type is documented as safe for concurrent use)"
		} else {
			R.Held(rule, fi.Name, "stores", c.pos(fi), "no store to receiver-reachable memory")
		}
	}

	// ---- atomic-table
	if atomField == nil {
		R.Unproven("atomic-table", "sync2.AtomicValue", "anchor", "", "field atom not found")
	} else {
		type row struct {
			method, op string
		}
		for _, rw := range []row{{"Store", "Store"}, {"Load", "Load"}, {"Swap", "Swap"}, {"CompareAndSwap", "CompareAndSwap"}} {
			rule := "atomic-table"
			fi := c.fn(rule, "sync2.(*AtomicValue)."+rw.method)
			ps := c.paths(rule, fi)
			if ps == nil {
				continue
			}
			recv := paramOf(fi, 0)
			ok, why := true, ""
			sawNil, sawVal := false, false
			for _, p := range ps {
				var ops []*Event
				for i := range p.Events {
					e := &p.Events[i]
					switch {
					case e.Kind == "call" && strings.HasPrefix(e.Name, "sync/atomic."):
						ops = append(ops, e)
					case e.Kind == "call" && e.Name == "typ.Zero":
					case e.Kind == "mkclosure": // forming a function value touches nothing shared
					case e.Kind == "store" && e.Addr.Op == "alloc": // a cell of this call (a variable captured by a closure)
					default:
						ok, why = false, "unexpected effect "+e.String()
					}
				}
				if !ok {
					break
				}
				if len(ops) != 1 {
					ok, why = false, fmt.Sprintf("a path performs %d atomic operations (exactly one is required: %s)", len(ops), p.CondString())
					break
				}
				op := ops[0]
				if op.Name != "sync/atomic.(*Value)."+rw.op || !isFieldAddr(op.Args[0], atomField, recv) {
					ok, why = false, "the operation is "+op.Name+" on "+op.Args[0].String()+", expected atom."+rw.op
					break
				}
				if p.End != EndReturn {
					ok, why = false, "path does not return"
					break
				}
				switch rw.method {
				case "Store":
					if len(op.Args) != 2 || !isParam(stripIface(op.Args[1]), 1) || len(p.Conds) != 0 {
						ok, why = false, "not an unconditional atom.Store(val)"
					}
				case "CompareAndSwap":
					if len(op.Args) != 3 || !isParam(stripIface(op.Args[1]), 1) || !isParam(stripIface(op.Args[2]), 2) {
						ok, why = false, "arguments are not (old, new) in that order"
					} else if len(p.Rets) != 1 || p.Rets[0].Key() != op.Res.Key() || len(p.Conds) != 0 {
						ok, why = false, "does not unconditionally return the operation's result"
					}
				case "Load", "Swap":
					if rw.method == "Swap" && (len(op.Args) != 2 || !isParam(stripIface(op.Args[1]), 1)) {
						ok, why = false, "Swap does not store the new value"
						break
					}
					// rows on the result: nil -> zero ; non-nil -> asserted value
					if len(p.Rets) != 1 {
						ok, why = false, "does not return one value"
						break
					}
					cls := ""
					for _, cd := range p.Conds {
						r := cd.Rel()
						if r.B != nil && r.A.Key() == op.Res.Key() && r.B.IsNil() {
							cls = r.Op
						} else if t, pol := stripNot(cd.T, cd.Pol); t.Op == "extract" && t.N == 1 && t.Args[0].Op == "tassert" && t.Args[0].Args[0].Key() == op.Res.Key() {
							cls = map[bool]string{true: "!=", false: "=="}[pol]
						} else {
							ok, why = false, "decides on something other than the operation's result: "+r.String()
						}
					}
					ret := p.Rets[0]
					isAssert := func(t *Term) bool {
						if t.Op == "extract" && t.N == 0 {
							t = t.Args[0]
						}
						return t.Op == "tassert" && t.Args[0].Key() == op.Res.Key()
					}
					switch cls {
					case "==":
						sawNil = true
						if !isZeroish(ret) {
							ok, why = false, "empty register does not map to the zero value"
						}
					case "!=":
						sawVal = true
						if !isAssert(ret) {
							ok, why = false, "does not return the value the operation produced: "+ret.String()
						}
					default:
						if !isAssert(ret) || ret.Op == "tassert" && ret.Sym != "commaok" {
							// a bare x.(T) without the nil row panics on the empty register
							ok, why = false, "no mapping of the empty register to the zero value"
						}
					}
				}
				if !ok {
					break
				}
			}
			if ok && (rw.method == "Load" || rw.method == "Swap") && !(sawNil && sawVal) {
				ok, why = false, "missing the nil -> zero or the value row"
			}
			good := map[string]string{"Store": "one atom.Store(val)", "Load": "one atom.Load(); nil -> zero, else the value", "Swap": "one atom.Swap(new); returns what it replaced (nil -> zero)", "CompareAndSwap": "one atom.CompareAndSwap(old, new), result returned"}[rw.method]
			o := R.Decide(ok, rule, fi.Name, "table", c.pos(fi), good, why)
			if !ok {
				o.Breaks = "the method is no longer one atomic step of the register"
			}
		}
	}

	// ---- pool-handout
	if poolField == nil {
		R.Unproven("pool-handout", "sync2.Pool", "anchor", "", "field pool not found")
		return
	}
	if fi := c.fn("pool-handout", "sync2.(*Pool).Get"); fi != nil {
		if ps := c.paths("pool-handout", fi); ps != nil {
			recv := paramOf(fi, 0)
			ok, why := true, ""
			for _, p := range ps {
				gets := callsNamed(p, "sync.(*Pool).Get")
				puts := callsNamed(p, "sync.(*Pool).Put")
				if len(puts) > 0 {
					ok, why = false, "Get puts a value into the pool"
					break
				}
				if len(gets) != 1 || !isFieldAddr(gets[0].Args[0], poolField, recv) {
					ok, why = false, fmt.Sprintf("a path makes %d calls of pool.Get on the receiver's pool", len(gets))
					break
				}
				if p.End != EndReturn || len(p.Rets) != 1 {
					ok, why = false, "path does not return one value"
					break
				}
				got := gets[0].Res
				ret := p.Rets[0]
				// usable = the type assertion of got succeeded (or got != nil with a plain assertion)
				usable := ""
				for _, cd := range p.Conds {
					t, pol := stripNot(cd.T, cd.Pol)
					if t.Op == "extract" && t.N == 1 && t.Args[0].Op == "tassert" && t.Args[0].Args[0].Key() == got.Key() {
						usable = map[bool]string{true: "yes", false: "no"}[pol]
					}
					r := cd.Rel()
					if r.B != nil && r.A.Key() == got.Key() && r.B.IsNil() {
						usable = map[string]string{"!=": "yes", "==": "no"}[r.Op]
					}
				}
				fromPool := ret.Contains(func(x *Term) bool { return x.Key() == got.Key() })
				switch usable {
				case "yes":
					if !fromPool {
						ok, why = false, "a value was obtained from the pool but something else is returned (the pooled value is dropped or kept)"
					}
				case "no":
					// New() or zero, decided by New == nil
					newNil := ""
					for _, cd := range p.Conds {
						r := cd.Rel()
						if r.B != nil && newField != nil && isFieldLoad(r.A, newField, recv) && r.B.IsNil() {
							newNil = r.Op
						}
					}
					isNewCall := ret.Op == "call" && ret.Sym == "dyn" && newField != nil && isFieldLoad(ret.Args[0], newField, recv)
					switch newNil {
					case "==":
						// the first component of a failed comma-ok assertion is the zero value of the asserted type
						failedAssert := ret.Op == "extract" && ret.N == 0 && ret.Args[0].Op == "tassert" && ret.Args[0].Sym == "commaok" && ret.Args[0].Args[0].Key() == got.Key()
						if !isZeroish(ret) && !failedAssert {
							ok, why = false, "New is nil but the zero value is not returned"
						}
					case "!=":
						if !isNewCall {
							ok, why = false, "New is set but its result is not returned"
						}
					default:
						ok, why = false, "the fallback is not decided by New == nil"
					}
				default:
					// no test: pool.New must be supplying values - we cannot see that here
					ok, why = false, "the value from the pool is used without checking that the pool had one"
				}
				// the handed-out value must not be stored anywhere
				for i := range p.Events {
					e := &p.Events[i]
					if e.Kind == "store" && e.Addr.Op != "alloc" && e.Val != nil && (e.Val.ContainsKey(ret.Key())) {
						ok, why = false, "the handed-out value is also stored: "+e.String()
					}
				}
				if !ok {
					break
				}
			}
			R.Decide(ok, "pool-handout", fi.Name, "handout", c.pos(fi), "returns pool.Get()'s value when there is one, else New() or zero; keeps no reference", why)
		}
	}
	if fi := c.fn("pool-handout", "sync2.(*Pool).Put"); fi != nil {
		if ps := c.paths("pool-handout", fi); ps != nil {
			recv := paramOf(fi, 0)
			ok := len(ps) >= 1
			for _, p := range ps {
				puts := callsNamed(p, "sync.(*Pool).Put")
				if len(p.Events) == 1 && len(puts) == 1 && isFieldAddr(puts[0].Args[0], poolField, recv) && isParam(stripIface(puts[0].Args[1]), 1) {
					continue
				}
				// sync.Pool.Put drops a nil interface value before doing anything else: returning at once when x is
				// known to be the nil interface is the same thing
				nilX := false
				for _, cd := range p.Conds {
					if r := cd.Rel(); r.Op == "==" && (isParam(stripIface(r.A), 1) && r.B.IsConst("nil") || isParam(stripIface(r.B), 1) && r.A.IsConst("nil")) {
						nilX = true
					}
				}
				if !(nilX && len(p.Events) == 0 && p.End == EndReturn) {
					ok = false
				}
			}
			R.Decide(ok, "pool-handout", fi.Name, "put", c.pos(fi), "one pool.Put(x)", "Put is not exactly one pool.Put(x) on the receiver's pool")
		}
	}
}
