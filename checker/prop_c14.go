package main

import (
	"fmt"
	"go/types"
	"sort"
	"strings"

	"golang.org/x/tools/go/ssa"
)

func init() {
	register(&propSpec{
		id:    "C14",
		level: "other",
		run:   runC14,
		explanation: "The functional helpers are tiny; for most of them a handful of path rows IS the definition. Decided from go/ssa path summaries with loops summarised by one generic iteration: " +
			"(inputs-readonly) none of the helpers stores through, deletes from or hands to a writer any slice/map parameter (maps.Clear is the one declared mutator); (result-fresh) every promised-new result originates from make (or grows by append from a made/nil accumulator) on EVERY path - a fast path returning the argument, or filtering into slice[:0], is refuted - while the Trim family returns a re-slice of its argument; " +
			"(callback-result-used) the result of calling a function-typed parameter reaches a branch, a return value, a stored value or the loop-carried state; (fold-threading) Fold/FoldReverse pass the loop-carried state (initially the seed) and the current element to acc, carry its result, visit 0..n-1 resp. n-1..0, and return the state; (loop-direction, package-wide) a counted loop bounded from above steps up, bounded from below steps down; " +
			"(early-exit-table) Index/IndexFunc/Contains/ContainsFunc/Any/All/maps.ContainsValue/KeyOf/HasKey: first match -> its index/true/(key,true), exhausted -> -1/false/true(All)/(zero,false), forward over the whole argument, ContainsFunc as equals(element, value); (map-filter) Map/MapErr write conv(s[i]) to result[i] (MapErr returns (nil, err) at the first error), Filter/Distinct*/ExceptSet append exactly the elements that pass/fail the predicate, in order; " +
			"(grouping) GroupBy/CountBy append a key to the ordered list exactly when its map lookup missed, update the map on every iteration and build the output by ranging the ordered list; (get-family) TryGet/SafeGet/SafeGetOr return s[index] exactly when 0 <= index < len and the zero/fallback otherwise, Last = s[len-1], Trim* drop from the correct end while the predicate holds; maps.Keys/Values/Clone/Clear enumerate the whole map. " +
			"NOT decided: equality with the definitions for every input beyond these tables (for GroupBy/CountBy/Distinct they are necessary bookkeeping conditions).",
		assumptions: []string{"Go semantics of range, append, make, map iteration", "callbacks touch only what they are passed"},
	})
}

type c14iter struct {
	consume *Term // consuming form: the loop variable holding the not yet visited part of the slice
	consIdx *Term // consuming form: index of the visited element within consume (0, or len(consume)-1)
	li      *LoopInfo
	kind    string // slice | map
	over    *Term
	idx     *Term // slice loops: the index term used (φ or φ+1)
	next    *Term // map loops: the next-tuple
	full    bool
	fullRev bool // visits len-1 .. 0
	idxPhi  *ssa.Phi
}

func (it *c14iter) isElem(t *Term) bool {
	if it.consume != nil {
		return isElemOf(t, it.consume, it.consIdx)
	}
	if it.kind == "slice" {
		return isElemOf(t, it.over, it.idx)
	}
	return t != nil && t.Op == "extract" && t.N == 2 && t.Args[0].Key() == it.next.Key()
}

func (it *c14iter) isKey(t *Term) bool {
	if it.kind == "slice" {
		return t != nil && ToPoly(t).Equal(ToPoly(it.idx))
	}
	return t != nil && t.Op == "extract" && t.N == 1 && t.Args[0].Key() == it.next.Key()
}

func c14IterOf(li *LoopInfo) *c14iter {
	if len(li.Back) == 0 {
		return nil
	}
	// map iteration?
	for i := range li.Back[0].Events {
		e := &li.Back[0].Events[i]
		if e.Kind == "next" && i >= li.Back[0].LoopAt[li.Hdr] {
			rng := e.Addr
			if rng.Op == "range" && len(rng.Args) == 1 {
				return &c14iter{li: li, kind: "map", over: rng.Args[0], next: e.Val, full: true}
			}
		}
	}
	ct := counted(li)
	if ct == nil {
		return c14Consuming(li)
	}
	lv := li.LV[ct.Phi]
	// the element index actually used: an access X[E] with E = lv + k
	var over, E *Term
	scan := func(t *Term) {
		if t == nil {
			return
		}
		t.Walk(func(x *Term) bool {
			if (x.Op == "iaddr" || x.Op == "index") && len(x.Args) == 2 && x.Args[1].ContainsKey(lv.Key()) {
				if _, isC := ToPoly(x.Args[1]).Add(ToPoly(lv), -1).IsConst(); isC && E == nil {
					over, E = x.Args[0], x.Args[1]
				}
			}
			return true
		})
	}
	for _, p := range li.Back {
		for i := p.LoopAt[li.Hdr]; i < len(p.Events); i++ {
			e := &p.Events[i]
			for _, t := range append([]*Term{e.Addr, e.Key, e.Val}, e.Args...) {
				scan(t)
			}
		}
		for _, cd := range p.Conds {
			if cd.NEv >= p.LoopAt[li.Hdr] {
				scan(cd.T)
			}
		}
		for _, nx := range p.Next {
			scan(nx)
		}
	}
	for _, p := range li.Exit {
		for _, r := range p.Rets {
			scan(r)
		}
	}
	if E == nil {
		// no element access: fall back to the bound's slice with the condition's index
		if ct.Bound.Op == "builtin" && ct.Bound.Sym == "len" {
			over, E = ct.Bound.Args[0], ct.Idx
		} else {
			return nil
		}
	}
	it := &c14iter{li: li, kind: "slice", over: over, idx: E, idxPhi: ct.Phi}
	k := ToPoly(E).Add(ToPoly(lv), -1) // constant
	first := ToPoly(li.Init[ct.Phi]).Add(k, 1)
	lenX := ToPoly(&Term{Op: "builtin", Sym: "len", Args: []*Term{over}})
	// the continue condition as P > 0
	condRel := Rel{Op: ct.Op, A: ct.Idx, B: ct.Bound}
	P, kind, okc := condRel.IntNorm()
	if okc && kind == ">" {
		if ct.Step == 1 && first.Equal(polyConst(0)) && P.Equal(lenX.Add(ToPoly(E), -1)) {
			it.full = true
		}
		if ct.Step == -1 && first.Equal(lenX.Add(polyConst(1), -1)) && P.Equal(ToPoly(E).Add(polyConst(1), 1)) {
			it.fullRev = true
		}
	}
	return it
}

// idxOrKey: the index term of a slice iteration (nil-safe zero for map iterations)
func (it *c14iter) idxOrKey() *Term {
	if it.kind == "slice" && it.idx != nil {
		return it.idx
	}
	return intConst(0)
}

// accumulators other than the index
func (it *c14iter) accPhis() []*ssa.Phi {
	var out []*ssa.Phi
	for _, phi := range it.li.Phis {
		if phi != it.idxPhi {
			out = append(out, phi)
		}
	}
	return out
}

// appendedElem: next = append(acc, [x]) -> x
func appendedElem(p *Path, acc, next *Term) (*Term, bool) {
	if next.Op != "builtin" || next.Sym != "append" || len(next.Args) != 2 || next.Args[0].Key() != acc.Key() {
		return nil, false
	}
	arr := next.Args[1]
	if arr.Op != "slice" || arr.Args[0].Op != "alloc" {
		return nil, false
	}
	cell := arr.Args[0]
	var v *Term
	n := 0
	for i := range p.Events {
		e := &p.Events[i]
		if e.Kind == "store" && e.Addr.Op == "iaddr" && e.Addr.Args[0].Key() == cell.Key() {
			v = e.Val
			n++
		}
	}
	return v, n == 1
}

// isFreshAccInit: the initial value of an accumulator that grows by append (or by map stores): nil, a fresh map, or a
// fresh slice of LENGTH ZERO - make(S, 0, n) reserves room, make(S, n) or make(S, 1, n) starts the result with zero
// values that are not elements of the input.
func isFreshAccInit(t *Term) bool {
	if t == nil {
		return false
	}
	if t.IsNil() || t.Op == "mkmap" {
		return true
	}
	return t.Op == "mkslice" && len(t.Args) >= 1 && t.Args[0].IsConst("0")
}

func runC14(c *Ctx) {
	R := c.R
	R.Rule("ctor", "the set constructors Except builds its exclusion set with add every element of their argument to a fresh set (C03's rows, re-run here)", 6)
	c03Ctors(c)
	R.Rule("alloc-nonneg", "no make in the helpers is given a length or capacity that subtracts without the path having excluded a negative result", 8)
	R.Rule("inputs-readonly", "no helper writes through, deletes from or passes to a writer any slice/map parameter", 30)
	R.Rule("result-fresh", "promised-new results come from make/append-from-fresh on every path; Trim* return a re-slice of the argument", 14)
	R.Rule("callback-result-used", "the result of every call of a function-typed parameter is used (branch, return, stored value, loop state)", 10)
	R.Rule("fold-threading", "Fold/FoldReverse: state = acc(state, element) carried through the loop from the seed; indices 0..n-1 resp. n-1..0; state returned", 2)
	R.Rule("loop-direction", "a counted loop whose condition bounds the index from above steps up, from below steps down", 20)
	R.Rule("early-exit-table", "search/predicate helpers: first match and exhausted rows as defined, forward over the whole argument", 9)
	R.Rule("map-filter", "Map/MapErr/Filter/Distinct/DistinctFunc/ExceptSet/Except rows", 7)
	R.Rule("grouping", "GroupBy/CountBy: key appended to the ordered list exactly on a map miss; map updated every iteration; output ranges the ordered list", 2)
	R.Rule("get-family", "TryGet/SafeGet/SafeGetOr/Last/Trim*/maps.Keys/Values/Clear rows", 12)

	slicesFns := []string{"Fold", "FoldReverse", "Map", "MapErr", "Filter", "Any", "All", "Index", "IndexFunc", "Contains", "ContainsFunc", "Distinct", "DistinctFunc",
		"Except", "ExceptSet", "GroupBy", "CountBy", "Trim", "TrimFunc", "TrimLeft", "TrimLeftFunc", "TrimRight", "TrimRightFunc", "TryGet", "SafeGet", "SafeGetOr", "Last"}
	mapsFns := []string{"Clone", "Keys", "Values", "KeyOf", "ContainsValue", "HasKey"}
	var list []*FuncInfo
	for _, n := range slicesFns {
		if fi := c.fn("inputs-readonly", "slices."+n); fi != nil {
			list = append(list, fi)
		}
	}
	for _, n := range mapsFns {
		if fi := c.fn("inputs-readonly", "maps."+n); fi != nil {
			list = append(list, fi)
		}
	}
	paths := map[*FuncInfo][]*Path{}
	for _, fi := range list {
		if ps := c.paths("inputs-readonly", fi); ps != nil {
			paths[fi] = ps
		}
	}

	// ---- alloc-nonneg: a computed length or capacity of make must not be able to go negative (make panics)
	for _, fi := range list {
		ps := paths[fi]
		if ps == nil {
			continue
		}
		ok, why := true, ""
		n := 0
		for _, p := range ps {
			seen := map[string]bool{}
			check := func(t *Term) {
				if t == nil {
					return
				}
				t.Walk(func(x *Term) bool {
					if x.Op != "mkslice" && x.Op != "mkmap" && x.Op != "mkchan" {
						return true
					}
					if seen[x.Key()] {
						return true
					}
					seen[x.Key()] = true
					for _, a := range x.Args {
						if a == nil || a.Op == "none" {
							continue
						}
						n++
						pl := ToPoly(a)
						neg := false
						for k, cf := range pl.M {
							if cf < 0 {
								neg = true
							}
							_ = k
						}
						if !neg {
							continue
						}
						// a subtraction: the path must have shown the result non-negative
						shown := false
						for _, cd := range p.Conds {
							if q, kind, isInt := cd.Rel().IntNorm(); isInt && kind == ">" {
								if k, isC := pl.Add(polyConst(1), 1).Add(q, -1).IsConst(); isC && k >= 0 {
									shown = true
								}
							}
						}
						if !shown {
							ok, why = false, fmt.Sprintf("make is given the size %s, which can be negative on a path (%s) that has not excluded it: makeslice panics", pl, p.CondString())
						}
					}
					return true
				})
			}
			for i := range p.Events {
				e := &p.Events[i]
				check(e.Val)
				check(e.Addr)
				for _, a := range e.Args {
					check(a)
				}
			}
			for _, r := range p.Rets {
				check(r)
			}
			for _, nx := range p.Next {
				check(nx)
			}
			for _, lvs := range p.LoopIn {
				for _, lv := range lvs {
					if len(lv.Args) > 0 {
						check(lv.Args[0])
					}
				}
			}
		}
		if n == 0 {
			continue
		}
		R.Decide(ok, "alloc-nonneg", fi.Name, "sizes", c.pos(fi), "every computed make size is a sum of lengths/constants or guarded", why)
	}
	// ---- inputs-readonly
	writers := map[string]int{"builtin.copy": 0, "slices.Fill": 0, "slices.Insert": 0, "slices.InsertSlice": 0, "slices.Remove": 0, "slices.RemoveSlice": 0, "slices.Reverse": 0,
		"slices.Sort": 0, "slices.SortFunc": 0, "slices.SortDesc": 0, "slices.SortDescFunc": 0, "slices.SortStableFunc": 0, "slices.SortStableDescFunc": 0, "slices.Shuffle": 0, "slices.ShuffleRand": 0,
		"maps.Clear": 0, "builtin.delete": 0, "builtin.clear": 0, "sort.Slice": 0, "sort.SliceStable": 0, "sort.Sort": 0, "sort.Stable": 0}
	for _, fi := range list {
		ps := paths[fi]
		if ps == nil {
			continue
		}
		isInput := func(t *Term) bool {
			r := rootOf(stripIface(t))
			if r == nil || r.Op != "param" || r.Fn != fi.SSA {
				return false
			}
			switch r.Typ.Underlying().(type) {
			case *types.Slice, *types.Map, *types.Pointer:
				return true
			}
			// type parameters with slice/map core types
			if tp, ok := r.Typ.(*types.TypeParam); ok {
				switch coreOf(tp).(type) {
				case *types.Slice, *types.Map:
					return true
				}
			}
			return false
		}
		bad := ""
		for _, p := range ps {
			for i := range p.Events {
				e := &p.Events[i]
				switch {
				case e.Kind == "store" && e.Addr.Op == "iaddr" && isInput(e.Addr.Args[0]):
					bad = "writes an element of its argument: " + e.String()
				case e.Kind == "mapupdate" && isInput(e.Addr):
					bad = "inserts into its argument map"
				case e.Kind == "call":
					if _, w := writers[e.Name]; w && len(e.Args) > 0 && e.Args[0] != nil && isInput(e.Args[0]) {
						bad = "passes its argument to " + e.Name + ", which writes it"
					}
					if e.Name == "builtin.append" && len(e.Args) > 0 && isInput(e.Args[0]) {
						bad = "appends to (a re-slice of) its argument: the spare capacity of the caller's slice is overwritten"
					}
				}
			}
		}
		if bad != "" {
			o := R.Refuted("inputs-readonly", fi.Name, "params", c.pos(fi), bad)
			o.Breaks = "the caller's input is modified"
		} else {
			R.Held("inputs-readonly", fi.Name, "params", c.pos(fi), "parameters are only read")
		}
	}

	// ---- result-fresh
	freshWanted := []string{"slices.Map", "slices.MapErr", "slices.Filter", "slices.Distinct", "slices.DistinctFunc", "slices.ExceptSet", "slices.GroupBy", "slices.CountBy", "maps.Keys", "maps.Values", "maps.Clone"}
	for _, name := range freshWanted {
		fi := c.P.Func(name)
		ps := paths[fi]
		if fi == nil || ps == nil {
			continue
		}
		loops := findLoops(ps)
		ok, why := true, ""
		any := false
		for _, p := range ps {
			if p.End != EndReturn || len(p.Rets) == 0 {
				continue
			}
			r := p.Rets[0]
			if r.IsNil() {
				continue // (nil, err)
			}
			any = true
			switch {
			case r.Op == "mkslice" || r.Op == "mkmap":
			case r.Op == "loopvar":
				// accumulator: init fresh, every step append(acc, ..) or acc
				var li *LoopInfo
				var phi *ssa.Phi
				for _, l := range loops {
					for ph, lv := range l.LV {
						if lv.Key() == r.Key() {
							li, phi = l, ph
						}
					}
				}
				if li == nil {
					ok, why = false, "result is an unknown loop value"
					break
				}
				init := li.Init[phi]
				if !isFreshAccInit(init) {
					if init != nil && init.Op == "mkslice" {
						ok, why = false, "the result accumulates by append into "+init.String()+", a slice that does not start empty: it begins with zero values that are no elements of the input"
					} else {
						ok, why = false, "the result accumulates into "+init.String()+", which is not fresh storage (writes land in the argument's array)"
					}
					break
				}
				for _, nx := range li.Nexts[phi] {
					if nx.Key() == r.Key() {
						continue
					}
					if !(nx.Op == "builtin" && nx.Sym == "append" && nx.Args[0].Key() == r.Key()) {
						ok, why = false, "the accumulator is replaced by "+nx.String()
					}
				}
			default:
				ok, why = false, fmt.Sprintf("a path (%s) returns %s, which is not new storage", p.CondString(), r)
			}
		}
		if !any {
			ok, why = false, "no returning path with a result"
		}
		o := R.Decide(ok, "result-fresh", name, "origin", c.pos(fi), "result originates from make / append to a fresh accumulator on every path", why)
		if !ok {
			o.Breaks = "modifying the result changes the input (or the reverse)"
		}
	}
	// Except delegates
	if fi := c.P.Func("slices.Except"); fi != nil && paths[fi] != nil {
		ps := paths[fi]
		ok := len(ps) == 1 && len(ps[0].Rets) == 1
		if ok {
			r := ps[0].Rets[0]
			ok = r.Op == "call" && r.Sym == "slices.ExceptSet" && isParam(r.Args[0], 0) && r.Args[1] != nil &&
				stripIface(r.Args[1]).Op == "call" && strings.HasSuffix(stripIface(r.Args[1]).Sym, "NewSetFromSlice") && isParam(stripIface(r.Args[1]).Args[0], 1)
		}
		R.Decide(ok, "map-filter", fi.Name, "delegates", c.pos(fi), "ExceptSet(slice, NewSetFromSlice(exclude))", "Except is not ExceptSet over the set of excluded values")
		R.Decide(ok, "result-fresh", fi.Name, "origin", c.pos(fi), "result of ExceptSet (fresh)", "not the result of ExceptSet")
	}
	// Trim family: result is a re-slice of the argument
	for _, name := range []string{"slices.TrimLeft", "slices.TrimLeftFunc", "slices.TrimRight", "slices.TrimRightFunc"} {
		fi := c.P.Func(name)
		ps := paths[fi]
		if fi == nil || ps == nil {
			continue
		}
		left := strings.Contains(name, "Left")
		isFunc := strings.HasSuffix(name, "Func")
		ok, why := true, ""
		loops := findLoops(ps)
		// nothing is a member of an empty set of unwanted values (Contains' own row): handing the argument back
		// untouched once len(unwanted) == 0 is known is the trimmed result
		nothingUnwanted := func(p *Path) bool {
			if isFunc || p.End != EndReturn || len(p.Rets) != 1 || !isParam(p.Rets[0], 0) {
				return false
			}
			lenU := ToPoly(&Term{Op: "builtin", Sym: "len", Args: []*Term{paramOf(fi, 1)}})
			for _, cd := range p.Conds {
				pl, kind, isInt := cd.Rel().IntNorm()
				if !isInt {
					continue
				}
				if kind == "=" && pl.Equal(canonSign(lenU)) || kind == ">" && pl.Equal(polyConst(1).Add(lenU, -1)) {
					return true
				}
			}
			return false
		}
		if len(loops) > 0 {
			var rest []*Path
			for _, p := range ps {
				if !nothingUnwanted(p) {
					rest = append(rest, p)
				}
			}
			ps = rest
		}
		if len(loops) == 1 && len(loops[0].Phis) == 1 && isIntegerType(loops[0].Phis[0].Type()) {
			// the index form: scan a boundary index over the argument, re-slice once at the end
			li := loops[0]
			phi := li.Phis[0]
			lv := li.LV[phi]
			arg := paramOf(fi, 0)
			lenArg := ToPoly(&Term{Op: "builtin", Sym: "len", Args: []*Term{arg}})
			in := li.Init[phi]
			if left && (in == nil || !in.IsConst("0")) || !left && (in == nil || !ToPoly(in).Equal(lenArg)) {
				ok, why = false, "the boundary index does not start at the "+map[bool]string{true: "front (0)", false: "back (len)"}[left]
			}
			edgeIdx := ToPoly(lv)
			if !left {
				edgeIdx = ToPoly(lv).Add(polyConst(1), -1)
			}
			for _, p := range ps {
				inB, outB := false, false
				var pred *Term
				predPol := false
				for _, cd := range p.Conds {
					if pl, kind, isInt := cd.Rel().IntNorm(); isInt && kind == ">" {
						if left {
							if pl.Equal(lenArg.Add(ToPoly(lv), -1)) {
								inB = true
							}
							if pl.Equal(ToPoly(lv).Add(lenArg, -1).Add(polyConst(1), 1)) {
								outB = true
							}
						} else {
							if pl.Equal(ToPoly(lv)) {
								inB = true
							}
							if pl.Equal(polyConst(1).Add(ToPoly(lv), -1)) {
								outB = true
							}
						}
					}
					t, pol := stripNot(cd.T, cd.Pol)
					if t.Op == "call" {
						pred, predPol = t, pol
					}
				}
				predOnEdge := func() bool {
					if pred == nil {
						return false
					}
					var a *Term
					if isFunc {
						if pred.Sym == "dyn" && len(pred.Args) == 2 && isParam(pred.Args[0], 1) {
							a = pred.Args[1]
						}
					} else if pred.Sym == "slices.Contains" && len(pred.Args) == 2 && isParam(pred.Args[0], 1) {
						a = pred.Args[1]
					}
					if a == nil || a.Op != "load" || a.Args[0].Op != "iaddr" || a.Args[0].Args[0].Key() != arg.Key() {
						return false
					}
					return ToPoly(a.Args[0].Args[1]).Equal(edgeIdx)
				}
				switch p.End {
				case EndLoopBack:
					if !inB || !predPol || !predOnEdge() {
						ok, why = false, "moves the boundary without having tested 'inside the slice and the edge element is unwanted'"
					}
					step := int64(1)
					if !left {
						step = -1
					}
					if nx := p.Next[phi]; nx == nil || !ToPoly(nx).Equal(ToPoly(lv).Add(polyConst(step), 1)) {
						ok, why = false, "the boundary does not move by exactly one element"
					}
				case EndReturn:
					good := len(p.Rets) == 1 && p.Rets[0].Op == "slice" && p.Rets[0].Args[0].Key() == arg.Key()
					if good {
						r := p.Rets[0]
						if left {
							good = ToPoly(r.Args[1]).Equal(ToPoly(lv)) && r.Args[2].Op == "none"
						} else {
							good = (r.Args[1].Op == "none" || r.Args[1].IsConst("0")) && r.Args[2].Op != "none" && ToPoly(r.Args[2]).Equal(ToPoly(lv))
						}
					}
					if !good {
						ok, why = false, "does not return the argument re-sliced at the boundary"
					}
					if !(outB || (inB && pred != nil && !predPol && predOnEdge())) {
						ok, why = false, "stops although the edge element may still be unwanted: "+p.CondString()
					}
				}
			}
		} else if len(loops) != 1 || len(loops[0].Phis) != 1 {
			ok, why = false, "expected one loop carrying the shrinking slice or a boundary index"
		} else {
			li := loops[0]
			phi := li.Phis[0]
			lv := li.LV[phi]
			if !isParam(li.Init[phi], 0) {
				ok, why = false, "the loop does not start from the argument"
			}
			lenLV := &Term{Op: "builtin", Sym: "len", Args: []*Term{lv}}
			edge := intConst(0)
			var edgeT *Term = edge
			if !left {
				edgeT = &Term{Op: "bin", Sym: "-", Args: []*Term{lenLV, intConst(1)}, Typ: types.Typ[types.Int]}
			}
			for _, p := range ps {
				// non-empty test
				nonEmpty := ""
				var pred *Term
				predPol := false
				for _, cd := range p.Conds {
					r := cd.Rel()
					if pl, kind, isInt := r.IntNorm(); isInt && kind == ">" {
						if pl.Equal(ToPoly(lenLV)) {
							nonEmpty = "yes"
						}
						if pl.Equal(polyConst(1).Add(ToPoly(lenLV), -1)) {
							nonEmpty = "no"
						}
					} else if isInt && pl.Equal(canonSign(ToPoly(lenLV))) {
						// len != 0 / len == 0 (a length is never negative)
						nonEmpty = map[string]string{"!=": "yes", "=": "no"}[kind]
					}
					t, pol := stripNot(cd.T, cd.Pol)
					if t.Op == "call" {
						pred, predPol = t, pol
					}
				}
				switch {
				case p.End == EndLoopBack:
					if nonEmpty != "yes" || pred == nil || !predPol {
						ok, why = false, "drops an element without having tested 'non-empty and unwanted'"
						break
					}
					// predicate on the edge element
					var arg *Term
					if isFunc {
						if pred.Sym == "dyn" && len(pred.Args) == 2 && isParam(pred.Args[0], 1) {
							arg = pred.Args[1]
						}
					} else if pred.Sym == "slices.Contains" && len(pred.Args) == 2 && isParam(pred.Args[0], 1) {
						arg = pred.Args[1]
					}
					if arg == nil || !isElemOf(arg, lv, edgeT) {
						ok, why = false, "the predicate is not applied to the "+map[bool]string{true: "first", false: "last"}[left]+" element"
					}
					nx := p.Next[phi]
					good := false
					if nx.Op == "slice" && nx.Args[0].Key() == lv.Key() {
						if left {
							good = nx.Args[1].IsConst("1") && nx.Args[2].Op == "none"
						} else {
							good = (nx.Args[1].Op == "none" || nx.Args[1].IsConst("0")) && nx.Args[2].Op != "none" && ToPoly(nx.Args[2]).Equal(ToPoly(edgeT))
						}
					}
					if !good {
						ok, why = false, "does not drop exactly the "+map[bool]string{true: "first", false: "last"}[left]+" element: "+nx.String()
					}
				case p.End == EndReturn:
					if len(p.Rets) != 1 || p.Rets[0].Key() != lv.Key() {
						ok, why = false, "does not return the trimmed re-slice"
					}
					if !(nonEmpty == "no" || (nonEmpty == "yes" && pred != nil && !predPol)) {
						ok, why = false, "stops although the edge element may still be unwanted: "+p.CondString()
					}
				}
			}
		}
		R.Decide(ok, "get-family", name, "trim", c.pos(fi), "drops from the "+map[bool]string{true: "front", false: "back"}[left]+" while non-empty and unwanted; returns the re-slice", why)
		R.Decide(ok, "result-fresh", name, "subslice", c.pos(fi), "returns a re-slice of its argument", why)
	}
	for _, pr := range []struct{ name, l, r string }{{"slices.Trim", "slices.TrimLeft", "slices.TrimRight"}, {"slices.TrimFunc", "slices.TrimLeftFunc", "slices.TrimRightFunc"}} {
		fi := c.P.Func(pr.name)
		ps := paths[fi]
		if fi == nil || ps == nil {
			continue
		}
		ok := len(ps) == 1 && len(ps[0].Rets) == 1
		if ok {
			r := ps[0].Rets[0]
			inner := func(t *Term, name string) *Term {
				if t.Op == "call" && t.Sym == name && len(t.Args) == 2 && isParam(t.Args[1], 1) {
					return t.Args[0]
				}
				return nil
			}
			a := inner(r, pr.l)
			if a != nil {
				b := inner(a, pr.r)
				ok = b != nil && isParam(b, 0)
			} else if a = inner(r, pr.r); a != nil {
				b := inner(a, pr.l)
				ok = b != nil && isParam(b, 0)
			} else {
				ok = false
			}
		}
		R.Decide(ok, "get-family", pr.name, "both-ends", c.pos(fi), "TrimLeft(TrimRight(slice)) with the same predicate", "is not the composition of the left and right trims")
	}

	// ---- callback-result-used
	for _, fi := range list {
		ps := paths[fi]
		if ps == nil {
			continue
		}
		hasCb := false
		bad := ""
		for _, p := range ps {
			for i := range p.Events {
				e := &p.Events[i]
				if e.Kind != "call" || e.Name != "dyn" || e.Callee.Op != "param" {
					continue
				}
				if e.Res == nil || e.Res.Typ == nil {
					continue
				}
				if tup, ok := e.Res.Typ.(*types.Tuple); ok && tup.Len() == 0 {
					continue
				}
				hasCb = true
				used := false
				uses := func(t *Term) bool { return t != nil && t.ContainsKey(e.Res.Key()) }
				for _, cd := range p.Conds {
					if uses(cd.T) {
						used = true
					}
				}
				for _, r := range p.Rets {
					if uses(r) {
						used = true
					}
				}
				for _, nx := range p.Next {
					if uses(nx) {
						used = true
					}
				}
				for j := range p.Events {
					f := &p.Events[j]
					if j == i {
						continue
					}
					if uses(f.Val) || uses(f.Key) {
						used = true
					}
					for _, a := range f.Args {
						if uses(a) {
							used = true
						}
					}
				}
				if !used {
					bad = fmt.Sprintf("the result of %s is computed and then dropped (path: %s)", e.Callee, p.CondString())
				}
			}
		}
		if !hasCb {
			continue
		}
		if bad != "" {
			o := R.Refuted("callback-result-used", fi.Name, "results", c.pos(fi), bad)
			o.Breaks = "the function returns the same thing whatever the callback computes"
		} else {
			R.Held("callback-result-used", fi.Name, "results", c.pos(fi), "every callback result feeds a branch, a result or the loop state")
		}
	}

	// ---- loop-direction (whole tree)
	for _, fi := range c.P.Funcs {
		for _, fn := range append([]*ssa.Function{fi.SSA}, fi.Closures...) {
			fp := c.An.PathsOf(fn)
			if fp.Unproven != "" {
				continue
			}
			for li, l := range findLoops(fp.Paths) {
				ct := counted(l)
				if ct == nil {
					continue
				}
				inst := fmt.Sprintf("loop#%d", li)
				if fn != fi.SSA {
					inst = fn.Name() + "/" + inst
				}
				above := ct.Op == "<" || ct.Op == "<="
				below := ct.Op == ">" || ct.Op == ">="
				switch {
				case above && ct.Step < 0, below && ct.Step > 0:
					o := R.Refuted("loop-direction", fi.Name, inst, c.pos(fi), fmt.Sprintf("the loop continues while index %s %s but the index moves by %+d per iteration: it runs away from its bound", ct.Op, ct.Bound, ct.Step))
					o.Breaks = "index out of range on every non-empty input (or an endless loop)"
				case above || below:
					R.Held("loop-direction", fi.Name, inst, c.pos(fi), fmt.Sprintf("index %s bound, step %+d", ct.Op, ct.Step))
				}
			}
		}
	}

	// ---- fold-threading
	for _, name := range []string{"slices.Fold", "slices.FoldReverse"} {
		fi := c.P.Func(name)
		ps := paths[fi]
		if fi == nil || ps == nil {
			continue
		}
		ok, why := true, ""
		loops := findLoops(ps)
		s, seed, acc := paramOf(fi, 0), paramOf(fi, 1), paramOf(fi, 2)
		if len(loops) != 1 {
			ok, why = false, "expected one loop"
		} else {
			li := loops[0]
			it := c14IterOf(li)
			if it == nil || it.kind != "slice" || it.over.Key() != s.Key() {
				ok, why = false, "not a counted loop over the slice"
			} else {
				accs := it.accPhis()
				if len(accs) != 1 {
					ok, why = false, "no single loop-carried state: the accumulator's result is not threaded"
				} else {
					st := accs[0]
					lv := li.LV[st]
					if li.Init[st] == nil || li.Init[st].Key() != seed.Key() {
						ok, why = false, "the state does not start as the seed"
					}
					for _, nx := range li.Nexts[st] {
						if !(nx.Op == "call" && nx.Sym == "dyn" && len(nx.Args) == 3 && nx.Args[0].Key() == acc.Key() && nx.Args[1].Key() == lv.Key() && it.isElem(nx.Args[2])) {
							ok, why = false, "the next state is not acc(state, slice[i]): "+nx.String()
						}
					}
					for _, p := range li.Exit {
						if p.End == EndReturn && (len(p.Rets) != 1 || p.Rets[0].Key() != lv.Key()) {
							ok, why = false, "does not return the state"
						}
					}
					if name == "slices.Fold" && !it.full {
						ok, why = false, "does not visit 0..len-1 upwards"
					}
					if name == "slices.FoldReverse" && !it.fullRev {
						ok, why = false, "does not visit len-1..0 downwards"
					}
				}
			}
		}
		o := R.Decide(ok, "fold-threading", name, "state", c.pos(fi), "state carried from the seed through acc(state, element), right direction, returned", why)
		if !ok {
			o.Breaks = "Fold returns its seed / visits the wrong elements"
		}
	}

	// ---- early-exit-table
	type eet struct {
		name      string
		overParam int
		pred      string // "eq-value" | "cb" | "cb-eq"
		matchPol  bool   // polarity of the predicate that exits
		onMatch   string // "idx" | "true" | "false" | "keytrue"
		onExhaust string // "-1" | "true" | "false" | "zerofalse"
	}
	for _, row := range []eet{
		{"slices.Index", 0, "eq-value", true, "idx", "-1"},
		{"slices.IndexFunc", 0, "cb", true, "idx", "-1"},
		{"slices.Contains", 0, "eq-value", true, "true", "false"},
		{"slices.ContainsFunc", 0, "cb-eq", true, "true", "false"},
		{"slices.Any", 0, "cb", true, "true", "false"},
		{"slices.All", 0, "cb", false, "false", "true"},
		{"maps.ContainsValue", 0, "eq-value", true, "true", "false"},
		{"maps.KeyOf", 0, "eq-value", true, "keytrue", "zerofalse"},
	} {
		fi := c.P.Func(row.name)
		ps := paths[fi]
		if fi == nil || ps == nil {
			continue
		}
		ok, why := true, ""
		loops := findLoops(ps)
		over := paramOf(fi, row.overParam)
		if len(loops) != 1 {
			ok, why = false, "expected one loop over the argument"
		} else {
			it := c14IterOf(loops[0])
			if it == nil || it.over.Key() != over.Key() || !it.full {
				ok, why = false, "does not iterate forward over the whole argument"
			} else {
				sawMatch, sawExhaust := false, false
				for _, p := range ps {
					// the predicate decision on this path
					dec := ""
					for _, cd := range p.Conds {
						switch row.pred {
						case "eq-value":
							r := cd.Rel()
							if r.B != nil && (r.Op == "==" || r.Op == "!=") {
								a, b := r.A, r.B
								if it.isElem(b) {
									a, b = b, a
								}
								if it.isElem(a) && isParam(b, 1) {
									dec = map[bool]string{true: "t", false: "f"}[r.Op == "=="]
								}
							}
						case "cb", "cb-eq":
							t, pol := stripNot(cd.T, cd.Pol)
							if t.Op == "call" && t.Sym == "dyn" && t.Args[0].Op == "param" {
								good := false
								if row.pred == "cb" {
									good = len(t.Args) == 2 && it.isElem(t.Args[1])
								} else {
									good = len(t.Args) == 3 && it.isElem(t.Args[1]) && isParam(t.Args[2], 1)
									if !good && len(t.Args) == 3 && it.isElem(t.Args[2]) {
										ok, why = false, "the custom equality is called as equals(value, element); the contract is equals(element, value)"
									}
								}
								if good {
									dec = map[bool]string{true: "t", false: "f"}[pol]
								}
							}
						}
					}
					matchDec := map[bool]string{true: "t", false: "f"}[row.matchPol]
					switch {
					case p.End == EndLoopBack:
						if dec == "" || dec == matchDec {
							ok, why = false, "continues past an element that satisfies the exit condition (or without testing it)"
						}
					case p.End == EndReturn && dec == matchDec:
						sawMatch = true
						r := p.Rets
						good := false
						switch row.onMatch {
						case "idx":
							good = len(r) == 1 && it.isKey(r[0])
						case "true", "false":
							good = len(r) == 1 && r[0].IsConst(row.onMatch)
							if !good && len(r) == 1 && row.onMatch == "true" {
								// "index != -1" / "index >= 0" for the matching index (an index is never negative)
								if pl, kind, isInt := NormRel(r[0], true).IntNorm(); isInt {
									for kk, cf := range pl.M {
										if kk == "" {
											continue
										}
										at := pl.Atoms[kk]
										_ = at
										_ = cf
									}
									keyP := ToPoly(it.idxOrKey())
									if d, isC := pl.Add(keyP, -1).IsConst(); isC && d >= 1 && (kind == ">" || kind == "!=") {
										good = true
									}
								}
							}
						case "keytrue":
							good = len(r) == 2 && it.isKey(r[0]) && r[1].IsConst("true")
						}
						if !good {
							ok, why = false, fmt.Sprintf("on a match it returns %v", r)
						}
					case p.End == EndReturn && dec == "":
						sawExhaust = true
						r := p.Rets
						good := false
						switch row.onExhaust {
						case "-1", "true", "false":
							good = len(r) == 1 && r[0].IsConst(row.onExhaust)
						case "zerofalse":
							good = len(r) == 2 && isZeroish(r[0]) && r[1].IsConst("false")
						}
						if !good {
							ok, why = false, fmt.Sprintf("when exhausted it returns %v", r)
						}
					default:
						ok, why = false, "unexpected row: "+p.CondString()
					}
				}
				if ok && !(sawMatch && sawExhaust) {
					ok, why = false, "missing the match or the exhausted row"
				}
			}
		}
		R.Decide(ok, "early-exit-table", row.name, "rows", c.pos(fi), "first match -> "+row.onMatch+"; exhausted -> "+row.onExhaust+"; whole argument, forward", why)
	}
	if fi := c.P.Func("maps.HasKey"); fi != nil && paths[fi] != nil {
		ps := paths[fi]
		isFlag := func(t *Term) bool {
			return t.Op == "extract" && t.N == 1 && t.Args[0].Op == "lookup" && isParam(t.Args[0].Args[0], 0) && isParam(t.Args[0].Args[1], 1)
		}
		ok := len(ps) >= 1
		for _, p := range ps {
			if len(p.Rets) != 1 {
				ok = false
				continue
			}
			if len(p.Conds) == 0 {
				ok = ok && isFlag(p.Rets[0])
				continue
			}
			// if present { return true }; return false
			for _, cd := range p.Conds {
				t, pol := stripNot(cd.T, cd.Pol)
				if !isFlag(t) || !p.Rets[0].IsConst(fmt.Sprint(pol)) {
					ok = false
				}
			}
		}
		R.Decide(ok, "early-exit-table", fi.Name, "rows", c.pos(fi), "the comma-ok of m[key]", "HasKey is not the presence flag of m[key]")
	}

	// ---- map-filter
	for _, name := range []string{"slices.Map", "slices.MapErr"} {
		fi := c.P.Func(name)
		ps := paths[fi]
		if fi == nil || ps == nil {
			continue
		}
		ok, why := true, ""
		loops := findLoops(ps)
		s, conv := paramOf(fi, 0), paramOf(fi, 1)
		if len(loops) != 1 {
			ok, why = false, "expected one loop"
		} else {
			it := c14IterOf(loops[0])
			if it == nil || it.over.Key() != s.Key() || !it.full {
				ok, why = false, "does not iterate forward over the whole slice"
			} else {
				for _, p := range ps {
					if p.LoopIn[loops[0].Hdr] == nil {
						ok, why = false, "a path avoids the loop"
						continue
					}
					var call *Event
					var st *Event
					for i := p.LoopAt[loops[0].Hdr]; i < len(p.Events); i++ {
						e := &p.Events[i]
						if e.Kind == "call" && e.Name == "dyn" && e.Callee.Key() == conv.Key() {
							call = e
						}
						if e.Kind == "store" && e.Addr.Op == "iaddr" && e.Addr.Args[0].Op == "mkslice" {
							st = e
						}
					}
					if p.End == EndLoopBack || (p.End == EndReturn && call != nil) {
						if call == nil || len(call.Args) != 1 || !it.isElem(call.Args[0]) {
							ok, why = false, "conv is not applied to slice[i]"
							continue
						}
						val := call.Res
						if name == "slices.MapErr" {
							val = &Term{Op: "extract", Args: []*Term{call.Res}, N: 0}
						}
						// on the path that returns (nil, err) the store may be skipped: the partial result is thrown away
						discarded := name == "slices.MapErr" && p.End == EndReturn && st == nil && len(p.Rets) == 2 && p.Rets[0].IsNil() &&
							p.Rets[1].Key() == (&Term{Op: "extract", Args: []*Term{call.Res}, N: 1}).Key()
						if !discarded && (st == nil || !it.isKey(st.Addr.Args[1]) || st.Val.Key() != val.Key() || !isLenOf(st.Addr.Args[0].Args[0], s)) {
							ok, why = false, "result[i] is not set to conv(slice[i]) in a make(len(slice)) result"
						}
					}
					if name == "slices.MapErr" && call != nil {
						errT := &Term{Op: "extract", Args: []*Term{call.Res}, N: 1}
						errNil := ""
						for _, cd := range p.Conds {
							r := cd.Rel()
							if r.B != nil && r.A.Key() == errT.Key() && r.B.IsNil() {
								errNil = r.Op
							}
						}
						switch {
						case errNil == "!=":
							if p.End != EndReturn || len(p.Rets) != 2 || !p.Rets[0].IsNil() || p.Rets[1].Key() != errT.Key() {
								ok, why = false, fmt.Sprintf("on an error it returns %v instead of (nil, err) at once", p.Rets)
							}
						case errNil == "==":
							if p.End != EndLoopBack {
								ok, why = false, "does not continue after a successful conversion"
							}
						default:
							ok, why = false, "the error is not tested"
						}
					}
					if p.End == EndReturn && call == nil {
						want := 1
						if name == "slices.MapErr" {
							want = 2
						}
						if len(p.Rets) != want || p.Rets[0].Op != "mkslice" || (want == 2 && !p.Rets[1].IsNil()) {
							ok, why = false, "when done it does not return the result (and a nil error)"
						}
					}
				}
			}
		}
		o := R.Decide(ok, "map-filter", name, "rows", c.pos(fi), "result[i] = conv(slice[i]) for every i"+map[bool]string{true: "; (nil, err) at the first error", false: ""}[name == "slices.MapErr"], why)
		if !ok && name == "slices.MapErr" {
			o.Breaks = "a partial result is returned together with the error, or the conversion goes on after it"
		}
	}
	type flt struct {
		name string
		pred string // cb | contains-result | containsfunc-result | has
		keep bool   // predicate polarity under which the element is kept
	}
	for _, row := range []flt{{"slices.Filter", "cb", true}, {"slices.Distinct", "contains-result", false}, {"slices.DistinctFunc", "containsfunc-result", false}, {"slices.ExceptSet", "has", false}} {
		fi := c.P.Func(row.name)
		ps := paths[fi]
		if fi == nil || ps == nil {
			continue
		}
		ok, why := true, ""
		loops := findLoops(ps)
		s := paramOf(fi, 0)
		if len(loops) != 1 {
			ok, why = false, fmt.Sprintf("expected exactly one loop, found %d", len(loops))
		} else {
			it := c14IterOf(loops[0])
			if it == nil || it.over.Key() != s.Key() || !it.full || len(it.accPhis()) != 1 {
				ok, why = false, "is not one forward pass over the whole slice with one accumulator"
			} else {
				acc := it.accPhis()[0]
				lv := it.li.LV[acc]
				for _, p := range ps {
					if p.LoopIn[it.li.Hdr] == nil {
						ok, why = false, "a path avoids the loop (a shortcut must preserve both the contents and the freshness of the result): "+p.CondString()
						continue
					}
					if p.End != EndLoopBack {
						continue
					}
					dec := ""
					for _, cd := range p.Conds {
						t, pol := stripNot(cd.T, cd.Pol)
						if t.Op != "call" {
							continue
						}
						good := false
						switch row.pred {
						case "cb":
							good = t.Sym == "dyn" && len(t.Args) == 2 && isParam(t.Args[0], 1) && it.isElem(t.Args[1])
						case "contains-result":
							good = t.Sym == "slices.Contains" && len(t.Args) == 2 && t.Args[0].Key() == lv.Key() && it.isElem(t.Args[1])
						case "containsfunc-result":
							good = t.Sym == "slices.ContainsFunc" && len(t.Args) == 3 && t.Args[0].Key() == lv.Key() && it.isElem(t.Args[1]) && isParam(t.Args[2], 1)
						case "has":
							good = strings.HasSuffix(t.Sym, ".Has") && len(t.Args) == 2 && isParam(stripIface(t.Args[0]), 1) && it.isElem(t.Args[1])
						}
						if good {
							dec = map[bool]string{true: "t", false: "f"}[pol]
						}
					}
					if dec == "" {
						ok, why = false, "an iteration does not evaluate the predicate on the current element"
						continue
					}
					nx := p.Next[acc]
					keep := dec == map[bool]string{true: "t", false: "f"}[row.keep]
					if keep {
						v, single := appendedElem(p, lv, nx)
						if !single || !it.isElem(v) {
							ok, why = false, "an element that must be kept is not appended to the result"
						}
					} else if nx.Key() != lv.Key() {
						ok, why = false, "an element that must be dropped changes the result"
					}
				}
			}
		}
		R.Decide(ok, "map-filter", row.name, "rows", c.pos(fi), "appends exactly the elements with predicate = "+fmt.Sprint(row.keep)+", in order", why)
	}

	// ---- grouping
	for _, name := range []string{"slices.GroupBy", "slices.CountBy"} {
		fi := c.P.Func(name)
		ps := paths[fi]
		if fi == nil || ps == nil {
			continue
		}
		ok, why := true, ""
		loops := findLoops(ps)
		s, keyer := paramOf(fi, 0), paramOf(fi, 1)
		if len(loops) != 2 {
			ok, why = false, fmt.Sprintf("expected the grouping loop and the output loop, found %d loops", len(loops))
		} else {
			it := c14IterOf(loops[0])
			if it == nil || it.over.Key() != s.Key() || !it.full || len(it.accPhis()) != 1 {
				ok, why = false, "the first loop is not one forward pass over the slice carrying the ordered key list"
			} else {
				keysPhi := it.accPhis()[0]
				keysLV := it.li.LV[keysPhi]
				if !isFreshAccInit(it.li.Init[keysPhi]) {
					ok, why = false, "the ordered key list does not start empty"
				}
				var theMap *Term
				for _, p := range it.li.Back {
					var kcall *Event
					var mu *Event
					for i := p.LoopAt[it.li.Hdr]; i < len(p.Events); i++ {
						e := &p.Events[i]
						if e.Kind == "call" && e.Name == "dyn" && e.Callee.Key() == keyer.Key() {
							kcall = e
						}
						if e.Kind == "mapupdate" {
							mu = e
						}
					}
					if kcall == nil || len(kcall.Args) != 1 || !it.isElem(kcall.Args[0]) {
						ok, why = false, "the key is not keyer(slice[i])"
						continue
					}
					key := kcall.Res
					if mu == nil || mu.Addr.Op != "mkmap" || mu.Key.Key() != key.Key() {
						ok, why = false, "the map is not updated under the element's key on every iteration"
						continue
					}
					theMap = mu.Addr
					// value: append(m[key].0, elem) or m[key].0 + 1
					lk := (*Term)(nil)
					mu.Val.Walk(func(x *Term) bool {
						if x.Op == "lookup" && x.Args[0].Key() == theMap.Key() && x.Args[1].Key() == key.Key() {
							lk = x
						}
						return true
					})
					if lk == nil {
						ok, why = false, "the new map value is not derived from the old one"
						continue
					}
					// the old value: m[key] read in the comma-ok form (first component) or plainly
					olds := []*Term{{Op: "extract", Args: []*Term{lk}, N: 0}, lk}
					if name == "slices.GroupBy" {
						good := false
						for _, old := range olds {
							if v, single := appendedElem(p, old, mu.Val); single && it.isElem(v) {
								good = true
							}
						}
						if !good {
							ok, why = false, "the element is not appended to its group"
						}
					} else if !ToPoly(mu.Val).Equal(ToPoly(olds[0]).Add(polyConst(1), 1)) && !ToPoly(mu.Val).Equal(ToPoly(olds[1]).Add(polyConst(1), 1)) {
						ok, why = false, "the count is not incremented by one"
					}
					hit := &Term{Op: "extract", Args: []*Term{lk}, N: 1}
					edge := ""
					muIdx := -1
					for i := range p.Events {
						if &p.Events[i] == mu {
							muIdx = i
						}
					}
					for _, cd := range p.Conds {
						t, pol := stripNot(cd.T, cd.Pol)
						if t.Key() == hit.Key() {
							edge = map[bool]string{true: "hit", false: "miss"}[pol]
						}
						// the library's own membership helper, asked BEFORE the update (decided by its own row here)
						if t.Op == "call" && t.Sym == "maps.HasKey" && len(t.Args) == 2 && stripConv(t.Args[0]).Key() == theMap.Key() && t.Args[1].Key() == key.Key() && cd.NEv <= muIdx {
							edge = map[bool]string{true: "hit", false: "miss"}[pol]
						}
					}
					nx := p.Next[keysPhi]
					switch edge {
					case "miss":
						v, single := appendedElem(p, keysLV, nx)
						if !single || v.Key() != key.Key() {
							ok, why = false, "a new key is not appended to the ordered list"
						}
					case "hit":
						if nx.Key() != keysLV.Key() {
							ok, why = false, "a known key changes the ordered list"
						}
					default:
						ok, why = false, "first appearance of a key is not decided by the map lookup"
					}
				}
				// output loop ranges the ordered list and reads the map
				out := c14IterOf(loops[1])
				if ok && (out == nil || out.kind != "slice" || out.over.Key() != keysLV.Key() || !out.full) {
					ok, why = false, "the output is not built by ranging the ordered key list (ranging the map loses first-appearance order)"
				}
				if ok {
					for _, p := range out.li.Back {
						var st *Event
						for i := p.LoopAt[out.li.Hdr]; i < len(p.Events); i++ {
							e := &p.Events[i]
							if e.Kind == "store" && e.Addr.Op == "iaddr" && e.Addr.Args[0].Op == "mkslice" {
								st = e
							}
						}
						if st == nil {
							// the appending form: result = append(result, {key, m[key]}) from a fresh, empty result
							good := false
							for _, phi := range out.li.Phis {
								if phi == out.idxPhi {
									continue
								}
								lv := out.li.LV[phi]
								v, single := appendedElem(p, lv, p.Next[phi])
								if single && v != nil && v.Op == "struct" && len(v.Args) == 2 && out.isElem(v.Args[0]) &&
									v.Args[1].Op == "lookup" && theMap != nil && v.Args[1].Args[0].Key() == theMap.Key() && out.isElem(v.Args[1].Args[1]) &&
									isFreshAccInit(out.li.Init[phi]) {
									in := out.li.Init[phi]
									if in.Op != "mkslice" || in.Args[0].IsConst("0") {
										good = true
									}
								}
							}
							if !good {
								ok, why = false, "output is neither output[i] = {orderedKeys[i], m[orderedKeys[i]]} nor an append of that pair to a fresh, empty result"
							}
							continue
						}
						if !out.isKey(st.Addr.Args[1]) || st.Val.Op != "struct" || len(st.Val.Args) != 2 || !out.isElem(st.Val.Args[0]) ||
							!(st.Val.Args[1].Op == "lookup" && theMap != nil && st.Val.Args[1].Args[0].Key() == theMap.Key() && out.isElem(st.Val.Args[1].Args[1])) ||
							!isLenOf(st.Addr.Args[0].Args[0], keysLV) {
							ok, why = false, "output[i] is not {orderedKeys[i], m[orderedKeys[i]]} in a result of len(orderedKeys)"
						}
					}
				}
			}
		}
		R.Decide(ok, "grouping", name, "bookkeeping", c.pos(fi), "key list grows exactly on map misses; map updated every iteration; output ranges the key list", why)
	}

	// ---- get-family
	for _, row := range []struct {
		name string
		oor  string // out-of-range result: "zerofalse" | "zero" | "fallback"
	}{{"slices.TryGet", "zerofalse"}, {"slices.SafeGet", "zero"}, {"slices.SafeGetOr", "fallback"}} {
		fi := c.P.Func(row.name)
		ps := paths[fi]
		if fi == nil || ps == nil {
			continue
		}
		s, index := paramOf(fi, 0), paramOf(fi, 1)
		lenS := &Term{Op: "builtin", Sym: "len", Args: []*Term{s}}
		ok, why := true, ""
		sawIn, sawLo, sawHi := false, false, false
		for _, p := range ps {
			ge0, ltLen, lt0, geLen := false, false, false, false
			for _, cd := range p.Conds {
				pl, kind, isInt := cd.Rel().IntNorm()
				if !isInt || kind != ">" {
					continue
				}
				ip := ToPoly(index)
				switch {
				case pl.Equal(ip.Add(polyConst(1), 1)):
					ge0 = true
				case pl.Equal(ToPoly(lenS).Add(ip, -1)):
					ltLen = true
				case pl.Equal(polyConst(0).Add(ip, -1)):
					lt0 = true
				case pl.Equal(ip.Add(ToPoly(lenS), -1).Add(polyConst(1), 1)):
					geLen = true
				}
			}
			if p.End != EndReturn {
				ok, why = false, "path does not return"
				continue
			}
			switch {
			case ge0 && ltLen:
				sawIn = true
				if !isElemOf(p.Rets[0], s, index) || (row.oor == "zerofalse" && !p.Rets[1].IsConst("true")) {
					ok, why = false, "an in-range index does not yield slice[index]"
				}
			case lt0 || geLen:
				if lt0 {
					sawLo = true
				} else {
					sawHi = true
				}
				good := false
				switch row.oor {
				case "zerofalse":
					good = isZeroish(p.Rets[0]) && p.Rets[1].IsConst("false")
				case "zero":
					good = isZeroish(p.Rets[0])
				case "fallback":
					good = isParam(p.Rets[0], 2)
				}
				if !good {
					ok, why = false, fmt.Sprintf("an out-of-range index yields %v", p.Rets)
				}
			default:
				ok, why = false, "a path is decided by something other than 0 <= index < len: "+p.CondString()
			}
		}
		if ok && !(sawIn && sawLo && sawHi) {
			ok, why = false, "the index is not checked on both sides"
		}
		R.Decide(ok, "get-family", row.name, "rows", c.pos(fi), "slice[index] iff 0 <= index < len, else "+row.oor, why)
	}
	if fi := c.P.Func("slices.Last"); fi != nil && paths[fi] != nil {
		ps := paths[fi]
		s := paramOf(fi, 0)
		lenS := &Term{Op: "builtin", Sym: "len", Args: []*Term{s}}
		last := &Term{Op: "bin", Sym: "-", Args: []*Term{lenS, intConst(1)}, Typ: types.Typ[types.Int]}
		ok := len(ps) == 1 && len(ps[0].Rets) == 1 && isElemOf(ps[0].Rets[0], s, last)
		R.Decide(ok, "get-family", fi.Name, "rows", c.pos(fi), "slice[len-1]", "Last is not slice[len(slice)-1]")
	}
	for _, row := range []struct{ name, what string }{{"maps.Keys", "key"}, {"maps.Values", "value"}} {
		fi := c.P.Func(row.name)
		ps := paths[fi]
		if fi == nil || ps == nil {
			continue
		}
		ok, why := true, ""
		loops := findLoops(ps)
		if len(loops) != 1 {
			ok, why = false, "expected one loop"
		} else {
			it := c14IterOf(loops[0])
			if it != nil && it.kind == "map" && isParam(it.over, 0) && len(it.li.Phis) == 1 && isIntegerType(it.li.Phis[0].Type()) {
				// the pre-sized form: result := make([]T, len(m)); result[i] = entry; i++ with i from 0 - a range over a
				// map yields exactly len(m) entries, so every slot is written once and none is left over
				cnt := it.li.Phis[0]
				lv := it.li.LV[cnt]
				if in := it.li.Init[cnt]; in == nil || !in.IsConst("0") {
					ok, why = false, "the write position does not start at 0"
				}
				var res *Term
				for _, p := range it.li.Back {
					writes := 0
					for i := p.LoopAt[it.li.Hdr]; i < len(p.Events); i++ {
						e := &p.Events[i]
						if e.Kind != "store" {
							continue
						}
						good := e.Addr.Op == "iaddr" && e.Addr.Args[0].Op == "mkslice" && isLenOf(e.Addr.Args[0].Args[0], paramOf(fi, 0)) && e.Addr.Args[1].Key() == lv.Key() &&
							((row.what == "key" && it.isKey(e.Val)) || (row.what == "value" && it.isElem(e.Val)))
						if !good {
							ok, why = false, "an iteration does not store the entry's "+row.what+" at the write position of a slice of len(m)"
						}
						res = e.Addr.Args[0]
						writes++
					}
					if nx := p.Next[cnt]; writes != 1 || nx == nil || !ToPoly(nx).Equal(ToPoly(lv).Add(polyConst(1), 1)) || len(p.Conds) != 1 {
						ok, why = false, "not exactly one store and one step per entry"
					}
				}
				for _, p := range it.li.Exit {
					if p.End == EndReturn && (res == nil || len(p.Rets) != 1 || p.Rets[0].Key() != res.Key()) {
						ok, why = false, "does not return the filled slice"
					}
				}
			} else if it == nil || it.kind != "map" || !isParam(it.over, 0) || len(it.li.Phis) != 1 {
				ok, why = false, "does not range over the map with one accumulator"
			} else {
				acc := it.li.Phis[0]
				lv := it.li.LV[acc]
				for _, p := range it.li.Back {
					v, single := appendedElem(p, lv, p.Next[acc])
					good := single && ((row.what == "key" && it.isKey(v)) || (row.what == "value" && it.isElem(v)))
					if !good {
						ok, why = false, "an iteration does not append the entry's "+row.what
					}
					if len(p.Conds) != 1 {
						ok, why = false, "entries are skipped conditionally"
					}
				}
			}
		}
		R.Decide(ok, "get-family", row.name, "rows", c.pos(fi), "appends every entry's "+row.what, why)
	}
	if fi := c.fn("get-family", "maps.Clear"); fi != nil {
		if ps := c.paths("get-family", fi); ps != nil {
			m := paramOf(fi, 0)
			ok := true
			dels := 0
			for _, p := range ps {
				for i := range p.Events {
					e := &p.Events[i]
					switch {
					case e.Kind == "range" && e.Addr.Key() == m.Key(), e.Kind == "next":
					case e.Kind == "call" && e.Name == "builtin.delete" && e.Args[0].Key() == m.Key() && e.Args[1].Op == "extract" && e.Args[1].N == 1:
						dels++
					case e.Kind == "call" && e.Name == "builtin.clear" && e.Args[0].Key() == m.Key():
						dels++
					default:
						ok = false
					}
				}
			}
			R.Decide(ok && dels >= 1, "get-family", fi.Name, "rows", c.pos(fi), "deletes every key", "maps.Clear does not delete every key")
		}
	}
	_ = sort.Strings
}

// coreOf: the core type of a type parameter (single underlying type of its type set), or nil.
func coreOf(tp *types.TypeParam) types.Type {
	iface, ok := tp.Constraint().Underlying().(*types.Interface)
	if !ok {
		return nil
	}
	var core types.Type
	for i := 0; i < iface.NumEmbeddeds(); i++ {
		switch e := iface.EmbeddedType(i).(type) {
		case *types.Union:
			for j := 0; j < e.Len(); j++ {
				u := e.Term(j).Type().Underlying()
				if core == nil {
					core = u
				}
			}
		default:
			if core == nil {
				core = e.Underlying()
			}
		}
	}
	return core
}

// c14Consuming recognises a loop that consumes a slice from one end:
//
//	for rest := s; len(rest) > 0; rest = rest[1:]            { ... rest[0] ... }             (forward)
//	for rest := s; len(rest) > 0; rest = rest[:len(rest)-1]  { ... rest[len(rest)-1] ... }   (backward)
//
// It visits every element of s exactly once, front to back resp. back to front.
func c14Consuming(li *LoopInfo) *c14iter {
	for _, phi := range li.Phis {
		if !hasSliceCore(phi.Type()) {
			continue
		}
		lv := li.LV[phi]
		in := li.Init[phi]
		if in == nil || len(li.Back) == 0 {
			continue
		}
		lenLV := &Term{Op: "builtin", Sym: "len", Args: []*Term{lv}, Typ: types.Typ[types.Int]}
		fwd, bwd := true, true
		for _, p := range li.Back {
			nx := p.Next[phi]
			if nx == nil || nx.Op != "slice" || nx.Args[0].Key() != lv.Key() {
				fwd, bwd = false, false
				break
			}
			if !(nx.Args[1].IsConst("1") && nx.Args[2].Op == "none") {
				fwd = false
			}
			if !((nx.Args[1].Op == "none" || nx.Args[1].IsConst("0")) && nx.Args[2].Op != "none" && ToPoly(nx.Args[2]).Equal(ToPoly(lenLV).Add(polyConst(1), -1))) {
				bwd = false
			}
			nonEmpty := false
			for _, cd := range p.Conds {
				if cd.NEv < p.LoopAt[li.Hdr] {
					continue
				}
				if pl, kind, isInt := cd.Rel().IntNorm(); isInt && ((kind == ">" && pl.Equal(ToPoly(lenLV))) || (kind == "!=" && pl.Equal(canonSign(ToPoly(lenLV))))) {
					nonEmpty = true
				}
			}
			if !nonEmpty {
				fwd, bwd = false, false
			}
		}
		// the loop is left only when the rest is empty (other exits are the rule's business)
		if !fwd && !bwd {
			continue
		}
		it := &c14iter{li: li, kind: "slice", over: in, consume: lv, idxPhi: phi}
		if fwd {
			it.consIdx = intConst(0)
			it.full = true
		} else {
			it.consIdx = &Term{Op: "bin", Sym: "-", Args: []*Term{lenLV, intConst(1)}, Typ: types.Typ[types.Int]}
			it.fullRev = true
		}
		it.idx = it.consIdx
		return it
	}
	return nil
}

// hasSliceCore: a slice type, or a type parameter whose constraint is ~[]E.
func hasSliceCore(t types.Type) bool {
	if _, ok := t.Underlying().(*types.Slice); ok {
		return true
	}
	tp, ok := t.(*types.TypeParam)
	if !ok {
		return false
	}
	iface, ok := tp.Constraint().Underlying().(*types.Interface)
	if !ok {
		return false
	}
	for i := 0; i < iface.NumEmbeddeds(); i++ {
		switch e := iface.EmbeddedType(i).(type) {
		case *types.Union:
			all := e.Len() > 0
			for k := 0; k < e.Len(); k++ {
				if _, isS := e.Term(k).Type().Underlying().(*types.Slice); !isS {
					all = false
				}
			}
			if all {
				return true
			}
		default:
			if _, isS := e.Underlying().(*types.Slice); isS {
				return true
			}
		}
	}
	return false
}
