package main

import (
	"fmt"
	"go/types"
	"strings"
)

func init() {
	register(&propSpec{
		id:    "C05",
		level: "other",
		run:   runC05,
		explanation: "sync2.Set is a thin wrapper over sync2.Map. Decided on every path: (single-op) Add is exactly ONE LoadOrStore(value, ...) on the set's map and reports the negation of its 'loaded' result, Remove is exactly one LoadAndDelete(value) reporting 'loaded', Has exactly one Load(value) reporting 'ok' - any second map operation on a path (check-then-act such as Has+Store) is refuted; " +
			"(bulk-counts) AddSet/RemoveSet call the per-element Add/Remove exactly once per enumerated value, count exactly its true results and return that counter, and never stop the enumeration early; (no-extra-state) Set has no field besides the Map and no method stores to the receiver. " +
			"With that, the atomic-set property reduces to the atomicity of Map.LoadOrStore/LoadAndDelete/Load, whose necessary protocol conditions (all C04 rules) are re-checked here under the rule prefix 'map/'. " +
			"NOT decided: the real-time ordering/alternation of successes itself (it follows from linearizability of Map, which is only covered by its protocol rules).",
		assumptions: []string{"Map.LoadOrStore / LoadAndDelete / Load are atomic (their protocol's necessary conditions are checked by the map/ rules; linearizability itself is not proved)"},
	})
}

func runC05(c *Ctx) {
	R := c.R
	R.Rule("single-op", "Add/Remove/Has perform exactly one operation on the set's map per path - LoadOrStore/LoadAndDelete/Load of the value - and report that operation's own flag", 3)
	R.Rule("bulk-counts", "AddSet/RemoveSet: one Add/Remove per enumerated value, counter incremented exactly on its true result, counter returned, enumeration never cut short", 2)
	R.Rule("no-extra-state", "Set holds only the Map; no method stores to receiver-reachable memory", 2)

	mField := c.P.FieldOf("sync2", "Set", "m")
	if mField == nil {
		R.Unproven("single-op", "sync2.Set", "anchor", "", "field m not found")
		return
	}
	named := c.P.NamedType("sync2", "Set")
	st := named.Underlying().(*types.Struct)
	R.Decide(st.NumFields() == 1 && strings.Contains(typeStr(mField.Type()), "Map["), "no-extra-state", "sync2.Set", "fields", "",
		"Set's only field is the Map", fmt.Sprintf("Set has %d fields: state outside the Map (a counter, a cache) is not covered by the Map's atomicity", st.NumFields()))
	// no method stores to the receiver
	badStore := ""
	for _, fi := range c.P.FuncsOfPkg("sync2") {
		if !strings.HasPrefix(fi.Name, "sync2.(*Set).") {
			continue
		}
		ps := c.paths("no-extra-state", fi)
		recv := paramOf(fi, 0)
		for _, p := range ps {
			for i := range p.Events {
				e := &p.Events[i]
				if (e.Kind == "store" || e.Kind == "mapupdate") && rootOf(e.Addr).Key() == recv.Key() {
					badStore = fi.Name + ": " + e.String()
				}
			}
		}
	}
	R.Decide(badStore == "", "no-extra-state", "sync2.(*Set)", "receiver-stores", "", "no method writes receiver memory directly", "plain store to the receiver: "+badStore)

	type row struct {
		method, op string
		flag       int
		negate     bool
		nargs      int
	}
	for _, rw := range []row{{"Add", "LoadOrStore", 1, true, 3}, {"Remove", "LoadAndDelete", 1, false, 2}, {"Has", "Load", 1, false, 2}} {
		rule := "single-op"
		fi := c.fn(rule, "sync2.(*Set)."+rw.method)
		ps := c.paths(rule, fi)
		if ps == nil {
			continue
		}
		recv := paramOf(fi, 0)
		ok, why := true, ""
		for _, p := range ps {
			var ops []*Event
			for i := range p.Events {
				e := &p.Events[i]
				if e.Kind == "call" && len(e.Args) > 0 && isFieldAddr(e.Args[0], mField, recv) {
					ops = append(ops, e)
				} else if e.Kind == "call" || e.Kind == "go" || e.Kind == "defer" {
					// calls of other methods of the set count as map operations too
					if strings.HasPrefix(e.Name, "sync2.(*Set).") || strings.HasPrefix(e.Name, "sync2.(*Map).") {
						ops = append(ops, e)
					} else {
						ok, why = false, "unexpected call "+e.Name
					}
				}
			}
			if len(ops) != 1 {
				ok, why = false, fmt.Sprintf("a path performs %d map operations; a check-then-act sequence is not atomic", len(ops))
				var names []string
				for _, o := range ops {
					names = append(names, o.Name)
				}
				why += " (" + strings.Join(names, ", ") + ")"
				continue
			}
			op := ops[0]
			if op.Name != "sync2.(*Map)."+rw.op || !isFieldAddr(op.Args[0], mField, recv) {
				ok, why = false, "the operation is "+op.Name+", expected Map."+rw.op
				continue
			}
			if len(op.Args) != rw.nargs || !isParam(op.Args[1], 1) {
				ok, why = false, "the operation's key is not the method's value"
				continue
			}
			if p.End != EndReturn || len(p.Rets) != 1 {
				ok, why = false, "does not return one flag"
				continue
			}
			flagT := &Term{Op: "extract", Args: []*Term{op.Res}, N: rw.flag}
			if len(p.Conds) == 0 {
				r, pol := stripNot(p.Rets[0], true)
				if !(r.Key() == flagT.Key()) || pol == rw.negate {
					ok, why = false, "the reported flag is not "+map[bool]string{true: "the negation of ", false: ""}[rw.negate]+"the operation's own result: "+p.Rets[0].String()
				}
				continue
			}
			// branches on the flag: the constant returned must be what the flag says on that path
			flagVal, known := false, false
			for _, cd := range p.Conds {
				t, pol := stripNot(cd.T, cd.Pol)
				if t.Key() == flagT.Key() {
					flagVal, known = pol, true
				} else {
					ok, why = false, "decides on something other than the operation's own flag: "+cd.Rel().String()
				}
			}
			want := flagVal != rw.negate
			r, pol := stripNot(p.Rets[0], true)
			switch {
			case !known:
				ok, why = false, "the result does not depend on the operation's flag"
			case r.Op == "const" && (r.Sym == "true" || r.Sym == "false"):
				if (r.Sym == "true") == pol != want {
					ok, why = false, fmt.Sprintf("with the flag %v the method reports %s", flagVal, p.Rets[0])
				}
			case r.Key() == flagT.Key():
				if pol == rw.negate {
					ok, why = false, "the reported flag has the wrong polarity"
				}
			default:
				ok, why = false, "reports "+p.Rets[0].String()
			}
		}
		o := R.Decide(ok, rule, fi.Name, "op", c.pos(fi), "one Map."+rw.op+"(value), its flag reported", why)
		if !ok {
			o.Breaks = "two overlapping callers can both report success"
		}
	}
	for _, rw := range []struct{ method, elem string }{{"AddSet", "sync2.(*Set).Add"}, {"RemoveSet", "sync2.(*Set).Remove"}} {
		rule := "bulk-counts"
		fi := c.fn(rule, "sync2.(*Set)."+rw.method)
		ps := c.paths(rule, fi)
		if ps == nil {
			continue
		}
		c5BulkCount(c, rule, fi, ps, rw.elem, paramOf(fi, 0))
	}
	runMapProtocol(c, "map/")
}

// c5BulkCount: parent = one Range over the argument with a closure; closure = one elem op on target per value, counter++ on true, returns true.
// c5BulkCountLoop: the bulk operation written as a loop over a snapshot of the argument set (for _, v := range
// set.Slice()): a complete forward iteration over the result of one Slice() call on the argument, exactly one
// elemOp(receiver, element) per iteration, a counter that starts at 0, grows by one exactly on the operation's true
// edge, and is what is returned. ok=false with why=="" means: not this form.
func c5BulkCountLoop(c *Ctx, fi *FuncInfo, ps []*Path, elemOp string, target *Term) (isForm, ok bool, why string) {
	loops := findLoops(ps)
	if len(loops) != 1 {
		return false, false, ""
	}
	it := c14IterOf(loops[0])
	if it == nil || it.kind != "slice" || it.over == nil || it.over.Op != "call" || !strings.HasSuffix(it.over.Sym, ".Slice") || len(it.over.Args) != 1 || !isParam(stripIface(it.over.Args[0]), 1) {
		return false, false, ""
	}
	isForm, ok = true, true
	if !it.full {
		return true, false, "the loop does not visit every element of the snapshot"
	}
	acc := it.accPhis()
	if len(acc) != 1 {
		return true, false, "expected exactly one counter carried through the loop"
	}
	cnt := acc[0]
	lv := it.li.LV[cnt]
	if !it.li.Init[cnt].IsConst("0") {
		return true, false, "the counter does not start at 0"
	}
	for _, p := range ps {
		n := 0
		for i := range p.Events {
			e := &p.Events[i]
			switch {
			case e.Kind == "call" && e.Name == it.over.Sym:
				n++
			case e.Kind == "call" && e.Name == elemOp:
			case e.Kind == "call" && e.Name == "builtin.len":
			case e.Kind == "store" && e.Addr.Op == "alloc":
			case e.Kind == "mkclosure" && strings.HasSuffix(e.Val.Sym, "$bound"):
			default:
				return true, false, "unexpected effect " + e.String()
			}
		}
		if n != 1 {
			return true, false, "the argument set is not snapshotted exactly once"
		}
	}
	for k, p := range it.li.Back {
		var ops []*Event
		for i := p.LoopAt[it.li.Hdr]; i < len(p.Events); i++ {
			if e := &p.Events[i]; e.Kind == "call" && e.Name == elemOp {
				ops = append(ops, e)
			}
		}
		if len(ops) != 1 || len(ops[0].Args) != 2 || ops[0].Args[0].Key() != target.Key() || !it.isElem(ops[0].Args[1]) {
			return true, false, "an iteration does not perform exactly one " + elemOp + "(element) on the receiver"
		}
		edge := ""
		for _, cd := range p.Conds {
			if cd.NEv < p.LoopAt[it.li.Hdr] {
				continue
			}
			t, pol := stripNot(cd.T, cd.Pol)
			if t.Key() == ops[0].Res.Key() {
				edge = map[bool]string{true: "true", false: "false"}[pol]
			}
		}
		next := it.li.Nexts[cnt][k]
		d := ToPoly(next).Add(ToPoly(lv), -1)
		dc, isC := d.IsConst()
		switch {
		case !isC:
			return true, false, "the counter is not advanced by a constant"
		case edge == "true" && dc != 1:
			return true, false, "a successful operation is not counted"
		case edge == "false" && dc != 0:
			return true, false, "an operation that changed nothing is counted"
		case edge == "":
			return true, false, "the count does not depend on the operation's result"
		}
	}
	for _, p := range it.li.Exit {
		if p.End == EndReturn && (len(p.Rets) != 1 || p.Rets[0].Key() != lv.Key()) {
			return true, false, "does not return the counter"
		}
	}
	return true, true, ""
}

func c5BulkCount(c *Ctx, rule string, fi *FuncInfo, ps []*Path, elemOp string, target *Term) {
	if isForm, okL, whyL := c5BulkCountLoop(c, fi, ps, elemOp, target); isForm {
		c.R.Decide(okL, rule, fi.Name, "count", c.pos(fi), "counts exactly the per-element successes over a complete iteration of a snapshot of the argument", whyL)
		// the snapshot is then part of the argument: Slice of both implementations must list exactly the members
		if _, have := c.R.Rules["slice-helper"]; !have {
			c.R.Rule("slice-helper", "Slice of both Set implementations, on whose snapshot the bulk operation iterates, appends every enumerated member exactly once to a slice that starts empty (C03's rows, re-run here)", 2)
			c03SliceHelper(c, "slice-helper")
		}
		return
	}
	// adding a set to itself adds nothing: a path on which the argument is known to be the receiver may answer 0 at
	// once. What remains may be spelled as several paths that do the same thing (they differ in tests only).
	{
		var rest []*Path
		seen := map[string]bool{}
		for _, p := range ps {
			if strings.HasSuffix(elemOp, ".Add") && c5SelfOperand(p, target) && p.End == EndReturn && len(p.Rets) == 1 && p.Rets[0].IsConst("0") {
				quiet := true
				for i := range p.Events {
					if e := &p.Events[i]; !(e.Kind == "store" && e.Addr.Op == "alloc") {
						quiet = false
					}
				}
				if quiet {
					continue
				}
			}
			var sb strings.Builder
			for i := range p.Events {
				sb.WriteString(p.Events[i].String() + "\n")
			}
			sb.WriteString(fmt.Sprint(p.End))
			for _, r := range p.Rets {
				sb.WriteString("|" + r.Key())
			}
			if !seen[sb.String()] {
				seen[sb.String()] = true
				rest = append(rest, p)
			}
		}
		ps = rest
	}
	ok, why := len(ps) == 1, "the method branches"
	if ok {
		p := ps[0]
		var rng *Event
		var mk *Event
		for i := range p.Events {
			e := &p.Events[i]
			switch {
			case e.Kind == "mkclosure":
				if strings.HasSuffix(e.Val.Sym, "$bound") {
					continue // a method value (x.Add) being formed
				}
				if mk != nil {
					ok, why = false, "more than one closure"
				}
				mk = e
			case e.Kind == "call" && strings.HasSuffix(e.Name, ".Range") && isParam(stripIface(e.Args[0]), 1):
				if rng != nil {
					ok, why = false, "enumerates twice"
				}
				rng = e
			case e.Kind == "store" && e.Addr.Op == "alloc":
			default:
				ok, why = false, "unexpected effect "+e.String()
			}
		}
		if ok && (rng == nil || mk == nil || rng.Args[1].Key() != mk.Val.Key()) {
			ok, why = false, "does not enumerate the argument set with one closure"
		}
		if ok {
			// the counter: a cell captured by the closure, returned after the Range
			if len(p.Rets) != 1 || !(p.Rets[0].Op == "load" && p.Rets[0].Args[0].Op == "alloc") {
				ok, why = false, "does not return the counter cell: "+fmt.Sprint(p.Rets)
			} else {
				counter := p.Rets[0].Args[0]
				// closure paths with the receiver substituted
				cp := c.An.ClosurePaths(mk)
				if cp.Unproven != "" {
					ok, why = false, "cannot summarise the closure: "+cp.Unproven
				} else {
					// which free variable is the counter
					cidx := -1
					for i, b := range mk.Val.Args {
						if b.Key() == counter.Key() {
							cidx = i
						}
					}
					if cidx < 0 {
						ok, why = false, "the returned counter is not what the closure counts in"
					}
					for _, q := range cp.Paths {
						if !ok {
							break
						}
						var ops, stores []*Event
						for i := range q.Events {
							e := &q.Events[i]
							if e.Kind == "call" {
								ops = append(ops, e)
							} else if e.Kind == "store" {
								stores = append(stores, e)
							} else if e.Kind != "mkclosure" {
								ok, why = false, "closure: unexpected effect "+e.String()
							}
						}
						if len(ops) != 1 || ops[0].Name != elemOp || len(ops[0].Args) != 2 || ops[0].Args[0].Key() != target.Key() || !isParam(ops[0].Args[1], 0) {
							names := []string{}
							for _, o := range ops {
								names = append(names, o.Name)
							}
							ok, why = false, "per value the closure does not perform exactly one "+elemOp+"(value) on the receiver (it does: "+strings.Join(names, ", ")+")"
							break
						}
						if q.End != EndReturn || len(q.Rets) != 1 || !q.Rets[0].IsConst("true") {
							ok, why = false, "the closure can stop the enumeration early (returns "+fmt.Sprint(q.Rets)+")"
							break
						}
						res := ops[0].Res
						edge := ""
						for _, cd := range q.Conds {
							t, pol := stripNot(cd.T, cd.Pol)
							if t.Key() == res.Key() {
								edge = map[bool]string{true: "true", false: "false"}[pol]
							} else {
								ok, why = false, "the closure decides on something other than the operation's result"
							}
						}
						incs := 0
						for _, s := range stores {
							if (s.Addr.Op == "free" && s.Addr.N == cidx) || s.Addr.Key() == counter.Key() {
								d := ToPoly(s.Val)
								// value = *counter + 1
								okInc := false
								for _, a := range d.Atoms {
									if a.Op == "load" && ((a.Args[0].Op == "free" && a.Args[0].N == cidx) || a.Args[0].Key() == counter.Key()) && d.Coef(a.Key()) == 1 && d.M[""] == 1 && len(d.M) == 2 {
										okInc = true
									}
								}
								if okInc {
									incs++
								} else {
									ok, why = false, "the counter is not incremented by one: "+s.Val.String()
								}
							} else {
								ok, why = false, "the closure stores elsewhere: "+s.String()
							}
						}
						switch edge {
						case "true":
							if incs != 1 {
								ok, why = false, "a successful operation is not counted exactly once"
							}
						case "false":
							if incs != 0 {
								ok, why = false, "an unsuccessful operation is counted"
							}
						default:
							ok, why = false, "the count does not depend on the operation's result"
						}
					}
				}
			}
		}
	}
	o := c.R.Decide(ok, rule, fi.Name, "count", c.pos(fi), "one "+elemOp+" per value; counts exactly the successes; full enumeration", why)
	if !ok {
		o.Breaks = "the returned count no longer equals the number of members gained/lost (under contention or always)"
	}
}

// c5SelfOperand: the path has established that the set argument (parameter 1, after a type assertion) is the receiver.
func c5SelfOperand(p *Path, recv *Term) bool {
	for _, cd := range p.Conds {
		r := cd.Rel()
		if r.Op != "==" {
			continue
		}
		for _, pr := range [][2]*Term{{r.A, r.B}, {r.B, r.A}} {
			a, b := pr[0], pr[1]
			if a == nil || b == nil || b.Key() != recv.Key() {
				continue
			}
			if a.Op == "extract" && a.N == 0 {
				a = a.Args[0]
			}
			if a.Op == "tassert" && len(a.Args) > 0 && isParam(stripIface(a.Args[0]), 1) {
				return true
			}
		}
	}
	return false
}
