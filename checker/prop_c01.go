package main

import (
	"fmt"
	"go/types"
	"sort"
	"strings"

	"golang.org/x/tools/go/ssa"
)

func init() {
	register(&propSpec{
		id:    "C01",
		level: "other",
		run:   runC01,
		explanation: "Structural necessary conditions of 'the AVL tree is a sorted multiset', decided on all paths of avl/avl.go (go/ssa path summaries): " +
			"(size-cache) Add adds one to the count and performs exactly one insertion on every path; Remove subtracts one exactly on the paths where the node-level removal reported success, leaves root and count untouched and returns false otherwise, and returns that flag; Clear resets root and count together; Len returns the count; " +
			"(ctor-complete) every Tree built inside the package carries a comparator, and no method other than a constructor overwrites it (a whole-struct reset must carry it over); (clone-detached) Clone builds a fresh tree by re-inserting a walk of the receiver through Add - no node pointer of the receiver flows into the clone; " +
			"(descent-agreement) add, find and remove send a value that compares below the node to the same child and a value above it to the other one (comparator argument order and sign normalised), and find/remove test == before descending; " +
			"(walk-order) each node walker visits value/left/right in its V-L-R, L-V-R or L-R-V order on every path, recursing into ITSELF on each non-nil child exactly once, and Walk*/Slice*/String dispatch to the matching walker; " +
			"(subtree-conservation) on every found-path of node.remove each child subtree of the unlinked node reaches the returned subtree exactly once, and no store overwrites a child pointer that may still hold a subtree. " +
			"(inorder-conservation) each mutator is abstractly executed on symbolic in-order sequences (stores replayed into a field memory per path; S(x) = unopened entry subtree, V(v) = one node; calls to rebalance/rotations transparent once their own paths are shown to conserve the sequence): rotations and rebalance return their receiver's sequence, add returns it with the value inserted exactly once on the side the comparison selects, remove returns it without the unlinked node (found) or with the child's removal spliced in exactly when it succeeded, popLeftMost splits it into first+rest, Tree.Add/Remove install that at the root - this is the inductive step of 'the walk lists the multiset in order'; " +
			"(null-guard) no child/root pointer is dereferenced on a path that has not tested it non-nil (loop-carried pointers inductively); (contains-table) Contains/contains/find as decision tables. " +
			"NOT decided: that these compose to 'in-order walk = sorted multiset' for every history (an inductive invariant over runtime tree values); behaviour for comparators inconsistent with ==.",
		assumptions: []string{"the comparator is a total order consistent with == (as in the property)", "tree shape: distinct access paths from a node denote distinct nodes, and a callee handed a subtree changes nothing outside it"},
	})
}

type avlAnchors struct {
	c                              *Ctx
	nValue, nLeft, nRight, nHeight *types.Var
	tCompare, tRoot, tCount        *types.Var
}

func avlResolve(c *Ctx, rule string) *avlAnchors {
	a := &avlAnchors{c: c}
	a.nValue = c.P.FieldOf("avl", "node", "value")
	a.nLeft = c.P.FieldOf("avl", "node", "left")
	a.nRight = c.P.FieldOf("avl", "node", "right")
	a.nHeight = c.P.FieldOf("avl", "node", "height")
	a.tCompare = c.P.FieldOf("avl", "Tree", "compare")
	a.tRoot = c.P.FieldOf("avl", "Tree", "root")
	a.tCount = c.P.FieldOf("avl", "Tree", "count")
	for n, f := range map[string]*types.Var{"node.value": a.nValue, "node.left": a.nLeft, "node.right": a.nRight, "node.height": a.nHeight, "Tree.compare": a.tCompare, "Tree.root": a.tRoot, "Tree.count": a.tCount} {
		if f == nil {
			c.R.Unproven(rule, "avl."+n, "anchor", "", "anchor no longer resolves: field "+n)
			return nil
		}
	}
	return a
}

func (a *avlAnchors) childField(t *Term) string {
	// t is an address &X.left / &X.right, or a load of it
	if t == nil {
		return ""
	}
	if t.Op == "load" {
		t = t.Args[0]
	}
	if t.Op == "faddr" || t.Op == "field" {
		if sameField(t.Obj, a.nLeft) {
			return "left"
		}
		if sameField(t.Obj, a.nRight) {
			return "right"
		}
	}
	return ""
}

// belowSign: interprets a condition on a comparator call: +1 if it says "value < node", -1 if "value >= node" (not below), 0 if unrelated.
// valueT: the searched value term; nodeVal(t) reports whether t is the value of the current node.
func belowSign(cd Cond, valueT *Term, isNodeVal func(*Term) bool) int {
	r := cd.Rel()
	if r.B == nil {
		return 0
	}
	call, k, op := r.A, r.B, r.Op
	if call.Op != "call" || call.Sym != "dyn" {
		call, k, op = r.B, r.A, flipOp(r.Op)
	}
	if call.Op != "call" || call.Sym != "dyn" || len(call.Args) != 3 || !k.IsConst("0") {
		return 0
	}
	x, y := call.Args[1], call.Args[2]
	var orient int // +1: compare(value, node)  -1: compare(node, value)
	switch {
	case x.Key() == valueT.Key() && isNodeVal(y):
		orient = 1
	case y.Key() == valueT.Key() && isNodeVal(x):
		orient = -1
	default:
		return 0
	}
	// sign of compare result implied by op against 0:  "<" => negative ; ">=" => non-negative ; ">" positive ; "<=" non-positive
	switch op {
	case "<":
		if orient == 1 {
			return 1 // value < node
		}
		return -2 // node < value: strictly above
	case ">=":
		if orient == 1 {
			return -1 // value >= node
		}
		return 2 // node >= value : value <= node (below or equal)
	case ">":
		if orient == 1 {
			return -2
		}
		return 1
	case "<=":
		if orient == 1 {
			return 2
		}
		return -1
	}
	return 0
}

func runC01(c *Ctx) {
	R := c.R
	R.Rule("size-cache", "Add: count+1 and exactly one insertion on every path; Remove: count-1 exactly when the node removal reported success (else nothing changes, false returned); Clear: root=nil and count=0; Len = count", 4)
	R.Rule("ctor-complete", "every Tree value built in the package has its comparator assigned (a constructor that delegates hands on a non-nil comparator); nothing but construction overwrites it", 3)
	R.Rule("clone-detached", "Clone re-inserts a walk of the receiver into a fresh tree through Add; no pointer of the receiver's nodes reaches the clone", 1)
	R.Rule("descent-agreement", "add, find and remove take the same child for 'value below node' and the other for 'value above node'; find and remove test == before descending", 3)
	R.Rule("walk-order", "walkPreOrder/InOrder/PostOrder visit V,L,R in their order, recursing into themselves on non-nil children; Walk*/Slice*/String dispatch to the matching walker", 10)
	R.Rule("subtree-conservation", "node.remove: every child subtree of the unlinked node reaches the result exactly once; no store overwrites a possibly live child pointer", 2)

	a := avlResolve(c, "size-cache")
	if a == nil {
		return
	}
	c01SizeCache(c, a)
	c01Ctor(c, a)
	c01Clone(c, a)
	c01Descent(c, a)
	c01Walk(c, a)
	c01Conservation(c, a)
	R.Rule("inorder-conservation", "symbolic in-order sequences: rebalance and the rotations return their receiver's sequence; add returns it with the value inserted once on the side the comparison selects; remove returns it minus the unlinked node / with the child's removal spliced in exactly on success; popLeftMost splits it into first and rest; Tree.Add/Remove install exactly that at the root", 10)
	R.Rule("null-guard", "child and root pointers are dereferenced (method call, field read or write) only on paths that have tested them non-nil (inside a rotation the promoted child exists by rebalance's precondition; methods that test their own receiver may be called on an untested pointer)", 12)
	R.Rule("contains-table", "Contains: empty -> false, else the root's search; contains = find != nil; find returns the node equal to the value and gives up only where no eligible child is left", 3)
	c01Inorder(c, a)
	c01NullGuard(c, a)
	c01Contains(c, a)
	R.Rule("state-frame", "who may write: only the functions that the conservation and size rules model (add, remove, popLeftMost, the rotations, Tree.Add/Remove/Clear) store to the value, left or right of an existing node or to a tree's root, count or comparator; every other function of the package stores to none of them", 30)
	avlFrame(c, a, "state-frame", []*types.Var{a.nValue, a.nLeft, a.nRight, a.tRoot, a.tCount, a.tCompare}, "shape/content", "inorder-conservation", "size-cache")
}

func c01SizeCache(c *Ctx, a *avlAnchors) {
	rule := "size-cache"
	R := c.R
	// Add
	if fi := c.fn(rule, "avl.(*Tree).Add"); fi != nil {
		if ps := c.paths(rule, fi); ps != nil {
			recv := paramOf(fi, 0)
			ok, why := true, ""
			for _, p := range ps {
				if p.End != EndReturn {
					continue
				}
				incs, inserts := 0, 0
				for i := range p.Events {
					e := &p.Events[i]
					if e.Kind == "store" && isFieldAddr(e.Addr, a.tCount, recv) {
						d := ToPoly(e.Val)
						good := false
						for _, at := range d.Atoms {
							if isFieldLoad(at, a.tCount, recv) && d.Coef(at.Key()) == 1 && d.M[""] == 1 && len(d.M) == 2 {
								good = true
							}
						}
						if good {
							incs++
						} else {
							ok, why = false, "count is set to "+e.Val.String()
						}
					}
					if e.Kind == "store" && isFieldAddr(e.Addr, a.tRoot, recv) {
						v := e.Val
						switch {
						case v.Op == "alloc": // new node holding the value
							holds := false
							for j := range p.Events {
								f := &p.Events[j]
								if f.Kind == "store" && isFieldAddr(f.Addr, a.nValue, v) && isParam(f.Val, 1) {
									holds = true
								}
							}
							if holds {
								inserts++
							} else {
								ok, why = false, "the new root does not hold the value"
							}
						case v.Op == "call" && v.Sym == "avl.(*node).add" && isFieldLoad(v.Args[0], a.tRoot, recv) && isParam(v.Args[1], 1):
							inserts++
						default:
							ok, why = false, "root is set to "+v.String()
						}
					}
				}
				if incs != 1 {
					ok, why = false, fmt.Sprintf("a path increments the count %d times (%s)", incs, p.CondString())
				}
				if inserts != 1 {
					ok, why = false, fmt.Sprintf("a path performs %d insertions (%s)", inserts, p.CondString())
				}
			}
			R.Decide(ok, rule, fi.Name, "add", c.pos(fi), "count+1 and one insertion on every path", why)
		}
	}
	// Remove
	if fi := c.fn(rule, "avl.(*Tree).Remove"); fi != nil {
		if ps := c.paths(rule, fi); ps != nil {
			recv := paramOf(fi, 0)
			ok, why := true, ""
			sawOK := false
			for _, p := range ps {
				if p.End != EndReturn || len(p.Rets) != 1 {
					ok, why = false, "path does not return a flag"
					continue
				}
				rm := callsNamed(p, "avl.(*node).remove")
				var countStores, rootStores []*Event
				for i := range p.Events {
					e := &p.Events[i]
					if e.Kind == "store" && isFieldAddr(e.Addr, a.tCount, recv) {
						countStores = append(countStores, e)
					} else if e.Kind == "store" && isFieldAddr(e.Addr, a.tRoot, recv) {
						rootStores = append(rootStores, e)
					} else if e.Kind == "store" && rootOf(e.Addr).Key() == recv.Key() {
						ok, why = false, "stores to another part of the tree: "+e.String()
					}
				}
				flagEdge := ""
				if len(rm) == 1 {
					flag := &Term{Op: "extract", Args: []*Term{rm[0].Res}, N: 1}
					for _, cd := range p.Conds {
						t, pol := stripNot(cd.T, cd.Pol)
						if t.Key() == flag.Key() {
							flagEdge = map[bool]string{true: "true", false: "false"}[pol]
						}
					}
					if flagEdge == "" && p.Rets[0].Key() == flag.Key() {
						flagEdge = "returned"
					}
				} else if len(rm) > 1 {
					ok, why = false, "removes twice"
					continue
				}
				switch {
				case len(rm) == 0 || flagEdge == "false":
					// nothing may change, false returned
					// the root may be re-installed from the node-level call's first result (which, reporting false, is the
					// tree it was handed - inorder-conservation of node.remove); the count may not move
					rootsOK := true
					for _, rs := range rootStores {
						if !(len(rm) == 1 && rs.Val.Key() == (&Term{Op: "extract", Args: []*Term{rm[0].Res}, N: 0}).Key()) {
							rootsOK = false
						}
					}
					if len(countStores) > 0 || !rootsOK {
						ok, why = false, "state is changed on a path where nothing was removed"
					}
					if !p.Rets[0].IsConst("false") && !(len(rm) == 1 && p.Rets[0].Key() == (&Term{Op: "extract", Args: []*Term{rm[0].Res}, N: 1}).Key()) {
						ok, why = false, "a path that removed nothing does not return false"
					}
				case flagEdge == "true":
					sawOK = true
					if len(countStores) != 1 || len(rootStores) != 1 {
						ok, why = false, "on success count and root are not each updated exactly once"
						break
					}
					d := ToPoly(countStores[0].Val)
					good := false
					for _, at := range d.Atoms {
						if isFieldLoad(at, a.tCount, recv) && d.Coef(at.Key()) == 1 && d.M[""] == -1 && len(d.M) == 2 {
							good = true
						}
					}
					if !good {
						ok, why = false, "count is not decremented by one on success"
					}
					nr := &Term{Op: "extract", Args: []*Term{rm[0].Res}, N: 0}
					if rootStores[0].Val.Key() != nr.Key() {
						ok, why = false, "root is not replaced by the subtree the removal returned"
					}
					if !p.Rets[0].IsConst("true") && p.Rets[0].Key() != (&Term{Op: "extract", Args: []*Term{rm[0].Res}, N: 1}).Key() {
						ok, why = false, "success is not reported"
					}
				default:
					// flag not tested: the decrement is unconditional
					if len(countStores) > 0 {
						ok, why = false, "the count is decremented without looking at whether a node was removed (Remove of an absent value shrinks Len)"
					}
				}
			}
			if ok && !sawOK {
				ok, why = false, "no success row"
			}
			o := R.Decide(ok, rule, fi.Name, "remove", c.pos(fi), "count-1 and root replaced exactly on the removal's success edge; otherwise untouched and false", why)
			if !ok {
				o.Breaks = "Len differs from the number of elements; Slice* allocates with a wrong (negative) capacity"
			}
		}
	}
	if fi := c.fn(rule, "avl.(*Tree).Clear"); fi != nil {
		if ps := c.paths(rule, fi); ps != nil {
			recv := paramOf(fi, 0)
			ok, why := len(ps) == 1, "Clear branches"
			if ok {
				rootNil, countZero := false, false
				for i := range ps[0].Events {
					e := &ps[0].Events[i]
					switch {
					case e.Kind == "store" && isFieldAddr(e.Addr, a.tRoot, recv) && e.Val.IsNil():
						rootNil = true
					case e.Kind == "store" && isFieldAddr(e.Addr, a.tCount, recv) && e.Val.IsConst("0"):
						countZero = true
					case e.Kind == "store" && e.Addr.Key() == recv.Key():
						// whole-struct reset: must keep the comparator
						v := e.Val
						keeps := false
						if v.Op == "struct" {
							stt := v.Typ.Underlying().(*types.Struct)
							for k := 0; k < stt.NumFields(); k++ {
								switch {
								case sameField(stt.Field(k), a.tCompare):
									keeps = isFieldLoad(v.Args[k], a.tCompare, recv)
								case sameField(stt.Field(k), a.tRoot):
									rootNil = v.Args[k].IsNil()
								case sameField(stt.Field(k), a.tCount):
									countZero = v.Args[k].IsConst("0")
								}
							}
						}
						if !keeps {
							ok, why = false, "Clear resets the whole Tree value including its comparator: the next Add of a second value calls a nil function"
						}
					case e.Kind == "store":
						ok, why = false, "unexpected store "+e.String()
					}
				}
				if ok && !(rootNil && countZero) {
					ok, why = false, "root and count are not both reset"
				}
			}
			R.Decide(ok, rule, fi.Name, "clear", c.pos(fi), "root = nil and count = 0, comparator kept", why)
		}
	}
	if fi := c.fn(rule, "avl.(*Tree).Len"); fi != nil {
		if ps := c.paths(rule, fi); ps != nil {
			recv := paramOf(fi, 0)
			ok := len(ps) == 1 && len(ps[0].Rets) == 1 && isFieldLoad(ps[0].Rets[0], a.tCount, recv) && len(ps[0].Events) == 0
			R.Decide(ok, rule, fi.Name, "len", c.pos(fi), "returns the count", "Len does not return the count field")
		}
	}
}

func c01Ctor(c *Ctx, a *avlAnchors) {
	rule := "ctor-complete"
	R := c.R
	for _, fi := range c.P.FuncsOfPkg("avl") {
		ps := c.An.PathsOf(fi.SSA).Paths
		builds := false
		ok, why := true, ""
		for _, p := range ps {
			// returned Tree literals
			for _, r := range p.Rets {
				if r.Op == "struct" && strings.Contains(typeStr(r.Typ), "avl.Tree") {
					builds = true
					stt := r.Typ.Underlying().(*types.Struct)
					for k := 0; k < stt.NumFields(); k++ {
						if sameField(stt.Field(k), a.tCompare) {
							v := r.Args[k]
							if v.IsNil() || v.Op == "zero" {
								ok, why = false, "returns a Tree whose comparator was never assigned"
							}
						}
					}
				}
				if r.Op == "zero" && strings.Contains(typeStr(r.Typ), "avl.Tree") {
					builds = true
					ok, why = false, "returns the zero Tree (no comparator)"
				}
			}
			// stores to the comparator field of an existing tree
			for i := range p.Events {
				e := &p.Events[i]
				if e.Kind == "store" && isFieldAddr(e.Addr, a.tCompare, nil) && rootOf(e.Addr).Op != "alloc" {
					builds = true
					ok, why = false, "overwrites the comparator of an existing tree"
				}
				if e.Kind == "store" && e.Addr.Op == "alloc" && strings.Contains(typeStr(e.Addr.Typ), "avl.Tree") {
					builds = true
				}
			}
		}
		// definite assignment: a locally allocated Tree that is used (as a receiver, bound into a method value, or returned)
		// must have had its comparator stored
		for _, p := range ps {
			locals := map[string]*Term{}
			note := func(t *Term) {
				if t == nil {
					return
				}
				t.Walk(func(x *Term) bool {
					if x.Op == "alloc" && strings.Contains(typeStr(x.Typ), "avl.Tree[") {
						locals[x.Key()] = x
					}
					return true
				})
			}
			for i := range p.Events {
				e := &p.Events[i]
				note(e.Addr)
				note(e.Val)
				for _, x := range e.Args {
					note(x)
				}
			}
			for _, r := range p.Rets {
				note(r)
			}
			for _, A := range locals {
				builds = true
				init := false
				for i := range p.Events {
					e := &p.Events[i]
					if e.Kind == "store" && isFieldAddr(e.Addr, a.tCompare, A) && !e.Val.IsNil() && e.Val.Op != "zero" {
						init = true
					}
					if e.Kind == "store" && e.Addr.Key() == A.Key() && e.Val.Op == "struct" {
						stt := e.Val.Typ.Underlying().(*types.Struct)
						for k := 0; k < stt.NumFields(); k++ {
							if sameField(stt.Field(k), a.tCompare) && !e.Val.Args[k].IsNil() && e.Val.Args[k].Op != "zero" {
								init = true
							}
						}
					}
					if e.Kind == "store" && e.Addr.Key() == A.Key() && (e.Val.Op == "call" || e.Val.Op == "load" || e.Val.Op == "param") {
						init = true // copied from another tree value
					}
				}
				if !init {
					ok, why = false, "a Tree is built from the zero value and used without a comparator"
				}
			}
		}
		// delegation: a constructor that returns what another constructor of the package built hands that one a
		// comparator - a parameter of its own or a function of the module (which the dependency closure then examines)
		for _, p := range ps {
			for _, r := range p.Rets {
				if r.Op == "call" && strings.HasPrefix(r.Sym, "avl.") && strings.Contains(typeStr(r.Typ), "avl.Tree") {
					callee := c.P.Func(r.Sym)
					if callee == nil || callee.Obj.Type().(*types.Signature).Recv() != nil {
						continue
					}
					builds = true
					for k, arg := range r.Args {
						if k < callee.Obj.Type().(*types.Signature).Params().Len() {
							if _, isFn := callee.Obj.Type().(*types.Signature).Params().At(k).Type().Underlying().(*types.Signature); isFn {
								if arg.IsNil() || arg.Op == "zero" {
									ok, why = false, "delegates to "+r.Sym+" with a nil comparator"
								}
							}
						}
					}
				}
			}
		}
		if !builds {
			continue
		}
		o := R.Decide(ok, rule, fi.Name, "comparator", c.pos(fi), "every Tree built here carries a comparator", why)
		if !ok {
			o.Breaks = "nil function call in node.add as soon as a second value is added"
		}
	}
}

func c01Clone(c *Ctx, a *avlAnchors) {
	rule := "clone-detached"
	fi := c.fn(rule, "avl.(*Tree).Clone")
	if fi == nil {
		return
	}
	ps := c.paths(rule, fi)
	if ps == nil {
		return
	}
	recv := paramOf(fi, 0)
	ok, why := len(ps) == 1, "Clone branches: some tree sizes take a different route"
	if ok {
		p := ps[0]
		var local *Term
		walked := false
		nWalks := 0
		for i := range p.Events {
			if e := &p.Events[i]; e.Kind == "call" && strings.HasPrefix(e.Name, "avl.(*Tree).Walk") {
				nWalks++
			}
		}
		if nWalks > 1 {
			ok, why = false, fmt.Sprintf("the receiver is walked %d times: every value is inserted into the clone more than once", nWalks)
		}
		for i := range p.Events {
			e := &p.Events[i]
			switch {
			case e.Kind == "store" && rootOf(e.Addr).Op == "alloc":
				if local == nil {
					local = rootOf(e.Addr)
				}
				// only the comparator may come from the receiver
				if e.Val.ContainsKey(recv.Key()) && !(isFieldAddr(e.Addr, a.tCompare, nil) && isFieldLoad(e.Val, a.tCompare, recv)) {
					ok, why = false, "state of the receiver is copied into the clone: "+e.String()
				}
			case e.Kind == "mkclosure":
			case e.Kind == "call" && strings.HasPrefix(e.Name, "avl.(*Tree).Walk") && e.Args[0].Key() == recv.Key():
				cb := e.Args[1]
				if cb.Op == "closure" && cb.Sym == "Add$bound" && len(cb.Args) == 1 && cb.Args[0].Op == "alloc" {
					walked = true
					local = cb.Args[0]
				} else if cb.Op == "closure" {
					// a closure whose only effect is localTree.Add(value)
					good := false
					for j := range p.Events {
						if p.Events[j].Kind == "mkclosure" && p.Events[j].Val.Key() == cb.Key() {
							cp := c.An.ClosurePaths(&p.Events[j])
							if cp.Unproven == "" && len(cp.Paths) == 1 {
								q := cp.Paths[0]
								var calls []*Event
								others := 0
								for k := range q.Events {
									f := &q.Events[k]
									if f.Kind == "call" {
										calls = append(calls, f)
									} else if f.Kind == "store" && f.Addr.Op != "alloc" {
										others++
									}
								}
								val := &Term{Op: "param", N: 0, Fn: p.Events[j].SSAFn}
								if len(calls) == 1 && others == 0 && calls[0].Name == "avl.(*Tree).Add" && calls[0].Args[0].Op == "alloc" && calls[0].Args[1].Key() == val.Key() {
									good = true
									local = calls[0].Args[0]
								}
							}
						}
					}
					if good {
						walked = true
					} else {
						ok, why = false, "the walk does not feed the clone's Add"
					}
				} else {
					ok, why = false, "the walk does not feed the clone's Add"
				}
			case e.Kind == "store":
				ok, why = false, "Clone writes outside the new tree: "+e.String()
			default:
				ok, why = false, "unexpected effect "+e.String()
			}
		}
		if ok && !walked {
			ok, why = false, "the receiver's values are not re-inserted through Add"
		}
		if ok {
			r := p.Rets[0]
			// the result is the local tree value
			isLocal := false
			if r.Op == "struct" {
				isLocal = true
				for _, x := range r.Args {
					if x.ContainsKey(recv.Key()) && !isFieldLoad(x, a.tCompare, recv) {
						isLocal = false
					}
				}
			}
			if r.Op == "load" && local != nil && r.Args[0].Key() == local.Key() {
				isLocal = true
			}
			if !isLocal {
				ok, why = false, "the result is not the freshly built tree: "+r.String()
			}
		}
	}
	o := c.R.Decide(ok, rule, fi.Name, "fresh", c.pos(fi), "fresh Tree with the receiver's comparator, filled by walking the receiver into its Add", why)
	if !ok {
		o.Breaks = "the clone shares nodes with the original (or panics / loses values for some sizes)"
	}
}

func c01Descent(c *Ctx, a *avlAnchors) {
	rule := "descent-agreement"
	R := c.R
	type obs struct{ below, above, eq string } // eq: the child taken when the comparator says "equal" (and == did not)
	results := map[string]*obs{}
	for _, name := range []string{"avl.(*node).add", "avl.(*node).find", "avl.(*node).remove"} {
		fi := c.fn(rule, name)
		ps := c.paths(rule, fi)
		if ps == nil {
			continue
		}
		valueT := paramOf(fi, 1)
		o := &obs{}
		ok, why := true, ""
		type giveUp struct {
			sign     int
			nilKnown map[string]bool
			p        *Path
		}
		var giveUps []giveUp
		for _, p := range ps {
			// the node examined: param 0, or the loop variable
			isNodeVal := func(t *Term) bool {
				return t.Op == "load" && t.Args[0].Op == "faddr" && sameField(t.Args[0].Obj, a.nValue)
			}
			sign := 0
			for _, cd := range p.Conds {
				if s := belowSign(cd, valueT, isNodeVal); s != 0 {
					sign = s
				}
			}
			// which child does the path take?
			child := ""
			for i := range p.Events {
				e := &p.Events[i]
				if e.Kind == "call" && e.Name == name && len(e.Args) > 0 {
					if f := a.childField(e.Args[0]); f != "" {
						child = f
					}
				}
				if e.Kind == "store" && (isFieldAddr(e.Addr, a.nLeft, nil) || isFieldAddr(e.Addr, a.nRight, nil)) && name == "avl.(*node).add" {
					child = a.childField(e.Addr)
				}
			}
			if p.End == EndLoopBack {
				for _, nx := range p.Next {
					if f := a.childField(nx); f != "" {
						child = f
					}
				}
			}
			// which children the path knows to be missing
			nilKnown := map[string]bool{}
			for _, cd := range p.Conds {
				r := cd.Rel()
				if r.B == nil || r.Op != "==" {
					continue
				}
				if f := a.childField(r.A); f != "" && r.B.IsNil() {
					nilKnown[f] = true
				}
				if f := a.childField(r.B); f != "" && r.A.IsNil() {
					nilKnown[f] = true
				}
			}
			if child == "" {
				// "not here": find and remove may give up only where the value cannot be - the child on the value's side
				// (both children when the comparator was not asked) is known to be missing
				if name != "avl.(*node).add" && p.End == EndReturn && len(p.Rets) > 0 {
					last := p.Rets[len(p.Rets)-1]
					notFound := last.IsConst("false") || (len(p.Rets) == 1 && p.Rets[0].IsNil())
					neq := false
					for _, cd := range p.Conds {
						r := cd.Rel()
						if r.B != nil && r.Op == "!=" && ((isNodeVal(r.A) && r.B.Key() == valueT.Key()) || (isNodeVal(r.B) && r.A.Key() == valueT.Key())) {
							neq = true
						}
					}
					if notFound && neq {
						giveUps = append(giveUps, giveUp{sign, nilKnown, p})
					}
				}
				continue
			}
			if sign == 0 && name != "avl.(*node).add" {
				other := map[string]string{"left": "right", "right": "left"}[child]
				if !nilKnown[other] {
					ok, why = false, "descends into the "+child+" child without asking the comparator although the "+other+" child may exist ("+p.CondString()+"): a value on the other side is never found"
				}
			}
			// == must have been excluded before descending (find, remove)
			if name != "avl.(*node).add" {
				neq := false
				for _, cd := range p.Conds {
					r := cd.Rel()
					if r.B != nil && r.Op == "!=" {
						if (isNodeVal(r.A) && r.B.Key() == valueT.Key()) || (isNodeVal(r.B) && r.A.Key() == valueT.Key()) {
							neq = true
						}
					}
				}
				if !neq {
					ok, why = false, "descends without having tested the node's value for equality"
				}
			}
			switch sign {
			case 1: // strictly below
				if o.below != "" && o.below != child {
					ok, why = false, "a value below the node goes to different children on different paths"
				}
				o.below = child
			case -2: // strictly above
				if o.above != "" && o.above != child {
					ok, why = false, "a value above the node goes to different children on different paths"
				}
				o.above = child
			case -1: // not below (>=): above or equal
				if o.above != "" && o.above != child {
					ok, why = false, "a value above the node goes to different children on different paths"
				}
				o.above = child
				if o.eq != "" && o.eq != child {
					ok, why = false, "a value that the comparator calls equal goes to different children on different paths"
				}
				o.eq = child
			case 2: // below or equal
				if o.below != "" && o.below != child {
					ok, why = false, "a value below the node goes to different children on different paths"
				}
				o.below = child
				if o.eq != "" && o.eq != child {
					ok, why = false, "a value that the comparator calls equal goes to different children on different paths"
				}
				o.eq = child
			case 0:
				// no comparator decision on this path (e.g. only one child exists): the child taken must not contradict
			}
		}
		if ok && (o.below == "" || o.above == "") {
			ok, why = false, "cannot find both directions of the descent"
		}
		if ok {
			for _, g := range giveUps {
				var need []string
				switch g.sign {
				case 1, 2:
					need = []string{o.below}
				case -1, -2:
					need = []string{o.above}
				default:
					need = []string{o.below, o.above}
				}
				for _, f := range need {
					if !g.nilKnown[f] {
						ok, why = false, "gives up ("+g.p.CondString()+") although the "+f+" child, where the value would be, is not known to be missing"
					}
				}
			}
		}
		if ok && o.below == o.above {
			ok, why = false, "both directions lead to the "+o.below+" child"
		}
		results[name] = o
		R.Decide(ok, rule, name, "directions", c.pos(fi), fmt.Sprintf("below -> %s, above -> %s; == tested first", o.below, o.above), why)
	}
	// agreement between the three
	var ref *obs
	agree := true
	for _, name := range []string{"avl.(*node).add", "avl.(*node).find", "avl.(*node).remove"} {
		o := results[name]
		if o == nil || o.below == "" {
			continue
		}
		if ref == nil {
			ref = o
		} else if ref.below != o.below || ref.above != o.above || (ref.eq != "" && o.eq != "" && ref.eq != o.eq) {
			// (values the comparator calls equal without being ==: duplicates under a coarser order; add puts them on
			// one side, find and remove must look on that side)
			agree = false
		}
	}
	if ref != nil && !agree {
		o := R.Refuted(rule, "avl.(*node)", "sibling-agreement", "", "add, find and remove do not descend the same way: values are inserted where lookups/removals do not search")
		o.Breaks = "Contains/Remove miss values that are present"
	} else if ref != nil && len(results) == 3 && results["avl.(*node).add"].below != "" && results["avl.(*node).find"].below != "" && results["avl.(*node).remove"].below != "" {
		R.Held(rule, "avl.(*node)", "sibling-agreement", "", "add, find and remove descend the same way")
	} else {
		R.Unproven(rule, "avl.(*node)", "sibling-agreement", "", "the descent of add, find and remove could not all be read")
	}
	// paths without a comparator decision must not go the wrong way when the other child exists:
	// find/remove go right only when left == nil or not-below (checked above by sign); nothing more to do.
}

// c01WalkerNilSafe: the node walker returns at once, without effects, for a nil receiver.
func c01WalkerNilSafe(c *Ctx, name string) bool {
	fi := c.P.Func(name)
	if fi == nil {
		return false
	}
	fp := c.An.PathsOf(fi.SSA)
	for _, p := range fp.Paths {
		for _, cd := range p.Conds {
			r := cd.Rel()
			if r.B != nil && r.B.IsNil() && isParam(r.A, 0) && r.Op == "==" && len(p.Events) == 0 {
				return true
			}
		}
	}
	return false
}

func c01Walk(c *Ctx, a *avlAnchors) {
	rule := "walk-order"
	R := c.R
	orders := map[string]string{"avl.(*node).walkPreOrder": "VLR", "avl.(*node).walkInOrder": "LVR", "avl.(*node).walkPostOrder": "LRV"}
	for name, want := range orders {
		fi := c.fn(rule, name)
		ps := c.paths(rule, fi)
		if ps == nil {
			continue
		}
		recv := paramOf(fi, 0)
		cb := paramOf(fi, 1)
		ok, why := true, ""
		// a walker may instead accept a nil receiver (empty subtree) and visit its children unguarded
		selfNilSafe := false
		recvNilOn := func(p *Path) string {
			for _, cd := range p.Conds {
				r := cd.Rel()
				if r.B != nil && r.B.IsNil() && r.A.Key() == recv.Key() {
					return r.Op
				}
			}
			return ""
		}
		for _, p := range ps {
			if recvNilOn(p) == "==" && len(p.Events) == 0 {
				selfNilSafe = true
			}
		}
		for _, p := range ps {
			if recvNilOn(p) == "==" {
				if len(p.Events) != 0 {
					ok, why = false, "something happens for a nil receiver"
				}
				continue
			}
			if selfNilSafe && recvNilOn(p) != "!=" {
				ok, why = false, "a path dereferences the receiver without the nil test"
			}
			seq := ""
			leftNil, rightNil := "", ""
			if selfNilSafe {
				leftNil, rightNil = "!=", "!=" // unguarded recursion: the callee handles nil
			}
			for _, cd := range p.Conds {
				r := cd.Rel()
				if r.B != nil && r.B.IsNil() {
					if isFieldLoad(r.A, a.nLeft, recv) {
						leftNil = r.Op
					}
					if isFieldLoad(r.A, a.nRight, recv) {
						rightNil = r.Op
					}
				}
			}
			for i := range p.Events {
				e := &p.Events[i]
				switch {
				case e.Kind == "call" && e.Name == "dyn" && e.Callee.Key() == cb.Key():
					if len(e.Args) != 1 || !isFieldLoad(e.Args[0], a.nValue, recv) {
						ok, why = false, "the callback is not given the node's own value"
					}
					seq += "V"
				case e.Kind == "call" && strings.HasPrefix(e.Name, "avl.(*node).walk"):
					if e.Name != name {
						ok, why = false, "recurses into "+e.Name+" instead of itself: the sequence is no traversal of one tree"
					}
					if len(e.Args) != 2 || e.Args[1].Key() != cb.Key() {
						ok, why = false, "the callback is not passed down"
					}
					switch {
					case isFieldLoad(e.Args[0], a.nLeft, recv):
						seq += "L"
					case isFieldLoad(e.Args[0], a.nRight, recv):
						seq += "R"
					default:
						ok, why = false, "recurses on something that is not a child"
					}
				case e.Kind == "call" || e.Kind == "store" || e.Kind == "go":
					ok, why = false, "unexpected effect "+e.String()
				}
			}
			wantSeq := ""
			for _, ch := range want {
				switch ch {
				case 'V':
					wantSeq += "V"
				case 'L':
					if leftNil == "!=" {
						wantSeq += "L"
					} else if leftNil == "" {
						ok, why = false, "the left child is not guarded"
					}
				case 'R':
					if rightNil == "!=" {
						wantSeq += "R"
					} else if rightNil == "" {
						ok, why = false, "the right child is not guarded"
					}
				}
			}
			if seq != wantSeq {
				ok, why = false, fmt.Sprintf("a path visits %s, expected %s", seq, wantSeq)
			}
		}
		R.Decide(ok, rule, name, "order", c.pos(fi), "order "+want+" with each non-nil child visited once, by the same walker", why)
	}
	// dispatch
	for _, kind := range []string{"PreOrder", "InOrder", "PostOrder"} {
		wname := "avl.(*Tree).Walk" + kind
		if fi := c.fn(rule, wname); fi != nil {
			if ps := c.paths(rule, fi); ps != nil {
				recv := paramOf(fi, 0)
				ok, why := true, ""
				saw := false
				for _, p := range ps {
					calls := eventsOf(p, func(e *Event) bool { return e.Kind == "call" })
					rootNil := ""
					for _, cd := range p.Conds {
						r := cd.Rel()
						if r.B != nil && r.B.IsNil() && isFieldLoad(r.A, a.tRoot, recv) {
							rootNil = r.Op
						}
					}
					if rootNil == "==" {
						if len(calls) != 0 {
							ok, why = false, "an empty tree is walked"
						}
						continue
					}
					if rootNil == "" && !c01WalkerNilSafe(c, "avl.(*node).walk"+kind) {
						ok, why = false, "the root is handed to a walker that does not accept nil, without a test"
						continue
					}
					if len(calls) != 1 || calls[0].Name != "avl.(*node).walk"+kind || !isFieldLoad(calls[0].Args[0], a.tRoot, recv) || !isParam(calls[0].Args[1], 1) {
						ok, why = false, "does not delegate to root.walk"+kind+"(walker)"
					} else {
						saw = true
					}
				}
				R.Decide(ok && saw, rule, wname, "dispatch", c.pos(fi), "root.walk"+kind+"(walker) unless empty", why)
			}
		}
		sname := "avl.(*Tree).Slice" + kind
		if fi := c.fn(rule, sname); fi != nil {
			if ps := c.paths(rule, fi); ps != nil {
				recv := paramOf(fi, 0)
				ok := len(ps) == 1
				if ok {
					calls := callsNamed(ps[0], "avl.(*Tree).slice")
					ok = len(calls) == 1 && calls[0].Args[0].Key() == recv.Key() && calls[0].Args[1].Op == "closure" &&
						calls[0].Args[1].Sym == "Walk"+kind+"$bound" && calls[0].Args[1].Args[0].Key() == recv.Key() &&
						len(ps[0].Rets) == 1 && ps[0].Rets[0].Key() == calls[0].Res.Key()
				}
				R.Decide(ok, rule, sname, "dispatch", c.pos(fi), "slice(Walk"+kind+")", "does not collect Walk"+kind+" of the receiver")
			}
		}
	}
	// slice helper: appends every visited value to a fresh slice
	if fi := c.fn(rule, "avl.(*Tree).slice"); fi != nil {
		if ps := c.paths(rule, fi); ps != nil {
			ok := len(ps) == 1
			if ok {
				p := ps[0]
				mk := eventsOf(p, func(e *Event) bool { return e.Kind == "mkclosure" })
				calls := eventsOf(p, func(e *Event) bool { return e.Kind == "call" && e.Name == "dyn" })
				// the collected slice itself, or all of it with the capacity clipped: x[:len(x)] / x[:len(x):len(x)]
				var ret *Term
				if len(p.Rets) == 1 {
					ret = p.Rets[0]
					if ret.Op == "slice" && len(ret.Args) == 4 && ret.Args[0].Op == "load" && (ret.Args[1].Op == "none" || ret.Args[1].IsConst("0")) &&
						isLenOf(ret.Args[2], ret.Args[0]) && (ret.Args[3].Op == "none" || isLenOf(ret.Args[3], ret.Args[0])) {
						ret = ret.Args[0]
					}
				}
				ok = len(mk) == 1 && len(calls) == 1 && isParam(calls[0].Callee, 1) && calls[0].Args[0].Key() == mk[0].Val.Key() &&
					ret != nil && ret.Op == "load" && ret.Args[0].Op == "alloc"
				if ok {
					cell := ret.Args[0]
					cidx := -1
					for i, b := range mk[0].Val.Args {
						if b.Key() == cell.Key() {
							cidx = i
						}
					}
					cp := c.An.PathsOf(mk[0].SSAFn)
					ok = cidx >= 0 && len(cp.Paths) == 1
					if ok {
						q := cp.Paths[0]
						n := 0
						for i := range q.Events {
							e := &q.Events[i]
							if e.Kind == "store" && e.Addr.Op == "free" && e.Addr.N == cidx {
								n++
								v := e.Val
								if !(v.Op == "builtin" && v.Sym == "append" && v.Args[0].Op == "load" && v.Args[0].Args[0].Op == "free" && v.Args[0].Args[0].N == cidx) {
									ok = false
								} else if el, single := appendedElem(q, v.Args[0], v); !single || !isParam(el, 0) {
									ok = false // exactly the visited value, once
								}
							}
						}
						if n != 1 {
							ok = false
						}
					}
					// the collected slice starts out empty
					for i := range p.Events {
						e := &p.Events[i]
						if e.Kind == "store" && e.Addr.Key() == cell.Key() {
							v := e.Val
							if !(v.IsNil() || v.Op == "zero" || (v.Op == "mkslice" && len(v.Args) >= 1 && v.Args[0].IsConst("0"))) {
								ok = false
							}
						}
					}
				}
			}
			R.Decide(ok, rule, fi.Name, "collect", c.pos(fi), "appends each visited value to a fresh, initially empty slice and returns it", "does not collect exactly the visited values (each appended once to a slice that starts empty)")
		}
	}
	if fi := c.fn(rule, "avl.(Tree).String"); fi != nil {
		if ps := c.paths(rule, fi); ps != nil {
			ok := false
			for _, p := range ps {
				for i := range p.Events {
					if p.Events[i].Kind == "call" && p.Events[i].Name == "avl.(*Tree).SliceInOrder" {
						ok = true
					}
				}
			}
			R.Decide(ok, rule, fi.Name, "dispatch", c.pos(fi), "prints the in-order slice", "String does not use the in-order slice")
		}
	}
}

func c01Conservation(c *Ctx, a *avlAnchors) {
	rule := "subtree-conservation"
	R := c.R
	fi := c.fn(rule, "avl.(*node).remove")
	if fi == nil {
		return
	}
	ps := c.paths(rule, fi)
	if ps == nil {
		return
	}
	recv := paramOf(fi, 0)
	valueT := paramOf(fi, 1)
	// popLeftMost contract: second result has left == nil; first result is the remainder
	popOK := false
	if pf := c.fn(rule, "avl.(*node).popLeftMost"); pf != nil {
		if pps := c.paths(rule, pf); pps != nil {
			popOK = true
			pr := paramOf(pf, 0)
			base := false
			for _, p := range pps {
				if p.End != EndReturn || len(p.Rets) != 2 {
					popOK = false
					continue
				}
				leftNil := ""
				for _, cd := range p.Conds {
					r := cd.Rel()
					if r.B != nil && r.B.IsNil() && isFieldLoad(r.A, a.nLeft, pr) {
						leftNil = r.Op
					}
				}
				if leftNil == "==" {
					base = true
					if !(p.Rets[1].Key() == pr.Key() && isFieldLoad(p.Rets[0], a.nRight, pr)) {
						popOK = false
					}
				} else {
					rec := callsNamed(p, "avl.(*node).popLeftMost")
					if len(rec) != 1 || !isFieldLoad(rec[0].Args[0], a.nLeft, pr) {
						popOK = false
						continue
					}
					popped := &Term{Op: "extract", Args: []*Term{rec[0].Res}, N: 1}
					newLeft := &Term{Op: "extract", Args: []*Term{rec[0].Res}, N: 0}
					if p.Rets[1].Key() != popped.Key() {
						popOK = false
					}
					stored := false
					for i := range p.Events {
						e := &p.Events[i]
						if e.Kind == "store" && isFieldAddr(e.Addr, a.nLeft, pr) && e.Val.Key() == newLeft.Key() {
							stored = true
						}
					}
					r0 := p.Rets[0]
					if !stored || !(r0.Key() == pr.Key() || (r0.Op == "call" && len(r0.Args) > 0 && r0.Args[0].Key() == pr.Key())) {
						popOK = false
					}
				}
			}
			popOK = popOK && base
			R.Decide(popOK, rule, pf.Name, "contract", c.pos(pf), "returns (remainder containing every other node, leftmost node whose left is nil)", "popLeftMost does not return (remainder, leftmost with nil left) on every path: a subtree can be lost")
		}
	}
	ok, why := true, ""
	found := 0
	for _, p := range ps {
		isFound := false
		for _, cd := range p.Conds {
			r := cd.Rel()
			if r.B != nil && r.Op == "==" && ((isFieldLoad(r.A, a.nValue, recv) && r.B.Key() == valueT.Key()) || (isFieldLoad(r.B, a.nValue, recv) && r.A.Key() == valueT.Key())) {
				isFound = true
			}
		}
		// no-overwrite on every path
		for i := range p.Events {
			e := &p.Events[i]
			if e.Kind != "store" || !(isFieldAddr(e.Addr, a.nLeft, nil) || isFieldAddr(e.Addr, a.nRight, nil)) {
				continue
			}
			X := e.Addr.Args[0]
			old := &Term{Op: "load", Args: []*Term{e.Addr}}
			safe := false
			// (a) old value known nil
			for _, cd := range p.Conds {
				r := cd.Rel()
				if r.B != nil && r.B.IsNil() && r.Op == "==" && r.A.Op == "load" && r.A.Args[0].Key() == e.Addr.Key() {
					safe = true
				}
			}
			// (b) new value derives from a call on the old value
			e.Val.Walk(func(x *Term) bool {
				if x.Op == "call" && len(x.Args) > 0 && x.Args[0].Op == "load" && x.Args[0].Args[0].Key() == e.Addr.Key() {
					safe = true
				}
				return true
			})
			// (c) X is the node popped by popLeftMost
			if X.Op == "extract" && X.N == 1 && X.Args[0].Op == "call" && X.Args[0].Sym == "avl.(*node).popLeftMost" && popOK {
				safe = true
			}
			_ = old
			if !safe {
				ok, why = false, fmt.Sprintf("%s overwrites a child pointer that may still hold a subtree (it is not known nil, not replaced by its own updated version, and the node is not the popped leftmost)", e.String())
			}
		}
		if !isFound || p.End != EndReturn || len(p.Rets) != 2 {
			continue
		}
		found++
		// children available on this path
		avail := map[string]*Term{}
		for _, side := range []struct {
			f *types.Var
			n string
		}{{a.nLeft, "left"}, {a.nRight, "right"}} {
			isNil := false
			for _, cd := range p.Conds {
				r := cd.Rel()
				if r.B != nil && r.B.IsNil() && r.Op == "==" && isFieldLoad(r.A, side.f, recv) {
					isNil = true
				}
			}
			if !isNil {
				avail[side.n] = &Term{Op: "load", Args: []*Term{{Op: "faddr", Args: []*Term{recv}, Obj: side.f}}}
			}
		}
		ret := p.Rets[0]
		// the node that becomes the new subtree root
		newRoot := ret
		if ret.Op == "call" && len(ret.Args) > 0 {
			newRoot = ret.Args[0] // rebalance(x) / rotation(x)
		}
		uses := map[string]int{}
		for side, ch := range avail {
			// returned directly
			if ret.Op == "load" && ret.Args[0].Op == "faddr" && isFieldLoad(ret, map[string]*types.Var{"left": a.nLeft, "right": a.nRight}[side], recv) {
				uses[side]++
			}
			for i := range p.Events {
				e := &p.Events[i]
				// stored as a child of the new root
				if e.Kind == "store" && (isFieldAddr(e.Addr, a.nLeft, newRoot) || isFieldAddr(e.Addr, a.nRight, newRoot)) && isFieldLoad(e.Val, map[string]*types.Var{"left": a.nLeft, "right": a.nRight}[side], recv) {
					uses[side]++
				}
				// consumed by popLeftMost, whose remainder must be stored into the new root
				if e.Kind == "call" && e.Name == "avl.(*node).popLeftMost" && isFieldLoad(e.Args[0], map[string]*types.Var{"left": a.nLeft, "right": a.nRight}[side], recv) {
					rem := &Term{Op: "extract", Args: []*Term{e.Res}, N: 0}
					lm := &Term{Op: "extract", Args: []*Term{e.Res}, N: 1}
					remStored := 0
					for j := range p.Events {
						f := &p.Events[j]
						if f.Kind == "store" && (isFieldAddr(f.Addr, a.nLeft, newRoot) || isFieldAddr(f.Addr, a.nRight, newRoot)) && f.Val.Key() == rem.Key() {
							remStored++
						}
					}
					if newRoot.Key() == lm.Key() && remStored == 1 {
						uses[side]++
					} else {
						ok, why = false, "the remainder returned by popLeftMost does not become a child of the promoted node exactly once"
					}
				}
			}
			_ = ch
		}
		for side := range avail {
			if uses[side] != 1 {
				ok, why = false, fmt.Sprintf("on a found-path (%s) the %s subtree reaches the result %d times", p.CondString(), side, uses[side])
			}
		}
		if len(avail) == 0 && !ret.IsNil() {
			ok, why = false, "removing a leaf does not return nil"
		}
	}
	if ok && found < 1 {
		ok, why = false, "no path on which the node holding the value is unlinked"
	}
	o := R.Decide(ok, rule, fi.Name, "found-paths", c.pos(fi), "leaf -> nil; one child -> that child; two children -> popped successor adopts left subtree and remainder", why)
	if !ok {
		o.Breaks = "elements other than the removed one silently disappear (or appear twice)"
	}
}

// avlFrame (rule `state-frame`): who may write. The rules model the functions that change the tree - and take every
// other function of the package (height helpers, walkers, accessors, String ...) to leave the state alone, whatever
// path calls them. That is checked here: a function that stores to one of the given fields of a node or tree it did
// not itself allocate must be a construct of one of the modelling rules; every other function stores to none of them.
// Each function of the package gets one obligation.
func avlFrame(c *Ctx, a *avlAnchors, rule string, fields []*types.Var, what string, modelRules ...string) {
	isModel := map[string]bool{}
	for _, r := range modelRules {
		isModel[r] = true
	}
	modelled := map[string]string{}
	for _, o := range c.R.Obs {
		if isModel[o.Rule] {
			name := o.Construct
			if i := strings.Index(name, "/"); i > 0 {
				name = name[:i]
			}
			if modelled[name] == "" {
				modelled[name] = o.Rule
			}
		}
	}
	for fn, r := range c.R.Covers {
		if isModel[r] && modelled[fn] == "" {
			modelled[fn] = r
		}
	}
	fieldName := func(o types.Object) string {
		for _, f := range fields {
			if sameField(o, f) {
				return f.Name()
			}
		}
		return ""
	}
	isStateStruct := func(t types.Type) bool {
		if t == nil {
			return false
		}
		st, ok := t.Underlying().(*types.Struct)
		if !ok {
			return false
		}
		for i := 0; i < st.NumFields(); i++ {
			if fieldName(st.Field(i)) != "" {
				return true
			}
		}
		return false
	}
	for _, fi := range c.P.FuncsOfPkg("avl") {
		var writes []string
		unproven := ""
		fns := append([]*ssa.Function{fi.SSA}, fi.Closures...)
		for _, fn := range fns {
			fp := c.An.PathsOf(fn)
			if fp.Unproven != "" {
				unproven = fp.Unproven
				continue
			}
			for _, p := range fp.Paths {
				for i := range p.Events {
					e := &p.Events[i]
					if e.Kind != "store" || e.Addr == nil {
						continue
					}
					if e.Addr.Op == "faddr" && len(e.Addr.Args) == 1 {
						if n := fieldName(e.Addr.Obj); n != "" && e.Addr.Args[0].Op != "alloc" {
							writes = append(writes, n)
						}
						continue
					}
					if e.Addr.Op != "alloc" && e.Val != nil && isStateStruct(e.Val.Typ) {
						writes = append(writes, "(whole struct)")
					}
				}
			}
		}
		switch {
		case unproven != "":
			c.R.Unproven(rule, fi.Name, "writes", c.pos(fi), "cannot summarise paths: "+unproven)
		case len(writes) == 0:
			c.R.Held(rule, fi.Name, "writes", c.pos(fi), "stores to no "+what+" field of an existing node or tree")
		case modelled[fi.Name] != "":
			c.R.Held(rule, fi.Name, "writes", c.pos(fi), "its stores ("+strings.Join(uniqStrings(writes), ", ")+") are modelled by rule "+modelled[fi.Name])
		default:
			o := c.R.Refuted(rule, fi.Name, "writes", c.pos(fi), "stores to "+strings.Join(uniqStrings(writes), ", ")+" of an existing node or tree, but no rule of this check models this function as one that changes the "+what+": the other rules take every call of it to leave the tree as it was")
			o.Breaks = "a helper, walker or accessor that silently relinks or overwrites nodes corrupts the tree behind the modelled mutators"
		}
	}
}

func uniqStrings(xs []string) []string {
	seen := map[string]bool{}
	var out []string
	for _, x := range xs {
		if !seen[x] {
			seen[x] = true
			out = append(out, x)
		}
	}
	sort.Strings(out)
	return out
}
