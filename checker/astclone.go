package main

import (
	"go/ast"
	"reflect"
)

// cloneAST deep-copies an AST node (Objects and Scopes are dropped).
func cloneAST(n ast.Node) ast.Node {
	v := cloneValue(reflect.ValueOf(n))
	return v.Interface().(ast.Node)
}

var (
	objType   = reflect.TypeOf((*ast.Object)(nil))
	scopeType = reflect.TypeOf((*ast.Scope)(nil))
)

func cloneValue(v reflect.Value) reflect.Value {
	switch v.Kind() {
	case reflect.Ptr:
		if v.IsNil() {
			return v
		}
		if v.Type() == objType || v.Type() == scopeType {
			return reflect.Zero(v.Type())
		}
		n := reflect.New(v.Type().Elem())
		n.Elem().Set(cloneValue(v.Elem()))
		return n
	case reflect.Interface:
		if v.IsNil() {
			return v
		}
		c := cloneValue(v.Elem())
		n := reflect.New(v.Type()).Elem()
		n.Set(c)
		return n
	case reflect.Slice:
		if v.IsNil() {
			return v
		}
		n := reflect.MakeSlice(v.Type(), v.Len(), v.Len())
		for i := 0; i < v.Len(); i++ {
			n.Index(i).Set(cloneValue(v.Index(i)))
		}
		return n
	case reflect.Struct:
		n := reflect.New(v.Type()).Elem()
		for i := 0; i < v.NumField(); i++ {
			if n.Field(i).CanSet() {
				n.Field(i).Set(cloneValue(v.Field(i)))
			}
		}
		return n
	}
	return v
}
