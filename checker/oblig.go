package main

import (
	"encoding/json"
	"fmt"
	"os"
	"path/filepath"
	"sort"
	"strings"
	"time"
)

type Verdict string

const (
	Held     Verdict = "held"
	Refuted  Verdict = "refuted"
	Unproven Verdict = "unproven"
)

// Obligation: one rule applied to one construct (E7). Key never contains a line number.
type Obligation struct {
	Prop      string   `json:"property"`
	Rule      string   `json:"rule"`
	Construct string   `json:"construct"` // pkg.Func or pkg.Type.field
	Instance  string   `json:"instance"`  // ordinal / role within the construct
	Verdict   Verdict  `json:"verdict"`
	Pos       string   `json:"pos,omitempty"`
	Msg       string   `json:"msg,omitempty"`
	Facts     []string `json:"facts,omitempty"`
	Breaks    string   `json:"breaks,omitempty"`
}

func (o *Obligation) Key() string {
	return o.Prop + "/" + o.Rule + "/" + o.Construct + "/" + o.Instance
}

// Report collects the obligations of one check run.
type Report struct {
	Prop      string
	Tier      string
	Obs       []*Obligation
	Floors    map[string]int // rule -> minimum number of instances
	Notes     []string
	Analysed  map[string]int
	Rules     map[string]string // rule -> one-line statement
	Fixtures  []FixtureResult
	Extra     map[string]interface{}
	AltCounts map[string]int    // per-rule instance counts seen on the inlining views
	Covers    map[string]string // function name -> rule that analyses it as part of another construct
	Alias     map[string]string // while set: obligations of rule k are recorded under rule Alias[k] (a rule set re-run as a helper rule)
}

// Cover records that a rule has analysed fn's body as part of another construct's obligation.
func (r *Report) Cover(fn, rule string) {
	if r.Covers == nil {
		r.Covers = map[string]string{}
	}
	r.Covers[fn] = rule
}

type FixtureResult struct {
	Rule    string `json:"rule"`
	Fixture string `json:"fixture"`
	Want    string `json:"want"` // fire | silent
	Got     string `json:"got"`
	OK      bool   `json:"ok"`
}

func NewReport(prop, tier string) *Report {
	return &Report{Prop: prop, Tier: tier, Floors: map[string]int{}, Analysed: map[string]int{}, Rules: map[string]string{}, Extra: map[string]interface{}{}}
}

func (r *Report) Rule(name, statement string, floor int) {
	r.Rules[name] = statement
	r.Floors[name] = floor
}

func (r *Report) add(rule, construct, instance string, v Verdict, pos, msg string, facts ...string) *Obligation {
	if a, ok := r.Alias[rule]; ok {
		instance = rule + "/" + instance
		rule = a
	}
	o := &Obligation{Prop: r.Prop, Rule: rule, Construct: construct, Instance: instance, Verdict: v, Pos: pos, Msg: msg, Facts: facts}
	r.Obs = append(r.Obs, o)
	return o
}

func (r *Report) Held(rule, construct, instance, pos, msg string, facts ...string) *Obligation {
	return r.add(rule, construct, instance, Held, pos, msg, facts...)
}
func (r *Report) Refuted(rule, construct, instance, pos, msg string, facts ...string) *Obligation {
	return r.add(rule, construct, instance, Refuted, pos, msg, facts...)
}
func (r *Report) Unproven(rule, construct, instance, pos, msg string, facts ...string) *Obligation {
	return r.add(rule, construct, instance, Unproven, pos, msg, facts...)
}

// Decide records held when cond is true, else refuted.
func (r *Report) Decide(cond bool, rule, construct, instance, pos, heldMsg, refutedMsg string, facts ...string) *Obligation {
	if cond {
		return r.Held(rule, construct, instance, pos, heldMsg, facts...)
	}
	return r.Refuted(rule, construct, instance, pos, refutedMsg, facts...)
}

// ---------------------------------------------------------------------------
// known findings

type KnownFinding struct {
	Property string `json:"property"`
	Key      string `json:"key"`    // obligation key
	Status   string `json:"status"` // open | fixed
	Commit   string `json:"commit,omitempty"`
	What     string `json:"what"`
	Demo     string `json:"demo,omitempty"`
}

type KnownFindings struct {
	Findings []KnownFinding `json:"findings"`
}

func loadKnown(path string) (*KnownFindings, error) {
	b, err := os.ReadFile(path)
	if err != nil {
		return nil, err
	}
	var k KnownFindings
	if err := json.Unmarshal(b, &k); err != nil {
		return nil, err
	}
	return &k, nil
}

// ---------------------------------------------------------------------------
// finishing a run: floors, verdict lines, replay files, evidence

type runResult struct {
	violations int
	known      int
}

func (r *Report) Finish(verifDir string, known *KnownFindings, start time.Time, seed int, level string, explanation string, assumptions []string, trusted []string) int {
	// floors
	count := map[string]int{}
	for _, o := range r.Obs {
		count[o.Rule]++
	}
	var rules []string
	for name := range r.Rules {
		rules = append(rules, name)
	}
	sort.Strings(rules)
	for _, name := range rules {
		if count[name] < r.Floors[name] && r.AltCounts[name] < r.Floors[name] {
			r.Unproven(name, "(rule)", "instance-floor", "", fmt.Sprintf("rule matched %d instances, floor is %d: an anchor moved or the rule no longer sees the code it was written for", count[name], r.Floors[name]))
		}
	}
	for _, f := range r.Fixtures {
		if !f.OK {
			r.Unproven(f.Rule, "(fixture)", f.Fixture, "", fmt.Sprintf("self-check failed: fixture %s expected %s, got %s", f.Fixture, f.Want, f.Got))
		}
	}
	sort.SliceStable(r.Obs, func(i, j int) bool { return r.Obs[i].Key() < r.Obs[j].Key() })
	// duplicate keys get an ordinal so that keys stay unique and stable
	seen := map[string]int{}
	for _, o := range r.Obs {
		k := o.Key()
		seen[k]++
		if seen[k] > 1 {
			o.Instance = fmt.Sprintf("%s~%d", o.Instance, seen[k])
		}
	}
	openKnown := map[string]KnownFinding{}
	if known != nil {
		for _, k := range known.Findings {
			if k.Status == "open" && k.Property == r.Prop {
				openKnown[k.Key] = k
			}
		}
	}
	replayDir := filepath.Join(verifDir, "replay")
	os.MkdirAll(replayDir, 0o755)
	// stale replays of this property
	if old, _ := filepath.Glob(filepath.Join(replayDir, r.Prop+"-*.json")); old != nil {
		for _, f := range old {
			os.Remove(f)
		}
	}
	nViol, nKnown, nHeld := 0, 0, 0
	var violLines []string
	for _, o := range r.Obs {
		switch o.Verdict {
		case Held:
			nHeld++
		case Refuted:
			if kf, ok := openKnown[o.Key()]; ok {
				nKnown++
				fmt.Printf("KNOWN-FINDING: property=%s %s: %s [%s]\n", r.Prop, o.Key(), kf.What, o.Pos)
				continue
			}
			fallthrough
		case Unproven:
			nViol++
			name := fmt.Sprintf("%s-%03d.json", r.Prop, nViol)
			path := filepath.Join(replayDir, name)
			b, _ := json.MarshalIndent(map[string]interface{}{
				"property": r.Prop, "verdict": o.Verdict, "rule": o.Rule, "rule_statement": r.Rules[o.Rule],
				"construct": o.Construct, "instance": o.Instance, "key": o.Key(), "pos": o.Pos, "message": o.Msg, "facts": o.Facts,
				"how_to_replay": fmt.Sprintf("cd /verif && bin/typcheck -prop %s -tier quick   # static re-analysis of /repo; the obligation above is re-derived from the source", r.Prop),
			}, "", " ")
			os.WriteFile(path, b, 0o644)
			fmt.Printf("%s %s %s at %s: %s\n", strings.ToUpper(string(o.Verdict)), r.Prop, o.Key(), o.Pos, o.Msg)
			violLines = append(violLines, fmt.Sprintf("VIOLATION property=%s replay=%s", r.Prop, path))
		}
	}
	for _, l := range violLines {
		fmt.Println(l)
	}
	// evidence
	type ruleStat struct {
		Statement string `json:"statement"`
		Instances int    `json:"instances"`
		Floor     int    `json:"floor"`
		Held      int    `json:"held"`
		Refuted   int    `json:"refuted"`
		Unproven  int    `json:"unproven"`
	}
	stats := map[string]*ruleStat{}
	for _, name := range rules {
		stats[name] = &ruleStat{Statement: r.Rules[name], Floor: r.Floors[name]}
	}
	for _, o := range r.Obs {
		s := stats[o.Rule]
		if s == nil {
			s = &ruleStat{}
			stats[o.Rule] = s
		}
		s.Instances++
		switch o.Verdict {
		case Held:
			s.Held++
		case Refuted:
			s.Refuted++
		case Unproven:
			s.Unproven++
		}
	}
	// samples: first obligation of each rule, plus every non-held one
	var samples []interface{}
	sampled := map[string]bool{}
	for _, o := range r.Obs {
		if !sampled[o.Rule] || o.Verdict != Held {
			sampled[o.Rule] = true
			samples = append(samples, o)
		}
	}
	distinct := map[string]bool{}
	for _, o := range r.Obs {
		distinct[o.Key()] = true
	}
	cov := map[string]interface{}{
		"explanation":         explanation,
		"evaluations":         len(r.Obs),
		"distinct_nontrivial": len(distinct),
		"rule":                "one evaluation = one obligation (a rule applied to one construct: function, call site, field access, loop or path); distinct = distinct obligation keys rule/construct/instance; every obligation is non-trivial in that its rule matched a real construct of /repo (rules with fewer matches than their hand-confirmed floor fail the check)",
		"obligations":         len(r.Obs),
		"discharged":          nHeld,
		"known_findings":      nKnown,
		"rules":               stats,
		"analysed":            r.Analysed,
		"fixtures":            r.Fixtures,
		"samples":             samples,
		"all_obligation_keys": keysOf(r.Obs),
		"notes":               r.Notes,
		"checker_cmd":         fmt.Sprintf("bin/typcheck -prop %s -tier %s", r.Prop, r.Tier),
		"trusted_base":        trusted,
		"exhaustive":          true,
	}
	for k, v := range r.Extra {
		cov[k] = v
	}
	ev := map[string]interface{}{
		"property_id": r.Prop,
		"tier":        r.Tier,
		"seed":        seed,
		"level":       level,
		"coverage":    cov,
		"assumptions": assumptions,
		"wall_s":      time.Since(start).Seconds(),
		"violations":  nViol,
	}
	os.MkdirAll(filepath.Join(verifDir, "evidence"), 0o755)
	b, _ := json.MarshalIndent(ev, "", " ")
	if err := os.WriteFile(filepath.Join(verifDir, "evidence", r.Prop+".json"), b, 0o644); err != nil {
		fmt.Println("cannot write evidence:", err)
		return 2
	}
	fmt.Printf("%s %s: %d obligations, %d held, %d known findings, %d violations (%.2fs)\n", r.Prop, r.Tier, len(r.Obs), nHeld, nKnown, nViol, time.Since(start).Seconds())
	if nViol > 0 {
		return 1
	}
	return 0
}

func keysOf(obs []*Obligation) []string {
	var ks []string
	for _, o := range obs {
		ks = append(ks, fmt.Sprintf("%s = %s", o.Key(), o.Verdict))
	}
	return ks
}
