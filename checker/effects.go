package main

import (
	"go/token"
	"go/types"
	"strings"

	"golang.org/x/tools/go/ssa"
)

// Analysis bundles a loaded program with memoised per-function results.
type Analysis struct {
	P        *Program
	paths    map[*ssa.Function]*FuncPaths
	effects  map[*ssa.Function]*effectSet
	escMemo  map[*ssa.Alloc]bool
	inprog   map[*ssa.Function]bool
	Mode     int             // inlining view: 0 none, 1 helpers not in the baseline, 2 every same-package function
	Baseline map[string]bool // function names the rules were written against
	// NormPanics: path summaries leave out explicit panics that only spell out a runtime panic the continuation would
	// raise anyway under the same condition (normalisePanicGuards); used as a further view, like the inlining modes
	NormPanics bool
	recMemo    map[*ssa.Function]bool
	// DistinctParams: while summarising this function, stores through one pointer parameter do not invalidate what
	// is known about the same field of another pointer parameter (set only after every call site has been shown to
	// pass distinct objects)
	DistinctParams map[*ssa.Function]bool
}

// isRecursive: f can reach itself through static calls.
func (an *Analysis) isRecursive(f *ssa.Function) bool {
	if an.recMemo == nil {
		an.recMemo = map[*ssa.Function]bool{}
	}
	if v, ok := an.recMemo[f]; ok {
		return v
	}
	seen := map[*ssa.Function]bool{}
	var reach func(g *ssa.Function) bool
	reach = func(g *ssa.Function) bool {
		for _, b := range g.Blocks {
			for _, in := range b.Instrs {
				if c, ok := in.(ssa.CallInstruction); ok {
					if sc := c.Common().StaticCallee(); sc != nil {
						if sc.Origin() != nil {
							sc = sc.Origin()
						}
						if sc == f {
							return true
						}
						if !seen[sc] && len(sc.Blocks) > 0 {
							seen[sc] = true
							if reach(sc) {
								return true
							}
						}
					}
				}
			}
		}
		return false
	}
	r := reach(f)
	an.recMemo[f] = r
	return r
}

// isRecursiveAmongNew: f can reach itself through static calls of functions that are not in the baseline - the only
// calls that inlining view 1 expands. A new helper that recurses only through a baseline function (the baseline
// function calls the helper, the helper calls it back) is expanded once and the call back stays a call.
func (an *Analysis) isRecursiveAmongNew(f *ssa.Function) bool {
	seen := map[*ssa.Function]bool{}
	var reach func(g *ssa.Function) bool
	reach = func(g *ssa.Function) bool {
		for _, b := range g.Blocks {
			for _, in := range b.Instrs {
				if c, ok := in.(ssa.CallInstruction); ok {
					if sc := c.Common().StaticCallee(); sc != nil {
						if sc.Origin() != nil {
							sc = sc.Origin()
						}
						if sc == f {
							return true
						}
						if fi := an.P.BySSA[sc]; fi != nil && an.Baseline[fi.Name] {
							continue
						}
						if !seen[sc] && len(sc.Blocks) > 0 {
							seen[sc] = true
							if reach(sc) {
								return true
							}
						}
					}
				}
			}
		}
		return false
	}
	return reach(f)
}

func NewAnalysis(P *Program) *Analysis {
	return &Analysis{P: P, paths: map[*ssa.Function]*FuncPaths{}, effects: map[*ssa.Function]*effectSet{},
		escMemo: map[*ssa.Alloc]bool{}, inprog: map[*ssa.Function]bool{}, Baseline: baselineFuncs()}
}

// effectSet: which abstract location classes a piece of code may write (E5b).
type effectSet struct {
	all        bool            // may write anything (unknown callee)
	cls        map[string]bool // classes (f:field, e:elem, d:type, m:map, g:global)
	locals     map[string]bool // sites of the function's own local allocs written
	writesArgs bool            // may write through pointer arguments
	sync       bool            // contains a synchronisation / blocking operation
	nonFresh   map[string]bool // classes written other than through a direct field of an object allocated right here
}

func newEffectSet() *effectSet {
	return &effectSet{cls: map[string]bool{}, locals: map[string]bool{}, nonFresh: map[string]bool{}}
}

func (e *effectSet) union(o *effectSet) {
	if o.all {
		e.all = true
	}
	for c := range o.cls {
		e.nonFresh[c] = true
		e.cls[c] = true
	}
	if o.writesArgs {
		e.writesArgs = true
	}
	if o.sync {
		e.sync = true
	}
}

// addrClassStatic: class of an SSA address value without path information.
func (an *Analysis) addrClassStatic(v ssa.Value) (cls string, local string) {
	switch x := v.(type) {
	case *ssa.FieldAddr:
		// a field of a non-escaping local stays local
		root := ssa.Value(x)
		for {
			fa, ok := root.(*ssa.FieldAddr)
			if !ok {
				break
			}
			root = fa.X
		}
		if a, ok := root.(*ssa.Alloc); ok && !an.escapes(a) {
			return "", siteKey(a)
		}
		f := fieldVar(x.X.Type(), x.Field)
		if f == nil {
			return clsAll, ""
		}
		return "f:" + objKey(f), ""
	case *ssa.IndexAddr:
		// an element of an array this call allocated itself (the compiler's variadic argument arrays, a local
		// buffer): fresh storage, whoever it is handed to afterwards - not a write to anything that existed before
		if a, ok := x.X.(*ssa.Alloc); ok {
			return "", siteKey(a)
		}
		if p, ok := x.Type().Underlying().(*types.Pointer); ok {
			return elemClass(p.Elem()), ""
		}
		return "e:?", ""
	case *ssa.Alloc:
		if !an.escapes(x) {
			return "", siteKey(x)
		}
		return "a:" + siteKey(x), ""
	case *ssa.Global:
		return "g:" + objKey(x.Object()), ""
	case *ssa.FreeVar:
		return "fvw", ""
	}
	if p, ok := v.Type().Underlying().(*types.Pointer); ok {
		return "d:" + typeStr(p.Elem()), ""
	}
	return "d:?", ""
}

func (an *Analysis) instrEffects(in ssa.Instruction, es *effectSet) {
	switch x := in.(type) {
	case *ssa.Store:
		c, l := an.addrClassStatic(x.Addr)
		if l != "" {
			es.locals[l] = true
		} else if c == clsAll {
			es.all = true
		} else {
			es.cls[c] = true
			fresh := false
			if fa, ok := x.Addr.(*ssa.FieldAddr); ok {
				if _, isAlloc := fa.X.(*ssa.Alloc); isAlloc {
					fresh = true
				}
			}
			if !fresh {
				es.nonFresh[c] = true
			}
			if strings.HasPrefix(c, "d:") || strings.HasPrefix(c, "e:") {
				es.writesArgs = true
			}
		}
	case *ssa.MapUpdate:
		es.cls["m:"+typeStr(x.Map.Type())] = true
	case *ssa.Send, *ssa.Select:
		es.sync = true
		es.all = true
	case *ssa.UnOp:
		if x.Op == token.ARROW {
			es.sync = true
			es.all = true
		}
	case *ssa.Call:
		es.union(an.commonEffects(&x.Call))
	case *ssa.Defer:
		es.union(an.commonEffects(&x.Call))
	case *ssa.Go:
		// the goroutine runs concurrently: anything it writes may change at any time
		es.union(an.commonEffects(&x.Call))
	}
}

// FuncEffects: bottom-up effect summary of a function (with its closures' bodies only when called).
func (an *Analysis) FuncEffects(fn *ssa.Function) *effectSet {
	if fn == nil {
		e := newEffectSet()
		e.all = true
		return e
	}
	if fn.Origin() != nil {
		fn = fn.Origin()
	}
	if es, ok := an.effects[fn]; ok {
		return es
	}
	if an.inprog[fn] {
		return newEffectSet() // recursion: fixed point reached by the outer call's union
	}
	if len(fn.Blocks) == 0 {
		e := newEffectSet()
		e.all = true
		return e
	}
	an.inprog[fn] = true
	es := newEffectSet()
	for _, b := range fn.Blocks {
		for _, in := range b.Instrs {
			an.instrEffects(in, es)
		}
	}
	delete(an.inprog, fn)
	// recursion: one more pass is enough because effects are a union over the same body
	an.effects[fn] = es
	return es
}

func (an *Analysis) commonEffects(c *ssa.CallCommon) *effectSet {
	if c.IsInvoke() {
		return an.invokeEffects(c.Method)
	}
	switch f := c.Value.(type) {
	case *ssa.Builtin:
		return builtinEffects(f.Name(), c)
	case *ssa.Function:
		return an.staticEffects(f)
	case *ssa.MakeClosure:
		return an.FuncEffects(f.Fn.(*ssa.Function))
	}
	e := newEffectSet()
	e.all = true
	return e
}

func builtinEffects(name string, c *ssa.CallCommon) *effectSet {
	e := newEffectSet()
	switch name {
	case "copy":
		if len(c.Args) > 0 && freshSliceValue(c.Args[0], map[ssa.Value]bool{}) {
			return e // the destination is storage this call created itself
		}
		if len(c.Args) > 0 {
			if s, ok := c.Args[0].Type().Underlying().(*types.Slice); ok {
				e.cls[elemClass(s.Elem())] = true
			} else {
				e.cls["e:?"] = true
			}
		}
		e.writesArgs = true
	case "append":
		// may write the spare capacity of its first argument - unless that slice is this function's own (nil, a make, or
		// what earlier appends to such a slice returned): then the write lands in storage created by this call
		if len(c.Args) > 0 && freshSliceValue(c.Args[0], map[ssa.Value]bool{}) {
			return e
		}
		if len(c.Args) > 0 {
			if s, ok := c.Args[0].Type().Underlying().(*types.Slice); ok {
				e.cls[elemClass(s.Elem())] = true
			}
		}
	case "delete":
		if len(c.Args) > 0 {
			e.cls["m:"+typeStr(c.Args[0].Type())] = true
		}
	case "clear":
		e.all = true
	case "close":
		e.sync = true
	}
	return e
}

// invokeEffects: interface method call, resolved by CHA over the tree's types.
func (an *Analysis) invokeEffects(m *types.Func) *effectSet {
	e := newEffectSet()
	iface := recvInterface(m)
	found := false
	if iface != nil {
		for _, fi := range an.P.Funcs {
			if fi.Obj.Name() != m.Name() {
				continue
			}
			sig := fi.Obj.Type().(*types.Signature)
			if sig.Recv() == nil {
				continue
			}
			// generic: compare by method-set membership of the origin type
			rt := sig.Recv().Type()
			if implementsByName(rt, iface) {
				found = true
				e.union(an.FuncEffects(fi.SSA))
			}
		}
	}
	if !found {
		// interface from outside the tree (context.Context, fmt.Stringer, error, sort.Interface ...)
		switch m.FullName() {
		case "(context.Context).Done", "(context.Context).Err", "(error).Error":
			return e
		}
		e.all = true
	}
	return e
}

func recvInterface(m *types.Func) *types.Interface {
	sig, _ := m.Type().(*types.Signature)
	if sig == nil || sig.Recv() == nil {
		return nil
	}
	i, _ := sig.Recv().Type().Underlying().(*types.Interface)
	return i
}

// implementsByName: every method name of the interface exists on the type (generic-safe approximation, over-approximates).
func implementsByName(rt types.Type, iface *types.Interface) bool {
	ms := types.NewMethodSet(rt)
	if p, ok := rt.(*types.Pointer); !ok {
		ms = types.NewMethodSet(types.NewPointer(rt))
	} else {
		_ = p
	}
	for i := 0; i < iface.NumMethods(); i++ {
		if ms.Lookup(iface.Method(i).Pkg(), iface.Method(i).Name()) == nil {
			return false
		}
	}
	return iface.NumMethods() > 0
}

// staticEffects: effects of a statically known callee (tree function, or stdlib by table).
func (an *Analysis) staticEffects(f *ssa.Function) *effectSet {
	if f.Origin() != nil {
		f = f.Origin()
	}
	if _, ok := an.P.BySSA[f]; ok || f.Parent() != nil {
		if len(f.Blocks) > 0 {
			return an.FuncEffects(f)
		}
	}
	// bound method wrappers / thunks of tree functions
	if f.Synthetic != "" && len(f.Blocks) > 0 && f.Pkg == nil {
		return an.FuncEffects(f)
	}
	return stdlibEffects(f)
}

// stdlibEffects: hand-written one-line summaries for the standard library functions the tree calls.
func stdlibEffects(f *ssa.Function) *effectSet {
	e := newEffectSet()
	name := f.String() // e.g. (*sync.Mutex).Lock, sync/atomic.LoadPointer, fmt.Sprint
	pkg := ""
	if f.Pkg != nil {
		pkg = f.Pkg.Pkg.Path()
	} else if o := f.Object(); o != nil && o.Pkg() != nil {
		pkg = o.Pkg().Path()
	}
	switch pkg {
	case "sync":
		// Mutex/RWMutex/Once/WaitGroup/Pool: write only their receiver; lock operations are synchronisation points
		switch {
		case strings.HasSuffix(name, ".Lock"), strings.HasSuffix(name, ".RLock"), strings.HasSuffix(name, ".Wait"),
			strings.HasSuffix(name, ".TryLock"), strings.HasSuffix(name, ".TryRLock"):
			e.sync = true
			e.all = true // acquire: other goroutines' writes become visible
		case strings.HasSuffix(name, ".Do"):
			e.sync = true
			e.all = true // runs the closure
		case strings.Contains(name, "Pool).Get"):
			e.all = true // may call New
		}
		e.writesArgs = true
		return e
	case "sync/atomic":
		// the addressed word only; modelled through the address class by the caller
		e.writesArgs = true
		e.cls["atomic"] = true
		return e
	case "fmt", "strings", "errors", "strconv", "unicode/utf8", "math", "math/bits":
		if strings.Contains(name, "Fprint") || strings.Contains(name, "Builder") {
			e.writesArgs = true
		}
		return e
	case "time":
		return e
	case "context":
		return e
	case "sort":
		// calls back into Less/Swap/closures: anything those write
		e.all = true
		return e
	case "math/rand":
		e.all = true
		return e
	case "reflect":
		return e
	}
	e.all = true
	return e
}

// callEffects for an event on a path (uses resolved closures).
func (an *Analysis) callEffects(ev *Event) *effectSet {
	switch in := ev.Instr.(type) {
	case *ssa.Call:
		es := an.commonEffects(&in.Call)
		return an.refineAtomic(ev, es)
	case *ssa.Defer:
		es := an.commonEffects(&in.Call)
		return an.refineAtomic(ev, es)
	}
	e := newEffectSet()
	e.all = true
	return e
}

// refineAtomic: sync/atomic functions write exactly the location whose address they are given.
func (an *Analysis) refineAtomic(ev *Event, es *effectSet) *effectSet {
	if !es.cls["atomic"] {
		if ev.SSAFn != nil && ev.Name == "dyn" {
			return es
		}
		return es
	}
	n := newEffectSet()
	n.union(es)
	delete(n.cls, "atomic")
	if len(ev.Args) > 0 && ev.Args[0] != nil {
		writes := !strings.Contains(ev.Name, ".Load")
		if writes {
			n.cls[classOf(ev.Args[0])] = true
		}
	}
	return n
}

// escapes: can anything but this function's own loads/stores reach the cell?
func (an *Analysis) escapes(a *ssa.Alloc) bool {
	if v, ok := an.escMemo[a]; ok {
		return v
	}
	an.escMemo[a] = true // cycle guard
	esc := false
	var visit func(v ssa.Value)
	seen := map[ssa.Value]bool{}
	visit = func(v ssa.Value) {
		if seen[v] || esc {
			return
		}
		seen[v] = true
		refs := v.Referrers()
		if refs == nil {
			esc = true
			return
		}
		for _, r := range *refs {
			switch x := r.(type) {
			case *ssa.Store:
				if x.Val == v {
					esc = true
				}
			case *ssa.UnOp:
				// load
			case *ssa.FieldAddr:
				visit(x)
			case *ssa.IndexAddr:
				visit(x)
			case *ssa.DebugRef:
			case *ssa.MakeClosure:
				// captured: escapes only if the closure (or a nested one) stores to it or lets it escape
				fn := x.Fn.(*ssa.Function)
				for i, bv := range x.Bindings {
					if bv == v {
						if an.freeVarWritten(fn, i) {
							esc = true
						}
					}
				}
			default:
				esc = true
			}
		}
	}
	visit(a)
	an.escMemo[a] = esc
	return esc
}

// freeVarWritten: does the closure store to (or leak) its i-th free variable?
func (an *Analysis) freeVarWritten(fn *ssa.Function, i int) bool {
	if i >= len(fn.FreeVars) {
		return true
	}
	fv := fn.FreeVars[i]
	refs := fv.Referrers()
	if refs == nil {
		return false
	}
	var check func(v ssa.Value) bool
	seen := map[ssa.Value]bool{}
	check = func(v ssa.Value) bool {
		if seen[v] {
			return false
		}
		seen[v] = true
		rs := v.Referrers()
		if rs == nil {
			return true
		}
		for _, r := range *rs {
			switch x := r.(type) {
			case *ssa.Store:
				return true
			case *ssa.UnOp, *ssa.DebugRef:
			case *ssa.FieldAddr:
				if check(x) {
					return true
				}
			case *ssa.IndexAddr:
				if check(x) {
					return true
				}
			case *ssa.MakeClosure:
				inner := x.Fn.(*ssa.Function)
				for j, bv := range x.Bindings {
					if bv == v && an.freeVarWritten(inner, j) {
						return true
					}
				}
			default:
				return true
			}
		}
		return false
	}
	return check(fv)
}

// freshSliceValue: v is a slice whose backing storage, if any, was created by the enclosing function itself: nil,
// make(...), a (re-)slice or an append result of such a value, or a phi of such values.
func freshSliceValue(v ssa.Value, seen map[ssa.Value]bool) bool {
	if seen[v] {
		return true // a cycle through a loop phi adds nothing new
	}
	seen[v] = true
	switch x := v.(type) {
	case *ssa.Const:
		return x.IsNil()
	case *ssa.MakeSlice:
		return true
	case *ssa.Slice:
		return freshSliceValue(x.X, seen)
	case *ssa.ChangeType:
		return freshSliceValue(x.X, seen)
	case *ssa.Phi:
		for _, e := range x.Edges {
			if !freshSliceValue(e, seen) {
				return false
			}
		}
		return true
	case *ssa.Call:
		if b, ok := x.Call.Value.(*ssa.Builtin); ok && b.Name() == "append" && len(x.Call.Args) > 0 {
			return freshSliceValue(x.Call.Args[0], seen)
		}
	}
	return false
}
