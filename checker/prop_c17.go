package main

import (
	"fmt"
	"go/types"
	"strings"

	"golang.org/x/tools/go/ssa"
)

func init() {
	register(&propSpec{
		id:    "C17",
		level: "other",
		run:   runC17,
		explanation: "Once1/2/3 wrap sync.Once; with sync.Once's contract (the function passed to Do runs exactly once, and every Do returns after that run has completed, with its effects visible) the property reduces to the shape of the wrapper, decided on all paths of each Do and its closure: " +
			"(same-once) Do makes exactly one call of (*sync.Once).Do, on the sync.Once FIELD OF THE RECEIVER; (single-invocation) the user function is called exactly once, inside the closure handed to that once.Do, nowhere else, and nothing else is branched on (no hand-rolled flag); " +
			"(writes-inside-once) every result field is stored inside that closure with the matching result of that call - and nowhere else in the package; (reads-after-once) Do returns loads of the result fields, in order, executed after once.Do has returned (not values captured from the call, which later callers would not have).",
		assumptions: []string{"contract of sync.Once.Do (exactly-once execution, completion happens-before every return of Do)"},
	})
}

func runC17(c *Ctx) {
	R := c.R
	R.Rule("same-once", "Do calls (*sync.Once).Do exactly once, on the receiver's own sync.Once field", 3)
	R.Rule("single-invocation", "the user function is called exactly once, inside the closure passed to once.Do, and nowhere else; nothing but the Once decides", 3)
	R.Rule("writes-inside-once", "each result field is stored inside that closure with the matching result of the call, and nowhere else in the package", 4)
	R.Rule("reads-after-once", "Do returns the result fields (in order), loaded after once.Do returned", 3)

	for n := 1; n <= 3; n++ {
		tname := fmt.Sprintf("Once%d", n)
		fname := "sync2.(*" + tname + ").Do"
		named := c.P.NamedType("sync2", tname)
		fi := c.fn("same-once", fname)
		if fi == nil || named == nil {
			continue
		}
		st := named.Underlying().(*types.Struct)
		var onceField *types.Var
		var resFields []*types.Var
		for i := 0; i < st.NumFields(); i++ {
			f := st.Field(i)
			if typeStr(f.Type()) == "sync.Once" {
				onceField = f
			} else {
				resFields = append(resFields, f)
			}
		}
		ps := c.paths("same-once", fi)
		if ps == nil {
			continue
		}
		recv := paramOf(fi, 0)
		userFn := paramOf(fi, 1)
		// same-once
		if onceField == nil {
			R.Refuted("same-once", fname, "once-field", c.pos(fi), tname+" has no sync.Once field")
			continue
		}
		okOnce := true
		why := ""
		var onceCall *Event
		var mk *Event
		// A published-flag fast path in front of the Once (double-checked): a field of the receiver that Do reads
		// with an atomic load and compares with a non-zero constant. The paths that found the flag set are judged by
		// rule published-flag below; the others are the Once's business as before.
		var flagField *types.Var
		var flagConst string
		isFlagLoad := func(t *Term) *types.Var {
			if t == nil || t.Op != "call" || !strings.Contains(t.Sym, "atomic.Load") || len(t.Args) != 1 {
				return nil
			}
			if flagField != nil {
				if isFieldAddr(t.Args[0], flagField, recv) {
					return flagField
				}
				return nil
			}
			for _, f := range resFields {
				if isFieldAddr(t.Args[0], f, recv) {
					return f
				}
			}
			return nil
		}
		for _, p := range ps {
			for _, cd := range p.Conds {
				r := cd.Rel()
				if r.B == nil {
					continue
				}
				for _, side := range [][2]*Term{{r.A, r.B}, {r.B, r.A}} {
					if f := isFlagLoad(side[0]); f != nil && side[1].Op == "const" && !side[1].IsConst("0") {
						flagField, flagConst = f, side[1].Sym
					}
				}
			}
		}
		var fastPaths []*Path
		if flagField != nil {
			var rf []*types.Var
			for _, f := range resFields {
				if !sameField(f, flagField) {
					rf = append(rf, f)
				}
			}
			resFields = rf
			var rest []*Path
			for _, p := range ps {
				set := false
				for _, cd := range p.Conds {
					r := cd.Rel()
					if r.B == nil || r.Op != "==" {
						continue
					}
					for _, side := range [][2]*Term{{r.A, r.B}, {r.B, r.A}} {
						if f := isFlagLoad(side[0]); f != nil && sameField(f, flagField) && side[1].IsConst(flagConst) {
							set = true
						}
					}
				}
				if set && len(callsNamed(p, "sync.(*Once).Do")) == 0 {
					fastPaths = append(fastPaths, p)
				} else {
					rest = append(rest, p)
				}
			}
			ps = rest
		}
		for _, p := range ps {
			calls := callsNamed(p, "sync.(*Once).Do")
			if len(calls) != 1 {
				okOnce, why = false, fmt.Sprintf("a path makes %d calls of sync.Once.Do", len(calls))
				break
			}
			if !isFieldAddr(calls[0].Args[0], onceField, recv) {
				okOnce, why = false, "once.Do is not called on the receiver's own Once field: "+calls[0].Args[0].String()
				break
			}
			onceCall = calls[0]
			for i := range p.Events {
				if p.Events[i].Kind == "mkclosure" && p.Events[i].Val.Key() == onceCall.Args[1].Key() {
					mk = &p.Events[i]
				}
			}
		}
		if okOnce && len(ps) != 1 {
			okOnce, why = false, fmt.Sprintf("Do has %d paths: something besides the Once decides what happens", len(ps))
		}
		R.Decide(okOnce, "same-once", fname, "call", c.pos(fi), "one once.Do on the receiver's Once field, unconditionally", why)
		if !okOnce || mk == nil {
			if okOnce {
				R.Unproven("single-invocation", fname, "closure", c.pos(fi), "the function passed to once.Do is not a local closure")
			}
			continue
		}
		p := ps[0]
		// single-invocation: parent never calls f; closure calls it exactly once on its only path
		parentCalls := 0
		for i := range p.Events {
			e := &p.Events[i]
			if (e.Kind == "call" || e.Kind == "go" || e.Kind == "defer") && e.Callee != nil && e.Callee.ContainsKey(userFn.Key()) && e.Name == "dyn" {
				parentCalls++
			}
		}
		cp := c.An.ClosurePaths(mk)
		if cp.Unproven != "" || len(cp.Paths) == 0 {
			R.Unproven("single-invocation", fname, "closure", c.pos(fi), "cannot summarise the closure: "+cp.Unproven)
			continue
		}
		okSingle := parentCalls == 0 && len(cp.Paths) == 1
		whyS := ""
		if parentCalls > 0 {
			whyS = "the user function is also called outside once.Do"
		} else if len(cp.Paths) != 1 {
			whyS = "the closure branches"
		}
		var fcall *Event
		if okSingle {
			q := cp.Paths[0]
			n := 0
			for i := range q.Events {
				e := &q.Events[i]
				if e.Kind == "call" && e.Name == "dyn" && e.Callee.Key() == userFn.Key() {
					n++
					fcall = e
				} else if e.Kind == "call" && flagField != nil && strings.Contains(e.Name, "atomic.Store") && len(e.Args) == 2 && isFieldAddr(e.Args[0], flagField, recv) {
					// the publication of the flag: judged by published-flag
				} else if e.Kind == "call" || e.Kind == "go" || e.Kind == "defer" {
					okSingle, whyS = false, "the closure does something besides calling the user function: "+e.String()
				}
			}
			if n != 1 {
				okSingle, whyS = false, fmt.Sprintf("the closure calls the user function %d times", n)
			}
		}
		R.Decide(okSingle, "single-invocation", fname, "closure", c.pos(fi), "f is called exactly once, inside the once.Do closure", whyS)
		// writes-inside-once
		okW := okSingle
		whyW := "see single-invocation"
		if okSingle {
			q := cp.Paths[0]
			stored := map[int]bool{}
			for i := range q.Events {
				e := &q.Events[i]
				if e.Kind != "store" || rootOf(e.Addr).Op == "alloc" {
					continue // not a store, or a spill into a local of the closure
				}
				matched := false
				for k, rf := range resFields {
					if isFieldAddr(e.Addr, rf, recv) {
						matched = true
						want := fcall.Res
						good := false
						if len(resFields) == 1 {
							good = e.Val.Key() == want.Key()
						} else {
							good = e.Val.Op == "extract" && e.Val.N == k && e.Val.Args[0].Key() == want.Key()
						}
						if good {
							stored[k] = true
						} else {
							okW, whyW = false, fmt.Sprintf("field %s receives %s, not result %d of the call", rf.Name(), e.Val, k+1)
						}
					}
				}
				if !matched {
					okW, whyW = false, "the closure stores somewhere else: "+e.String()
				}
			}
			for k, rf := range resFields {
				if !stored[k] && okW {
					okW, whyW = false, "result field "+rf.Name()+" is never stored: later callers get its zero value"
				}
			}
			// parent: no stores to receiver memory
			for i := range p.Events {
				e := &p.Events[i]
				if e.Kind == "store" && rootOf(e.Addr).Key() == recv.Key() {
					okW, whyW = false, "Do stores to the receiver outside once.Do: "+e.String()
				}
			}
		}
		R.Decide(okW, "writes-inside-once", fname, "stores", c.pos(fi), fmt.Sprintf("all %d result fields stored inside the closure from the call's results", len(resFields)), whyW)
		// reads-after-once
		okR := p.End == EndReturn && len(p.Rets) == len(resFields)
		whyR := "Do does not return one value per result field"
		if okR {
			for k, rf := range resFields {
				r := p.Rets[k]
				if !isFieldLoad(r, rf, recv) {
					okR, whyR = false, fmt.Sprintf("result %d is %s, not the field %s", k+1, r, rf.Name())
					break
				}
				ld, _ := r.Val.(ssa.Instruction)
				// after, in the order of the path (the read may sit in a helper that is walked through)
				after := false
				if ld != nil {
					onceIdx := -1
					for i := range p.Events {
						if &p.Events[i] == onceCall || p.Events[i].Instr == onceCall.Instr {
							onceIdx = i
						}
					}
					for _, a := range p.Acc {
						if a.Instr == ld && onceIdx >= 0 && a.NEv > onceIdx {
							after = true
						}
					}
					if instrAfter(onceCall.Instr, ld) {
						after = true
					}
				}
				if r.Op != "load" || ld == nil || !after {
					okR, whyR = false, fmt.Sprintf("field %s is read before once.Do has returned", rf.Name())
					break
				}
			}
		}
		R.Decide(okR, "reads-after-once", fname, "returns", c.pos(fi), "returns the fields, loaded after once.Do", whyR)
		if flagField != nil {
			if _, have := R.Rules["published-flag"]; !have {
				R.Rule("published-flag", "a fast path in front of the Once: the flag is set (atomically, to the constant the fast path tests for) only as the last act of the once.Do closure, after every result field has been stored, and nowhere else; the fast path does nothing but load the flag atomically and then the result fields", 1)
			}
			okF, whyF := true, ""
			// (a) the closure publishes last
			if okSingle {
				q := cp.Paths[0]
				pub, lastStore := -1, -1
				for i := range q.Events {
					e := &q.Events[i]
					if e.Kind == "call" && strings.Contains(e.Name, "atomic.Store") && len(e.Args) == 2 && isFieldAddr(e.Args[0], flagField, recv) {
						if pub >= 0 || !e.Args[1].IsConst(flagConst) {
							okF, whyF = false, "the flag is stored twice, or with a value the fast path does not test for"
						}
						pub = i
					}
					if e.Kind == "store" && rootOf(e.Addr).Op != "alloc" {
						lastStore = i
					}
					if e.Kind == "call" && e.Name == "dyn" {
						lastStore = i
					}
				}
				if pub < 0 {
					okF, whyF = false, "the closure never sets the flag the fast path waits for (harmless, but then the fast path is dead code the rules cannot vouch for)"
				} else if pub < lastStore {
					okF, whyF = false, "the flag is set before the last result field is stored: a caller on the fast path can return a zero value"
				}
			} else {
				okF, whyF = false, "see single-invocation"
			}
			// (b) the fast paths: one atomic load of the flag, nothing else, results loaded afterwards
			for _, fp := range fastPaths {
				loadIdx := -1
				for i := range fp.Events {
					e := &fp.Events[i]
					if e.Kind == "call" && isFlagLoad(e.Res) != nil && loadIdx < 0 {
						loadIdx = i
					} else if e.Kind == "store" && e.Addr.Op == "alloc" {
						// a parameter spilled for the closure
					} else {
						okF, whyF = false, "the fast path does something besides loading the flag: "+e.String()
					}
				}
				if fp.End != EndReturn || len(fp.Rets) != len(resFields) {
					okF, whyF = false, "the fast path does not return one value per result field"
					continue
				}
				for k, rf := range resFields {
					r := fp.Rets[k]
					ld, _ := r.Val.(ssa.Instruction)
					after := false
					for _, a := range fp.Acc {
						if ld != nil && a.Instr == ld && loadIdx >= 0 && a.NEv > loadIdx {
							after = true
						}
					}
					if !isFieldLoad(r, rf, recv) || !after {
						okF, whyF = false, fmt.Sprintf("on the fast path result %d is not the field %s loaded after the flag was seen set", k+1, rf.Name())
					}
				}
			}
			// (c) nobody else touches the flag
			for _, g := range c.P.FuncsOfPkg("sync2") {
				for _, fn := range append([]*ssa.Function{g.SSA}, g.Closures...) {
					if fn == fi.SSA || fn == mk.SSAFn {
						continue
					}
					for _, b := range fn.Blocks {
						for _, in := range b.Instrs {
							if fa, isFA := in.(*ssa.FieldAddr); isFA {
								if f := fieldVar(fa.X.Type(), fa.Field); f != nil && sameField(f, flagField) {
									okF, whyF = false, "the flag is also accessed in "+g.Name
								}
							}
						}
					}
				}
			}
			o := R.Decide(okF, "published-flag", fname, "protocol", c.pos(fi), "flag set last inside the Once closure and nowhere else; fast path = atomic load of the flag, then the fields", whyF)
			if !okF {
				o.Breaks = "a caller takes the fast path before the results are there and returns zero values, or f runs more than once"
			}
		}
	}
	// package-wide: nobody else writes result fields of the Once types
	extra := []string{}
	for _, fi := range c.P.FuncsOfPkg("sync2") {
		if strings.Contains(fi.Name, "Once") && strings.HasSuffix(fi.Name, ").Do") {
			continue
		}
		for _, fn := range append([]*ssa.Function{fi.SSA}, fi.Closures...) {
			for _, b := range fn.Blocks {
				for _, in := range b.Instrs {
					st, ok := in.(*ssa.Store)
					if !ok {
						continue
					}
					if fa, ok := st.Addr.(*ssa.FieldAddr); ok {
						f := fieldVar(fa.X.Type(), fa.Field)
						if f != nil && f.Pkg() != nil && strings.HasSuffix(f.Pkg().Path(), "/sync2") {
							for n := 1; n <= 3; n++ {
								if named := c.P.NamedType("sync2", fmt.Sprintf("Once%d", n)); named != nil {
									stt := named.Underlying().(*types.Struct)
									for i := 0; i < stt.NumFields(); i++ {
										if stt.Field(i).Origin() == f.Origin() {
											extra = append(extra, fi.Name+" stores "+f.Name())
										}
									}
								}
							}
						}
					}
				}
			}
		}
	}
	if len(extra) > 0 {
		R.Refuted("writes-inside-once", "sync2", "other-writers", "", "result fields are written outside Do: "+strings.Join(extra, "; "))
	} else {
		R.Held("writes-inside-once", "sync2", "other-writers", "", "no function besides the Do closures writes the result fields")
	}
}
