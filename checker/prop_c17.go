package main

import (
	"fmt"
	"go/types"
	"strings"

	"golang.org/x/tools/go/ssa"
)

func init() {
	register(&propSpec{
		id:    "C17",
		level: "other",
		run:   runC17,
		explanation: "Once1/2/3 wrap sync.Once; with sync.Once's contract (the function passed to Do runs exactly once, and every Do returns after that run has completed, with its effects visible) the property reduces to the shape of the wrapper, decided on all paths of each Do and its closure: " +
			"(same-once) Do makes exactly one call of (*sync.Once).Do, on the sync.Once FIELD OF THE RECEIVER; (single-invocation) the user function is called exactly once, inside the closure handed to that once.Do, nowhere else, and nothing else is branched on (no hand-rolled flag); " +
			"(writes-inside-once) every result field is stored inside that closure with the matching result of that call - and nowhere else in the package; (reads-after-once) Do returns loads of the result fields, in order, executed after once.Do has returned (not values captured from the call, which later callers would not have).",
		assumptions: []string{"contract of sync.Once.Do (exactly-once execution, completion happens-before every return of Do)"},
	})
}

func runC17(c *Ctx) {
	R := c.R
	R.Rule("same-once", "Do calls (*sync.Once).Do exactly once, on the receiver's own sync.Once field", 3)
	R.Rule("single-invocation", "the user function is called exactly once, inside the closure passed to once.Do, and nowhere else; nothing but the Once decides", 3)
	R.Rule("writes-inside-once", "each result field is stored inside that closure with the matching result of the call, and nowhere else in the package", 4)
	R.Rule("reads-after-once", "Do returns the result fields (in order), loaded after once.Do returned", 3)

	for n := 1; n <= 3; n++ {
		tname := fmt.Sprintf("Once%d", n)
		fname := "sync2.(*" + tname + ").Do"
		named := c.P.NamedType("sync2", tname)
		fi := c.fn("same-once", fname)
		if fi == nil || named == nil {
			continue
		}
		st := named.Underlying().(*types.Struct)
		var onceField *types.Var
		var resFields []*types.Var
		for i := 0; i < st.NumFields(); i++ {
			f := st.Field(i)
			if typeStr(f.Type()) == "sync.Once" {
				onceField = f
			} else {
				resFields = append(resFields, f)
			}
		}
		ps := c.paths("same-once", fi)
		if ps == nil {
			continue
		}
		recv := paramOf(fi, 0)
		userFn := paramOf(fi, 1)
		// same-once
		if onceField == nil {
			R.Refuted("same-once", fname, "once-field", c.pos(fi), tname+" has no sync.Once field")
			continue
		}
		okOnce := true
		why := ""
		var onceCall *Event
		var mk *Event
		for _, p := range ps {
			calls := callsNamed(p, "sync.(*Once).Do")
			if len(calls) != 1 {
				okOnce, why = false, fmt.Sprintf("a path makes %d calls of sync.Once.Do", len(calls))
				break
			}
			if !isFieldAddr(calls[0].Args[0], onceField, recv) {
				okOnce, why = false, "once.Do is not called on the receiver's own Once field: "+calls[0].Args[0].String()
				break
			}
			onceCall = calls[0]
			for i := range p.Events {
				if p.Events[i].Kind == "mkclosure" && p.Events[i].Val.Key() == onceCall.Args[1].Key() {
					mk = &p.Events[i]
				}
			}
		}
		if okOnce && len(ps) != 1 {
			okOnce, why = false, fmt.Sprintf("Do has %d paths: something besides the Once decides what happens", len(ps))
		}
		R.Decide(okOnce, "same-once", fname, "call", c.pos(fi), "one once.Do on the receiver's Once field, unconditionally", why)
		if !okOnce || mk == nil {
			if okOnce {
				R.Unproven("single-invocation", fname, "closure", c.pos(fi), "the function passed to once.Do is not a local closure")
			}
			continue
		}
		p := ps[0]
		// single-invocation: parent never calls f; closure calls it exactly once on its only path
		parentCalls := 0
		for i := range p.Events {
			e := &p.Events[i]
			if (e.Kind == "call" || e.Kind == "go" || e.Kind == "defer") && e.Callee != nil && e.Callee.ContainsKey(userFn.Key()) && e.Name == "dyn" {
				parentCalls++
			}
		}
		cp := c.An.ClosurePaths(mk)
		if cp.Unproven != "" || len(cp.Paths) == 0 {
			R.Unproven("single-invocation", fname, "closure", c.pos(fi), "cannot summarise the closure: "+cp.Unproven)
			continue
		}
		okSingle := parentCalls == 0 && len(cp.Paths) == 1
		whyS := ""
		if parentCalls > 0 {
			whyS = "the user function is also called outside once.Do"
		} else if len(cp.Paths) != 1 {
			whyS = "the closure branches"
		}
		var fcall *Event
		if okSingle {
			q := cp.Paths[0]
			n := 0
			for i := range q.Events {
				e := &q.Events[i]
				if e.Kind == "call" && e.Name == "dyn" && e.Callee.Key() == userFn.Key() {
					n++
					fcall = e
				} else if e.Kind == "call" || e.Kind == "go" || e.Kind == "defer" {
					okSingle, whyS = false, "the closure does something besides calling the user function: "+e.String()
				}
			}
			if n != 1 {
				okSingle, whyS = false, fmt.Sprintf("the closure calls the user function %d times", n)
			}
		}
		R.Decide(okSingle, "single-invocation", fname, "closure", c.pos(fi), "f is called exactly once, inside the once.Do closure", whyS)
		// writes-inside-once
		okW := okSingle
		whyW := "see single-invocation"
		if okSingle {
			q := cp.Paths[0]
			stored := map[int]bool{}
			for i := range q.Events {
				e := &q.Events[i]
				if e.Kind != "store" || rootOf(e.Addr).Op == "alloc" {
					continue // not a store, or a spill into a local of the closure
				}
				matched := false
				for k, rf := range resFields {
					if isFieldAddr(e.Addr, rf, recv) {
						matched = true
						want := fcall.Res
						good := false
						if len(resFields) == 1 {
							good = e.Val.Key() == want.Key()
						} else {
							good = e.Val.Op == "extract" && e.Val.N == k && e.Val.Args[0].Key() == want.Key()
						}
						if good {
							stored[k] = true
						} else {
							okW, whyW = false, fmt.Sprintf("field %s receives %s, not result %d of the call", rf.Name(), e.Val, k+1)
						}
					}
				}
				if !matched {
					okW, whyW = false, "the closure stores somewhere else: "+e.String()
				}
			}
			for k, rf := range resFields {
				if !stored[k] && okW {
					okW, whyW = false, "result field "+rf.Name()+" is never stored: later callers get its zero value"
				}
			}
			// parent: no stores to receiver memory
			for i := range p.Events {
				e := &p.Events[i]
				if e.Kind == "store" && rootOf(e.Addr).Key() == recv.Key() {
					okW, whyW = false, "Do stores to the receiver outside once.Do: "+e.String()
				}
			}
		}
		R.Decide(okW, "writes-inside-once", fname, "stores", c.pos(fi), fmt.Sprintf("all %d result fields stored inside the closure from the call's results", len(resFields)), whyW)
		// reads-after-once
		okR := p.End == EndReturn && len(p.Rets) == len(resFields)
		whyR := "Do does not return one value per result field"
		if okR {
			for k, rf := range resFields {
				r := p.Rets[k]
				if !isFieldLoad(r, rf, recv) {
					okR, whyR = false, fmt.Sprintf("result %d is %s, not the field %s", k+1, r, rf.Name())
					break
				}
				ld, _ := r.Val.(ssa.Instruction)
				// after, in the order of the path (the read may sit in a helper that is walked through)
				after := false
				if ld != nil {
					onceIdx := -1
					for i := range p.Events {
						if &p.Events[i] == onceCall || p.Events[i].Instr == onceCall.Instr {
							onceIdx = i
						}
					}
					for _, a := range p.Acc {
						if a.Instr == ld && onceIdx >= 0 && a.NEv > onceIdx {
							after = true
						}
					}
					if instrAfter(onceCall.Instr, ld) {
						after = true
					}
				}
				if r.Op != "load" || ld == nil || !after {
					okR, whyR = false, fmt.Sprintf("field %s is read before once.Do has returned", rf.Name())
					break
				}
			}
		}
		R.Decide(okR, "reads-after-once", fname, "returns", c.pos(fi), "returns the fields, loaded after once.Do", whyR)
	}
	// package-wide: nobody else writes result fields of the Once types
	extra := []string{}
	for _, fi := range c.P.FuncsOfPkg("sync2") {
		if strings.Contains(fi.Name, "Once") && strings.HasSuffix(fi.Name, ").Do") {
			continue
		}
		for _, fn := range append([]*ssa.Function{fi.SSA}, fi.Closures...) {
			for _, b := range fn.Blocks {
				for _, in := range b.Instrs {
					st, ok := in.(*ssa.Store)
					if !ok {
						continue
					}
					if fa, ok := st.Addr.(*ssa.FieldAddr); ok {
						f := fieldVar(fa.X.Type(), fa.Field)
						if f != nil && f.Pkg() != nil && strings.HasSuffix(f.Pkg().Path(), "/sync2") {
							for n := 1; n <= 3; n++ {
								if named := c.P.NamedType("sync2", fmt.Sprintf("Once%d", n)); named != nil {
									stt := named.Underlying().(*types.Struct)
									for i := 0; i < stt.NumFields(); i++ {
										if stt.Field(i).Origin() == f.Origin() {
											extra = append(extra, fi.Name+" stores "+f.Name())
										}
									}
								}
							}
						}
					}
				}
			}
		}
	}
	if len(extra) > 0 {
		R.Refuted("writes-inside-once", "sync2", "other-writers", "", "result fields are written outside Do: "+strings.Join(extra, "; "))
	} else {
		R.Held("writes-inside-once", "sync2", "other-writers", "", "no function besides the Do closures writes the result fields")
	}
}
