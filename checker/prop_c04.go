package main

import (
	"fmt"
	"go/ast"
	"go/types"
	"os"
	"sort"
	"strings"

	"golang.org/x/tools/go/ssa"
)

func init() {
	register(&propSpec{
		id:    "C04",
		level: "other",
		run:   func(c *Ctx) { runMapProtocol(c, "") },
		explanation: "Linearizability over all schedules is not something a static argument in reach proves. Decided instead, on ALL paths of ALL functions of sync2/map.go (go/ssa path summaries with per-path lock state): the locking, atomic-access and re-check-under-lock protocol that the read/dirty algorithm depends on. Every rule is a necessary condition - its violation yields a data race or a lost/resurrected key under some schedule: " +
			"guarded-by (every access to dirty/misses and every read.Store holds mu, directly or through callers that all hold it), lock-pairing, atomic-only (entry.p touched only through sync/atomic), recheck-under-lock (after Lock, nothing is decided from a snapshot of the read map loaded before the Lock), promote-only-amended (dirty is promoted only after a fresh amended/dirty-hit test), " +
			"cas-protocol (every CAS/store on entry.p is one of the four safe forms; expunged is written only by CAS from nil under the lock; plain stores only under the lock on an entry that cannot be expunged), unexpunge-reinserts, amended-on-new-key, promotion-pairing (publishing dirty as the read map is followed by dirty=nil before Unlock), readmap-immutable (map writes only to the dirty map), " +
			"range-promotes, no-callback-under-lock, and effect-completeness (Store stores on every path; LoadOrStore/LoadAndDelete/Load/Delete return the entry operation's own result). " +
			"NOT decided: that these local disciplines compose to linearizability; Range's 'visits every stable key'; memory-model reasoning beyond 'shared location is lock- or atomic-protected'.",
		assumptions: []string{"sync.Mutex, sync/atomic and atomic.Value meet their documented contracts", "the guarded-location table (dirty, misses: mu always; read: mu for Store; entry.p: atomic only) read from the field comments of sync2/map.go"},
	})
}

type mapProto struct {
	c       *Ctx
	pre     string
	pkg     string                 // package path relative to the module ("sync2"; "" for the GOROOT control)
	pfx     string                 // name prefix of that package's functions ("sync2"; "sync")
	loaders map[*ssa.Function]bool // helpers that return a fresh snapshot of the read map (loadReadOnly)
	fMu     *types.Var
	fRead   *types.Var
	fDirty  *types.Var
	fMiss   *types.Var
	fP      *types.Var
	fROm    *types.Var
	fROam   *types.Var
	funcs   []*FuncInfo
	paths   map[*FuncInfo][]*Path
	needs   map[*FuncInfo]string // why the function must be entered with mu held
	sites   map[*FuncInfo][]callSite
}

type callSite struct {
	caller *FuncInfo
	p      *Path
	ev     *Event
	held   bool
}

func (mp *mapProto) rule(n string) string { return mp.pre + n }

// runMapProtocol runs the sync2.Map protocol rules; prefix distinguishes their use as a dependency (C03/C05/C09).
func runMapProtocol(c *Ctx, prefix string) {
	runMapProtocolOn(c, prefix, "sync2", "sync2", true)
}

// runMapProtocolOn runs the protocol rules on the Map implementation of one package; full=false leaves out the
// rules that are specific to the fork's function set (used for the GOROOT negative control).
func runMapProtocolOn(c *Ctx, prefix, pkgRel, namePfx string, full bool) {
	R := c.R
	mp := &mapProto{c: c, pre: prefix, pkg: pkgRel, pfx: namePfx, loaders: map[*ssa.Function]bool{}, paths: map[*FuncInfo][]*Path{}, needs: map[*FuncInfo]string{}, sites: map[*FuncInfo][]callSite{}}
	R.Rule(mp.rule("guarded-by"), "every access to Map.dirty / Map.misses and every read.Store happens with mu held (directly, or in an unexported helper all of whose call chains hold it)", 20)
	R.Rule(mp.rule("lock-pairing"), "no path returns or loops with mu held, locks it twice, or unlocks it when not held", 5)
	R.Rule(mp.rule("atomic-only"), "entry.p is touched only as the address argument of sync/atomic functions (or initialised in a not yet published entry)", 8)
	R.Rule(mp.rule("recheck-under-lock"), "after mu.Lock(), nothing on the path uses a snapshot of the read map that was loaded before that Lock", 5)
	R.Rule(mp.rule("promote-only-amended"), "the dirty map is promoted (published as the read map) only after a test, under the same lock, that it exists: fresh amended==true or a hit in dirty", 4)
	R.Rule(mp.rule("cas-protocol"), "every CAS/store on entry.p: CAS(nil->value); CAS(expunged->nil) under mu; CAS(nil->expunged) under mu; CAS(p->x) with p loaded from the same word and p!=expunged (and p!=nil when deleting); plain store only under mu on an entry that cannot be expunged", 7)
	R.Rule(mp.rule("unexpunge-reinserts"), "on the true edge of the unexpunge CAS the same entry is put back into dirty under the same key before Unlock", 2)
	R.Rule(mp.rule("amended-on-new-key"), "a new entry enters dirty only when amended is (made) true: fresh amended==true, or dirtyLocked() + read.Store(readOnly{m: read.m, amended: true})", 2)
	R.Rule(mp.rule("promotion-pairing"), "publishing m.dirty as the read map is followed, before Unlock, by m.dirty = nil (and misses = 0)", 2)
	R.Rule(mp.rule("readmap-immutable"), "every map write (m[k]=v, delete) in the package is to the dirty map, under mu - never to a map obtained from a readOnly", 4)
	R.Rule(mp.rule("dirty-superset"), "a key is deleted from the dirty map only when the snapshot re-read under the same lock does not hold it (dirty keeps every non-expunged entry of the read map, so that a promotion loses no lock-free store)", 1)
	R.Rule(mp.rule("range-promotes"), "Range: iterates without the lock over the snapshot (promoted first when amended); each value read through entry.load and skipped when deleted; a false result of the callback leaves the loop", 1)
	R.Rule(mp.rule("no-callback-under-lock"), "no call of a function-typed parameter and no channel operation while mu is held", 8)
	R.Rule(mp.rule("entry-tables"), "entry helpers: a value is returned only from a word found non-nil and not expunged; 'absent' only when the last loaded word is nil or expunged; success after a CAS only when that CAS succeeded", 5)
	R.Rule(mp.rule("cas-retry-reloads"), "every iteration of a retry loop on entry.p loads the word again", 3)
	R.Rule(mp.rule("dirty-copy-complete"), "rebuilding the dirty map: every entry of the read map is carried over under its key or is on the true edge of the expunging helper, which reports true only for an expunged entry", 2)
	R.Rule(mp.rule("lookup-justified"), "Map methods act on what their lookups found: an entry taken from a lookup is used only where that lookup's presence flag is true; 'absent' is answered, and a new entry inserted, only where the key is missing from the latest snapshot of the read map and that snapshot is not amended or the key is missing from dirty too (an insertion always needs the miss in dirty)", 4)
	R.Rule(mp.rule("dirty-write-exists"), "an entry is written into the dirty map only where the path has established that the map exists: created on this path, ensured by the creating helper under the same lock, found non-nil / hit / amended on a fresh snapshot under the same lock, or on the true edge of the un-expunging helper (an expunged entry implies a dirty map)", 2)
	R.Rule(mp.rule("dirty-lookup-current"), "a lookup in the dirty map is made before anything on the path, under the same lock, may have promoted the map or deleted from it: what it finds is what the map held when the lock was taken", 2)
	R.Rule(mp.rule("effect-completeness"), "Store stores on every path; Load/LoadOrStore/LoadAndDelete return the entry operation's own result for the entry found after the re-check; Delete delegates to LoadAndDelete", 5)

	mp.fMu = c.P.FieldOf(mp.pkg, "Map", "mu")
	mp.fRead = c.P.FieldOf(mp.pkg, "Map", "read")
	mp.fDirty = c.P.FieldOf(mp.pkg, "Map", "dirty")
	mp.fMiss = c.P.FieldOf(mp.pkg, "Map", "misses")
	mp.fP = c.P.FieldOf(mp.pkg, "entry", "p")
	mp.fROm = c.P.FieldOf(mp.pkg, "readOnly", "m")
	mp.fROam = c.P.FieldOf(mp.pkg, "readOnly", "amended")
	for n, f := range map[string]*types.Var{"Map.mu": mp.fMu, "Map.read": mp.fRead, "Map.dirty": mp.fDirty, "Map.misses": mp.fMiss, "entry.p": mp.fP, "readOnly.m": mp.fROm, "readOnly.amended": mp.fROam} {
		if f == nil {
			R.Unproven(mp.rule("guarded-by"), mp.pfx+"."+n, "anchor", "", "anchor no longer resolves: field "+n)
			return
		}
	}
	// the map implementation = functions of package sync2 with receiver Map or entry, plus newEntry
	for _, fi := range c.P.FuncsOfPkg(mp.pkg) {
		if strings.HasPrefix(fi.Name, mp.pfx+".(*Map).") || strings.HasPrefix(fi.Name, mp.pfx+".(*entry).") || strings.HasPrefix(fi.Name, mp.pfx+".(Map).") || strings.HasPrefix(fi.Name, mp.pfx+".(entry).") || fi.Name == mp.pfx+".newEntry" {
			mp.funcs = append(mp.funcs, fi)
		}
	}
	// encapsulation: the protocol rules below look at the map implementation only; that is the whole story only if
	// nothing else in the package reaches into a Map, an entry or a read-only snapshot
	if full {
		R.Rule(mp.rule("encapsulation"), "no function of the package outside the map implementation (methods of Map and entry, newEntry) reads or writes a field of Map, entry or readOnly: everything else goes through the Map's methods", 20)
		inImpl := map[*FuncInfo]bool{}
		for _, fi := range mp.funcs {
			inImpl[fi] = true
		}
		guarded := []*types.Var{mp.fMu, mp.fRead, mp.fDirty, mp.fMiss, mp.fP, mp.fROm, mp.fROam}
		for _, fi := range c.P.FuncsOfPkg(mp.pkg) {
			if inImpl[fi] || c.P.Skip[fi] {
				continue
			}
			bad := ""
			for _, fn := range append([]*ssa.Function{fi.SSA}, fi.Closures...) {
				for _, b := range fn.Blocks {
					for _, in := range b.Instrs {
						var fld *types.Var
						switch x := in.(type) {
						case *ssa.FieldAddr:
							if pt, isP := x.X.Type().Underlying().(*types.Pointer); isP {
								if st, isS := pt.Elem().Underlying().(*types.Struct); isS {
									fld = st.Field(x.Field)
								}
							}
						case *ssa.Field:
							if st, isS := x.X.Type().Underlying().(*types.Struct); isS {
								fld = st.Field(x.Field)
							}
						}
						for _, f := range guarded {
							if fld != nil && sameField(fld, f) {
								bad = f.Name()
							}
						}
					}
				}
			}
			o := R.Decide(bad == "", mp.rule("encapsulation"), fi.Name, "map-fields", c.pos(fi), "does not touch the Map's internals", "reads or writes the field "+bad+" of the map implementation from outside it: the locking, promotion and entry protocol rules do not cover this function, and what it sees there (tombstones, entries only in dirty) is not what the Map's methods report")
			if bad != "" {
				o.Breaks = "a data race with the lock-free paths, a promotion that leaves the published map writable, or a view of the map that disagrees with Load/Range"
			}
		}
	}
	for _, fi := range mp.funcs {
		ps := c.paths(mp.rule("guarded-by"), fi)
		if ps == nil {
			return
		}
		mp.paths[fi] = ps
		if len(fi.Closures) > 0 {
			// lock regions are not tracked across closures: fine as long as the closures stay out of the map's internals
			// (a counting callback handed to Range); one that touches a guarded field or the mutex cannot be judged
			touches := ""
			guardedF := []*types.Var{mp.fMu, mp.fRead, mp.fDirty, mp.fMiss, mp.fP, mp.fROm, mp.fROam}
			for _, cl := range fi.Closures {
				for _, b := range cl.Blocks {
					for _, in := range b.Instrs {
						var fld *types.Var
						switch x := in.(type) {
						case *ssa.FieldAddr:
							if pt, isP := x.X.Type().Underlying().(*types.Pointer); isP {
								if st, isS := pt.Elem().Underlying().(*types.Struct); isS {
									fld = st.Field(x.Field)
								}
							}
						case *ssa.Field:
							if st, isS := x.X.Type().Underlying().(*types.Struct); isS {
								fld = st.Field(x.Field)
							}
						}
						for _, f := range guardedF {
							if fld != nil && sameField(fld, f) {
								touches = f.Name()
							}
						}
					}
				}
			}
			if touches != "" {
				R.Unproven(mp.rule("guarded-by"), fi.Name, "closures", c.pos(fi), "a closure of the map implementation touches "+touches+"; lock regions are not tracked across closures")
			}
		}
	}
	// helpers returning a fresh snapshot of the read map (e.g. loadReadOnly): every returning path yields the
	// value just loaded from recv.read (dereferenced / type-asserted) or the empty snapshot
	for _, fi := range mp.funcs {
		if !mp.isMapRecv(fi) || len(mp.paths[fi]) == 0 {
			continue
		}
		all, some := true, false
		for _, p := range mp.paths[fi] {
			if p.End != EndReturn || len(p.Rets) != 1 {
				all = false
				continue
			}
			r := p.Rets[0]
			loads := 0
			for i := range p.Events {
				e := &p.Events[i]
				if e.Kind == "call" && isAtomicLoadName(e.Name) && len(e.Args) == 1 && isFieldAddr(e.Args[0], mp.fRead, mp.recv(fi)) {
					loads++
					if r.ContainsKey(e.Res.Key()) {
						some = true
					}
				} else if e.Kind != "store" || e.Addr.Op != "alloc" {
					all = false
				}
			}
			if loads != 1 {
				all = false
			}
			if !(r.Op == "zero" || r.Op == "struct" || r.Op == "load" || r.Op == "extract" || r.Op == "tassert") {
				all = false
			}
		}
		if all && some && fi.Obj.Type().(*types.Signature).Params().Len() == 0 {
			mp.loaders[fi.SSA] = true
		}
	}
	mp.guardedBy()
	mp.lockPairing()
	mp.atomicOnly()
	mp.recheck()
	mp.promoteOnlyAmended()
	mp.casProtocol()
	mp.unexpungeReinserts()
	mp.amendedOnNewKey()
	mp.promotionPairing()
	mp.readmapImmutable()
	mp.dirtySuperset()
	if full {
		mp.rangePromotes()
	}
	mp.noCallbackUnderLock()
	mp.entryTables()
	mp.dirtyCopyComplete()
	mp.lookupJustified()
	mp.dirtyWriteExists()
	mp.dirtyLookupCurrent()
	if full {
		mp.effectCompleteness()
	}
}

// ---- helpers ----------------------------------------------------------------

func (mp *mapProto) isMapRecv(fi *FuncInfo) bool {
	return strings.HasPrefix(fi.Name, mp.pfx+".(*Map).")
}

func (mp *mapProto) recv(fi *FuncInfo) *Term { return paramOf(fi, 0) }

func (mp *mapProto) isMu(t *Term, recv *Term) bool { return isFieldAddr(t, mp.fMu, recv) }

// heldAt: is mu (of any Map value) held just before event index n; lockIdx = index of the Lock event.
func (mp *mapProto) heldAt(p *Path, n int) (held bool, lockIdx int, mu *Term) {
	lockIdx = -1
	for i := 0; i < n && i < len(p.Events); i++ {
		e := &p.Events[i]
		if e.Kind != "call" {
			continue
		}
		switch e.Name {
		case "sync.(*Mutex).Lock":
			if isFieldAddr(e.Args[0], mp.fMu, nil) {
				held, lockIdx, mu = true, i, e.Args[0]
			}
		case "sync.(*Mutex).Unlock":
			if isFieldAddr(e.Args[0], mp.fMu, nil) {
				held = false
			}
		}
	}
	return
}

func (mp *mapProto) isDirtyAddr(t *Term) bool { return isFieldAddr(t, mp.fDirty, nil) }
func (mp *mapProto) isMissAddr(t *Term) bool  { return isFieldAddr(t, mp.fMiss, nil) }

// isDirtyMap: the map value t is (or was stored as) the receiver's dirty map on this path.
func (mp *mapProto) isDirtyMap(p *Path, t *Term) bool {
	if t == nil {
		return false
	}
	if t.Op == "load" && mp.isDirtyAddr(t.Args[0]) {
		return true
	}
	for i := range p.Events {
		e := &p.Events[i]
		if e.Kind == "store" && mp.isDirtyAddr(e.Addr) && e.Val.Key() == t.Key() && !t.IsNil() {
			return true
		}
	}
	return false
}

// demotedBefore: a store of nil to the dirty field happened before event index n (the old dirty map is now the read map).
func (mp *mapProto) demotedBefore(p *Path, n int) bool {
	for i := 0; i < n && i < len(p.Events); i++ {
		e := &p.Events[i]
		if e.Kind == "store" && mp.isDirtyAddr(e.Addr) && e.Val.IsNil() {
			return true
		}
	}
	return false
}

type guardedAccess struct {
	what  string
	n     int // events before the access
	instr ssa.Instruction
	write bool
}

func (mp *mapProto) guardedAccesses(p *Path) []guardedAccess {
	var out []guardedAccess
	for _, a := range p.Acc {
		switch a.Kind {
		case "load":
			if mp.isDirtyAddr(a.Addr) {
				out = append(out, guardedAccess{"read of dirty", a.NEv, a.Instr, false})
			} else if mp.isMissAddr(a.Addr) {
				out = append(out, guardedAccess{"read of misses", a.NEv, a.Instr, false})
			}
		case "lookup", "maprange":
			if mp.isDirtyMap(p, a.Addr) && !mp.demotedBefore(p, a.NEv) {
				out = append(out, guardedAccess{"read of the dirty map's contents", a.NEv, a.Instr, false})
			}
		}
	}
	for i := range p.Events {
		e := &p.Events[i]
		switch {
		case e.Kind == "store" && mp.isDirtyAddr(e.Addr):
			out = append(out, guardedAccess{"write of dirty", i, e.Instr, true})
		case e.Kind == "store" && mp.isMissAddr(e.Addr):
			out = append(out, guardedAccess{"write of misses", i, e.Instr, true})
		case e.Kind == "mapupdate" && mp.isDirtyMap(p, e.Addr):
			out = append(out, guardedAccess{"insert into the dirty map", i, e.Instr, true})
		case e.Kind == "call" && e.Name == "builtin.delete" && mp.isDirtyMap(p, e.Args[0]):
			out = append(out, guardedAccess{"delete from the dirty map", i, e.Instr, true})
		case e.Kind == "call" && e.Name == "builtin.clear" && mp.isDirtyMap(p, e.Args[0]):
			out = append(out, guardedAccess{"clear of the dirty map", i, e.Instr, true})
		case e.Kind == "call" && e.Name == "builtin.len" && mp.isDirtyMap(p, e.Args[0]) && !mp.demotedBefore(p, i):
			out = append(out, guardedAccess{"len of the dirty map", i, e.Instr, false})
		case e.Kind == "call" && isAtomicStoreName(e.Name) && isFieldAddr(e.Args[0], mp.fRead, nil):
			out = append(out, guardedAccess{"read.Store", i, e.Instr, true})
		}
	}
	return out
}

// privileged entry operations: need mu although they touch no Map field
func (mp *mapProto) privilegedOps(p *Path) []guardedAccess {
	var out []guardedAccess
	for i := range p.Events {
		e := &p.Events[i]
		if e.Kind != "call" || len(e.Args) == 0 || !isFieldAddr(e.Args[0], mp.fP, nil) {
			continue
		}
		switch entryOpKind(e.Name) {
		case "store", "swap":
			// initialising a fresh, unpublished entry is free
			if rootOf(e.Args[0]).Op == "alloc" {
				continue
			}
			out = append(out, guardedAccess{"plain atomic store to entry.p", i, e.Instr, true})
		case "cas":
			if mp.isExpunged(e.Args[1]) && e.Args[2].IsNil() {
				out = append(out, guardedAccess{"unexpunge CAS", i, e.Instr, true})
			}
			if mp.isExpunged(e.Args[2]) {
				out = append(out, guardedAccess{"expunge CAS", i, e.Instr, true})
			}
		}
	}
	return out
}

func (mp *mapProto) isExpunged(t *Term) bool {
	return t != nil && t.Op == "load" && t.Args[0].Op == "global" && t.Args[0].Obj != nil && t.Args[0].Obj.Name() == "expunged"
}

func instrOrdinal(in ssa.Instruction) string {
	if in == nil || in.Block() == nil {
		return "?"
	}
	// ordinal among instructions of the same kind in the function (stable under edits elsewhere)
	n := 0
	kind := fmt.Sprintf("%T", in)
	for _, b := range in.Parent().Blocks {
		for _, x := range b.Instrs {
			if fmt.Sprintf("%T", x) == kind {
				if x == in {
					return fmt.Sprintf("%s#%d", strings.TrimPrefix(kind, "*ssa."), n)
				}
				n++
			}
		}
	}
	return "?"
}

// ---- guarded-by ---------------------------------------------------------------

func (mp *mapProto) guardedBy() {
	c := mp.c
	rule := mp.rule("guarded-by")
	type site struct {
		fi    *FuncInfo
		ga    guardedAccess
		local bool
	}
	sites := map[string]*site{}
	var order []string
	// 1. local verdict per access site (an instruction may occur on many paths: all must agree)
	for _, fi := range mp.funcs {
		for _, p := range mp.paths[fi] {
			all := append(mp.guardedAccesses(p), mp.privilegedOps(p)...)
			for _, ga := range all {
				held, _, _ := mp.heldAt(p, ga.n)
				k := fi.Name + "/" + instrOrdinal(ga.instr) + "/" + ga.what
				s, ok := sites[k]
				if !ok {
					s = &site{fi: fi, ga: ga, local: true}
					sites[k] = s
					order = append(order, k)
				}
				if !held {
					s.local = false
				}
			}
		}
	}
	// 2. functions that must be entered with the lock held
	for _, k := range order {
		s := sites[k]
		if !s.local && mp.needs[s.fi] == "" {
			mp.needs[s.fi] = s.ga.what
		}
	}
	// call sites + propagation to a fixed point
	for changed := true; changed; {
		changed = false
		mp.sites = map[*FuncInfo][]callSite{}
		for _, fi := range mp.funcs {
			for _, p := range mp.paths[fi] {
				for i := range p.Events {
					e := &p.Events[i]
					if e.Kind != "call" && e.Kind != "defer" && e.Kind != "go" {
						continue
					}
					if e.Deferred {
						continue
					}
					callee := mp.c.P.BySSA[e.SSAFn]
					if callee == nil || e.SSAFn != callee.SSA {
						continue
					}
					if mp.needs[callee] == "" {
						continue
					}
					held, _, _ := mp.heldAt(p, i)
					if e.Kind == "go" {
						held = false
					}
					mp.sites[callee] = append(mp.sites[callee], callSite{fi, p, e, held})
					if !held && mp.needs[fi] == "" {
						mp.needs[fi] = "calls " + callee.Name + " (which needs mu)"
						changed = true
					}
				}
			}
		}
	}
	// also count call sites from outside the map implementation (other files of the package)
	outside := map[*FuncInfo][]string{}
	for _, fi := range c.P.FuncsOfPkg(mp.pkg) {
		isImpl := false
		for _, g := range mp.funcs {
			if g == fi {
				isImpl = true
			}
		}
		if isImpl {
			continue
		}
		for _, fn := range append([]*ssa.Function{fi.SSA}, fi.Closures...) {
			for _, b := range fn.Blocks {
				for _, in := range b.Instrs {
					if call, ok := in.(ssa.CallInstruction); ok {
						if sc := call.Common().StaticCallee(); sc != nil {
							if sc.Origin() != nil {
								sc = sc.Origin()
							}
							if callee := c.P.BySSA[sc]; callee != nil && mp.needs[callee] != "" {
								outside[callee] = append(outside[callee], fi.Name)
							}
						}
					}
				}
			}
		}
	}
	// callers-hold: every call chain into fi holds the lock
	var callersHold func(fi *FuncInfo, seen map[*FuncInfo]bool) (bool, string)
	callersHold = func(fi *FuncInfo, seen map[*FuncInfo]bool) (bool, string) {
		if seen[fi] {
			return false, "recursive call chain"
		}
		seen[fi] = true
		defer delete(seen, fi)
		if ast.IsExported(fi.Obj.Name()) {
			return false, "exported function " + fi.Name + " can be called without the lock"
		}
		if len(outside[fi]) > 0 {
			return false, "called from outside the map implementation without the lock: " + outside[fi][0]
		}
		if len(mp.sites[fi]) == 0 {
			return false, "no call site establishes the lock"
		}
		for _, cs := range mp.sites[fi] {
			if cs.held {
				continue
			}
			ok, why := callersHold(cs.caller, seen)
			if !ok {
				return false, "called without mu from " + cs.caller.Name + " (" + why + ")"
			}
		}
		return true, ""
	}
	sort.Strings(order)
	for _, k := range order {
		s := sites[k]
		inst := instrOrdinal(s.ga.instr) + "/" + strings.ReplaceAll(s.ga.what, " ", "-")
		if s.local {
			c.R.Held(rule, s.fi.Name, inst, c.ipos(s.ga.instr), s.ga.what+" with mu held")
			continue
		}
		ok, why := callersHold(s.fi, map[*FuncInfo]bool{})
		if ok {
			c.R.Held(rule, s.fi.Name, inst, c.ipos(s.ga.instr), s.ga.what+": mu held by every caller ("+fmt.Sprint(len(mp.sites[s.fi]))+" call sites)")
		} else {
			o := c.R.Refuted(rule, s.fi.Name, inst, c.ipos(s.ga.instr), s.ga.what+" without mu: "+why)
			o.Breaks = "data race on the dirty map / torn promotion / lost update"
		}
	}
}

// ---- lock-pairing ---------------------------------------------------------------

func (mp *mapProto) lockPairing() {
	c := mp.c
	rule := mp.rule("lock-pairing")
	for _, fi := range mp.funcs {
		uses := false
		bad := ""
		var badPos ssa.Instruction
		for _, p := range mp.paths[fi] {
			held := false
			for i := range p.Events {
				e := &p.Events[i]
				if e.Kind != "call" || len(e.Args) == 0 || !isFieldAddr(e.Args[0], mp.fMu, nil) {
					continue
				}
				uses = true
				switch e.Name {
				case "sync.(*Mutex).Lock":
					if held {
						bad, badPos = "locks mu while already holding it", e.Instr
					}
					held = true
				case "sync.(*Mutex).Unlock":
					if !held {
						bad, badPos = "unlocks mu without holding it", e.Instr
					}
					held = false
				default:
					bad, badPos = "unexpected operation on mu: "+e.Name, e.Instr
				}
			}
			if p.End == EndLoopBack {
				h0, _, _ := mp.heldAt(p, p.LoopAt[p.BackTo])
				if h0 != held {
					bad = "mu is " + map[bool]string{true: "held", false: "free"}[held] + " at the back edge but was " + map[bool]string{true: "held", false: "free"}[h0] + " on loop entry"
				}
			} else if held {
				bad = "a path leaves the function with mu held: " + p.CondString()
			}
		}
		if !uses {
			continue
		}
		if bad != "" {
			pos := c.pos(fi)
			if badPos != nil {
				pos = c.ipos(badPos)
			}
			c.R.Refuted(rule, fi.Name, "paths", pos, bad)
		} else {
			c.R.Held(rule, fi.Name, "paths", c.pos(fi), fmt.Sprintf("Lock/Unlock balanced on all %d paths", len(mp.paths[fi])))
		}
	}
}

// ---- atomic-only ----------------------------------------------------------------

func (mp *mapProto) atomicOnly() {
	c := mp.c
	rule := mp.rule("atomic-only")
	for _, fi := range c.P.FuncsOfPkg(mp.pkg) {
		for _, fn := range append([]*ssa.Function{fi.SSA}, fi.Closures...) {
			n := 0
			for _, b := range fn.Blocks {
				for _, in := range b.Instrs {
					fa, ok := in.(*ssa.FieldAddr)
					if !ok {
						continue
					}
					f := fieldVar(fa.X.Type(), fa.Field)
					if f == nil || f.Origin() != mp.fP.Origin() {
						continue
					}
					inst := fmt.Sprintf("p#%d", n)
					n++
					bad := ""
					if fa.Referrers() != nil {
						for _, r := range *fa.Referrers() {
							switch x := r.(type) {
							case *ssa.Call:
								sc := x.Call.StaticCallee()
								if sc != nil && sc.Origin() != nil {
									sc = sc.Origin()
								}
								if sc == nil || sc.Pkg == nil || sc.Pkg.Pkg.Path() != "sync/atomic" || len(x.Call.Args) == 0 || x.Call.Args[0] != ssa.Value(fa) {
									bad = "address of p passed to " + x.Call.Value.String()
								}
							case *ssa.Store:
								if x.Addr != ssa.Value(fa) {
									bad = "address of p stored"
								} else if _, fresh := fa.X.(*ssa.Alloc); !fresh {
									bad = "plain (non-atomic) store to p of a published entry"
								}
							case *ssa.DebugRef:
							default:
								bad = fmt.Sprintf("p used by %T (plain access)", r)
							}
						}
					}
					if bad != "" {
						o := c.R.Refuted(rule, fi.Name, inst, c.ipos(fa), bad)
						o.Breaks = "data race with the lock-free fast paths"
					} else {
						c.R.Held(rule, fi.Name, inst, c.ipos(fa), "only atomic access")
					}
				}
			}
		}
	}
	// direct Field reads of p on entry values
	for _, fi := range c.P.FuncsOfPkg(mp.pkg) {
		for _, fn := range append([]*ssa.Function{fi.SSA}, fi.Closures...) {
			for _, b := range fn.Blocks {
				for _, in := range b.Instrs {
					if fl, ok := in.(*ssa.Field); ok {
						if f := fieldVarStruct(fl.X.Type(), fl.Field); f != nil && f.Origin() == mp.fP.Origin() {
							c.R.Refuted(rule, fi.Name, "field-read", c.ipos(fl), "plain read of entry.p through a copied entry value")
						}
					}
				}
			}
		}
	}
}

// ---- recheck-under-lock ------------------------------------------------------------

// snapshotLoads: indices of the events that are m.read.Load() calls, keyed by result key
func (mp *mapProto) snapshotLoads(p *Path) map[string]int {
	out := map[string]int{}
	for i := range p.Events {
		e := &p.Events[i]
		if e.Kind == "call" && isAtomicLoadName(e.Name) && len(e.Args) == 1 && isFieldAddr(e.Args[0], mp.fRead, nil) {
			out[e.Res.Key()] = i
		}
		if e.Kind == "call" && e.SSAFn != nil && mp.loaders[e.SSAFn] {
			out[e.Res.Key()] = i
		}
	}
	return out
}

func (mp *mapProto) staleUse(t *Term, snaps map[string]int, lockIdx int) *Term {
	var found *Term
	t.Walk(func(x *Term) bool {
		if found != nil {
			return false
		}
		if x.Op == "call" {
			if idx, ok := snaps[x.Key()]; ok && idx < lockIdx {
				found = x
				return false
			}
		}
		return true
	})
	return found
}

func (mp *mapProto) recheck() {
	c := mp.c
	rule := mp.rule("recheck-under-lock")
	for _, fi := range mp.funcs {
		locks := false
		bad := ""
		for _, p := range mp.paths[fi] {
			lockIdx := -1
			for i := range p.Events {
				e := &p.Events[i]
				if e.Kind == "call" && e.Name == "sync.(*Mutex).Lock" && isFieldAddr(e.Args[0], mp.fMu, nil) {
					lockIdx = i
					break
				}
			}
			if lockIdx < 0 {
				continue
			}
			locks = true
			snaps := mp.snapshotLoads(p)
			// everything decided or done after the Lock
			for _, cd := range p.Conds {
				if cd.NEv > lockIdx {
					if s := mp.staleUse(cd.T, snaps, lockIdx); s != nil {
						bad = "after Lock the path still decides on the snapshot loaded before it: " + cd.Rel().String()
					}
				}
			}
			for i := lockIdx + 1; i < len(p.Events); i++ {
				e := &p.Events[i]
				for _, t := range append(append([]*Term{e.Addr, e.Key, e.Val}, e.Args...), e.Callee) {
					if t == nil {
						continue
					}
					if e.Kind == "store" && e.Addr.Op == "alloc" {
						continue // spilling the old snapshot into its variable is not a use
					}
					if s := mp.staleUse(t, snaps, lockIdx); s != nil {
						bad = "after Lock the path uses the snapshot loaded before it in: " + e.String()
					}
				}
			}
			for _, r := range p.Rets {
				if s := mp.staleUse(r, snaps, lockIdx); s != nil {
					bad = "a path that took the lock returns a result computed from the pre-lock snapshot"
				}
			}
			if len(snaps) > 0 {
				fresh := false
				for _, idx := range snaps {
					if idx > lockIdx {
						fresh = true
					}
				}
				_ = fresh
			}
		}
		if !locks {
			continue
		}
		if bad != "" {
			o := c.R.Refuted(rule, fi.Name, "snapshots", c.pos(fi), bad)
			o.Breaks = "a promotion between the fast-path miss and the Lock makes a present key look absent, or publishes a stale/empty map"
		} else {
			c.R.Held(rule, fi.Name, "snapshots", c.pos(fi), "every use after Lock comes from a snapshot re-read under the lock (or from dirty)")
		}
	}
}

// ---- promote-only-amended ------------------------------------------------------------

// promotes: the path publishes the dirty map as the read map at event i
func (mp *mapProto) promotionEvents(p *Path) []int {
	var out []int
	for i := range p.Events {
		e := &p.Events[i]
		if e.Kind == "call" && isAtomicStoreName(e.Name) && isFieldAddr(e.Args[0], mp.fRead, nil) && len(e.Args) == 2 {
			if m, _, ok := mp.snapshotStored(p, i); ok && mp.isDirtyMap(p, m) {
				out = append(out, i)
			}
		}
	}
	return out
}

// snapshotStored: the (m, amended) components of the readOnly value published by the read.Store at event i.
func (mp *mapProto) snapshotStored(p *Path, i int) (m, amended *Term, ok bool) {
	e := &p.Events[i]
	if len(e.Args) != 2 {
		return nil, nil, false
	}
	v := stripIface(e.Args[1])
	pick := func(st *Term) (*Term, *Term, bool) {
		if st.Op != "struct" {
			return nil, nil, false
		}
		stt, isSt := st.Typ.Underlying().(*types.Struct)
		if !isSt {
			return nil, nil, false
		}
		var mm, aa *Term
		for k := 0; k < stt.NumFields() && k < len(st.Args); k++ {
			if sameField(stt.Field(k), mp.fROm) {
				mm = st.Args[k]
			}
			if sameField(stt.Field(k), mp.fROam) {
				aa = st.Args[k]
			}
		}
		return mm, aa, mm != nil
	}
	if mm, aa, ok := pick(v); ok {
		return mm, aa, true
	}
	if v.Op == "alloc" {
		// &readOnly{...} or &copy: look at what was stored into the cell before the publication
		var mm, aa *Term
		for j := 0; j < i; j++ {
			f := &p.Events[j]
			if f.Kind != "store" {
				continue
			}
			if f.Addr.Key() == v.Key() {
				if a, b, ok := pick(f.Val); ok {
					mm, aa = a, b
				}
			}
			if isFieldAddr(f.Addr, mp.fROm, v) {
				mm = f.Val
			}
			if isFieldAddr(f.Addr, mp.fROam, v) {
				aa = f.Val
			}
		}
		if mm == nil {
			mm = &Term{Op: "const", Sym: "nil"}
		}
		return mm, aa, true
	}
	return nil, nil, false
}

func (mp *mapProto) funcPromotes(fi *FuncInfo) bool {
	for _, p := range mp.paths[fi] {
		if len(mp.promotionEvents(p)) > 0 {
			return true
		}
	}
	return false
}

// dirtyKnownBefore: between lockIdx and n the path tested a fresh amended==true or hit the dirty map.
func (mp *mapProto) dirtyKnownBefore(p *Path, lockIdx, n int) bool {
	snaps := mp.snapshotLoads(p)
	for _, cd := range p.Conds {
		if cd.NEv > n {
			continue
		}
		t, pol := stripNot(cd.T, cd.Pol)
		if !pol {
			continue
		}
		// amended of a fresh snapshot
		if t.Op == "field" && sameField(t.Obj, mp.fROam) {
			fresh := false
			t.Walk(func(x *Term) bool {
				if idx, ok := snaps[x.Key()]; ok && idx > lockIdx {
					fresh = true
				}
				return true
			})
			if fresh {
				return true
			}
		}
		// a hit in the dirty map
		if t.Op == "extract" && t.N == 1 && t.Args[0].Op == "lookup" && mp.isDirtyMap(p, t.Args[0].Args[0]) && cd.NEv > lockIdx {
			return true
		}
		// dirty != nil
		if r := cd.Rel(); r.B != nil && r.Op == "!=" && r.B.IsNil() && mp.isDirtyMap(p, r.A) && cd.NEv > lockIdx {
			return true
		}
	}
	return false
}

func (mp *mapProto) promoteOnlyAmended() {
	c := mp.c
	rule := mp.rule("promote-only-amended")
	promoters := map[*FuncInfo]bool{}
	for _, fi := range mp.funcs {
		if mp.funcPromotes(fi) {
			promoters[fi] = true
		}
	}
	for _, fi := range mp.funcs {
		type st struct {
			ok  bool
			pos ssa.Instruction
		}
		sites := map[string]*st{}
		var order []string
		for _, p := range mp.paths[fi] {
			check := func(i int, label string, in ssa.Instruction) {
				held, lockIdx, _ := mp.heldAt(p, i)
				k := label + "/" + instrOrdinal(in)
				s, ok := sites[k]
				if !ok {
					s = &st{ok: true, pos: in}
					sites[k] = s
					order = append(order, k)
				}
				if !held {
					// the function relies on its callers (helper): judged at its call sites
					if mp.needs[fi] != "" {
						return
					}
					s.ok = false
					return
				}
				if !mp.dirtyKnownBefore(p, lockIdx, i) {
					s.ok = false
				}
			}
			for _, i := range mp.promotionEvents(p) {
				if mp.needs[fi] != "" {
					continue // helper: checked at call sites
				}
				check(i, "inline", p.Events[i].Instr)
			}
			for i := range p.Events {
				e := &p.Events[i]
				if e.Kind == "call" {
					// a promoting helper that relies on its caller's lock is judged here, at the call; one that takes the lock
					// itself (Range) establishes the condition inside and is judged there
					if callee := c.P.BySSA[e.SSAFn]; callee != nil && e.SSAFn == callee.SSA && promoters[callee] && callee != fi && mp.needs[callee] != "" {
						check(i, "call-"+callee.Obj.Name(), e.Instr)
					}
				}
			}
		}
		sort.Strings(order)
		for _, k := range order {
			s := sites[k]
			if s.ok {
				c.R.Held(rule, fi.Name, k, c.ipos(s.pos), "promotion is preceded, under the same lock, by a fresh amended==true or a hit in dirty")
			} else {
				o := c.R.Refuted(rule, fi.Name, k, c.ipos(s.pos), "the dirty map may be promoted on a path that has not established (under this lock) that it exists")
				o.Breaks = "a nil dirty map is published as the read map: every key vanishes"
			}
		}
	}
}

// ---- cas-protocol --------------------------------------------------------------------

func (mp *mapProto) casProtocol() {
	c := mp.c
	rule := mp.rule("cas-protocol")
	for _, fi := range mp.funcs {
		type st struct {
			ok   bool
			why  string
			form string
			pos  ssa.Instruction
		}
		sites := map[string]*st{}
		var order []string
		for _, p := range mp.paths[fi] {
			for i := range p.Events {
				e := &p.Events[i]
				if e.Kind != "call" || len(e.Args) == 0 || !isFieldAddr(e.Args[0], mp.fP, nil) {
					continue
				}
				if k := entryOpKind(e.Name); k != "cas" && k != "store" && k != "swap" {
					continue
				}
				k := instrOrdinal(e.Instr)
				s, ok := sites[k]
				if !ok {
					s = &st{ok: true, pos: e.Instr}
					sites[k] = s
					order = append(order, k)
				}
				fail := func(w string) {
					s.ok = false
					s.why = w
				}
				addr := e.Args[0]
				switch entryOpKind(e.Name) {
				case "store", "swap":
					if rootOf(addr).Op == "alloc" {
						s.form = "initialisation of an unpublished entry"
						continue
					}
					s.form = "plain store (helper entered with mu held, see guarded-by)"
					if mp.isExpunged(e.Args[1]) {
						fail("expunged is written by a plain store: it must be a CAS from nil, because the lock-free paths CAS nil->value concurrently")
					}
					if e.Args[1].IsNil() {
						fail("nil is written by a plain store (deletes must CAS)")
					}
				case "cas":
					old, nw := e.Args[1], e.Args[2]
					switch {
					case old.IsNil() && mp.isExpunged(nw):
						s.form = "CAS(nil -> expunged) [needs mu: guarded-by]"
					case old.IsNil():
						s.form = "CAS(nil -> value)"
						// the value must be there: the address of a cell, a pointer the caller handed in, or something the
						// path has found non-nil - a CAS from nil to nil succeeds and stores nothing
						v := nw
						for v != nil && (v.Op == "conv" || v.Op == "call" && strings.HasSuffix(v.Sym, "unsafe.Pointer")) && len(v.Args) == 1 {
							v = v.Args[0]
						}
						good := v != nil && (v.Op == "alloc" || v.Op == "param")
						if !good && v != nil {
							for _, cd := range p.Conds {
								if cd.NEv > i {
									continue
								}
								r := cd.Rel()
								if r.B != nil && r.Op == "!=" && (r.A.Key() == v.Key() && r.B.IsNil() || r.B.Key() == v.Key() && r.A.IsNil()) {
									good = true
								}
							}
						}
						if !good {
							fail("CAS(nil -> x) with an x that is not known to be non-nil on this path: the swap succeeds and 'stores' nothing (" + nw.String() + ")")
						}
					case mp.isExpunged(old) && nw.IsNil():
						s.form = "CAS(expunged -> nil) [needs mu: guarded-by]"
					case mp.isExpunged(old):
						fail("CAS from expunged to a value: the entry is not in dirty")
					default:
						// old must be a LoadPointer of the same word on this path, known != expunged (and != nil for deletes)
						isWordLoad := func(t *Term) bool {
							return t != nil && t.Op == "call" && entryOpKind(t.Sym) == "load" && len(t.Args) == 1 && t.Args[0].Key() == addr.Key()
						}
						// excl reports which of {expunged, nil} the conditions of path q (up to event upto) exclude for t
						excl := func(q *Path, upto int, t *Term) (ne, nn bool) {
							for _, cd := range q.Conds {
								if cd.NEv > upto {
									continue
								}
								r := cd.Rel()
								if r.B == nil || r.Op != "!=" {
									continue
								}
								a, b := r.A, r.B
								if b.Key() == t.Key() {
									a, b = b, a
								}
								if a.Key() != t.Key() {
									continue
								}
								if mp.isExpunged(b) {
									ne = true
								}
								if b.IsNil() {
									nn = true
								}
							}
							return
						}
						okOld := isWordLoad(old)
						notExp, notNil := false, false
						if okOld {
							notExp, notNil = excl(p, i, old)
						} else if old.Op == "loopvar" {
							// a value re-loaded at the end of every iteration: p := load; for { CAS(p, ..); p = load }.
							// Inductive: the initial load and every re-load are of the same word and are tested
							// before the header is (re-)entered.
							for _, li := range findLoops(mp.paths[fi]) {
								for phi, lv := range li.LV {
									if lv.Key() != old.Key() {
										continue
									}
									all := isWordLoad(li.Init[phi]) && len(li.Back) > 0
									ne, nn := true, true
									for _, q := range mp.paths[fi] {
										at, in := q.LoopAt[li.Hdr]
										if !in || !all {
											continue
										}
										e1, n1 := excl(q, at, li.Init[phi])
										ne, nn = ne && e1, nn && n1
									}
									for _, q := range li.Back {
										nx := q.Next[phi]
										if !isWordLoad(nx) {
											all = false
											continue
										}
										e1, n1 := excl(q, len(q.Events), nx)
										ne, nn = ne && e1, nn && n1
									}
									okOld = all
									e0, n0 := excl(p, i, old)
									notExp, notNil = (all && ne) || e0, (all && nn) || n0
								}
							}
						}
						if !okOld {
							fail("the expected old value is not a load of the same word: " + old.String())
							break
						}
						if !notExp {
							fail("CAS(p -> x) on a path that has not excluded p == expunged: a value is stored into an entry that dirty does not contain")
						} else if nw.IsNil() && !notNil {
							fail("delete CAS on a path that has not excluded p == nil")
						} else if mp.isExpunged(nw) {
							fail("writes expunged over a live value")
						}
						s.form = "CAS(p -> x), p loaded from the word, p != expunged" + map[bool]string{true: ", p != nil", false: ""}[nw.IsNil()]
					}
				}
			}
		}
		sort.Strings(order)
		for _, k := range order {
			s := sites[k]
			if s.ok {
				c.R.Held(rule, fi.Name, k, c.ipos(s.pos), s.form)
			} else {
				o := c.R.Refuted(rule, fi.Name, k, c.ipos(s.pos), s.why)
				o.Breaks = "a stored value is lost at the next promotion, or a deleted key resurrects"
			}
		}
	}
	// plain stores: the entry must not be expungeable at the call sites of the storing helper
	for _, fi := range mp.funcs {
		hasStore := false
		for _, p := range mp.paths[fi] {
			for _, g := range mp.privilegedOps(p) {
				if g.what == "plain atomic store to entry.p" {
					hasStore = true
				}
			}
		}
		if !hasStore {
			continue
		}
		seenSite := map[string]bool{}
		for _, cs := range mp.sites[fi] {
			sk := cs.caller.Name + "/" + instrOrdinal(cs.ev.Instr)
			if seenSite[sk] {
				continue
			}
			// a call site lies on several paths: judge it on each, report once (the first failing path wins)
			ent := cs.ev.Args[0]
			p := cs.p
			okSrc, why := false, ""
			idx := -1
			for i := range p.Events {
				if &p.Events[i] == cs.ev {
					idx = i
				}
			}
			// from dirty
			if ent.Op == "extract" && ent.Args[0].Op == "lookup" && mp.isDirtyMap(p, ent.Args[0].Args[0]) {
				okSrc, why = true, "entry comes from the dirty map (never expunged)"
			}
			if ent.Op == "lookup" && mp.isDirtyMap(p, ent.Args[0]) {
				okSrc, why = true, "entry comes from the dirty map (never expunged)"
			}
			// after unexpunge of the same entry
			for i := 0; i < idx; i++ {
				e := &p.Events[i]
				if e.Kind == "call" {
					if callee := c.P.BySSA[e.SSAFn]; callee != nil {
						for _, q := range mp.paths[callee] {
							for _, g := range mp.privilegedOps(q) {
								if g.what == "unexpunge CAS" && len(e.Args) > 0 && e.Args[0].Key() == ent.Key() {
									okSrc, why = true, "the same entry went through the unexpunge CAS first"
								}
							}
						}
					}
				}
			}
			if mp.needs[cs.caller] != "" && !mp.isMapRecv(cs.caller) {
				// an entry helper forwarding its own receiver: judged at ITS call sites
				okSrc, why = true, "forwarded by a helper (its call sites are checked)"
			}
			inst := "store-site/" + instrOrdinal(cs.ev.Instr)
			if okSrc {
				// held only if no other path through this site fails
				failsElsewhere := false
				for _, cs2 := range mp.sites[fi] {
					if cs2.caller == cs.caller && cs2.ev.Instr == cs.ev.Instr && cs2.p != cs.p {
						if !mp.storeSiteOK(cs2) {
							failsElsewhere = true
						}
					}
				}
				if failsElsewhere {
					continue
				}
			}
			seenSite[sk] = true
			if okSrc {
				c.R.Held(rule, cs.caller.Name, inst, c.ipos(cs.ev.Instr), why)
			} else {
				o := c.R.Refuted(rule, cs.caller.Name, inst, c.ipos(cs.ev.Instr), "plain store into an entry that may be expunged (it neither comes from dirty nor went through the unexpunge CAS)")
				o.Breaks = "the stored value is lost at the next promotion"
			}
		}
	}
}

func (mp *mapProto) storeSiteOK(cs callSite) bool {
	c := mp.c
	ent := cs.ev.Args[0]
	p := cs.p
	idx := -1
	for i := range p.Events {
		if p.Events[i].Instr == cs.ev.Instr {
			idx = i
		}
	}
	if ent.Op == "extract" && ent.Args[0].Op == "lookup" && mp.isDirtyMap(p, ent.Args[0].Args[0]) {
		return true
	}
	if ent.Op == "lookup" && mp.isDirtyMap(p, ent.Args[0]) {
		return true
	}
	for i := 0; i < idx; i++ {
		e := &p.Events[i]
		if e.Kind == "call" {
			if callee := c.P.BySSA[e.SSAFn]; callee != nil {
				for _, q := range mp.paths[callee] {
					for _, g := range mp.privilegedOps(q) {
						if g.what == "unexpunge CAS" && len(e.Args) > 0 && e.Args[0].Key() == ent.Key() {
							return true
						}
					}
				}
			}
		}
	}
	return mp.needs[cs.caller] != "" && !mp.isMapRecv(cs.caller)
}

// ---- unexpunge-reinserts ---------------------------------------------------------------

func (mp *mapProto) unexpungers() map[*FuncInfo]bool {
	out := map[*FuncInfo]bool{}
	for _, fi := range mp.funcs {
		for _, p := range mp.paths[fi] {
			for _, g := range mp.privilegedOps(p) {
				if g.what == "unexpunge CAS" {
					out[fi] = true
				}
			}
		}
	}
	return out
}

func (mp *mapProto) unexpungeReinserts() {
	c := mp.c
	rule := mp.rule("unexpunge-reinserts")
	un := mp.unexpungers()
	for _, fi := range mp.funcs {
		type st struct {
			ok  bool
			pos ssa.Instruction
		}
		sites := map[string]*st{}
		var order []string
		for _, p := range mp.paths[fi] {
			for i := range p.Events {
				e := &p.Events[i]
				if e.Kind != "call" {
					continue
				}
				callee := c.P.BySSA[e.SSAFn]
				if callee == nil || !un[callee] || callee == fi {
					continue
				}
				k := instrOrdinal(e.Instr)
				s, ok := sites[k]
				if !ok {
					s = &st{ok: true, pos: e.Instr}
					sites[k] = s
					order = append(order, k)
				}
				// is this path on the true edge of the result?
				trueEdge, known := false, false
				for _, cd := range p.Conds {
					t, pol := stripNot(cd.T, cd.Pol)
					if t.Key() == e.Res.Key() {
						trueEdge, known = pol, true
					}
				}
				if !known {
					s.ok = false // result ignored: the entry is never re-inserted
					continue
				}
				if !trueEdge {
					continue
				}
				// a MapUpdate of dirty with this entry before the next Unlock
				found := false
				for j := i + 1; j < len(p.Events); j++ {
					f := &p.Events[j]
					if f.Kind == "call" && f.Name == "sync.(*Mutex).Unlock" {
						break
					}
					if f.Kind == "mapupdate" && mp.isDirtyMap(p, f.Addr) && f.Val.Key() == e.Args[0].Key() {
						// same key as the lookup that produced the entry
						found = true
					}
				}
				if !found {
					s.ok = false
				}
			}
		}
		sort.Strings(order)
		for _, k := range order {
			s := sites[k]
			if s.ok {
				c.R.Held(rule, fi.Name, k, c.ipos(s.pos), "un-expunged entry is re-inserted into dirty before Unlock")
			} else {
				o := c.R.Refuted(rule, fi.Name, k, c.ipos(s.pos), "an entry is un-expunged but not put back into dirty on that path")
				o.Breaks = "the key is dropped at the next promotion"
			}
		}
	}
}

// ---- amended-on-new-key ------------------------------------------------------------------

func (mp *mapProto) amendedOnNewKey() {
	c := mp.c
	rule := mp.rule("amended-on-new-key")
	for _, fi := range mp.funcs {
		type st struct {
			ok  bool
			pos ssa.Instruction
		}
		sites := map[string]*st{}
		var order []string
		for _, p := range mp.paths[fi] {
			snaps := mp.snapshotLoads(p)
			for i := range p.Events {
				e := &p.Events[i]
				if e.Kind != "mapupdate" || !mp.isDirtyMap(p, e.Addr) {
					continue
				}
				// a NEW entry: value is a call of newEntry (or a fresh alloc of entry)
				isNew := (e.Val.Op == "call" && strings.HasSuffix(e.Val.Sym, ".newEntry")) || e.Val.Op == "alloc"
				if !isNew {
					continue
				}
				k := instrOrdinal(e.Instr)
				s, ok := sites[k]
				if !ok {
					s = &st{ok: true, pos: e.Instr}
					sites[k] = s
					order = append(order, k)
				}
				_, lockIdx, _ := mp.heldAt(p, i)
				good := false
				// fresh amended == true
				for _, cd := range p.Conds {
					if cd.NEv > i {
						continue
					}
					t, pol := stripNot(cd.T, cd.Pol)
					if pol && t.Op == "field" && sameField(t.Obj, mp.fROam) {
						t.Walk(func(x *Term) bool {
							if idx, ok := snaps[x.Key()]; ok && idx > lockIdx {
								good = true
							}
							return true
						})
					}
				}
				// or: read.Store(readOnly{m: <fresh>.m, amended: true}) before, on this path, under this lock
				for j := lockIdx + 1; j < i && j >= 0; j++ {
					f := &p.Events[j]
					if f.Kind == "call" && isAtomicStoreName(f.Name) && isFieldAddr(f.Args[0], mp.fRead, nil) {
						if m, am, okS := mp.snapshotStored(p, j); okS && am != nil && am.IsConst("true") {
							// m must be the fresh snapshot's m
							fresh := false
							m.Walk(func(x *Term) bool {
								if idx, ok := snaps[x.Key()]; ok && idx > lockIdx {
									fresh = true
								}
								return true
							})
							if fresh && m.Op == "field" && sameField(m.Obj, mp.fROm) {
								// ... and the dirty map has been made: a call of the function that creates it, under the
								// same lock, before the insertion
								ens := mp.dirtyEnsurers()
								for j2 := lockIdx + 1; j2 < i && j2 >= 0; j2++ {
									g := &p.Events[j2]
									if g.Kind == "call" && g.SSAFn != nil {
										if gi := c.P.BySSA[g.SSAFn]; gi != nil {
											if _, isE := ens[gi]; isE {
												good = true
											}
										}
									}
								}
							}
						}
					}
				}
				if !good {
					s.ok = false
				}
			}
		}
		sort.Strings(order)
		for _, k := range order {
			s := sites[k]
			if s.ok {
				c.R.Held(rule, fi.Name, k, c.ipos(s.pos), "new key enters dirty with amended true (fresh test, or published just before)")
			} else {
				o := c.R.Refuted(rule, fi.Name, k, c.ipos(s.pos), "a new key is inserted into dirty on a path where the read map is not (made) amended")
				o.Breaks = "the lock-free fast path reports the present key absent"
			}
		}
	}
}

// ---- promotion-pairing -------------------------------------------------------------------

func (mp *mapProto) promotionPairing() {
	c := mp.c
	rule := mp.rule("promotion-pairing")
	for _, fi := range mp.funcs {
		type st struct {
			ok  bool
			why string
			pos ssa.Instruction
		}
		sites := map[string]*st{}
		var order []string
		for _, p := range mp.paths[fi] {
			for _, i := range mp.promotionEvents(p) {
				e := &p.Events[i]
				k := instrOrdinal(e.Instr)
				s, ok := sites[k]
				if !ok {
					s = &st{ok: true, pos: e.Instr}
					sites[k] = s
					order = append(order, k)
				}
				nilled, zeroed := false, false
				for j := i + 1; j < len(p.Events); j++ {
					f := &p.Events[j]
					if f.Kind == "call" && f.Name == "sync.(*Mutex).Unlock" {
						break
					}
					if f.Kind == "store" && mp.isDirtyAddr(f.Addr) && f.Val.IsNil() {
						nilled = true
					}
					if f.Kind == "store" && mp.isMissAddr(f.Addr) && f.Val.IsConst("0") {
						zeroed = true
					}
				}
				if !nilled {
					s.ok, s.why = false, "the dirty map is published as the read map but m.dirty still refers to it afterwards"
				} else if !zeroed {
					s.ok, s.why = false, "misses is not reset after the promotion"
				}
			}
		}
		sort.Strings(order)
		for _, k := range order {
			s := sites[k]
			if s.ok {
				c.R.Held(rule, fi.Name, k, c.ipos(s.pos), "read.Store(dirty) ; dirty = nil ; misses = 0")
			} else {
				o := c.R.Refuted(rule, fi.Name, k, c.ipos(s.pos), s.why)
				o.Breaks = "the published read map is mutated by later Stores while lock-free readers use it (data race, fatal concurrent map access)"
			}
		}
	}
}

// ---- readmap-immutable --------------------------------------------------------------------

func (mp *mapProto) readmapImmutable() {
	c := mp.c
	rule := mp.rule("readmap-immutable")
	for _, fi := range mp.funcs {
		type st struct {
			ok  bool
			pos ssa.Instruction
		}
		sites := map[string]*st{}
		var order []string
		for _, p := range mp.paths[fi] {
			for i := range p.Events {
				e := &p.Events[i]
				var m *Term
				if e.Kind == "mapupdate" {
					m = e.Addr
				} else if e.Kind == "call" && e.Name == "builtin.delete" {
					m = e.Args[0]
				} else {
					continue
				}
				k := instrOrdinal(e.Instr)
				s, ok := sites[k]
				if !ok {
					s = &st{ok: true, pos: e.Instr}
					sites[k] = s
					order = append(order, k)
				}
				if m.Op == "mkmap" {
					continue // a map created by this call: it cannot be a published read map
				}
				if !mp.isDirtyMap(p, m) || mp.demotedBefore(p, i) {
					s.ok = false
				}
			}
		}
		sort.Strings(order)
		for _, k := range order {
			s := sites[k]
			if s.ok {
				c.R.Held(rule, fi.Name, k, c.ipos(s.pos), "writes the dirty map")
			} else {
				o := c.R.Refuted(rule, fi.Name, k, c.ipos(s.pos), "a map write whose target is not the (current) dirty map")
				o.Breaks = "the immutable read map is mutated under lock-free readers"
			}
		}
	}
}

// ---- dirty-superset ---------------------------------------------------------------------------

// dirtySuperset: while a dirty map exists it holds every entry of the read map that is not expunged - that is what
// makes a promotion lose nothing: a lock-free store into an entry reached through the read map (CAS nil->value, or a
// swap of a live word) is a store into the next read map as well. So a key may be deleted from dirty only when it is
// known, under the same lock, not to be in the read map: the fresh snapshot's lookup of that very key missed.
func (mp *mapProto) dirtySuperset() {
	c := mp.c
	rule := mp.rule("dirty-superset")
	for _, fi := range mp.funcs {
		type st struct {
			ok  bool
			pos ssa.Instruction
		}
		sites := map[string]*st{}
		var order []string
		for _, p := range mp.paths[fi] {
			snaps := mp.snapshotLoads(p)
			for i := range p.Events {
				e := &p.Events[i]
				if e.Kind != "call" || e.Name != "builtin.delete" || len(e.Args) != 2 || !mp.isDirtyMap(p, e.Args[0]) {
					continue
				}
				k := instrOrdinal(e.Instr)
				s, ok := sites[k]
				if !ok {
					s = &st{ok: true, pos: e.Instr}
					sites[k] = s
					order = append(order, k)
				}
				_, lockIdx, _ := mp.heldAt(p, i)
				good := false
				for _, cd := range p.Conds {
					if cd.NEv > i {
						continue
					}
					t, pol := stripNot(cd.T, cd.Pol)
					if pol || t.Op != "extract" || t.N != 1 || len(t.Args) != 1 || t.Args[0].Op != "lookup" || len(t.Args[0].Args) != 2 {
						continue
					}
					lk := t.Args[0]
					if lk.Args[1].Key() != e.Args[1].Key() {
						continue
					}
					m := lk.Args[0]
					if !(m.Op == "field" && sameField(m.Obj, mp.fROm)) {
						continue
					}
					m.Walk(func(x *Term) bool {
						if idx, ok := snaps[x.Key()]; ok && idx > lockIdx {
							good = true
						}
						return true
					})
				}
				// ... or the read map is known to be empty: an empty snapshot was published under this lock before the
				// delete (a Clear), or the snapshot re-read under this lock has length 0
				for j := lockIdx + 1; j < i && j >= 0 && !good; j++ {
					f := &p.Events[j]
					if f.Kind == "call" && isAtomicStoreName(f.Name) && isFieldAddr(f.Args[0], mp.fRead, nil) {
						if m, _, okS := mp.snapshotStored(p, j); okS && (m == nil || m.IsNil() || m.Op == "zero") {
							good = true
						}
						if len(f.Args) == 2 && stripIface(f.Args[1]).Op == "zero" {
							good = true // the zero snapshot: no map at all
						}
					}
				}
				for _, cd := range p.Conds {
					if good || cd.NEv > i {
						continue
					}
					r := cd.Rel()
					if r.B == nil {
						continue
					}
					isLenFresh := func(t *Term) bool {
						if t == nil || t.Op != "builtin" || t.Sym != "len" || len(t.Args) != 1 {
							return false
						}
						m := t.Args[0]
						if !(m.Op == "field" && sameField(m.Obj, mp.fROm)) {
							return false
						}
						fresh := false
						m.Walk(func(x *Term) bool {
							if idx, ok := snaps[x.Key()]; ok && idx > lockIdx {
								fresh = true
							}
							return true
						})
						return fresh
					}
					if (isLenFresh(r.A) && r.B.IsConst("0") && (r.Op == "==" || r.Op == "<=")) || (isLenFresh(r.B) && r.A.IsConst("0") && (r.Op == "==" || r.Op == ">=")) {
						good = true
					}
				}
				if !good {
					s.ok = false
				}
			}
		}
		sort.Strings(order)
		for _, k := range order {
			s := sites[k]
			if s.ok {
				c.R.Held(rule, fi.Name, k, c.ipos(s.pos), "the key deleted from dirty was looked up in the snapshot re-read under this lock and is not in the read map")
			} else {
				o := c.R.Refuted(rule, fi.Name, k, c.ipos(s.pos), "a key is deleted from the dirty map on a path that has not established, under this lock, that the read map does not hold it: its entry stays reachable through the read map, a lock-free store into it succeeds, and the next promotion publishes a map without the key")
				o.Breaks = "a completed Store/LoadOrStore is lost at the next promotion"
			}
		}
	}
}

// ---- range-promotes -------------------------------------------------------------------------

func (mp *mapProto) rangePromotes() {
	c := mp.c
	rule := mp.rule("range-promotes")
	fi := c.fn(rule, mp.pfx+".(*Map).Range")
	if fi == nil {
		return
	}
	ps := mp.paths[fi]
	ok, why := true, ""
	cb := paramOf(fi, 1)
	sawCall, sawSkip, sawBreak := false, false, false
	for _, p := range ps {
		// iteration events must happen with the lock free
		for i := range p.Events {
			e := &p.Events[i]
			if e.Kind == "range" || e.Kind == "next" {
				if held, _, _ := mp.heldAt(p, i); held {
					ok, why = false, "iterates while holding mu"
				}
			}
			if e.Kind == "range" {
				// the iterated map holds every key: it is the promoted dirty map, or the m of a snapshot that the path has
				// found complete (not amended)
				if !mp.isDirtyMap(p, e.Addr) {
					complete := false
					if isFieldLoad(e.Addr, mp.fROm, nil) {
						if snap := fieldBase(e.Addr); snap != nil {
							for _, cd := range p.Conds {
								t, pol := stripNot(cd.T, cd.Pol)
								if !pol && isFieldLoad(t, mp.fROam, nil) && fieldBase(t) != nil && fieldBase(t).Key() == snap.Key() {
									complete = true
								}
							}
						}
					}
					if !complete {
						ok, why = false, "Range iterates a snapshot that it has not found complete (amended not tested false on it): keys that exist only in dirty are never visited ("+p.CondString()+")"
					}
				}
				// when the first snapshot was amended, the iterated map must be the promoted dirty map or a fresh snapshot's m
				m := e.Addr
				snaps := mp.snapshotLoads(p)
				lockIdx := -1
				for j := range p.Events {
					if p.Events[j].Kind == "call" && p.Events[j].Name == "sync.(*Mutex).Lock" {
						lockIdx = j
					}
				}
				if lockIdx >= 0 {
					fresh := mp.isDirtyMap(p, m)
					m.Walk(func(x *Term) bool {
						if idx, has := snaps[x.Key()]; has && idx > lockIdx {
							fresh = true
						}
						return true
					})
					if !fresh {
						ok, why = false, "after taking the lock Range still iterates the snapshot loaded before it"
					}
				}
			}
			if e.Kind == "call" && e.Name == "dyn" && e.Callee.Key() == cb.Key() {
				sawCall = true
				// value passed must come from entry.load of the iterated entry
				if len(e.Args) != 2 || !(e.Args[1].Op == "extract" && e.Args[1].Args[0].Op == "call" && strings.HasSuffix(e.Args[1].Args[0].Sym, "(*entry).load")) {
					ok, why = false, "the callback's value is not read through entry.load"
				} else {
					ld := e.Args[1].Args[0]
					// the ok result of that load must be true on this path
					okTrue := false
					for _, cd := range p.Conds {
						t, pol := stripNot(cd.T, cd.Pol)
						if pol && t.Op == "extract" && t.N == 1 && t.Args[0].Key() == ld.Key() {
							okTrue = true
						}
					}
					if !okTrue {
						ok, why = false, "the callback is invoked for an entry whose load reported deleted"
					}
				}
				// result false -> not a loop back; result true (or not looked at) -> the iteration goes on
				resFalse := false
				for _, cd := range p.Conds {
					t, pol := stripNot(cd.T, cd.Pol)
					if t.Key() == e.Res.Key() {
						if !pol && p.End == EndLoopBack {
							ok, why = false, "continues iterating after the callback returned false"
						}
						if !pol && p.End == EndReturn {
							sawBreak = true
						}
						if !pol {
							resFalse = true
						}
					}
				}
				if p.End == EndReturn && !resFalse {
					ok, why = false, "stops iterating although the callback did not return false: the remaining entries are never visited ("+p.CondString()+")"
				}
			}
		}
		// a path that took the lock must have re-tested amended on the fresh snapshot, and on true iterate the promoted dirty map
		{
			lockIdx := -1
			for j := range p.Events {
				if p.Events[j].Kind == "call" && p.Events[j].Name == "sync.(*Mutex).Lock" {
					lockIdx = j
				}
			}
			if lockIdx >= 0 {
				snaps := mp.snapshotLoads(p)
				tested, amendedTrue := false, false
				for _, cd := range p.Conds {
					t, pol := stripNot(cd.T, cd.Pol)
					if t.Op == "field" && sameField(t.Obj, mp.fROam) {
						fresh := false
						t.Walk(func(x *Term) bool {
							if idx, has := snaps[x.Key()]; has && idx > lockIdx {
								fresh = true
							}
							return true
						})
						if fresh {
							tested = true
							amendedTrue = pol
						}
					}
				}
				if !tested {
					ok, why = false, "after re-reading the snapshot under the lock Range does not test amended: keys that exist only in dirty are never visited"
				}
				if amendedTrue {
					for i := range p.Events {
						e := &p.Events[i]
						if e.Kind == "range" && !mp.isDirtyMap(p, e.Addr) {
							ok, why = false, "the snapshot is still amended under the lock but Range does not iterate the dirty map"
						}
					}
					if len(mp.promotionEvents(p)) == 0 {
						ok, why = false, "the snapshot is still amended under the lock but the dirty map is not promoted"
					}
				}
			}
		}
		// a path that returns without having iterated at all has found the snapshot empty
		if p.End == EndReturn {
			iter := false
			for i := range p.Events {
				if p.Events[i].Kind == "range" {
					iter = true
				}
			}
			if !iter {
				empty := false
				for _, cd := range p.Conds {
					if pl, kind, isInt := cd.Rel().IntNorm(); isInt && (kind == "=" || kind == ">") {
						for _, at := range pl.Atoms {
							if at.Op == "builtin" && at.Sym == "len" && len(at.Args) == 1 && (isFieldLoad(at.Args[0], mp.fROm, nil) || mp.isDirtyMap(p, at.Args[0])) {
								lenM := ToPoly(at)
								if kind == "=" && pl.Equal(canonSign(lenM)) || kind == ">" && pl.Equal(polyConst(1).Add(lenM, -1)) {
									empty = true
								}
							}
						}
					}
				}
				if !empty {
					ok, why = false, "a path of Range ("+p.CondString()+") returns without iterating and without having found the snapshot empty"
				}
			}
		}
		// skip row: load reports !ok -> continue without callback
		for _, cd := range p.Conds {
			t, pol := stripNot(cd.T, cd.Pol)
			if !pol && t.Op == "extract" && t.N == 1 && t.Args[0].Op == "call" && strings.HasSuffix(t.Args[0].Sym, "(*entry).load") && p.End == EndLoopBack {
				sawSkip = true
			}
		}
	}
	if ok && !(sawCall && sawSkip && sawBreak) {
		ok, why = false, fmt.Sprintf("missing row: callback invoked=%v, deleted entries skipped=%v, false stops the loop=%v", sawCall, sawSkip, sawBreak)
	}
	c.R.Decide(ok, rule, fi.Name, "iteration", c.pos(fi), "lock-free iteration of the (promoted) snapshot; values via entry.load; deleted skipped; false stops", why)
}

// ---- no-callback-under-lock --------------------------------------------------------------------

func (mp *mapProto) noCallbackUnderLock() {
	c := mp.c
	rule := mp.rule("no-callback-under-lock")
	for _, fi := range mp.funcs {
		locks := false
		bad := ""
		var pos ssa.Instruction
		for _, p := range mp.paths[fi] {
			for i := range p.Events {
				e := &p.Events[i]
				held, _, _ := mp.heldAt(p, i)
				if e.Kind == "call" && e.Name == "sync.(*Mutex).Lock" {
					locks = true
				}
				if !held && mp.needs[fi] == "" {
					continue
				}
				switch {
				case e.Kind == "call" && e.Name == "dyn":
					bad, pos = "calls a function value while mu is held: "+e.Callee.String(), e.Instr
				case e.Kind == "send" || e.Kind == "recv" || e.Kind == "select":
					bad, pos = "channel operation while mu is held", e.Instr
				case e.Kind == "call" && e.Invoke:
					bad, pos = "interface method call while mu is held", e.Instr
				case e.Kind == "call" && (strings.HasSuffix(e.Name, ").Lock") || strings.HasSuffix(e.Name, ").RLock") || strings.HasSuffix(e.Name, ").Wait")) && held && !(e.Name == "sync.(*Mutex).Lock" && isFieldAddr(e.Args[0], mp.fMu, nil)):
					bad, pos = "blocks on another lock while mu is held", e.Instr
				}
			}
		}
		if !locks && mp.needs[fi] == "" {
			continue
		}
		if bad != "" {
			o := c.R.Refuted(rule, fi.Name, "region", c.ipos(pos), bad)
			o.Breaks = "user code runs under the map's internal mutex: deadlock on re-entry, and one key's holder delays every other key"
		} else {
			c.R.Held(rule, fi.Name, "region", c.pos(fi), "only bounded map code runs while mu is held")
		}
	}
}

// ---- effect-completeness ------------------------------------------------------------------------

func (mp *mapProto) effectCompleteness() {
	c := mp.c
	rule := mp.rule("effect-completeness")
	// one operation per entry and path: a Map method that invokes the same entry operation twice on the same entry
	// reports the second one's answer (LoadOrStore: 'loaded' for the value it has just stored itself)
	for _, fi := range mp.funcs {
		if !mp.isMapRecv(fi) {
			continue
		}
		bad := ""
		nOps := 0
		for _, p := range mp.paths[fi] {
			seen := map[string]bool{}
			for i := range p.Events {
				e := &p.Events[i]
				if e.Kind != "call" || !strings.Contains(e.Name, "(*entry).") || len(e.Args) == 0 || e.Args[0] == nil {
					continue
				}
				nOps++
				k := e.Name + " " + e.Args[0].Key()
				if seen[k] {
					bad = e.String() + " is invoked a second time on the same entry on one path"
				}
				seen[k] = true
			}
		}
		if nOps == 0 {
			continue
		}
		o := c.R.Decide(bad == "", rule, fi.Name, "one-op-per-entry", c.pos(fi), "no entry operation is repeated on the same entry on a path", bad)
		if bad != "" {
			o.Breaks = "the method answers with the result of the repeated operation (loaded=true for its own store, a value deleted twice ...)"
		}
	}
	// Store: every path stores
	if fi := c.fn(rule, "sync2.(*Map).Store"); fi != nil {
		ok, why := true, ""
		for _, p := range mp.paths[fi] {
			if p.End != EndReturn {
				continue
			}
			stored := false
			for _, cd := range p.Conds {
				t, pol := stripNot(cd.T, cd.Pol)
				if pol && t.Op == "call" && strings.HasSuffix(t.Sym, "(*entry).tryStore") {
					stored = true
				}
			}
			for i := range p.Events {
				e := &p.Events[i]
				if e.Kind == "call" && strings.HasSuffix(e.Name, "(*entry).storeLocked") {
					stored = true
				}
				if e.Kind == "mapupdate" && mp.isDirtyMap(p, e.Addr) && e.Val.Op == "call" && strings.HasSuffix(e.Val.Sym, ".newEntry") && len(e.Val.Args) == 1 && isParamOrSpill(p, e.Val.Args[0], 2) && isParam(e.Key, 1) {
					stored = true
				}
				// an entry built in place whose word points at the (heap-allocated) value parameter: newEntry written out
				if e.Kind == "mapupdate" && mp.isDirtyMap(p, e.Addr) && e.Val.Op == "alloc" && isParam(e.Key, 1) {
					for j := 0; j < i; j++ {
						f := &p.Events[j]
						if f.Kind == "store" && isFieldAddr(f.Addr, mp.fP, e.Val) {
							v := stripConv(f.Val)
							for v != nil && (v.Op == "conv" || v.Op == "call" && strings.HasSuffix(v.Sym, "unsafe.Pointer")) && len(v.Args) == 1 {
								v = v.Args[0]
							}
							if v != nil && v.Op == "alloc" {
								// the cell the value parameter was spilled to
								if ld := (&Term{Op: "load", Args: []*Term{v}}); isParamOrSpill(p, ld, 2) {
									stored = true
								}
							}
						}
					}
				}
			}
			if !stored {
				ok, why = false, "a path of Store returns without having stored the value: "+p.CondString()
			}
		}
		o := c.R.Decide(ok, rule, fi.Name, "stores-on-every-path", c.pos(fi), "tryStore succeeded, or storeLocked, or a new entry for (key,value) inserted - on every path", why)
		if !ok {
			o.Breaks = "Store returns but a later Load still sees the old value"
		}
	}
	// Load changes no map: it neither deletes from nor inserts into the dirty map (directly or in a helper walked through)
	if fi := c.fn(rule, "sync2.(*Map).Load"); fi != nil {
		ok, why := true, ""
		for _, p := range mp.paths[fi] {
			for i := range p.Events {
				e := &p.Events[i]
				if e.Kind == "mapupdate" || (e.Kind == "call" && e.Name == "builtin.delete") {
					ok, why = false, "Load writes a map: "+e.String()
				}
			}
		}
		o := c.R.Decide(ok, rule, fi.Name, "reads-only", c.pos(fi), "no map insertion or deletion on any path of Load", why)
		if !ok {
			o.Breaks = "a Load makes a key that only the dirty map holds disappear"
		}
	}
	// Load / LoadAndDelete / LoadOrStore: results come from the entry operation on the entry found after the re-check
	for _, row := range []struct{ name, op string }{{"sync2.(*Map).Load", "(*entry).load"}, {"sync2.(*Map).LoadAndDelete", "(*entry).delete"}, {"sync2.(*Map).LoadOrStore", "(*entry).tryLoadOrStore"}} {
		fi := c.fn(rule, row.name)
		if fi == nil {
			continue
		}
		ok, why := true, ""
		for _, p := range mp.paths[fi] {
			if p.End != EndReturn || len(p.Rets) != 2 {
				ok, why = false, "a path does not return (value, bool)"
				continue
			}
			r0, r1 := p.Rets[0], p.Rets[1]
			fromOp := func(t *Term, n int) bool {
				return t.Op == "extract" && t.N == n && t.Args[0].Op == "call" && strings.HasSuffix(t.Args[0].Sym, row.op)
			}
			switch {
			case fromOp(r0, 0) && fromOp(r1, 1) && r0.Args[0].Key() == r1.Args[0].Key():
				// the entry must be one looked up under `key`
				ent := r0.Args[0].Args[0]
				if !(ent.Op == "extract" && ent.Args[0].Op == "lookup" && isParam(ent.Args[0].Args[1], 1)) {
					ok, why = false, "operates on an entry that was not looked up under the key"
				}
				if row.op == "(*entry).tryLoadOrStore" {
					if len(r0.Args[0].Args) != 2 || !isParamOrSpill(p, r0.Args[0].Args[1], 2) {
						ok, why = false, "tryLoadOrStore is not given the value"
					}
					// its first two results mean something only when the third says so - or when the entry cannot be
					// expunged: under the lock, after the un-expunging helper has been called on it
					call := r0.Args[0]
					handled := false
					for _, cd := range p.Conds {
						t, pol := stripNot(cd.T, cd.Pol)
						if pol && t.Op == "extract" && t.N == 2 && t.Args[0].Key() == call.Key() {
							handled = true
						}
					}
					if !handled {
						for i := range p.Events {
							e := &p.Events[i]
							if e.Kind == "call" && e.Res != nil && e.Res.Key() == call.Key() {
								if held, lockIdx, _ := mp.heldAt(p, i); held {
									for j := lockIdx + 1; j < i; j++ {
										f := &p.Events[j]
										if f.Kind == "call" && strings.HasSuffix(f.Name, "(*entry).unexpungeLocked") && len(f.Args) > 0 && f.Args[0].Key() == ent.Key() {
											handled = true
										}
									}
									// an entry found in dirty only is never expunged
									if mp.isDirtyMap(p, ent.Args[0].Args[0]) {
										handled = true
									}
								}
							}
						}
					}
					if !handled {
						ok, why = false, "returns tryLoadOrStore's value and flag on a path ("+p.CondString()+") that does not know them to be valid: its third result is not true there, and the entry may be expunged"
					}
				}
				// LoadAndDelete: an entry found only in dirty must also be removed from dirty
				if row.op == "(*entry).delete" && mp.isDirtyMap(p, ent.Args[0].Args[0]) {
					del := false
					for i := range p.Events {
						e := &p.Events[i]
						if e.Kind == "call" && e.Name == "builtin.delete" && mp.isDirtyMap(p, e.Args[0]) && isParam(e.Args[1], 1) {
							del = true
						}
					}
					if !del {
						ok, why = false, "an entry found in dirty is deleted without removing the key from dirty"
					}
				}
			case isZeroish(r0) && r1.IsConst("false"):
				// the not-found row: no entry operation result is dropped
				if row.op == "(*entry).tryLoadOrStore" {
					ok, why = false, "LoadOrStore has a path that neither loads nor stores"
				}
			case row.op == "(*entry).tryLoadOrStore" && isParamOrSpill(p, r0, 2) && r1.IsConst("false"):
				// stored a new entry
				ins := false
				for i := range p.Events {
					e := &p.Events[i]
					if e.Kind == "mapupdate" && mp.isDirtyMap(p, e.Addr) && isParam(e.Key, 1) && e.Val.Op == "call" && strings.HasSuffix(e.Val.Sym, ".newEntry") && isParamOrSpill(p, e.Val.Args[0], 2) {
						ins = true
					}
				}
				if !ins {
					ok, why = false, "reports 'stored' without inserting a new entry"
				}
			default:
				ok, why = false, "returns something other than the entry operation's own result: "+r0.String()+", "+r1.String()
			}
		}
		c.R.Decide(ok, rule, fi.Name, "results", c.pos(fi), "returns "+row.op+"'s own result for the entry found under the key (or the not-found row)", why)
	}
	if fi := c.fn(rule, "sync2.(*Map).Delete"); fi != nil {
		ps := mp.paths[fi]
		ok := len(ps) == 1 && len(ps[0].Events) == 1 && ps[0].Events[0].Name == "sync2.(*Map).LoadAndDelete" && isParam(ps[0].Events[0].Args[0], 0) && isParam(ps[0].Events[0].Args[1], 1)
		c.R.Decide(ok, rule, fi.Name, "delegates", c.pos(fi), "Delete = LoadAndDelete(key)", "Delete is not LoadAndDelete(key)")
	}
}

func isAtomicLoadName(n string) bool {
	// sync2.AtomicValue is the library's own typed wrapper of atomic.Value (property C18; when the map uses it the
	// dependency closure runs C18's rules on the wrapper's methods)
	return strings.HasSuffix(n, "atomic.(*Value).Load") || strings.HasSuffix(n, "atomic.(*Pointer).Load") || n == "sync2.(*AtomicValue).Load"
}

func isAtomicStoreName(n string) bool {
	return strings.HasSuffix(n, "atomic.(*Value).Store") || strings.HasSuffix(n, "atomic.(*Pointer).Store") || n == "sync2.(*AtomicValue).Store"
}

// entryOpKind classifies an atomic operation on a pointer word by its name (package-level functions and atomic.Pointer methods).
func entryOpKind(n string) string {
	switch {
	case strings.HasSuffix(n, "atomic.LoadPointer"), strings.HasSuffix(n, "atomic.(*Pointer).Load"):
		return "load"
	case strings.HasSuffix(n, "atomic.StorePointer"), strings.HasSuffix(n, "atomic.(*Pointer).Store"):
		return "store"
	case strings.HasSuffix(n, "atomic.SwapPointer"), strings.HasSuffix(n, "atomic.(*Pointer).Swap"):
		return "swap"
	case strings.HasSuffix(n, "atomic.CompareAndSwapPointer"), strings.HasSuffix(n, "atomic.(*Pointer).CompareAndSwap"):
		return "cas"
	}
	return ""
}

// ---- entry-tables / cas-retry-reloads --------------------------------------------------------
//
// The helpers on one entry decide on the pointer word they loaded. entry-tables checks the result rows against
// the facts the path has about that word; cas-retry-reloads checks that a retry loop looks at the word again.

func (mp *mapProto) entryTables() {
	c := mp.c
	rule := mp.rule("entry-tables")
	rule2 := mp.rule("cas-retry-reloads")
	for _, fi := range mp.funcs {
		if mp.isMapRecv(fi) || len(fi.SSA.Params) == 0 {
			continue
		}
		recv := mp.recv(fi)
		ps := mp.paths[fi]
		isWordOp := func(e *Event) string {
			if e.Kind != "call" || len(e.Args) == 0 || !isFieldAddr(e.Args[0], mp.fP, recv) {
				return ""
			}
			return entryOpKind(e.Name)
		}
		nOps := 0
		for _, p := range ps {
			for i := range p.Events {
				if isWordOp(&p.Events[i]) != "" {
					nOps++
				}
			}
		}
		if nOps == 0 {
			continue
		}
		loops := findLoops(ps)
		isWordTerm := func(t *Term) bool {
			if t == nil {
				return false
			}
			if t.Op == "call" && entryOpKind(t.Sym) == "load" && len(t.Args) == 1 && isFieldAddr(t.Args[0], mp.fP, recv) {
				return true
			}
			if t.Op == "loopvar" {
				for _, li := range loops {
					for phi, lv := range li.LV {
						if lv.Key() == t.Key() {
							in := li.Init[phi]
							return in != nil && in.Op == "call" && entryOpKind(in.Sym) == "load"
						}
					}
				}
			}
			return false
		}
		ok, why := true, ""
		for _, p := range ps {
			if p.End != EndReturn {
				continue
			}
			fact := func(w *Term, op string, exp bool) bool {
				for _, cd := range p.Conds {
					r := cd.Rel()
					if r.B == nil || r.Op != op {
						continue
					}
					a, b := r.A, r.B
					if b.Key() == w.Key() {
						a, b = b, a
					}
					if a.Key() != w.Key() {
						continue
					}
					if exp && mp.isExpunged(b) || !exp && b.IsNil() {
						return true
					}
				}
				return false
			}
			// the latest word value the path has: last load, or the loop variable carrying it
			var latest *Term
			lastOp, lastCAS := "", (*Event)(nil)
			for i := range p.Events {
				e := &p.Events[i]
				switch isWordOp(e) {
				case "load":
					latest, lastOp = e.Res, "load"
				case "cas":
					lastOp, lastCAS = "cas", e
				case "store", "swap":
					lastOp = "store"
				}
			}
			// a loop variable that carries the word (p := load; for cond(p) { ...; p = load }) is the latest value at
			// the loop head; it stays the latest unless the path loads again after entering that head
			lastLoadIdx := -1
			for i := range p.Events {
				if isWordOp(&p.Events[i]) == "load" {
					lastLoadIdx = i
				}
			}
			for _, li := range loops {
				at, entered := p.LoopAt[li.Hdr]
				if !entered || lastLoadIdx >= at {
					continue
				}
				for _, lv := range li.LV {
					if isWordTerm(lv) {
						latest = lv
					}
				}
			}
			casOK := false
			if lastCAS != nil {
				for _, cd := range p.Conds {
					t, pol := stripNot(cd.T, cd.Pol)
					if t.Key() == lastCAS.Res.Key() && pol {
						casOK = true
					}
				}
				for _, r := range p.Rets {
					if r.Key() == lastCAS.Res.Key() {
						casOK = true // the CAS result itself is what is reported
					}
				}
			}
			// (1) a dereference of a word value needs it non-nil and not expunged
			for _, r := range p.Rets {
				r.Walk(func(x *Term) bool {
					if x.Op != "load" || len(x.Args) != 1 {
						return true
					}
					w := x.Args[0]
					for w != nil && w.Op == "conv" {
						w = w.Args[0]
					}
					if !isWordTerm(w) {
						return true
					}
					if !fact(w, "!=", false) || !fact(w, "!=", true) {
						ok, why = false, fmt.Sprintf("a path (%s) returns the value behind a word that it has not found non-nil and not expunged", p.CondString())
					}
					return true
				})
			}
			// (2) "absent" needs the latest word value nil or expunged
			if len(p.Rets) >= 2 && isZeroish(p.Rets[0]) {
				allFalse := true
				for _, r := range p.Rets[1:] {
					if !r.IsConst("false") {
						allFalse = false
					}
				}
				if allFalse {
					if latest == nil || !(fact(latest, "==", false) || fact(latest, "==", true)) {
						ok, why = false, fmt.Sprintf("a path (%s) reports 'absent' although the word it last loaded has not been found nil or expunged", p.CondString())
					}
				}
			}
			// (4) "stored the caller's value, nothing was there" (value parameter, loaded=false, ok=true) needs a successful
			// CAS from nil: from any other old value it overwrites what a concurrent caller stored
			if len(p.Rets) == 3 && p.Rets[0].Op == "param" && p.Rets[1].IsConst("false") && p.Rets[2].IsConst("true") {
				if lastCAS == nil || !casOK || len(lastCAS.Args) != 3 || !lastCAS.Args[1].IsNil() {
					ok, why = false, fmt.Sprintf("a path (%s) reports 'stored, not loaded' without a successful compare-and-swap from nil", p.CondString())
				}
			}
			// (5) a value taken from the word is a value that was found there: the 'loaded'/'ok' flag next to it is true
			derefs := false
			if len(p.Rets) >= 2 {
				p.Rets[0].Walk(func(x *Term) bool {
					if x.Op == "load" && len(x.Args) == 1 {
						w := x.Args[0]
						for w != nil && w.Op == "conv" {
							w = w.Args[0]
						}
						if isWordTerm(w) {
							derefs = true
						}
					}
					return true
				})
				// (the third result, 'handled', may be false next to a found value: the caller then retries under the lock)
				if derefs && p.Rets[1].IsConst("false") && !(len(p.Rets) == 3 && p.Rets[2].IsConst("false")) {
					ok, why = false, fmt.Sprintf("a path (%s) returns the value it found behind the word but reports it as not found", p.CondString())
				}
			}
			// (6) 'handled' (third result true) comes in two forms only: the value found behind the word, or the caller's
			// value after a successful compare-and-swap from nil (4). Anything else - the zero value with ok=true, say -
			// tells the caller to stop although nothing was loaded or stored.
			if len(p.Rets) == 3 && p.Rets[2].IsConst("true") && !derefs && p.Rets[0].Op != "param" {
				ok, why = false, fmt.Sprintf("a path (%s) reports 'handled' with a result that is neither the value behind the word nor the caller's stored value", p.CondString())
			}
			// (8) the reverse of (2): a word last found nil or expunged holds no value - no success, 'found' or 'loaded'
			// may be reported from it (unless a compare-and-swap then put something there)
			if latest != nil && (fact(latest, "==", false) || fact(latest, "==", true)) && !(lastOp == "cas" && casOK) && lastOp != "store" {
				for _, r := range p.Rets {
					if r.IsConst("true") {
						ok, why = false, fmt.Sprintf("a path (%s) reports success or 'found' although the word it last loaded was nil or expunged", p.CondString())
					}
				}
			}
			// (9) the caller's own value handed back means 'stored, not loaded'
			if len(p.Rets) == 3 && p.Rets[0].Op == "param" && p.Rets[1].IsConst("true") {
				ok, why = false, fmt.Sprintf("a path (%s) hands the caller's value back as 'loaded'", p.CondString())
			}
			// (7) ... and a compare-and-swap found successful has changed the word: the path may not tell its caller that
			// nothing happened (the caller then writes a second time, and a value stored in between is overwritten by
			// a write that already took effect once)
			if lastOp == "cas" && lastCAS != nil {
				won := false
				for _, cd := range p.Conds {
					t, pol := stripNot(cd.T, cd.Pol)
					if t.Key() == lastCAS.Res.Key() && pol {
						won = true
					}
				}
				if won && len(p.Rets) > 0 && p.Rets[len(p.Rets)-1].IsConst("false") {
					ok, why = false, fmt.Sprintf("a path (%s) reports failure after a compare-and-swap that succeeded", p.CondString())
				}
			}
			// (3) success reported right after a CAS needs that CAS to have succeeded
			if lastOp == "cas" && !casOK {
				for _, r := range p.Rets {
					if r.IsConst("true") {
						ok, why = false, fmt.Sprintf("a path (%s) reports success after a compare-and-swap that it has not found successful", p.CondString())
					}
				}
			}
		}
		o := c.R.Decide(ok, rule, fi.Name, "rows", c.pos(fi), "result rows agree with what the path knows about the word it loaded", why)
		if !ok {
			o.Breaks = "a present value is reported absent (or the reverse), or an entry is dropped from dirty while it holds a value"
		}
		// retry loops
		if len(loops) > 0 {
			ok2, why2 := true, ""
			for _, li := range loops {
				for _, p := range li.Back {
					at := p.LoopAt[li.Hdr]
					ops, loads := 0, 0
					for i := at; i < len(p.Events); i++ {
						switch isWordOp(&p.Events[i]) {
						case "load":
							loads++
							ops++
						case "cas", "store", "swap":
							ops++
						}
					}
					// a retry is what follows a lost race: an iteration that loops back without a compare-and-swap having
					// failed in it spins for as long as the word stays what it is
					{
						failed := false
						for i := at; i < len(p.Events); i++ {
							e := &p.Events[i]
							if isWordOp(e) != "cas" {
								continue
							}
							for _, cd := range p.Conds {
								t, pol := stripNot(cd.T, cd.Pol)
								if t.Key() == e.Res.Key() && !pol {
									failed = true
								}
							}
						}
						if !failed {
							ok2, why2 = false, fmt.Sprintf("an iteration (%s) loops back without a failed compare-and-swap: nothing changes between two rounds, the loop does not end on a stable word", p.CondString())
						}
					}
					if ops > 0 && loads == 0 {
						ok2, why2 = false, fmt.Sprintf("an iteration (%s) retries without loading the word again: with a concurrent writer the loop decides on a stale value forever", p.CondString())
					}
					// a compare-and-swap from a fixed old value (nil) can only succeed next time if the word holds that
					// value again: the iteration must have seen so in what it loaded last, or the loop spins on a word
					// nobody changes
					var fixedCAS *Event
					var last *Term
					for i := at; i < len(p.Events); i++ {
						e := &p.Events[i]
						switch isWordOp(e) {
						case "cas":
							if len(e.Args) == 3 && (e.Args[1].IsNil() || mp.isExpunged(e.Args[1])) {
								fixedCAS = e
							}
						case "load":
							last = e.Res
						}
					}
					_ = last
					if fixedCAS != nil {
						// seen in this iteration: at its head (a loop variable carrying the loaded word) or in what it
						// loaded after the failed attempt
						seen := false
						for _, cd := range p.Conds {
							r := cd.Rel()
							if r.B == nil || r.Op != "==" || cd.NEv < at {
								continue
							}
							a, b := r.A, r.B
							if isWordTerm(b) {
								a, b = b, a
							}
							if isWordTerm(a) && b.Key() == fixedCAS.Args[1].Key() {
								seen = true
							}
						}
						if !seen {
							ok2, why2 = false, fmt.Sprintf("an iteration (%s) retries a compare-and-swap from %s without having seen that value in the word: while the word holds anything else the loop never ends", p.CondString(), fixedCAS.Args[1])
						}
					}
				}
			}
			o := c.R.Decide(ok2, rule2, fi.Name, "loops", c.pos(fi), "every retry iteration re-reads the word", why2)
			if !ok2 {
				o.Breaks = "livelock under contention"
			}
		}
	}
}

// ---- dirty-copy-complete ---------------------------------------------------------------------
//
// When the dirty map is rebuilt from the read map, every entry is either carried over under its key or known to be
// expunged (the true edge of the expunging helper): an entry that is neither is live in the read map, accepts
// lock-free stores, and is dropped by the next promotion.

func (mp *mapProto) dirtyCopyComplete() {
	c := mp.c
	rule := mp.rule("dirty-copy-complete")
	// the function that creates the dirty map leaves it non-nil on every path: its callers insert right after it
	for fi, why := range mp.dirtyEnsurers() {
		o := c.R.Decide(why == "", rule, fi.Name, "ensures-dirty", c.pos(fi), "every returning path has made the dirty map or found it non-nil", why)
		if why != "" {
			o.Breaks = "the insertion that follows writes to a nil map (panic), or an existing dirty map is thrown away with the keys only it holds"
		}
	}
	// expungers: entry helpers that CAS nil -> expunged
	expunger := map[string]bool{}
	for _, fi := range mp.funcs {
		if mp.isMapRecv(fi) {
			continue
		}
		for _, p := range mp.paths[fi] {
			for i := range p.Events {
				e := &p.Events[i]
				if e.Kind == "call" && entryOpKind(e.Name) == "cas" && len(e.Args) == 3 && mp.isExpunged(e.Args[2]) {
					expunger[fi.Name] = true
				}
			}
		}
	}
	// the expunger's own contract: whatever it reports as true really is an expunged entry
	for _, fi := range mp.funcs {
		if !expunger[fi.Name] {
			continue
		}
		recv := mp.recv(fi)
		ok, why := true, ""
		for _, p := range mp.paths[fi] {
			if p.End != EndReturn || len(p.Rets) != 1 {
				continue
			}
			ret := p.Rets[0]
			if ret.IsConst("false") {
				continue
			}
			var lastCAS *Event
			var latest *Term
			for i := range p.Events {
				e := &p.Events[i]
				if e.Kind != "call" || len(e.Args) == 0 || !isFieldAddr(e.Args[0], mp.fP, recv) {
					continue
				}
				switch entryOpKind(e.Name) {
				case "cas":
					lastCAS = e
				case "load":
					latest, lastCAS = e.Res, nil
				}
			}
			casToExp := lastCAS != nil && len(lastCAS.Args) == 3 && mp.isExpunged(lastCAS.Args[2])
			switch {
			case ret.IsConst("true"):
				good := false
				if casToExp {
					for _, cd := range p.Conds {
						t, pol := stripNot(cd.T, cd.Pol)
						if pol && t.Key() == lastCAS.Res.Key() {
							good = true
						}
					}
				}
				if !good && latest != nil {
					for _, cd := range p.Conds {
						r := cd.Rel()
						if r.B != nil && r.Op == "==" && ((r.A.Key() == latest.Key() && mp.isExpunged(r.B)) || (r.B.Key() == latest.Key() && mp.isExpunged(r.A))) {
							good = true
						}
					}
				}
				if !good {
					ok, why = false, fmt.Sprintf("reports 'expunged' on a path (%s) where neither its CAS to expunged succeeded nor the loaded word equals expunged", p.CondString())
				}
			case casToExp && ret.Key() == lastCAS.Res.Key():
			default:
				r := NormRel(ret, true)
				isEq := r.B != nil && r.Op == "==" && (mp.isExpunged(r.B) || mp.isExpunged(r.A))
				if !isEq {
					ok, why = false, "the reported flag is "+ret.String()+", which is not 'the word equals expunged'"
				}
			}
		}
		o := c.R.Decide(ok, rule, fi.Name, "contract", c.pos(fi), "true only for an entry that is expunged", why)
		if !ok {
			o.Breaks = "a live entry is left out of the new dirty map"
		}
	}
	n := 0
	for _, fi := range mp.funcs {
		if !mp.isMapRecv(fi) {
			continue
		}
		ps := mp.paths[fi]
		rebuilds := false
		for _, p := range ps {
			for i := range p.Events {
				e := &p.Events[i]
				if e.Kind == "store" && mp.isDirtyAddr(e.Addr) && e.Val.Op == "mkmap" {
					rebuilds = true
				}
			}
		}
		if !rebuilds {
			continue
		}
		n++
		ok, why := true, ""
		loops := findLoops(ps)
		sawLoop := false
		// maps created here that become the dirty map on some path (filled first, assigned afterwards)
		futureDirty := map[string]bool{}
		for _, p := range ps {
			for i := range p.Events {
				e := &p.Events[i]
				if e.Kind == "store" && mp.isDirtyAddr(e.Addr) && e.Val.Op == "mkmap" {
					futureDirty[e.Val.Key()] = true
				}
			}
		}
		for _, li := range loops {
			it := c14IterOf(li)
			if it == nil || it.kind != "map" {
				continue
			}
			sawLoop = true
			K := &Term{Op: "extract", N: 1, Args: []*Term{it.next}}
			E := &Term{Op: "extract", N: 2, Args: []*Term{it.next}}
			for _, p := range li.Back {
				copied, expunged := false, false
				for i := p.LoopAt[li.Hdr]; i < len(p.Events); i++ {
					e := &p.Events[i]
					if e.Kind == "mapupdate" && (mp.isDirtyMap(p, e.Addr) || futureDirty[e.Addr.Key()]) && e.Key != nil && e.Key.Key() == K.Key() && e.Val.Key() == E.Key() {
						copied = true
					}
				}
				for _, cd := range p.Conds {
					t, pol := stripNot(cd.T, cd.Pol)
					if pol && t.Op == "call" && expunger[t.Sym] && len(t.Args) >= 1 && t.Args[0].Key() == E.Key() {
						expunged = true
					}
				}
				if !copied && !expunged {
					ok, why = false, fmt.Sprintf("an entry of the read map is neither carried over into the new dirty map nor known expunged (%s): a concurrent lock-free store into it is lost at the next promotion", p.CondString())
				}
				if copied && expunged {
					ok, why = false, "an expunged entry is put into the dirty map"
				}
			}
			// the loop ends when the read map is exhausted, not before
			for _, p := range li.Exit {
				for _, cd := range p.Conds {
					if cd.NEv >= p.LoopAt[li.Hdr] {
						t, pol := stripNot(cd.T, cd.Pol)
						if !(t.Op == "extract" && t.N == 0 && t.Args[0].Op == "next" && !pol) {
							ok, why = false, "the copy loop can be left before every entry of the read map has been looked at ("+p.CondString()+")"
						}
					}
				}
			}
		}
		if ok && !sawLoop {
			ok, why = false, "the dirty map is re-created without copying the read map's entries"
		}
		o := c.R.Decide(ok, rule, fi.Name, "copy-loop", c.pos(fi), "every read-map entry is copied under its key or known expunged", why)
		if !ok {
			o.Breaks = "a stored value disappears after the next promotion"
		}
	}
	_ = n
}

// ---- lookup-justified ------------------------------------------------------------------------
//
// The sequential meaning of the Map methods rests on three facts about every path: an entry is used only if the
// lookup that produced it found something; "the key is absent" is concluded only from a miss in the latest snapshot
// of the read map together with either "that snapshot is complete" (not amended) or a miss in the dirty map; and a
// new entry is put into dirty only after a miss in both.

func (mp *mapProto) lookupJustified() {
	c := mp.c
	rule := mp.rule("lookup-justified")
	for _, fi := range mp.funcs {
		if !mp.isMapRecv(fi) {
			continue
		}
		ps := mp.paths[fi]
		if len(ps) == 0 {
			continue
		}
		// only functions that look a key up
		looks := false
		for _, p := range ps {
			for _, cd := range p.Conds {
				if t, _ := stripNot(cd.T, cd.Pol); t.Op == "extract" && t.N == 1 && t.Args[0].Op == "lookup" {
					looks = true
				}
			}
		}
		if !looks {
			continue
		}
		ok, why := true, ""
		for _, p := range ps {
			// facts, in path order
			type fact struct {
				nc  int
				pol bool
			}
			found := map[string]fact{}  // lookup term key -> presence flag known
			var lastSnap *Term          // the snapshot of the latest read-map lookup
			notIn := map[string]bool{}  // snapshot key -> the key is missing from its map
			amended := map[string]int{} // snapshot key -> 1 amended, -1 not amended
			dirtyMiss, dirtyKnown := false, false
			for ci, cd := range p.Conds {
				t, pol := stripNot(cd.T, cd.Pol)
				if t.Op == "extract" && t.N == 1 && t.Args[0].Op == "lookup" && len(t.Args[0].Args) == 2 {
					lk := t.Args[0]
					if _, seen := found[lk.Key()]; !seen {
						found[lk.Key()] = fact{ci, pol} // the first test of the flag decides when it is known
					}
					m := lk.Args[0]
					if isFieldLoad(m, mp.fROm, nil) {
						snap := fieldBase(m)
						if snap != nil {
							lastSnap = snap
							notIn[snap.Key()] = !pol
						}
					} else if mp.isDirtyMap(p, m) {
						dirtyKnown, dirtyMiss = true, !pol
					}
				}
				if isFieldLoad(t, mp.fROam, nil) {
					if snap := fieldBase(t); snap != nil {
						if pol {
							amended[snap.Key()] = 1
						} else {
							amended[snap.Key()] = -1
						}
					}
				}
			}
			_ = dirtyKnown
			absentKnown := lastSnap != nil && notIn[lastSnap.Key()] && (amended[lastSnap.Key()] == -1 || dirtyMiss)
			// (1) an entry taken from a lookup is used only where the lookup found it
			for i := range p.Events {
				e := &p.Events[i]
				var uses []*Term
				switch e.Kind {
				case "call":
					if strings.Contains(e.Name, "(*entry).") && len(e.Args) > 0 {
						uses = append(uses, e.Args[0])
					}
					// with the entry's methods walked through, the use shows as an operation on a field of the entry
					for _, a := range e.Args {
						if a != nil && a.Op == "faddr" && len(a.Args) == 1 {
							uses = append(uses, a.Args[0])
						}
					}
				case "store":
					if e.Addr != nil && e.Addr.Op == "faddr" && len(e.Addr.Args) == 1 {
						uses = append(uses, e.Addr.Args[0])
					}
				case "mapupdate":
					uses = append(uses, e.Val)
				}
				for _, u := range uses {
					if u != nil && u.Op == "lookup" && len(u.Args) == 2 && e.Kind == "mapupdate" {
						// a single-valued m[k] stored as an entry: nil unless some comma-ok lookup of the same map and key
						// has found it
						good := false
						for _, cd := range p.Conds {
							t, pol := stripNot(cd.T, cd.Pol)
							if pol && t.Op == "extract" && t.N == 1 && t.Args[0].Op == "lookup" && len(t.Args[0].Args) == 2 && t.Args[0].Args[0].Key() == u.Args[0].Key() && t.Args[0].Args[1].Key() == u.Args[1].Key() {
								good = true
							}
						}
						if !good {
							ok, why = false, fmt.Sprintf("a path (%s) stores the result of a plain map lookup as an entry without having found the key present: a nil entry enters the map", p.CondString())
						}
						continue
					}
					if u == nil || !(u.Op == "extract" && u.N == 0 && u.Args[0].Op == "lookup") {
						continue
					}
					f, known := found[u.Args[0].Key()]
					if os.Getenv("TYPCHECK_TRACE") != "" {
						fmt.Printf("TRACE lj %s: %s known=%v pol=%v nc=%d ncond=%d\n", fi.Name, e.Name, known, f.pol, f.nc, e.NCond)
					}
					if !known || !f.pol || f.nc > e.NCond {
						ok, why = false, fmt.Sprintf("a path (%s) uses the entry of a lookup that it has not found present: %s", p.CondString(), e.String())
					}
				}
			}
			// (2) the absent row
			entryOps := 0
			for i := range p.Events {
				if e := &p.Events[i]; e.Kind == "call" && strings.Contains(e.Name, "(*entry).") {
					entryOps++
				}
			}
			// (decided from the lookups alone: where an entry was found and operated on, that operation's own result
			// says whether a value was there - entry-tables, effect-completeness)
			if p.End == EndReturn && len(p.Rets) == 2 && isZeroish(p.Rets[0]) && p.Rets[1].IsConst("false") && !absentKnown && entryOps == 0 {
				ok, why = false, fmt.Sprintf("a path (%s) answers 'absent' without a miss in the latest snapshot of the read map plus either 'not amended' or a miss in dirty", p.CondString())
			}
			// (3) a new entry enters dirty only after a miss in the read map and in dirty
			for i := range p.Events {
				e := &p.Events[i]
				if e.Kind != "mapupdate" || !mp.isDirtyMap(p, e.Addr) {
					continue
				}
				if e.Val.Op == "extract" && e.Val.Args[0].Op == "lookup" {
					continue // an existing entry put back (unexpunge): (1)
				}
				if _, isLoop := e.Key.Val.(*ssa.Extract); isLoop && !isParam(e.Key, 1) {
					continue // rebuilding dirty from the read map (dirty-copy-complete)
				}
				if e.Key == nil || e.Key.Op == "next" || strings.Contains(e.Key.Key(), "next") {
					continue
				}
				if !(lastSnap != nil && notIn[lastSnap.Key()] && dirtyMiss) {
					ok, why = false, fmt.Sprintf("a path (%s) inserts a new entry into dirty without a miss in the read map and in dirty: the entry that other goroutines hold is replaced", p.CondString())
				}
			}
		}
		o := c.R.Decide(ok, rule, fi.Name, "rows", c.pos(fi), "entries used where found; absence and insertion decided by misses in the latest snapshot and in dirty", why)
		if !ok {
			o.Breaks = "a present key is reported absent, a stored value is replaced behind a reader's back, or a nil entry is dereferenced"
		}
	}
}

// fieldBase: the struct value (or pointer) a field read is taken from.
func fieldBase(t *Term) *Term {
	if t == nil {
		return nil
	}
	if t.Op == "field" && len(t.Args) == 1 {
		return t.Args[0]
	}
	if t.Op == "load" && len(t.Args) == 1 && t.Args[0].Op == "faddr" && len(t.Args[0].Args) == 1 {
		return t.Args[0].Args[0]
	}
	return nil
}

// dirtyEnsurers: functions of the map implementation that create the dirty map (store a freshly made map into the
// field). ok[fi] tells whether every returning path leaves dirty non-nil: it stores a made map, or has found
// m.dirty != nil.
func (mp *mapProto) dirtyEnsurers() map[*FuncInfo]string {
	out := map[*FuncInfo]string{}
	for _, fi := range mp.funcs {
		makes := false
		for _, p := range mp.paths[fi] {
			for i := range p.Events {
				e := &p.Events[i]
				if e.Kind == "store" && mp.isDirtyAddr(e.Addr) && e.Val.Op == "mkmap" {
					makes = true
				}
			}
		}
		if !makes {
			continue
		}
		why := ""
		for _, p := range mp.paths[fi] {
			if p.End != EndReturn {
				continue
			}
			good := false
			for i := range p.Events {
				e := &p.Events[i]
				if e.Kind == "store" && mp.isDirtyAddr(e.Addr) {
					good = e.Val.Op == "mkmap"
				}
			}
			if !good {
				for _, cd := range p.Conds {
					r := cd.Rel()
					if r.B != nil && r.Op == "!=" && (r.A.Op == "load" && mp.isDirtyAddr(r.A.Args[0]) && r.B.IsNil() || r.B.Op == "load" && mp.isDirtyAddr(r.B.Args[0]) && r.A.IsNil()) {
						good = true
					}
				}
			}
			if !good {
				why = "a path (" + p.CondString() + ") returns without having made the dirty map or found it non-nil"
			}
		}
		out[fi] = why
	}
	return out
}

// ---- dirty-write-exists ----------------------------------------------------------------------

// dirtyWriteExists: m.dirty[k] = e panics on a nil map. Sequentially the surrounding tests usually make that
// impossible; under concurrency the entry found in the read map may have been un-expunged and the dirty map promoted
// away by others before this goroutine got the lock - so the write is justified only by what the path has
// established under its own lock.
func (mp *mapProto) dirtyWriteExists() {
	c := mp.c
	rule := mp.rule("dirty-write-exists")
	ens := mp.dirtyEnsurers()
	un := mp.unexpungers()
	for _, fi := range mp.funcs {
		type st struct {
			ok  bool
			why string
			pos ssa.Instruction
		}
		sites := map[string]*st{}
		var order []string
		for _, p := range mp.paths[fi] {
			for i := range p.Events {
				e := &p.Events[i]
				if e.Kind != "mapupdate" || !mp.isDirtyMap(p, e.Addr) {
					continue
				}
				k := instrOrdinal(e.Instr)
				s, seen := sites[k]
				if !seen {
					s = &st{ok: true, pos: e.Instr}
					sites[k] = s
					order = append(order, k)
				}
				_, lockIdx, _ := mp.heldAt(p, i)
				good := mp.dirtyKnownBefore(p, lockIdx, i)
				for j := 0; j < i && !good; j++ {
					f := &p.Events[j]
					// created on this path (and not taken away again)
					if f.Kind == "store" && mp.isDirtyAddr(f.Addr) {
						good = f.Val.Op == "mkmap"
						if !good {
							break
						}
					}
					if j <= lockIdx {
						continue
					}
					if f.Kind == "call" && f.SSAFn != nil {
						if gi := c.P.BySSA[f.SSAFn]; gi != nil {
							if _, isE := ens[gi]; isE {
								good = true
							}
							// the true edge of the un-expunging helper
							if un[gi] && gi != fi && f.Res != nil {
								for _, cd := range p.Conds {
									t, pol := stripNot(cd.T, cd.Pol)
									if pol && cd.NEv <= i && t.Key() == f.Res.Key() {
										good = true
									}
								}
							}
						}
					}
				}
				// the un-expunging CAS itself, inline
				if !good {
					for _, g := range mp.privilegedOps(p) {
						if g.what == "unexpunge CAS" && g.n < i && g.n > lockIdx {
							res := p.Events[g.n].Res
							for _, cd := range p.Conds {
								t, pol := stripNot(cd.T, cd.Pol)
								if pol && res != nil && t.Key() == res.Key() {
									good = true
								}
							}
						}
					}
				}
				if !good {
					s.ok = false
					s.why = p.CondString()
				}
			}
		}
		sort.Strings(order)
		for _, k := range order {
			s := sites[k]
			if s.ok {
				c.R.Held(rule, fi.Name, k, c.ipos(s.pos), "the dirty map is known to exist where the entry is written into it")
			} else {
				o := c.R.Refuted(rule, fi.Name, k, c.ipos(s.pos), "an entry is written into the dirty map on a path ("+s.why+") that has not established, under its lock, that the map exists")
				o.Breaks = "assignment to entry in nil map while holding mu: the process panics and the lock is never released"
			}
		}
	}
}

// ---- dirty-lookup-current --------------------------------------------------------------------

func (mp *mapProto) dirtyLookupCurrent() {
	c := mp.c
	rule := mp.rule("dirty-lookup-current")
	promoters := map[*FuncInfo]bool{}
	for _, fi := range mp.funcs {
		if mp.funcPromotes(fi) {
			promoters[fi] = true
		}
	}
	for _, fi := range mp.funcs {
		type st struct {
			ok  bool
			why string
			pos ssa.Instruction
		}
		sites := map[string]*st{}
		var order []string
		for _, p := range mp.paths[fi] {
			for _, a := range p.Acc {
				if a.Kind != "lookup" || !mp.isDirtyMap(p, a.Addr) {
					continue
				}
				k := instrOrdinal(a.Instr)
				s, seen := sites[k]
				if !seen {
					s = &st{ok: true, pos: a.Instr}
					sites[k] = s
					order = append(order, k)
				}
				_, lockIdx, _ := mp.heldAt(p, a.NEv)
				for j := lockIdx + 1; j < a.NEv && j < len(p.Events); j++ {
					if j < 0 {
						continue
					}
					f := &p.Events[j]
					switch {
					case f.Kind == "call" && f.Name == "builtin.delete" && len(f.Args) >= 1 && mp.isDirtyMap(p, f.Args[0]):
						s.ok, s.why = false, "after a delete from the dirty map"
					case f.Kind == "call" && f.SSAFn != nil && c.P.BySSA[f.SSAFn] != nil && promoters[c.P.BySSA[f.SSAFn]] && c.P.BySSA[f.SSAFn] != fi:
						s.ok, s.why = false, "after a call of "+c.P.BySSA[f.SSAFn].Obj.Name()+", which may promote the dirty map (and leave nil behind)"
					case f.Kind == "store" && mp.isDirtyAddr(f.Addr) && f.Val.IsNil():
						s.ok, s.why = false, "after the dirty map was given away"
					}
				}
			}
		}
		sort.Strings(order)
		for _, k := range order {
			s := sites[k]
			if s.ok {
				c.R.Held(rule, fi.Name, k, c.ipos(s.pos), "the dirty map is looked up as it was when the lock was taken")
			} else {
				o := c.R.Refuted(rule, fi.Name, k, c.ipos(s.pos), "the dirty map is looked up "+s.why+": an entry that was there when the lock was taken is reported absent")
				o.Breaks = "a stored key is reported absent (and, for LoadAndDelete, dropped without its value being returned)"
			}
		}
	}
}
