package main

import (
	"fmt"
	"strings"

	"golang.org/x/tools/go/ssa"
)

func init() {
	register(&propSpec{
		id:    "C19",
		level: "other",
		run:   runC19,
		explanation: "Conservation ('reported sent iff sent', 'returned iff taken') is decided from the path summaries over select: by the language's select semantics exactly one arm runs, so a path through the send/receive arm (or the plain statement) IS a transfer and a path through the timer/Done/default arm is not. " +
			"(arm-table) SendTimeout/SendContext: every path performs at most one transfer of the given value on the given channel and returns the CONSTANT true exactly on paths with a transfer and false exactly on paths without; a non-positive timeout takes the un-timed statement. RecvTimeout/RecvContext: a path with a receive returns exactly (received value, its comma-ok), a path without returns (zero,false); never two receives. " +
			"(closed-aware) in RecvQueued/RecvQueuedFull a received value is accumulated only on the true edge of that receive's comma-ok, and on the false edge the function returns what it has; (non-blocking) every receive is an arm of a select with a default arm that returns the accumulated result, the loop is bounded by the limit/buffer length, values are stored in receive order at consecutive positions. " +
			"NOT decided: scheduler fairness between ready arms (either outcome is allowed by the property).",
		assumptions: []string{"Go select semantics: exactly one ready arm (or default) executes; a receive's comma-ok is false exactly for a closed, drained channel"},
	})
}

// selection info of a path: which select arms ran
type armRun struct {
	sel   *Term
	ev    *Event // the select event
	arm   int
	instr *ssa.Select
}

func armsOf(p *Path) []armRun {
	var out []armRun
	sels := map[string]*Event{}
	for i := range p.Events {
		e := &p.Events[i]
		if e.Kind == "select" {
			sels[e.Val.Key()] = e
		}
		if e.Kind == "arm" {
			if se := sels[e.Val.Key()]; se != nil {
				out = append(out, armRun{sel: e.Val, ev: se, arm: e.Arm, instr: se.Instr.(*ssa.Select)})
			}
		}
	}
	return out
}

// untimedSelects: every select on the path can only complete through the given channel (all its other arms are on
// the nil channel, which is never ready) - it behaves like the plain channel operation.
func untimedSelects(p *Path, ch *Term) bool {
	for i := range p.Events {
		e := &p.Events[i]
		if e.Kind != "select" {
			continue
		}
		if e.Val.Sym == "nonblocking" {
			return false
		}
		for _, a := range e.Val.Args {
			if a.Key() != ch.Key() && !a.IsNil() {
				return false
			}
		}
	}
	return true
}

// recvValueTerms for arm k of a select: (value, ok)
func selectRecvTerms(a armRun) (val, ok *Term) {
	// value index: 2 + number of receive states before k
	n := 0
	for i, st := range a.instr.States {
		if i == a.arm {
			break
		}
		if st.Dir == 2 { // types.RecvOnly
			n++
		}
	}
	val = &Term{Op: "extract", Args: []*Term{a.sel}, N: 2 + n}
	ok = &Term{Op: "extract", Args: []*Term{a.sel}, N: 1}
	return
}

func runC19(c *Ctx) {
	R := c.R
	R.Rule("arm-table", "send helpers: constant true exactly on paths with one transfer, false exactly on paths with none; receive helpers: (value, comma-ok) of the one receive, else (zero,false)", 4)
	R.Rule("closed-aware", "queued receivers accumulate a received value only on the true edge of its comma-ok and return what they have on the false edge", 2)
	R.Rule("non-blocking", "queued receivers receive only in a select with a default arm that returns the accumulated result; loop bounded by the limit; consecutive positions", 2)

	c19Senders(c, "arm-table", false)
	// ---- timer-armed: the timer that a select waits on has not been stopped before that select
	R.Rule("timer-armed", "in the timed helpers a timer is not stopped (other than by a deferred call) before the select that waits on it: stopped first, the timeout never fires and a positive timeout waits without limit", 2)
	for _, name := range []string{"chans.SendTimeout", "chans.RecvTimeout"} {
		fi := c.fn("timer-armed", name)
		ps := c.paths("timer-armed", fi)
		if ps == nil {
			continue
		}
		ok, why := true, ""
		for _, p := range ps {
			sel := -1
			for i := range p.Events {
				if p.Events[i].Kind == "select" && sel < 0 {
					sel = i
				}
			}
			for i := range p.Events {
				e := &p.Events[i]
				if e.Kind == "call" && !e.Deferred && (strings.HasSuffix(e.Name, "(*Timer).Stop") || strings.HasSuffix(e.Name, "(*Timer).Reset")) && sel >= 0 && i < sel {
					ok, why = false, "a path calls "+e.Name+" before the select that waits on the timer"
				}
			}
		}
		R.Decide(ok, "timer-armed", fi.Name, "order", c.pos(fi), "the timer is running when the select waits on it", why)
	}
	// ---- receivers
	for _, s := range []struct {
		name       string
		ch         int
		timeoutArg int
	}{{"chans.RecvTimeout", 0, 1}, {"chans.RecvContext", 1, -1}} {
		rule := "arm-table"
		fi := c.fn(rule, s.name)
		ps := c.paths(rule, fi)
		if ps == nil {
			continue
		}
		ch := paramOf(fi, s.ch)
		ok, why := true, ""
		sawR, sawN := false, false
		for _, p := range ps {
			if s.timeoutArg >= 0 && (len(armsOf(p)) == 0 || untimedSelects(p, ch)) && p.End == EndReturn {
				// an un-timed transfer is allowed exactly for timeout <= 0
				tp := ToPoly(paramOf(fi, s.timeoutArg))
				exact := false
				for _, cd := range p.Conds {
					if pl, kind, isInt := cd.Rel().IntNorm(); isInt && kind == ">" {
						if k, isC := polyConst(1).Add(tp, -1).Add(pl, -1).IsConst(); isC && k >= 0 {
							exact = true
						}
					}
				}
				if !exact {
					ok, why = false, "a path transfers without a time limit although timeout <= 0 has not been established on it: a positive timeout is ignored"
				}
			}
			type rc struct{ val, ok *Term }
			var recvs []rc
			for i := range p.Events {
				e := &p.Events[i]
				if e.Kind == "recv" && e.Addr.Key() == ch.Key() && s.timeoutArg < 0 && !doneKnownNil(p) {
					ok, why = false, "a path ("+p.CondString()+") receives outside the select although the context may be cancellable: a cancellation is ignored"
				}
				if e.Kind == "recv" && e.Addr.Key() == ch.Key() {
					if e.Val.Sym == "commaok" {
						recvs = append(recvs, rc{&Term{Op: "extract", Args: []*Term{e.Val}, N: 0}, &Term{Op: "extract", Args: []*Term{e.Val}, N: 1}})
					} else {
						recvs = append(recvs, rc{e.Val, nil})
					}
				}
				if e.Kind == "send" {
					ok, why = false, "sends"
				}
			}
			for _, a := range armsOf(p) {
				st := a.instr.States[a.arm]
				if st.Dir == 2 && a.sel.Args[a.arm].Key() == ch.Key() {
					v, k := selectRecvTerms(a)
					recvs = append(recvs, rc{v, k})
				}
			}
			if p.End != EndReturn || len(p.Rets) != 2 {
				ok, why = false, "a path does not return (value, ok)"
				continue
			}
			if len(recvs) > 1 {
				ok, why = false, "a path receives twice"
				continue
			}
			if len(recvs) == 1 {
				sawR = true
				if recvs[0].ok == nil {
					ok, why = false, "receives without the comma-ok form: a closed channel would count as a value"
				} else if p.Rets[0].Key() != recvs[0].val.Key() || p.Rets[1].Key() != recvs[0].ok.Key() {
					// the same pair spelled out on a path that knows the comma-ok: (value, true) where it is true,
					// (zero, false) where it is false (the value received from a closed channel is the zero value)
					known, val := false, false
					for _, cd := range p.Conds {
						t, pol := stripNot(cd.T, cd.Pol)
						if t.Key() == recvs[0].ok.Key() {
							known, val = true, pol
						}
					}
					same := known && ((val && p.Rets[0].Key() == recvs[0].val.Key() && p.Rets[1].IsConst("true")) ||
						(!val && (isZeroish(p.Rets[0]) || p.Rets[0].Key() == recvs[0].val.Key()) && p.Rets[1].IsConst("false")))
					if !same {
						ok, why = false, fmt.Sprintf("after a receive it returns (%s, %s) instead of the received value and its comma-ok", p.Rets[0], p.Rets[1])
					}
				}
			} else {
				sawN = true
				if !isZeroish(p.Rets[0]) || !p.Rets[1].IsConst("false") {
					ok, why = false, "a path that consumed nothing does not return (zero,false)"
				}
				if s.timeoutArg >= 0 {
					if !positiveTimeoutOnPath(p, paramOf(fi, s.timeoutArg)) {
						ok, why = false, "a path gives up without having established timeout > 0: a zero or negative timeout must wait without limit"
					}
					for _, cd := range p.Conds {
						rl := cd.Rel()
						if rl.B != nil && isParam(rl.A, s.timeoutArg) && rl.B.IsConst("0") && (rl.Op == "<=" || rl.Op == "<" || rl.Op == "==") {
							ok, why = false, "a non-positive timeout can give up without receiving"
						}
					}
				}
			}
		}
		if ok && !(sawR && sawN) {
			ok, why = false, "missing the received or the nothing-received row"
		}
		o := R.Decide(ok, rule, fi.Name, "recv", c.pos(fi), "(value, comma-ok) of the single receive; (zero,false) when nothing was taken", why)
		if !ok {
			o.Breaks = "a value is invented, lost, or a closed channel reported as a value"
		}
	}
	// ---- queued receivers
	for _, s := range []struct {
		name string
		full bool
	}{{"chans.RecvQueued", false}, {"chans.RecvQueuedFull", true}} {
		fi := c.fn("closed-aware", s.name)
		ps := c.paths("closed-aware", fi)
		if ps == nil {
			continue
		}
		ch := paramOf(fi, 0)
		loops := findLoops(ps)
		if len(loops) != 1 {
			R.Unproven("non-blocking", fi.Name, "loop", c.pos(fi), fmt.Sprintf("expected one loop, found %d", len(loops)))
			continue
		}
		li := loops[0]
		okClosed, whyC := true, ""
		okNB, whyN := true, ""
		// the accumulator phi and its bound
		var acc *ssa.Phi
		var cnt *ssa.Phi // RecvQueued only: a separate counter that shadows len(result)
		if len(li.Phis) == 1 {
			acc = li.Phis[0]
		} else if len(li.Phis) == 2 && !s.full {
			// result plus a counter that starts at 0 and goes up by one on every back edge, exactly as the result grows by
			// one element there (checked below): counter == len(result) throughout, so `counter < max` is the same bound
			for _, phi := range li.Phis {
				if isIntegerType(phi.Type()) {
					cnt = phi
				} else {
					acc = phi
				}
			}
			if cnt != nil && acc != nil {
				good := li.Init[cnt] != nil && li.Init[cnt].IsConst("0")
				for _, p := range li.Back {
					if nx := p.Next[cnt]; nx == nil || !ToPoly(nx).Equal(ToPoly(li.LV[cnt]).Add(polyConst(1), 1)) {
						good = false
					}
				}
				if !good {
					acc, cnt = nil, nil
				}
			} else {
				acc, cnt = nil, nil
			}
		}
		if acc == nil {
			R.Unproven("non-blocking", fi.Name, "loop", c.pos(fi), "expected exactly one loop-carried variable (the accumulated result)")
			continue
		}
		lv := li.LV[acc]
		// the position the next value goes to / the accumulated result: RecvQueued: the result slice itself;
		// RecvQueuedFull: Pos = lv + k, taken from the store buf[Pos] (k = 1 for a `for index := range buf` loop)
		pos := ToPoly(lv)
		if s.full {
			buf := paramOf(fi, 1)
			for _, p := range li.Back {
				for i := range p.Events {
					e := &p.Events[i]
					if e.Kind == "store" && e.Addr.Op == "iaddr" && e.Addr.Args[0].Key() == buf.Key() {
						if _, isC := ToPoly(e.Addr.Args[1]).Add(ToPoly(lv), -1).IsConst(); isC {
							pos = ToPoly(e.Addr.Args[1])
						}
					}
				}
			}
		}
		isPos := func(t *Term) bool {
			if s.full {
				return isIntegerType(t.Typ) && ToPoly(t).Equal(pos) || ToPoly(t).Equal(pos)
			}
			return t.Key() == lv.Key()
		}
		// bound
		boundOK := false
		var boundCond *Cond
		if len(li.Back) > 0 {
			// the loop's own condition: the first branch that looks at the loop variable (a guard in front of the loop
			// comes earlier on the path and does not)
			for k := range li.Back[0].Conds {
				if li.Back[0].Conds[k].T.ContainsKey(lv.Key()) || (cnt != nil && li.Back[0].Conds[k].T.ContainsKey(li.LV[cnt].Key())) {
					boundCond = &li.Back[0].Conds[k]
					break
				}
			}
		}
		if boundCond != nil {
			r := boundCond.Rel()
			if pl, kind, isInt := r.IntNorm(); isInt && kind == ">" {
				if s.full {
					lenB := ToPoly(&Term{Op: "builtin", Sym: "len", Args: []*Term{paramOf(fi, 1)}})
					boundOK = pl.Equal(lenB.Add(pos, -1))
				} else {
					lenR := ToPoly(&Term{Op: "builtin", Sym: "len", Args: []*Term{lv}})
					boundOK = pl.Equal(ToPoly(paramOf(fi, 1)).Add(lenR, -1))
					if cnt != nil {
						boundOK = pl.Equal(ToPoly(paramOf(fi, 1)).Add(ToPoly(li.LV[cnt]), -1))
					}
				}
			}
		}
		if !boundOK {
			okNB, whyN = false, "the loop is not bounded by the limit (len(result) < max resp. index < len(buf))"
		}
		init := li.Init[acc]
		if s.full {
			k := pos.Add(ToPoly(lv), -1)
			if init == nil || !ToPoly(init).Add(k, 1).Equal(polyConst(0)) {
				okNB, whyN = false, "the first position is not 0"
			}
		} else if init == nil || !(init.IsNil() || (init.Op == "mkslice" && init.Args[0].IsConst("0"))) {
			okNB, whyN = false, "result does not start empty"
		}
		// the loop bound at the start of the loop (max - 0, resp. len(buf) - 0): an early return is harmless exactly
		// when it is taken only where the loop would not have run either
		var boundAtInit *Poly
		if s.full {
			boundAtInit = ToPoly(&Term{Op: "builtin", Sym: "len", Args: []*Term{paramOf(fi, 1)}})
		} else {
			boundAtInit = ToPoly(paramOf(fi, 1))
		}
		for _, p := range ps {
			if p.LoopIn[li.Hdr] == nil {
				// a guard in front of the loop: no channel operation, the empty result, and a condition under which the
				// loop's own bound is already exhausted (max <= 0, len(buf) == 0)
				harmless := p.End == EndReturn && len(p.Rets) == 1 && len(p.Conds) == 1
				if harmless {
					for i := range p.Events {
						if k := p.Events[i].Kind; k == "recv" || k == "select" || k == "send" || k == "store" {
							harmless = false
						}
					}
					ret := p.Rets[0]
					if s.full {
						harmless = harmless && ret.IsConst("0")
					} else {
						harmless = harmless && (ret.IsNil() || ret.Op == "zero")
					}
					harmless = harmless && impliesNonPositive(p.Conds[0].Rel(), boundAtInit)
				}
				if !harmless {
					okNB, whyN = false, "a path avoids the loop"
				}
				continue
			}
			for i := range p.Events {
				e := &p.Events[i]
				if e.Kind == "recv" {
					okNB, whyN = false, "a plain (blocking) receive"
				}
				if e.Kind == "select" && e.Val.Sym != "nonblocking" {
					okNB, whyN = false, "a select without default (blocking)"
				}
			}
			arms := armsOf(p)
			received := false
			var rv, rok *Term
			for _, a := range arms {
				st := a.instr.States[a.arm]
				if st.Dir == 2 && a.sel.Args[a.arm].Key() == ch.Key() {
					if received {
						okClosed, whyC = false, "two receives in one iteration"
					}
					received = true
					rv, rok = selectRecvTerms(a)
				} else {
					okNB, whyN = false, "a select arm other than the receive from ch"
				}
			}
			// what the iteration does
			accumulates := false
			if p.End == EndLoopBack {
				nx := p.Next[acc]
				accumulates = nx.Key() != lv.Key()
			}
			var stores []*Event
			for i := range p.Events {
				e := &p.Events[i]
				if e.Kind == "store" && !(e.Addr.Op == "iaddr" && e.Addr.Args[0].Op == "alloc") && e.Addr.Op != "alloc" {
					stores = append(stores, e)
				}
			}
			okEdge := ""
			if rok != nil {
				for _, cd := range p.Conds {
					t, pol := stripNot(cd.T, cd.Pol)
					if t.Key() == rok.Key() {
						okEdge = map[bool]string{true: "true", false: "false"}[pol]
					}
				}
			}
			returnsPos := func() bool {
				if p.End != EndReturn || len(p.Rets) != 1 || len(stores) != 0 {
					return false
				}
				if isPos(p.Rets[0]) {
					return true
				}
				return false
			}
			switch {
			case received && okEdge == "true":
				// must accumulate exactly this value and continue
				if p.End != EndLoopBack {
					okNB, whyN = false, "after taking a value the function does not continue the loop"
					break
				}
				nx := p.Next[acc]
				if s.full {
					buf := paramOf(fi, 1)
					good := len(stores) == 1 && stores[0].Addr.Op == "iaddr" && stores[0].Addr.Args[0].Key() == buf.Key() &&
						ToPoly(stores[0].Addr.Args[1]).Equal(pos) && stores[0].Val.Key() == rv.Key() &&
						ToPoly(nx).Equal(ToPoly(lv).Add(polyConst(1), 1))
					if !good {
						okNB, whyN = false, "the received value is not stored at buf[index] with index advancing by one"
					}
				} else {
					good := nx.Op == "builtin" && nx.Sym == "append" && len(nx.Args) == 2 && len(stores) == 0
					if good && nx.Args[0].Key() != lv.Key() {
						// appending to a fresh, empty, pre-sized slice on the path where the accumulator is still nil gives
						// the same sequence of values (a capacity is not a length)
						base := nx.Args[0]
						wasNil := false
						for _, cd := range p.Conds {
							r := cd.Rel()
							if r.B != nil && r.Op == "==" && r.A.Key() == lv.Key() && r.B.IsNil() {
								wasNil = true
							}
						}
						good = wasNil && base.Op == "mkslice" && len(base.Args) >= 1 && base.Args[0].IsConst("0")
					}
					if good {
						// the appended element is the received value
						holds := false
						for i := range p.Events {
							e := &p.Events[i]
							if e.Kind == "store" && e.Addr.Op == "iaddr" && e.Addr.Args[0].Op == "alloc" && e.Val.Key() == rv.Key() {
								holds = true
							}
						}
						good = holds
					}
					if !good {
						okNB, whyN = false, "the received value is not appended to the result"
					}
				}
			case received && okEdge == "false":
				if !returnsPos() {
					okClosed, whyC = false, "on a closed channel the function does not return what it has, unchanged"
				}
			case received:
				if accumulates || len(stores) > 0 {
					okClosed, whyC = false, "a received value is accumulated without testing its comma-ok: a closed channel yields zero values up to the limit"
				} else {
					okClosed, whyC = false, "receive without comma-ok test"
				}
			default:
				// nothing received on this path: default arm or limit reached -> return the accumulated result
				good := returnsPos()
				if !good && s.full && p.End == EndReturn && len(p.Rets) == 1 && len(stores) == 0 && len(arms) == 0 && isLenOf(p.Rets[0], paramOf(fi, 1)) {
					// the loop ran to the end of buf: position == len(buf)
					good = true
				}
				if !good {
					okNB, whyN = false, "a path that received nothing does not return the accumulated result unchanged: "+p.CondString()
				}
			}
		}
		oc := R.Decide(okClosed, "closed-aware", fi.Name, "receive", c.pos(fi), "accumulates only on the comma-ok true edge; returns what it has on the false edge", whyC)
		if !okClosed {
			oc.Breaks = "a closed, drained channel pads the result with zero values"
		}
		R.Decide(okNB, "non-blocking", fi.Name, "loop", c.pos(fi), "bounded loop over a select with default; values kept in receive order at consecutive positions", whyN)
	}
}

// c19Senders decides the send helpers' result tables; C10 re-uses the SendTimeout row, on which its
// delivered-or-timed-out dichotomy rests.
func c19Senders(c *Ctx, rule string, onlyTimeout bool) {
	R := c.R
	for _, s := range []struct {
		name       string
		ch, val    int
		timeoutArg int
	}{{"chans.SendTimeout", 0, 1, 2}, {"chans.SendContext", 1, 2, -1}} {
		if onlyTimeout && s.timeoutArg < 0 {
			continue
		}
		fi := c.fn(rule, s.name)
		ps := c.paths(rule, fi)
		if ps == nil {
			continue
		}
		ch, val := paramOf(fi, s.ch), paramOf(fi, s.val)
		ok, why := true, ""
		sawT, sawF := false, false
		for _, p := range ps {
			if s.timeoutArg >= 0 && (len(armsOf(p)) == 0 || untimedSelects(p, ch)) && p.End == EndReturn {
				// an un-timed transfer is allowed exactly for timeout <= 0
				tp := ToPoly(paramOf(fi, s.timeoutArg))
				exact := false
				for _, cd := range p.Conds {
					if pl, kind, isInt := cd.Rel().IntNorm(); isInt && kind == ">" {
						if k, isC := polyConst(1).Add(tp, -1).Add(pl, -1).IsConst(); isC && k >= 0 {
							exact = true
						}
					}
				}
				if !exact {
					ok, why = false, "a path transfers without a time limit although timeout <= 0 has not been established on it: a positive timeout is ignored"
				}
			}
			n := 0
			for i := range p.Events {
				e := &p.Events[i]
				if e.Kind == "send" && s.timeoutArg < 0 && !doneKnownNil(p) {
					ok, why = false, "a path ("+p.CondString()+") sends outside the select although the context may be cancellable: a cancellation is ignored"
				}
				if e.Kind == "send" {
					if e.Addr.Key() == ch.Key() && e.Val.Key() == val.Key() {
						n++
					} else {
						ok, why = false, "sends something else: "+e.String()
					}
				}
				if e.Kind == "recv" && e.Addr.Key() == ch.Key() {
					ok, why = false, "receives from the channel it should send to"
				}
			}
			for _, a := range armsOf(p) {
				st := a.instr.States[a.arm]
				if st.Dir == 1 { // SendOnly
					if a.sel.Args[a.arm].Key() == ch.Key() && a.ev.Args[a.arm] != nil && a.ev.Args[a.arm].Key() == val.Key() {
						n++
					} else {
						ok, why = false, "a select arm sends something else"
					}
				}
			}
			if p.End == EndLoopBack {
				ok, why = false, "loops"
				continue
			}
			if p.End != EndReturn || len(p.Rets) != 1 {
				ok, why = false, "a path does not return one value"
				continue
			}
			if n > 1 {
				ok, why = false, "a path sends the value more than once: "+p.CondString()
				continue
			}
			r := p.Rets[0]
			if n == 1 {
				sawT = true
				if !r.IsConst("true") {
					ok, why = false, "a path that handed the value over does not return the constant true (returns "+r.String()+")"
				}
			} else {
				sawF = true
				if !r.IsConst("false") {
					ok, why = false, "a path that did not send returns "+r.String()
				}
				// with a non-positive timeout there must be no limit: no untransferred path
				if s.timeoutArg >= 0 {
					if !positiveTimeoutOnPath(p, paramOf(fi, s.timeoutArg)) {
						ok, why = false, "a path gives up without having established timeout > 0: a zero or negative timeout must wait without limit"
					}
					for _, cd := range p.Conds {
						rl := cd.Rel()
						if rl.B != nil && isParam(rl.A, s.timeoutArg) && rl.B.IsConst("0") && (rl.Op == "<=" || rl.Op == "<" || rl.Op == "==") {
							ok, why = false, "a non-positive timeout can give up without sending"
						}
					}
				}
			}
		}
		if ok && !(sawT && sawF) {
			ok, why = false, "missing the sent or the not-sent row"
		}
		if ok && s.timeoutArg >= 0 {
			// some path must be decided by timeout <= 0 and send un-timed
			found := false
			for _, p := range ps {
				for _, cd := range p.Conds {
					rl := cd.Rel()
					if rl.B != nil && isParam(rl.A, s.timeoutArg) && rl.B.IsConst("0") && rl.Op == "<=" && (len(armsOf(p)) == 0 || untimedSelects(p, ch)) {
						found = true
					}
				}
			}
			if !found {
				ok, why = false, "no un-timed path for a non-positive timeout"
			}
		}
		o := R.Decide(ok, rule, fi.Name, "send", c.pos(fi), "true exactly on the paths that performed the one send; false exactly on the others", why)
		if !ok {
			o.Breaks = "a value reported unsent was delivered, or the reverse"
		}
	}
}

// positiveTimeoutOnPath: the path has established timeout > 0 (timeout - k > 0 for some k >= 0).
func positiveTimeoutOnPath(p *Path, timeout *Term) bool {
	tp := ToPoly(timeout)
	for _, cd := range p.Conds {
		if pl, kind, isInt := cd.Rel().IntNorm(); isInt && kind == ">" {
			if k, isC := tp.Add(pl, -1).IsConst(); isC && k >= 0 {
				return true
			}
		}
	}
	return false
}

// impliesNonPositive: the relation r (A op B over integers) implies bound <= 0, by comparing normal forms only:
// D = A - B; D <= 0 or D < 0 with D == bound; D >= 0 or D > 0 with -D == bound; D == 0 with D == +-bound.
func impliesNonPositive(r Rel, bound *Poly) bool {
	if r.B == nil || bound == nil {
		return false
	}
	D := ToPoly(r.A).Add(ToPoly(r.B), -1)
	negD := polyConst(0).Add(D, -1)
	one := polyConst(1)
	switch r.Op {
	case "<=":
		return D.Equal(bound)
	case "<": // D <= -1
		return D.Equal(bound) || D.Add(one, 1).Equal(bound)
	case ">=":
		return negD.Equal(bound)
	case ">":
		return negD.Equal(bound) || negD.Add(one, 1).Equal(bound)
	case "==":
		return D.Equal(bound) || negD.Equal(bound)
	}
	return false
}

// doneKnownNil: the path has found the context's Done channel nil (a context that can never be cancelled): only then is
// a transfer outside a select with the Done arm the same as one inside it.
func doneKnownNil(p *Path) bool {
	for _, cd := range p.Conds {
		r := cd.Rel()
		if r.B == nil || r.Op != "==" {
			continue
		}
		for _, side := range [][2]*Term{{r.A, r.B}, {r.B, r.A}} {
			if side[0].Op == "call" && strings.HasSuffix(side[0].Sym, ".Done") && side[1].IsNil() {
				return true
			}
		}
	}
	return false
}
