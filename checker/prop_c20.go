package main

import (
	"fmt"
	"go/types"
	"math/big"
	"strings"

	"golang.org/x/tools/go/ssa"
)

func init() {
	register(&propSpec{
		id:    "C20",
		level: "other",
		run:   runC20,
		explanation: "Static decision of the numeric/utility helpers from their path summaries (go/ssa, all paths enumerated, loops summarised by one generic iteration). " +
			"(a) order abstraction: Min/Max/Clamp/Clamp01/Compare/Less/Abs touch their arguments only through comparisons, so for EVERY total preorder of the compared values the checker evaluates each path's conditions, picks the path taken and compares the returned term (or the loop's next accumulator) with the definition - this covers all argument values of all Ordered types at once; " +
			"(b) interval abstraction: Digits10's paths are turned into intervals of the magnitude |v| (from the comparisons with constants evaluated by the type checker); each interval must lie within one decade matching the returned count, and the intervals must cover [0,2^64) for negative and non-negative arguments; the magnitude must be computed by widening BEFORE negating (negate-before-widen rule, package-wide); DigitsSign10 must add exactly one exactly on the negative branch; " +
			"(c) fold identities (Sum/Product: start value, operator, full forward range) and the utility tables (Coal, Tern, TernCast, IsZero, Zero, ZeroOf, Ref, DerefZero, IsNil) as path tables. " +
			"NOT decided: wrapping and floating-point semantics of the operators themselves (language), NaN.",
		assumptions: []string{"NaN excluded (as in the property)", "comparison operators of Ordered types are total orders; integer conversion and negation follow the Go specification"},
	})
}

func runC20(c *Ctx) {
	R := c.R
	R.Rule("negate-before-widen", "no negation of a type-parameter-typed (possibly narrow, signed) value flows into a conversion to a wider or unsigned type", 1)
	R.Rule("digits-table", "Digits10: for v<0 and v>=0 the paths partition [0,2^64) of the magnitude into intervals lying in one decade each, returning that decade's digit count; DigitsSign10 = Digits10 + 1 exactly when v<0", 4)
	R.Rule("compare-tables", "Min/Max/Clamp/Clamp01/Compare/Less/Abs return what the definition gives under every total preorder of the compared values", 7)
	R.Rule("fold-identities", "Sum starts at 0 and adds, Product starts at 1 and multiplies, over all arguments in order", 2)
	R.Rule("util-tables", "Coal, Tern, TernCast, IsZero, Zero, ZeroOf, Ref, DerefZero, IsNil match their definitions path by path", 9)

	R.Rule("domain-table", "each numeric helper's type parameter admits every predeclared type of the class the property names (all signed and unsigned integer types incl. uintptr, floats, complex for Sum/Product, string for the ordered helpers), with ~ so that named types are admitted too", 11)
	c20Domain(c)
	c20Negate(c)
	c20Digits(c)
	c20Compare(c)
	c20Fold(c)
	c20Util(c)
}

// --- negate-before-widen -----------------------------------------------------

func isTypeParamOrNarrowSigned(t types.Type) bool {
	if t == nil {
		return false
	}
	if _, ok := t.(*types.TypeParam); ok {
		return true
	}
	return false
}

func c20Negate(c *Ctx) {
	rule := "negate-before-widen"
	n := 0
	for _, fi := range c.P.FuncsOfPkg("") {
		sig := fi.Obj.Type().(*types.Signature)
		if sig.TypeParams() == nil || sig.TypeParams().Len() == 0 {
			continue
		}
		ps := c.paths(rule, fi)
		if ps == nil {
			continue
		}
		// every conversion term on every path
		type hit struct {
			conv *Term
		}
		seen := map[string]bool{}
		bad := []*Term{}
		nconv := 0
		visit := func(t *Term) {
			t.Walk(func(x *Term) bool {
				if x.Op != "conv" || seen[x.Key()] {
					return true
				}
				seen[x.Key()] = true
				if !isTypeParamOrNarrowSigned(x.Args[0].Typ) {
					return true
				}
				nconv++
				// operand contains a negation of a type-parameter-typed value?
				if x.Args[0].Contains(func(y *Term) bool {
					return y.Op == "un" && y.Sym == "-" && isTypeParamOrNarrowSigned(y.Typ)
				}) {
					bad = append(bad, x)
				}
				return true
			})
		}
		for _, p := range ps {
			for _, cd := range p.Conds {
				visit(cd.T)
			}
			for _, e := range p.Events {
				for _, a := range e.Args {
					if a != nil {
						visit(a)
					}
				}
				if e.Val != nil {
					visit(e.Val)
				}
			}
			for _, r := range p.Rets {
				visit(r)
			}
		}
		if nconv == 0 {
			continue
		}
		n++
		if len(bad) > 0 {
			R := c.R.Refuted(rule, fi.Name, "conversions", c.pos(fi), "a value is negated in its own (possibly narrow, signed) type and then converted: the minimum of the type negates to itself, so the widened magnitude is wrong", "conversion: "+bad[0].String())
			R.Breaks = "Digits10(int8(-128)) = 20"
		} else {
			c.R.Held(rule, fi.Name, "conversions", c.pos(fi), fmt.Sprintf("%d conversion(s) of type-parameter values, none of a negated operand", nconv))
		}
	}
	_ = n
}

// --- digits table ------------------------------------------------------------

var two64 = new(big.Int).Lsh(big.NewInt(1), 64)

func digitsOf(n *big.Int) int { return len(n.String()) }

func c20Digits(c *Ctx) {
	rule := "digits-table"
	fi := c.fn(rule, "typ.Digits10")
	ps := c.paths(rule, fi)
	if ps != nil {
		v := &Term{Op: "param", N: 0, Fn: fi.SSA}
		vk := v.Key()
		// magnitude terms accepted: conv[uint64](v) for v>=0 ; -(conv[uint64](v)) for v<0
		isConvV := func(t *Term) bool {
			if t.Op != "conv" || t.Args[0].Key() != vk {
				return false
			}
			b, ok := t.Typ.Underlying().(*types.Basic)
			return ok && b.Kind() == types.Uint64
		}
		for _, sign := range []string{"neg", "nonneg"} {
			type iv struct {
				lo, hi *big.Int
				ret    int64
				p      *Path
			}
			var ivs []iv
			ok := true
			why := ""
			for _, p := range ps {
				if p.End != EndReturn {
					ok, why = false, "path does not return"
					break
				}
				lo, hi := big.NewInt(0), new(big.Int).Set(two64)
				feas := true
				for _, cd := range p.Conds {
					r := cd.Rel()
					if r.B != nil && r.A.Key() == vk && r.B.IsConst("0") && (r.Op == "<" || r.Op == ">=") && (sign == "neg") != (r.Op == "<") {
						feas = false
					}
				}
				if !feas {
					continue
				}
				for _, cd := range p.Conds {
					r := cd.Rel()
					if r.B == nil {
						ok, why = false, "non-relational condition "+r.String()
						break
					}
					// sign test on v
					if r.A.Key() == vk && r.B.IsConst("0") {
						isNeg := r.Op == "<"
						isNonNeg := r.Op == ">="
						if !isNeg && !isNonNeg {
							ok, why = false, "unexpected sign test "+r.String()
							break
						}
						if (sign == "neg") != isNeg {
							feas = false
						}
						continue
					}
					// magnitude comparison with a constant
					mag, cst, op := r.A, r.B, r.Op
					if _, isC := constBig(mag); isC {
						mag, cst, op = r.B, r.A, flipOp(r.Op)
					}
					cv, isC := constBig(cst)
					if !isC {
						ok, why = false, "comparison without constant: "+r.String()
						break
					}
					good := false
					if sign == "nonneg" && isConvV(mag) {
						good = true
					}
					if sign == "neg" && mag.Op == "un" && mag.Sym == "-" && isConvV(mag.Args[0]) {
						good = true
					}
					if !good {
						// the magnitude term of the other sign class on a path of this class
						if feasSignMismatch(mag, isConvV) {
							ok, why = false, "magnitude of the "+sign+" class is computed as "+mag.String()+" (expected "+map[string]string{"neg": "-uint64(v)", "nonneg": "uint64(v)"}[sign]+")"
						} else {
							ok, why = false, "comparison on an unexpected term "+mag.String()
						}
						break
					}
					switch op {
					case "<":
						if cv.Cmp(hi) < 0 {
							hi = cv
						}
					case "<=":
						c1 := new(big.Int).Add(cv, big.NewInt(1))
						if c1.Cmp(hi) < 0 {
							hi = c1
						}
					case ">=":
						if cv.Cmp(lo) > 0 {
							lo = cv
						}
					case ">":
						c1 := new(big.Int).Add(cv, big.NewInt(1))
						if c1.Cmp(lo) > 0 {
							lo = c1
						}
					default:
						ok, why = false, "unsupported operator in "+r.String()
					}
					if !ok {
						break
					}
				}
				if !ok {
					break
				}
				if !feas || lo.Cmp(hi) >= 0 {
					continue
				}
				rv, isInt := int64(0), false
				if len(p.Rets) == 1 {
					rv, isInt = p.Rets[0].IntVal()
				}
				if !isInt {
					ok, why = false, "path returns a non-constant"
					break
				}
				ivs = append(ivs, iv{lo, hi, rv, p})
			}
			inst := "magnitude-" + sign
			if !ok {
				c.R.Unproven(rule, fi.Name, inst, c.pos(fi), "cannot read Digits10 as a table of magnitude intervals: "+why)
				continue
			}
			// each interval inside one decade; union covers [0, 2^64)
			bad := ""
			covered := big.NewInt(0)
			// sort by lo
			for i := range ivs {
				for j := i + 1; j < len(ivs); j++ {
					if ivs[j].lo.Cmp(ivs[i].lo) < 0 {
						ivs[i], ivs[j] = ivs[j], ivs[i]
					}
				}
			}
			for _, x := range ivs {
				if x.lo.Cmp(covered) != 0 {
					bad = fmt.Sprintf("gap or overlap at magnitude %s", covered)
					break
				}
				hiIncl := new(big.Int).Sub(x.hi, big.NewInt(1))
				dl, dh := digitsOf(x.lo), digitsOf(hiIncl)
				if dl != dh || int64(dl) != x.ret {
					bad = fmt.Sprintf("magnitudes %s..%s return %d (they have %d..%d digits)", x.lo, hiIncl, x.ret, dl, dh)
					break
				}
				covered = x.hi
			}
			if bad == "" && covered.Cmp(two64) != 0 {
				bad = fmt.Sprintf("magnitudes from %s upwards are not covered", covered)
			}
			if bad != "" {
				c.R.Refuted(rule, fi.Name, inst, c.pos(fi), "Digits10 table wrong for "+sign+" arguments: "+bad)
			} else {
				c.R.Held(rule, fi.Name, inst, c.pos(fi), fmt.Sprintf("%d intervals partition [0,2^64), each within one decade and returning its digit count", len(ivs)))
			}
		}
	}
	// DigitsSign10
	fs := c.fn(rule, "typ.DigitsSign10")
	ps2 := c.paths(rule, fs)
	if ps2 != nil {
		v := &Term{Op: "param", N: 0, Fn: fs.SSA}
		isDigitsOfV := func(t *Term) bool {
			if t.Op != "call" || t.Sym != "typ.Digits10" || len(t.Args) != 1 {
				return false
			}
			a := t.Args[0]
			return a.Key() == v.Key() || (a.Op == "un" && a.Sym == "-" && a.Args[0].Key() == v.Key())
		}
		for _, sign := range []string{"neg", "nonneg"} {
			verdict, msg := Held, ""
			found := false
			for _, p := range ps2 {
				// classify the path by its sign condition
				cls := ""
				for _, cd := range p.Conds {
					r := cd.Rel()
					if r.B != nil && r.A.Key() == v.Key() && r.B.IsConst("0") {
						if r.Op == "<" {
							cls = "neg"
						} else if r.Op == ">=" {
							cls = "nonneg"
						}
					}
				}
				if cls == "" {
					verdict, msg = Unproven, "a path is not guarded by the sign of the argument: "+p.CondString()
					break
				}
				if cls != sign {
					continue
				}
				found = true
				if p.End != EndReturn || len(p.Rets) != 1 {
					verdict, msg = Unproven, "path does not return one value"
					break
				}
				pl := ToPoly(p.Rets[0])
				// expected: Digits10(±v) + (1 if neg)
				var callAtom *Term
				for _, a := range pl.Atoms {
					if isDigitsOfV(a) {
						callAtom = a
					}
				}
				want := int64(0)
				if sign == "neg" {
					want = 1
				}
				if callAtom == nil || len(pl.Atoms) != 1 || pl.Coef(callAtom.Key()) != 1 {
					verdict, msg = Unproven, "result is not Digits10 of the argument plus a constant: "+p.Rets[0].String()
					break
				}
				if pl.M[""] != want {
					verdict, msg = Refuted, fmt.Sprintf("for %s arguments the result is Digits10%+d, expected %+d", sign, pl.M[""], want)
					break
				}
			}
			if verdict == Held && !found {
				verdict, msg = Unproven, "no path for "+sign+" arguments"
			}
			if msg == "" {
				msg = "Digits10 of the argument" + map[string]string{"neg": " plus one", "nonneg": ""}[sign]
			}
			c.R.add(rule, fs.Name, "sign-"+sign, verdict, c.pos(fs), msg)
		}
	}
}

func feasSignMismatch(mag *Term, isConvV func(*Term) bool) bool {
	return isConvV(mag) || (mag.Op == "un" && mag.Sym == "-" && isConvV(mag.Args[0]))
}

func constBig(t *Term) (*big.Int, bool) {
	if t == nil || t.Op != "const" {
		return nil, false
	}
	n, ok := new(big.Int).SetString(t.Sym, 10)
	return n, ok
}

// --- compare tables ------------------------------------------------------------

func c20Compare(c *Ctx) {
	rule := "compare-tables"
	// Clamp(v, min, max)
	if fi := c.fn(rule, "typ.Clamp"); fi != nil {
		if ps := c.paths(rule, fi); ps != nil {
			sy := []*Term{paramOf(fi, 0), paramOf(fi, 1), paramOf(fi, 2)}
			c20Orderings(c, rule, fi, ps, sy, []string{"v", "lo", "hi"}, func(r []int) bool { return r[1] <= r[2] }, func(r []int) (int, string) {
				switch {
				case r[0] < r[1]:
					return r[1], "lo"
				case r[0] > r[2]:
					return r[2], "hi"
				}
				return r[0], "v"
			})
		}
	}
	if fi := c.fn(rule, "typ.Clamp01"); fi != nil {
		if ps := c.paths(rule, fi); ps != nil {
			zero := &Term{Op: "const", Sym: "0"}
			one := &Term{Op: "const", Sym: "1"}
			sy := []*Term{paramOf(fi, 0), zero, one}
			c20Orderings(c, rule, fi, ps, sy, []string{"v", "0", "1"}, func(r []int) bool { return r[1] < r[2] }, func(r []int) (int, string) {
				switch {
				case r[0] < r[1]:
					return r[1], "0"
				case r[0] > r[2]:
					return r[2], "1"
				}
				return r[0], "v"
			})
		}
	}
	c20CompareLessRows(c, rule, true, true)
	// Abs(v): v<0 -> -v else v
	if fi := c.fn(rule, "typ.Abs"); fi != nil {
		if ps := c.paths(rule, fi); ps != nil {
			v := paramOf(fi, 0)
			zero := &Term{Op: "const", Sym: "0"}
			bad, unk := "", ""
			n := 0
			for _, ranks := range weakOrderings(2) {
				o := Ordering{v.Key(): ranks[0], zero.Key(): ranks[1]}
				sel, u := feasible(ps, o, nil)
				n++
				if u != "" {
					unk = u
					break
				}
				if len(sel) != 1 || sel[0].End != EndReturn || len(sel[0].Rets) != 1 {
					unk = "no unique returning path for " + orderingString([]string{"v", "0"}, ranks)
					break
				}
				ret := sel[0].Rets[0]
				neg := ranks[0] < ranks[1]
				isNegV := ret.Op == "un" && ret.Sym == "-" && ret.Args[0].Key() == v.Key()
				isV := ret.Key() == v.Key()
				if neg && !isNegV || !neg && !(isV || (ranks[0] == ranks[1] && isNegV)) {
					bad = fmt.Sprintf("for %s Abs returns %s", orderingString([]string{"v", "0"}, ranks), ret)
				}
			}
			c20Verdict(c, rule, fi, "orderings", n, bad, unk)
		}
	}
	// Min / Max: loop accumulators
	c20MinMaxRows(c, rule, true, true)
}

// c20CompareLessRows decides typ.Compare and/or typ.Less under every ordering of their two arguments; C01 re-uses the
// Compare row (avl.NewOrdered installs it as the comparator), C07 the Less row (NewSortedOrdered).
func c20CompareLessRows(c *Ctx, rule string, cmp, less bool) {
	if cmp {
		if fi := c.fn(rule, "typ.Compare"); fi != nil {
			if ps := c.paths(rule, fi); ps != nil {
				sy := []*Term{paramOf(fi, 0), paramOf(fi, 1)}
				c20OrderingsConst(c, rule, fi, ps, sy, []string{"a", "b"}, func(r []int) string {
					switch {
					case r[0] > r[1]:
						return "1"
					case r[0] < r[1]:
						return "-1"
					}
					return "0"
				})
			}
		}
	}
	if less {
		if fi := c.fn(rule, "typ.Less"); fi != nil {
			if ps := c.paths(rule, fi); ps != nil {
				sy := []*Term{paramOf(fi, 0), paramOf(fi, 1)}
				c20OrderingsConst(c, rule, fi, ps, sy, []string{"a", "b"}, func(r []int) string {
					if r[0] < r[1] {
						return "true"
					}
					return "false"
				})
			}
		}
	}
}

func isZeroTerm(t *Term) bool {
	return t != nil && (t.Op == "zero" || (t.Op == "const" && (t.Sym == "0" || t.Sym == "nil" || t.Sym == `""` || t.Sym == "false")))
}

// c20ZeroRows decides typ.Zero (and ZeroOf): one path, no effect, the zero value returned. Re-run under the name
// `zero-helper` by every property whose code builds its "nothing" result with typ.Zero.
func c20ZeroRows(c *Ctx, rule string, names ...string) {
	for _, n := range names {
		if fi := c.fn(rule, n); fi != nil {
			if ps := c.paths(rule, fi); ps != nil {
				ok := len(ps) == 1 && ps[0].End == EndReturn && len(ps[0].Rets) == 1 && isZeroTerm(ps[0].Rets[0]) && len(ps[0].Events) == 0
				c.R.Decide(ok, rule, fi.Name, "table", c.pos(fi), "returns the zero value", "does not simply return the zero value of its type parameter (no test, no call, no effect)")
			}
		}
	}
}

func zeroHelper(c *Ctx) {
	c.R.Rule("zero-helper", "typ.Zero, with which this code builds its empty/absent results, returns the zero value of its type parameter on its single path, without any test, call or effect (C20's row, re-run here)", 1)
	c20ZeroRows(c, "zero-helper", "typ.Zero")
}

// c20MinMaxRows decides typ.Min and/or typ.Max; C02 re-uses the Max row, on which calcHeight rests.
func c20MinMaxRows(c *Ctx, rule string, min, max bool) {
	for _, mm := range []struct {
		name string
		less bool
	}{{"typ.Min", true}, {"typ.Max", false}} {
		if (mm.less && !min) || (!mm.less && !max) {
			continue
		}
		fi := c.fn(rule, mm.name)
		ps := c.paths(rule, fi)
		if ps == nil {
			continue
		}
		c20MinMax(c, rule, fi, ps, mm.less)
	}
}

func paramOf(fi *FuncInfo, i int) *Term {
	return &Term{Op: "param", N: i, Fn: fi.SSA, Sym: fi.SSA.Params[i].Name(), Typ: fi.SSA.Params[i].Type()}
}

func c20Verdict(c *Ctx, rule string, fi *FuncInfo, inst string, n int, bad, unk string) {
	switch {
	case unk != "":
		c.R.Unproven(rule, fi.Name, inst, c.pos(fi), "cannot decide by order abstraction: "+unk)
	case bad != "":
		c.R.Refuted(rule, fi.Name, inst, c.pos(fi), bad)
	default:
		c.R.Held(rule, fi.Name, inst, c.pos(fi), fmt.Sprintf("definition met under all %d total preorders of the compared values", n))
	}
}

// c20Orderings: the function returns one of the symbols; want gives the rank the result must have.
func c20Orderings(c *Ctx, rule string, fi *FuncInfo, ps []*Path, sy []*Term, names []string, admit func([]int) bool, want func([]int) (int, string)) {
	bad, unk := "", ""
	n := 0
	for _, ranks := range weakOrderings(len(sy)) {
		if !admit(ranks) {
			continue
		}
		o := Ordering{}
		for i, s := range sy {
			o[s.Key()] = ranks[i]
		}
		n++
		sel, u := feasible(ps, o, nil)
		if u != "" {
			unk = u
			break
		}
		if len(sel) != 1 || sel[0].End != EndReturn || len(sel[0].Rets) != 1 {
			unk = fmt.Sprintf("%d feasible paths for %s", len(sel), orderingString(names, ranks))
			break
		}
		ret := sel[0].Rets[0]
		rr, ok := o[ret.Key()]
		if !ok {
			unk = "returns a term that is not one of the compared values: " + ret.String()
			break
		}
		wr, wn := want(ranks)
		if rr != wr {
			bad = fmt.Sprintf("for %s the result is %s, the definition gives %s", orderingString(names, ranks), ret, wn)
			break
		}
	}
	c20Verdict(c, rule, fi, "orderings", n, bad, unk)
}

// c20OrderingsConst: the function returns a constant (or a relation over the symbols).
func c20OrderingsConst(c *Ctx, rule string, fi *FuncInfo, ps []*Path, sy []*Term, names []string, want func([]int) string) {
	bad, unk := "", ""
	n := 0
	for _, ranks := range weakOrderings(len(sy)) {
		o := Ordering{}
		for i, s := range sy {
			o[s.Key()] = ranks[i]
		}
		n++
		sel, u := feasible(ps, o, nil)
		if u != "" {
			unk = u
			break
		}
		if len(sel) != 1 || sel[0].End != EndReturn || len(sel[0].Rets) != 1 {
			unk = fmt.Sprintf("%d feasible paths for %s", len(sel), orderingString(names, ranks))
			break
		}
		ret := sel[0].Rets[0]
		got := ""
		if ret.Op == "const" {
			got = ret.Sym
		} else {
			v, ok := o.evalRel(NormRel(ret, true))
			if !ok {
				unk = "returns a term that cannot be evaluated: " + ret.String()
				break
			}
			got = fmt.Sprint(v)
		}
		if got != want(ranks) {
			bad = fmt.Sprintf("for %s the result is %s, the definition gives %s", orderingString(names, ranks), got, want(ranks))
			break
		}
	}
	c20Verdict(c, rule, fi, "orderings", n, bad, unk)
}

// c20MinMax: Min(v...) = panic on none; v[0] on one; else fold over the REST of the arguments keeping the smaller.
func c20MinMax(c *Ctx, rule string, fi *FuncInfo, ps []*Path, less bool) {
	v := paramOf(fi, 0)
	lenV := &Term{Op: "builtin", Sym: "len", Args: []*Term{v}}
	// classify paths by the constraints on len(v)
	loops := findLoops(ps)
	inst := "fold"
	if len(loops) != 1 {
		c.R.Unproven(rule, fi.Name, inst, c.pos(fi), fmt.Sprintf("expected one loop, found %d", len(loops)))
		return
	}
	li := loops[0]
	ct := counted(li)
	if ct == nil {
		c.R.Unproven(rule, fi.Name, inst, c.pos(fi), "loop is not driven by an integer induction variable")
		return
	}
	// accumulator phi: the non-index phi
	var acc *ssa.Phi
	for _, phi := range li.Phis {
		if phi != ct.Phi {
			if acc != nil {
				c.R.Unproven(rule, fi.Name, inst, c.pos(fi), "more than one accumulator")
				return
			}
			acc = phi
		}
	}
	if acc == nil {
		c.R.Unproven(rule, fi.Name, inst, c.pos(fi), "no accumulator")
		return
	}
	accLV := li.LV[acc]
	// the iterated slice and its relation to v: over = v[k:] with init = v[j]; all of v must be covered: {j} ∪ [k, len) ⊇ [0,len)
	var over *Term
	if ct.Bound.Op == "builtin" && ct.Bound.Sym == "len" {
		over = ct.Bound.Args[0]
	}
	if over == nil || ct.Step != 1 || ct.Op != "<" {
		c.R.Unproven(rule, fi.Name, inst, c.pos(fi), "loop is not a forward range over a slice")
		return
	}
	first, _ := ct.First.IsConst()
	// over is v or v[k:]
	k := int64(-1)
	if over.Key() == v.Key() {
		k = 0
	} else if over.Op == "slice" && over.Args[0].Key() == v.Key() && over.Args[2].Op == "none" {
		if kv, ok := over.Args[1].IntVal(); ok {
			k = kv
		} else if over.Args[1].Op == "none" {
			k = 0
		}
	}
	if k < 0 {
		c.R.Unproven(rule, fi.Name, inst, c.pos(fi), "iterates over "+over.String()+", not over the arguments")
		return
	}
	start := k + first // first argument index visited by the loop
	init := li.Init[acc]
	initIdx := int64(-1)
	if init != nil && (init.Op == "load" && init.Args[0].Op == "iaddr" && init.Args[0].Args[0].Key() == v.Key()) {
		if iv, ok := init.Args[0].Args[1].IntVal(); ok {
			initIdx = iv
		}
	}
	// coverage: loop visits [start, len); init covers initIdx; need every index < start covered by init: start<=1 and (start==0 or initIdx==0)
	covOK := start == 0 || (start == 1 && initIdx == 0)
	if !covOK {
		c.R.Refuted(rule, fi.Name, "coverage", c.pos(fi), fmt.Sprintf("the scan starts at argument %d with initial candidate %s: some argument is never considered", start, init))
	} else if initIdx < 0 {
		c.R.Unproven(rule, fi.Name, "coverage", c.pos(fi), "initial candidate is not an argument: "+init.String())
	} else {
		c.R.Held(rule, fi.Name, "coverage", c.pos(fi), fmt.Sprintf("candidate starts as argument %d and the loop visits arguments %d..len-1", initIdx, start))
	}
	// step: under every ordering of (elem, acc) the next accumulator is the smaller / larger
	var elem *Term
	for _, p := range li.Back {
		for _, cd := range p.Conds {
			r := cd.Rel()
			if r.B == nil {
				continue
			}
			for _, side := range []*Term{r.A, r.B} {
				if isElemOf(side, over, ct.Idx) {
					elem = side
				}
			}
		}
	}
	if elem == nil {
		c.R.Unproven(rule, fi.Name, inst, c.pos(fi), "the loop does not compare the current element")
		return
	}
	bad, unk := "", ""
	n := 0
	for _, ranks := range weakOrderings(2) {
		o := Ordering{elem.Key(): ranks[0], accLV.Key(): ranks[1]}
		n++
		sel, u := feasible(li.Back, o, func(cd Cond) bool { return !cd.T.ContainsKey(elem.Key()) && !cd.T.ContainsKey(accLV.Key()) })
		if u != "" {
			unk = u
			break
		}
		if len(sel) != 1 {
			unk = fmt.Sprintf("%d feasible iterations for %s", len(sel), orderingString([]string{"elem", "cur"}, ranks))
			break
		}
		next := sel[0].Next[acc]
		nr, ok := o[next.Key()]
		if !ok {
			unk = "next candidate is neither the element nor the current candidate: " + next.String()
			break
		}
		want := ranks[0]
		if less && ranks[1] < want || !less && ranks[1] > want {
			want = ranks[1]
		}
		if nr != want {
			bad = fmt.Sprintf("for %s the next candidate is %s", orderingString([]string{"elem", "cur"}, ranks), next)
			break
		}
	}
	c20Verdict(c, rule, fi, inst, n, bad, unk)
	// exits: returns the accumulator after the loop; the single-argument and no-argument rows
	okRows := true
	msg := ""
	var pair []*Path
	for _, p := range ps {
		if p.End == EndLoopBack {
			continue
		}
		inLoop := p.LoopIn[li.Hdr] != nil
		if inLoop {
			if p.End != EndReturn || len(p.Rets) != 1 || p.Rets[0].Key() != accLV.Key() {
				okRows, msg = false, "after the loop the function does not return the candidate"
			}
			continue
		}
		// pre-loop rows: decided by len(v)
		var lenEq int64 = -1
		for _, cd := range p.Conds {
			r := cd.Rel()
			if r.B != nil && r.A.Key() == lenV.Key() && r.Op == "==" {
				lenEq, _ = r.B.IntVal()
			}
			// len(v) < 1: a length is never negative
			if pl, kind, isInt := r.IntNorm(); isInt && kind == ">" && pl.Equal(polyConst(1).Add(ToPoly(lenV), -1)) {
				lenEq = 0
			}
		}
		switch {
		case p.End == EndPanic && lenEq == 0:
		case p.End == EndReturn && lenEq == 1 && len(p.Rets) == 1 && isElemOf(p.Rets[0], v, intConst(0)):
		case p.End == EndReturn && lenEq == 2 && len(p.Rets) == 1:
			pair = append(pair, p) // the two-argument case written out: decided below as a table over the orderings
		default:
			okRows, msg = false, "unexpected row before the loop: "+p.CondString()
		}
	}
	if len(pair) > 0 && okRows {
		// find the two elements as they are spelled in the conditions and results
		var e0, e1 *Term
		var find func(t *Term)
		find = func(t *Term) {
			if t == nil {
				return
			}
			if isElemOf(t, v, intConst(0)) {
				e0 = t
			} else if isElemOf(t, v, intConst(1)) {
				e1 = t
			}
			for _, a := range t.Args {
				find(a)
			}
		}
		for _, p := range pair {
			for _, cd := range p.Conds {
				find(cd.T)
			}
			find(p.Rets[0])
		}
		if e0 == nil || e1 == nil {
			okRows, msg = false, "the two-argument rows do not compare v[0] with v[1]"
		} else {
			for _, ranks := range weakOrderings(2) {
				o := Ordering{e0.Key(): ranks[0], e1.Key(): ranks[1]}
				sel, u := feasible(pair, o, func(cd Cond) bool { return !cd.T.ContainsKey(e0.Key()) && !cd.T.ContainsKey(e1.Key()) })
				if u != "" || len(sel) != 1 {
					okRows, msg = false, "two-argument rows: cannot decide "+orderingString([]string{"v[0]", "v[1]"}, ranks)+" "+u
					break
				}
				got := sel[0].Rets[0]
				// the loop keeps the earlier argument on ties: so must the table
				want := e0
				if less && ranks[1] < ranks[0] || !less && ranks[1] > ranks[0] {
					want = e1
				}
				if got.Key() != want.Key() {
					okRows, msg = false, "two-argument rows: for "+orderingString([]string{"v[0]", "v[1]"}, ranks)+" the result is "+got.String()
					break
				}
			}
		}
	}
	if okRows {
		c.R.Held(rule, fi.Name, "rows", c.pos(fi), "no argument panics, one argument is returned as is, otherwise the folded candidate is returned")
	} else {
		c.R.Unproven(rule, fi.Name, "rows", c.pos(fi), msg)
	}
}

// --- Sum / Product -------------------------------------------------------------

func c20Fold(c *Ctx) {
	rule := "fold-identities"
	for _, sp := range []struct{ name, op, start string }{{"typ.Sum", "+", "0"}, {"typ.Product", "*", "1"}} {
		fi := c.fn(rule, sp.name)
		ps := c.paths(rule, fi)
		if ps == nil {
			continue
		}
		v := paramOf(fi, 0)
		loops := findLoops(ps)
		if len(loops) != 1 {
			c.R.Unproven(rule, fi.Name, "fold", c.pos(fi), "expected exactly one loop")
			continue
		}
		li := loops[0]
		ct := counted(li)
		if ct == nil || !ct.fullForwardOver(v) {
			c.R.Refuted(rule, fi.Name, "fold", c.pos(fi), "the loop is not a forward range over all arguments")
			continue
		}
		var acc *ssa.Phi
		for _, phi := range li.Phis {
			if phi != ct.Phi {
				acc = phi
			}
		}
		if acc == nil || len(li.Nexts[acc]) != 1 {
			c.R.Unproven(rule, fi.Name, "fold", c.pos(fi), "no single accumulator update")
			continue
		}
		lv := li.LV[acc]
		nx := li.Nexts[acc][0]
		init := li.Init[acc]
		okStep := nx.Op == "bin" && nx.Sym == sp.op &&
			((nx.Args[0].Key() == lv.Key() && isElemOf(nx.Args[1], v, ct.Idx)) || (sp.op != "-" && nx.Args[1].Key() == lv.Key() && isElemOf(nx.Args[0], v, ct.Idx)))
		okInit := init != nil && (init.IsConst(sp.start) || (sp.start == "0" && init.Op == "zero"))
		okRet := true
		for _, p := range li.Exit {
			if p.End != EndReturn || len(p.Rets) != 1 || p.Rets[0].Key() != lv.Key() {
				okRet = false
			}
		}
		// every answer comes out of that loop: a path that returns without having been through it (a shortcut for long
		// argument lists, a recursive split, a special case) computes something else - floating-point + and * are not
		// associative, so even a mathematically equal regrouping is a different result - unless there is nothing to fold
		okAll, whyAll := true, ""
		lenV := ToPoly(&Term{Op: "builtin", Sym: "len", Args: []*Term{v}})
		for _, p := range ps {
			for i := range p.Events {
				if e := &p.Events[i]; (e.Kind == "call" || e.Kind == "go" || e.Kind == "defer") && e.Name != "builtin.len" {
					okAll, whyAll = false, "calls "+e.Name+" ("+p.CondString()+")"
				}
			}
			if p.End != EndReturn {
				continue
			}
			if _, entered := p.LoopAt[li.Hdr]; entered {
				continue
			}
			empty := false
			for _, cd := range p.Conds {
				if pl, kind, isInt := cd.Rel().IntNorm(); isInt && (kind == "=" && pl.Equal(canonSign(lenV)) || kind == ">" && pl.Equal(polyConst(1).Add(lenV, -1))) {
					empty = true
				}
			}
			if !(empty && len(p.Rets) == 1 && (p.Rets[0].IsConst(sp.start) || (sp.start == "0" && p.Rets[0].Op == "zero"))) {
				okAll, whyAll = false, "a path ("+p.CondString()+") answers without folding over the arguments in order"
			}
		}
		c.R.Decide(okStep && okInit && okRet && okAll, rule, fi.Name, "fold", c.pos(fi),
			fmt.Sprintf("starts at %s, accumulates with %s over every argument in order, returns the accumulator", sp.start, sp.op),
			fmt.Sprintf("start=%v step=%v (next=%s) return=%v %s", okInit, okStep, nx, okRet, whyAll))
	}
}

// --- utilities -------------------------------------------------------------------

func c20Util(c *Ctx) {
	rule := "util-tables"
	row := func(fi *FuncInfo, inst string, ok bool, good, bad string) {
		c.R.Decide(ok, rule, fi.Name, inst, c.pos(fi), good, bad)
	}
	isZeroT := isZeroTerm
	c20ZeroRows(c, rule, "typ.Zero", "typ.ZeroOf")
	// Tern / TernCast
	if fi := c.fn(rule, "typ.Tern"); fi != nil {
		if ps := c.paths(rule, fi); ps != nil {
			ok := len(ps) == 2
			for _, p := range ps {
				if len(p.Conds) != 1 || p.End != EndReturn || len(p.Rets) != 1 || !isParam(stripNotTerm(p.Conds[0].T), 0) {
					ok = false
					continue
				}
				_, pol := stripNot(p.Conds[0].T, p.Conds[0].Pol)
				want := 2
				if pol {
					want = 1
				}
				if !isParam(p.Rets[0], want) {
					ok = false
				}
			}
			row(fi, "table", ok, "cond -> ifTrue, else ifFalse", "rows differ from cond -> ifTrue, else ifFalse")
		}
	}
	if fi := c.fn(rule, "typ.TernCast"); fi != nil {
		if ps := c.paths(rule, fi); ps != nil {
			ok := len(ps) == 2
			for _, p := range ps {
				if len(p.Conds) != 1 || p.End != EndReturn || len(p.Rets) != 1 || !isParam(stripNotTerm(p.Conds[0].T), 0) {
					ok = false
					continue
				}
				_, pol := stripNot(p.Conds[0].T, p.Conds[0].Pol)
				if pol {
					r := p.Rets[0]
					if !(r.Op == "tassert" && isParam(r.Args[0], 1) && r.Sym != "commaok") {
						ok = false
					}
				} else if !isParam(p.Rets[0], 2) {
					ok = false
				} else {
					for _, a := range p.Acc {
						if a.Kind == "tassert" {
							ok = false // the cast is evaluated although cond is false: it panics for a value that is not a T
						}
					}
				}
			}
			row(fi, "table", ok, "cond -> value.(T), else ifFalse (no cast on that path)", "rows differ from cond -> value.(T), else ifFalse with the cast evaluated only when cond holds")
		}
	}
	// Ref: fresh cell holding the argument
	if fi := c.fn(rule, "typ.Ref"); fi != nil {
		if ps := c.paths(rule, fi); ps != nil {
			ok := len(ps) == 1 && ps[0].End == EndReturn && len(ps[0].Rets) == 1 && ps[0].Rets[0].Op == "alloc"
			if ok {
				st := eventsOf(ps[0], func(e *Event) bool { return e.Kind == "store" })
				ok = len(st) == 1 && st[0].Addr.Key() == ps[0].Rets[0].Key() && isParam(st[0].Val, 0)
			}
			row(fi, "table", ok, "returns a fresh cell holding the argument", "does not return a fresh cell holding the argument")
		}
	}
	// DerefZero
	if fi := c.fn(rule, "typ.DerefZero"); fi != nil {
		if ps := c.paths(rule, fi); ps != nil {
			ok := len(ps) == 2
			for _, p := range ps {
				if len(p.Conds) != 1 || p.End != EndReturn || len(p.Rets) != 1 {
					ok = false
					continue
				}
				r := p.Conds[0].Rel()
				if r.B == nil || !isParam(r.A, 0) || !(r.B.IsNil() || r.B.Op == "zero") {
					ok = false
					continue
				}
				ret := p.Rets[0]
				if r.Op == "==" {
					if !(isZeroT(ret) || (ret.Op == "call" && ret.Sym == "typ.Zero")) {
						ok = false
					}
				} else if !(ret.Op == "load" && isParam(ret.Args[0], 0)) {
					ok = false
				}
			}
			row(fi, "table", ok, "nil -> zero, else *ptr", "rows differ from nil -> zero, else *ptr")
		}
	}
	// IsNil: conversion to interface compared with nil
	if fi := c.fn(rule, "typ.IsNil"); fi != nil {
		if ps := c.paths(rule, fi); ps != nil {
			ok := false
			if len(ps) == 1 && ps[0].End == EndReturn && len(ps[0].Rets) == 1 {
				r := ps[0].Rets[0]
				if r.Op == "bin" && r.Sym == "==" {
					a, b := stripIface(r.Args[0]), stripIface(r.Args[1])
					ok = (isParam(a, 0) && b.IsNil()) || (isParam(b, 0) && a.IsNil())
				}
			}
			if len(ps) == 2 { // if asAny == nil {return true}; return false
				ok = true
				for _, p := range ps {
					if len(p.Conds) != 1 || len(p.Rets) != 1 {
						ok = false
						continue
					}
					r := p.Conds[0].Rel()
					if r.B == nil || !isParam(stripIface(r.A), 0) || !r.B.IsNil() {
						ok = false
						continue
					}
					if !p.Rets[0].IsConst(fmt.Sprint(r.Op == "==")) {
						ok = false
					}
				}
			}
			row(fi, "table", ok, "reports value-as-interface == nil", "is not value-as-interface == nil")
		}
	}
	// IsZero
	if fi := c.fn(rule, "typ.IsZero"); fi != nil {
		if ps := c.paths(rule, fi); ps != nil {
			ok := true
			why := ""
			sawZero, sawMethod, sawNo := false, false, false
			for _, p := range ps {
				if p.End != EndReturn || len(p.Rets) != 1 {
					ok, why = false, "path does not return"
					continue
				}
				// first condition must be the zero test
				if len(p.Conds) == 0 {
					ok, why = false, "unconditional path"
					continue
				}
				r := p.Conds[0].Rel()
				if r.B == nil || !isParam(r.A, 0) || !isZeroT(r.B) {
					ok, why = false, "first test is not value == zero: "+r.String()
					continue
				}
				if r.Op == "==" {
					sawZero = true
					if !p.Rets[0].IsConst("true") || len(p.Conds) != 1 {
						ok, why = false, "zero value does not yield true at once"
					}
					continue
				}
				// non-zero: method if implemented
				if len(p.Conds) != 2 {
					ok, why = false, "unexpected extra tests"
					continue
				}
				t, pol := stripNot(p.Conds[1].T, p.Conds[1].Pol)
				isAssertOK := t.Op == "extract" && t.N == 1 && t.Args[0].Op == "tassert" && isParam(stripIface(t.Args[0].Args[0]), 0)
				if !isAssertOK {
					ok, why = false, "second test is not the IsZero-method type assertion"
					continue
				}
				if pol {
					sawMethod = true
					ret := p.Rets[0]
					if !(ret.Op == "call" && strings.HasSuffix(ret.Sym, ".IsZero") && len(ret.Args) == 1 && ret.Args[0].Op == "extract" && ret.Args[0].N == 0) {
						ok, why = false, "does not return the IsZero method's result"
					}
				} else {
					sawNo = true
					if !p.Rets[0].IsConst("false") {
						ok, why = false, "non-zero value without the method does not yield false"
					}
				}
			}
			if ok && !(sawZero && sawMethod && sawNo) {
				ok, why = false, "a row is missing"
			}
			row(fi, "table", ok, "== zero -> true; else the IsZero method if implemented; else false", why)
		}
	}
	// Coal: first non-zero, else zero
	if fi := c.fn(rule, "typ.Coal"); fi != nil {
		if ps := c.paths(rule, fi); ps != nil {
			v := paramOf(fi, 0)
			loops := findLoops(ps)
			ok, why := true, ""
			if len(loops) != 1 {
				ok, why = false, "expected one loop"
			} else {
				li := loops[0]
				ct := counted(li)
				if ct == nil || !ct.fullForwardOver(v) {
					ok, why = false, "not a forward range over all arguments"
				} else {
					for _, p := range ps {
						elemCond := ""
						for _, cd := range p.Conds {
							r := cd.Rel()
							if r.B != nil && isElemOf(r.A, v, ct.Idx) && isZeroT(r.B) {
								elemCond = r.Op
							}
						}
						switch {
						case p.End == EndLoopBack:
							if elemCond != "==" {
								ok, why = false, "continues although the element is not known to be zero"
							}
						case p.End == EndReturn && elemCond == "!=":
							if len(p.Rets) != 1 || !isElemOf(p.Rets[0], v, ct.Idx) {
								ok, why = false, "on a non-zero element it does not return that element"
							}
						case p.End == EndReturn && elemCond == "":
							if len(p.Rets) != 1 || !isZeroT(p.Rets[0]) {
								ok, why = false, "when exhausted it does not return zero"
							}
						default:
							ok, why = false, "unexpected path "+p.CondString()
						}
					}
				}
			}
			row(fi, "table", ok, "first non-zero argument, else zero", why)
		}
	}
}

func stripNotTerm(t *Term) *Term {
	t, _ = stripNot(t, true)
	return t
}

// --- domain-table ------------------------------------------------------------
//
// "For every ordered or numeric type ... for every value of every integer type": the helpers must ACCEPT those types.
// The type set of each helper's type parameter (its constraint, flattened through embedded constraints and unions)
// must contain, with the ~ that admits named types, every predeclared type of the stated class. A constraint that
// loses a term (uintptr dropped from Unsigned, a ~ removed) makes the helper reject types the property quantifies
// over - at compile time, for every caller - while nothing inside the function bodies changes.

var c20Kinds = map[string][]types.BasicKind{
	"signed":   {types.Int, types.Int8, types.Int16, types.Int32, types.Int64},
	"unsigned": {types.Uint, types.Uint8, types.Uint16, types.Uint32, types.Uint64, types.Uintptr},
	"float":    {types.Float32, types.Float64},
	"complex":  {types.Complex64, types.Complex128},
	"string":   {types.String},
}

// typeSetTerms flattens a constraint into its union terms (basic kind -> tilde?); ok=false when a term is not a
// basic type (then the set is not one of the numeric classes and the rule does not apply).
func typeSetTerms(t types.Type, out map[types.BasicKind]bool, depth int) bool {
	if depth > 8 {
		return false
	}
	switch u := t.(type) {
	case *types.Named:
		return typeSetTerms(u.Underlying(), out, depth+1)
	case *types.Alias:
		return typeSetTerms(types.Unalias(u), out, depth+1)
	case *types.Interface:
		if u.NumMethods() > 0 {
			return false
		}
		if u.NumEmbeddeds() == 0 {
			return false // any / comparable: everything
		}
		if u.NumEmbeddeds() > 1 {
			return false // an intersection; not used by these constraints
		}
		return typeSetTerms(u.EmbeddedType(0), out, depth+1)
	case *types.Union:
		for i := 0; i < u.Len(); i++ {
			tm := u.Term(i)
			if b, ok := tm.Type().(*types.Basic); ok {
				// a term without ~ admits only the predeclared type itself; record tilde-ness by keeping the strongest
				if tm.Tilde() {
					out[b.Kind()] = true
				} else if _, seen := out[b.Kind()]; !seen {
					out[b.Kind()] = false
				}
				continue
			}
			if !typeSetTerms(tm.Type(), out, depth+1) {
				return false
			}
		}
		return true
	case *types.Basic:
		if _, seen := out[u.Kind()]; !seen {
			out[u.Kind()] = false
		}
		return true
	}
	return false
}

func c20Domain(c *Ctx) {
	rule := "domain-table"
	rows := []struct {
		fn      string
		classes []string
	}{
		{"typ.Min", []string{"signed", "unsigned", "float", "string"}},
		{"typ.Max", []string{"signed", "unsigned", "float", "string"}},
		{"typ.Clamp", []string{"signed", "unsigned", "float", "string"}},
		{"typ.Compare", []string{"signed", "unsigned", "float", "string"}},
		{"typ.Less", []string{"signed", "unsigned", "float", "string"}},
		{"typ.Clamp01", []string{"signed", "unsigned", "float"}},
		{"typ.Abs", []string{"signed", "unsigned", "float"}},
		{"typ.Sum", []string{"signed", "unsigned", "float", "complex"}},
		{"typ.Product", []string{"signed", "unsigned", "float", "complex"}},
		{"typ.Digits10", []string{"signed", "unsigned"}},
		{"typ.DigitsSign10", []string{"signed", "unsigned"}},
	}
	for _, row := range rows {
		fi := c.fn(rule, row.fn)
		if fi == nil {
			continue
		}
		sig := fi.Obj.Type().(*types.Signature)
		if sig.TypeParams().Len() < 1 {
			c.R.Refuted(rule, fi.Name, "type-set", c.pos(fi), "the helper is no longer generic: it accepts one type instead of every type of its class")
			continue
		}
		set := map[types.BasicKind]bool{}
		cons := sig.TypeParams().At(0).Constraint()
		if !typeSetTerms(cons, set, 0) {
			// any/comparable or a constraint with methods: wider or of another kind than the numeric classes
			if iface, ok := cons.Underlying().(*types.Interface); ok && iface.NumEmbeddeds() == 0 && iface.NumMethods() == 0 {
				c.R.Held(rule, fi.Name, "type-set", c.pos(fi), "unconstrained: admits every type")
			} else {
				c.R.Unproven(rule, fi.Name, "type-set", c.pos(fi), "cannot flatten the constraint "+cons.String()+" into basic terms")
			}
			continue
		}
		var missing []string
		for _, cl := range row.classes {
			for _, k := range c20Kinds[cl] {
				tilde, ok := set[k]
				name := types.Typ[k].Name()
				if !ok {
					missing = append(missing, name)
				} else if !tilde {
					missing = append(missing, "~"+name+" (only the predeclared type is admitted, named types over it are not)")
				}
			}
		}
		c.R.Decide(len(missing) == 0, rule, fi.Name, "type-set", c.pos(fi), "the type parameter admits every "+strings.Join(row.classes, "/")+" type, named types included",
			"the constraint "+cons.String()+" no longer admits "+strings.Join(missing, ", ")+": the helper rejects types the property quantifies over")
	}
}
