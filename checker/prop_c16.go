package main

import (
	"fmt"
	"strings"
)

func init() {
	register(&propSpec{
		id:    "C16",
		level: "other",
		run:   runC16,
		explanation: "Queue and Stack are thin wrappers; the property is the shape of the wrapper plus the behaviour of what it wraps. Decided on every path of every method (go/ssa path summaries): " +
			"Queue.Enqueue performs exactly one insertion at one end of the wrapped List, Dequeue and Peek read the OPPOSITE end with the SAME accessor, Dequeue removes exactly the element it read and returns its value, Peek changes nothing, the empty rows return (zero,false) without touching state, Len delegates; no method keeps state outside the List. " +
			"Stack.Push appends the value to *s, Pop/Peek read index len-1 of the slice as it was before any write, Pop truncates to [:len-1] and nothing else, nil/empty rows return (zero,false) with no store. " +
			"With List's behaviour (C06: validated equal to container/list) and append/slice semantics this gives FIFO/LIFO for every history. NOT decided: nothing further, given C06 and the language semantics of append.",
		assumptions: []string{"lists.List behaves as container/list (property C06, checked separately)", "Go semantics of append and slicing"},
	})
}

func runC16(c *Ctx) {
	R := c.R
	R.Rule("queue-ends", "Enqueue inserts at one end of the list; Dequeue and Peek read the opposite end with the same accessor; Dequeue removes exactly what it read; nothing else is touched", 3)
	R.Rule("stack-end", "Push appends; Pop and Peek read index len-1 of the slice as loaded before any write; Pop truncates to [:len-1]", 3)
	R.Rule("empty-guard", "empty (or nil) containers yield (zero,false) on a path without any state change", 4)
	R.Rule("len", "Queue.Len delegates to the list's Len", 1)
	runC06On(c, "list/", []string{"container/list"}, 20)
	R.Rule("no-extra-state", "Queue holds nothing but the List (no side storage that could reorder or resurrect elements)", 1)

	R.Rule("method-frame", "every function of package lists, other than the modelled Queue/Stack methods, that has a Queue or a Stack as receiver or parameter writes nothing but its own locals (effect summary): no added method or helper changes the container behind Push/Pop/Enqueue/Dequeue", 0)
	typeFrame(c, "method-frame", "lists", []string{"Queue", "Stack"}, map[string]bool{
		"lists.(*Queue).Enqueue": true, "lists.(*Queue).Dequeue": true, "lists.(*Queue).Peek": true, "lists.(*Queue).Len": true,
		"lists.(*Stack).Push": true, "lists.(*Stack).Pop": true, "lists.(*Stack).Peek": true})

	listField := c.P.FieldOf("lists", "Queue", "list")
	if listField == nil {
		R.Unproven("queue-ends", "lists.Queue", "anchor", "", "Queue has no field named list")
		return
	}
	// no-extra-state: struct has exactly the one List field
	if n := c.P.NamedType("lists", "Queue"); n != nil {
		st := n.Underlying().(interface{ NumFields() int })
		R.Decide(st.NumFields() == 1 && strings.Contains(typeStr(listField.Type()), "List["), "no-extra-state", "lists.Queue", "fields", "",
			"Queue's only field is the List", fmt.Sprintf("Queue has %d fields; state kept outside the List is not covered by the FIFO argument", st.NumFields()))
	}

	enq := c.fn("queue-ends", "lists.(*Queue).Enqueue")
	deq := c.fn("queue-ends", "lists.(*Queue).Dequeue")
	peek := c.fn("queue-ends", "lists.(*Queue).Peek")
	qlen := c.fn("len", "lists.(*Queue).Len")

	isListAddr := func(t *Term) bool {
		return t != nil && t.Op == "faddr" && sameField(t.Obj, listField) && isParam(t.Args[0], 0)
	}
	isZeroRet := func(t *Term) bool {
		return t != nil && (t.Op == "zero" || (t.Op == "call" && t.Sym == "typ.Zero") || (t.Op == "const" && (t.Sym == "0" || t.Sym == "nil" || t.Sym == `""` || t.Sym == "false")))
	}

	pushEnd := "" // "Front" or "Back"
	if ps := c.paths("queue-ends", enq); ps != nil {
		ok := len(ps) == 1
		why := "more than one path"
		if ok {
			p := ps[0]
			var muts []*Event
			for i := range p.Events {
				e := &p.Events[i]
				if e.Kind == "store" && (e.Addr.Op == "iaddr" && e.Addr.Args[0].Op == "alloc") {
					continue
				}
				muts = append(muts, e)
			}
			if len(muts) == 1 && muts[0].Kind == "call" && (muts[0].Name == "lists.(*List).PushFront" || muts[0].Name == "lists.(*List).PushBack") &&
				len(muts[0].Args) == 2 && isListAddr(muts[0].Args[0]) && isParam(muts[0].Args[1], 1) {
				pushEnd = strings.TrimPrefix(muts[0].Name, "lists.(*List).Push")
			} else {
				ok, why = false, "Enqueue is not exactly one PushFront/PushBack of the value on the list"
			}
		}
		R.Decide(ok, "queue-ends", enq.Name, "insert", c.pos(enq), "one Push"+pushEnd+"(value) on the list, nothing else", why)
	}
	readEnd := map[string]string{"Front": "Back", "Back": "Front"}[pushEnd]
	for _, fi := range []*FuncInfo{deq, peek} {
		if fi == nil {
			continue
		}
		ps := c.paths("queue-ends", fi)
		if ps == nil {
			continue
		}
		if pushEnd == "" {
			R.Unproven("queue-ends", fi.Name, "read", c.pos(fi), "Enqueue's end is unknown")
			continue
		}
		okRead, okEmpty := true, true
		why, whyE := "", ""
		sawFull, sawEmpty := false, false
		for _, p := range ps {
			calls := eventsOf(p, func(e *Event) bool { return e.Kind != "call" || e.Name != "typ.Zero" })
			if len(calls) == 0 || calls[0].Kind != "call" || calls[0].Name != "lists.(*List)."+readEnd || !isListAddr(calls[0].Args[0]) {
				okRead, why = false, "does not start by reading the "+readEnd+" of the list (Enqueue pushes at the "+pushEnd+")"
				continue
			}
			elem := calls[0].Res
			// classify by the nil test on elem
			cls := ""
			for _, cd := range p.Conds {
				r := cd.Rel()
				if r.B != nil && r.A.Key() == elem.Key() && r.B.IsNil() {
					cls = r.Op
				}
			}
			if p.End != EndReturn || len(p.Rets) != 2 {
				okRead, why = false, "path does not return (value, ok)"
				continue
			}
			switch cls {
			case "==":
				sawEmpty = true
				if len(calls) != 1 || !isZeroRet(p.Rets[0]) || !p.Rets[1].IsConst("false") {
					okEmpty, whyE = false, "the empty row is not: no state change, return (zero,false)"
				}
			case "!=":
				sawFull = true
				if !p.Rets[1].IsConst("true") {
					okRead, why = false, "non-empty row does not report true"
				}
				val := p.Rets[0]
				isElemValue := val.Op == "load" && val.Args[0].Op == "faddr" && val.Args[0].Obj.Name() == "Value" && val.Args[0].Args[0].Key() == elem.Key()
				if fi == peek {
					if len(calls) != 1 || !isElemValue {
						okRead, why = false, "Peek must return the read element's value and change nothing"
					}
				} else {
					// List.Remove written out: `if e.list == l { l.remove(e) }; return e.Value` (what Remove itself does)
					inlineRemove := false
					{
						owned := ""
						for _, cd := range p.Conds {
							r := cd.Rel()
							if r.B == nil || (r.Op != "==" && r.Op != "!=") {
								continue
							}
							a, b := r.A, r.B
							if isListAddr(a) {
								a, b = b, a
							}
							if a.Op == "load" && a.Args[0].Op == "faddr" && a.Args[0].Obj.Name() == "list" && a.Args[0].Args[0].Key() == elem.Key() && isListAddr(b) {
								owned = r.Op
							}
						}
						switch owned {
						case "==":
							inlineRemove = len(calls) == 2 && calls[1].Kind == "call" && calls[1].Name == "lists.(*List).remove" && isListAddr(calls[1].Args[0]) && calls[1].Args[1].Key() == elem.Key() && isElemValue
						case "!=":
							inlineRemove = len(calls) == 1 && isElemValue
						}
					}
					if inlineRemove {
						// accepted
					} else if len(calls) != 2 || calls[1].Kind != "call" || calls[1].Name != "lists.(*List).Remove" || !isListAddr(calls[1].Args[0]) || calls[1].Args[1].Key() != elem.Key() {
						okRead, why = false, "Dequeue must remove exactly the element it read (one Remove of it) and do nothing else"
					} else if !(val.Key() == calls[1].Res.Key() || isElemValue) {
						okRead, why = false, "Dequeue does not return the removed element's value"
					}
				}
			default:
				okRead, why = false, "path is not decided by the nil test of the element read"
			}
		}
		if okRead && !sawFull {
			okRead, why = false, "no non-empty row"
		}
		if okEmpty && !sawEmpty {
			okEmpty, whyE = false, "no empty row"
		}
		R.Decide(okRead, "queue-ends", fi.Name, "read", c.pos(fi), "reads the "+readEnd+" (opposite of Push"+pushEnd+"), acts on exactly that element", why)
		R.Decide(okEmpty, "empty-guard", fi.Name, "empty", c.pos(fi), "nil element -> (zero,false), nothing changed", whyE)
	}
	if ps := c.paths("len", qlen); ps != nil {
		ok := len(ps) == 1 && len(ps[0].Events) == 1 && ps[0].Events[0].Name == "lists.(*List).Len" && isListAddr(ps[0].Events[0].Args[0]) &&
			len(ps[0].Rets) == 1 && ps[0].Rets[0].Key() == ps[0].Events[0].Res.Key()
		R.Decide(ok, "len", qlen.Name, "delegates", c.pos(qlen), "returns list.Len()", "does not simply return list.Len()")
	}

	// ---- Stack
	push := c.fn("stack-end", "lists.(*Stack).Push")
	pop := c.fn("stack-end", "lists.(*Stack).Pop")
	speek := c.fn("stack-end", "lists.(*Stack).Peek")
	if ps := c.paths("stack-end", push); ps != nil {
		// what append does when there is room, spelled out: *s = (*s)[:len+1]; (*s)[len] = value
		{
			var rest []*Path
			for _, p := range ps {
				if !c16PushInPlace(p) && !c16PushPresized(p) {
					rest = append(rest, p)
				}
			}
			if len(rest) > 0 {
				ps = rest
			}
		}
		ok, why := len(ps) == 1, "more than one path"
		if ok {
			p := ps[0]
			var sts []*Event
			for i := range p.Events {
				e := &p.Events[i]
				if e.Kind == "store" && isParam(e.Addr, 0) {
					sts = append(sts, e)
				} else if e.Kind == "store" && (e.Addr.Op == "iaddr" && e.Addr.Args[0].Op == "alloc") {
					// building the variadic argument of append
				} else if e.Kind == "call" && (e.Name == "builtin.append" || e.Name == "builtin.len" || e.Name == "builtin.cap") {
				} else {
					ok, why = false, "unexpected effect "+e.String()
				}
			}
			if ok {
				if len(sts) != 1 {
					ok, why = false, "not exactly one store to *s"
				} else {
					v := sts[0].Val
					isApp := v.Op == "builtin" && v.Sym == "append" && len(v.Args) == 2 && v.Args[0].Op == "load" && isParam(v.Args[0].Args[0], 0)
					if !isApp {
						ok, why = false, "*s is not set to append(*s, value)"
					} else {
						// the appended element is the value: the variadic array holds param 1
						holds := false
						for i := range p.Events {
							e := &p.Events[i]
							if e.Kind == "store" && (e.Addr.Op == "iaddr" && e.Addr.Args[0].Op == "alloc") && isParam(e.Val, 1) {
								holds = true
							}
						}
						if !holds {
							ok, why = false, "the appended element is not the pushed value"
						}
					}
				}
			}
		}
		R.Decide(ok, "stack-end", push.Name, "append", c.pos(push), "*s = append(*s, value)", why)
	}
	for _, fi := range []*FuncInfo{pop, speek} {
		if fi == nil {
			continue
		}
		ps := c.paths("stack-end", fi)
		if ps == nil {
			continue
		}
		okTop, okEmpty := true, true
		why, whyE := "", ""
		sawTop, sawEmpty := false, false
		for _, p := range ps {
			if p.End != EndReturn || len(p.Rets) != 2 {
				okTop, why = false, "path does not return (value, ok)"
				continue
			}
			stores := eventsOf(p, func(e *Event) bool { return e.Kind == "store" || e.Kind == "mapupdate" || e.Kind == "send" })
			others := eventsOf(p, func(e *Event) bool {
				return !(e.Kind == "store" || (e.Kind == "call" && (e.Name == "builtin.len" || e.Name == "typ.Zero")))
			})
			if len(others) > 0 {
				okTop, why = false, "unexpected effect "+others[0].String()
				continue
			}
			if p.Rets[1].IsConst("false") {
				sawEmpty = true
				// must be a nil-or-empty row
				emptyKnown := false
				for _, cd := range p.Conds {
					r := cd.Rel()
					if r.B == nil {
						continue
					}
					if isParam(r.A, 0) && r.B.IsNil() && r.Op == "==" {
						emptyKnown = true
					}
					if r.A.Op == "builtin" && r.A.Sym == "len" && r.Op == "==" && r.B.IsConst("0") {
						emptyKnown = true
					}
					if pl, kind, ok := r.IntNorm(); ok && kind == ">" {
						// len < 1  <=> 1 - len > 0
						if cst, has := pl.M[""]; has && cst == 1 && len(pl.M) == 2 {
							emptyKnown = true
						}
					}
				}
				isZero := p.Rets[0].Op == "zero" || (p.Rets[0].Op == "call" && p.Rets[0].Sym == "typ.Zero")
				if !emptyKnown || len(stores) != 0 || !isZero {
					okEmpty, whyE = false, "the (.., false) row is not: container nil or empty, nothing stored, zero returned"
				}
				continue
			}
			if !p.Rets[1].IsConst("true") {
				okTop, why = false, "second result is not a constant"
				continue
			}
			sawTop = true
			// value = load(*s @ epoch before any store)[len-1]
			v := p.Rets[0]
			okV := false
			var sl *Term
			if v.Op == "load" && v.Args[0].Op == "iaddr" {
				sl = v.Args[0].Args[0]
				idx := v.Args[0].Args[1]
				if sl.Op == "load" && isParam(sl.Args[0], 0) {
					lenT := &Term{Op: "builtin", Sym: "len", Args: []*Term{sl}}
					okV = ToPoly(idx).Equal(ToPoly(lenT).Add(polyConst(1), -1))
				}
			}
			if !okV {
				okTop, why = false, "the value returned is not (*s)[len(*s)-1]: "+v.String()
				continue
			}
			// the top exists: the path knows the stack to be non-empty (on an empty stack the answer is (zero, false),
			// not an index error)
			{
				lenP := ToPoly(&Term{Op: "builtin", Sym: "len", Args: []*Term{sl}})
				nonEmpty := false
				for _, cd := range p.Conds {
					if pl, kind, isInt := cd.Rel().IntNorm(); isInt {
						if kind == "!=" && pl.Equal(canonSign(lenP)) || kind == ">" && pl.Equal(lenP) {
							nonEmpty = true
						}
					}
				}
				if !nonEmpty {
					okEmpty, whyE = false, "a path ("+p.CondString()+") reads the top without knowing that the stack is non-empty"
				}
			}
			if fi == speek {
				if len(stores) != 0 {
					okTop, why = false, "Peek stores"
				}
				continue
			}
			// Pop: one store: *s = sl[:len-1] of the same pre-store slice
			if len(stores) != 1 || !isParam(stores[0].Addr, 0) {
				okTop, why = false, "Pop must store exactly once, to *s"
				continue
			}
			nv := stores[0].Val
			lenT := &Term{Op: "builtin", Sym: "len", Args: []*Term{sl}}
			okS := nv.Op == "slice" && nv.Args[0].Key() == sl.Key() && (nv.Args[1].Op == "none" || nv.Args[1].IsConst("0")) &&
				nv.Args[2].Op != "none" && ToPoly(nv.Args[2]).Equal(ToPoly(lenT).Add(polyConst(1), -1)) && nv.Args[3].Op == "none"
			if !okS {
				okTop, why = false, "Pop does not truncate to (*s)[:len(*s)-1]: "+nv.String()
			}
		}
		if okTop && !sawTop {
			okTop, why = false, "no non-empty row"
		}
		if okEmpty && !sawEmpty {
			okEmpty, whyE = false, "no empty row"
		}
		R.Decide(okTop, "stack-end", fi.Name, "top", c.pos(fi), "acts on index len-1 of the slice as it was on entry", why)
		R.Decide(okEmpty, "empty-guard", fi.Name, "empty", c.pos(fi), "nil or empty -> (zero,false), nothing stored", whyE)
	}
}

// c16PushInPlace: the path has established len(*s) < cap(*s), extends *s by one within its capacity and writes the
// pushed value into the new last slot - nothing else.
func c16PushInPlace(p *Path) bool {
	if p.End != EndReturn {
		return false
	}
	recv := &Term{Op: "param", N: 0}
	var old *Term
	room := false
	for _, cd := range p.Conds {
		pl, kind, isInt := cd.Rel().IntNorm()
		if !isInt || kind != ">" {
			continue
		}
		for _, at := range pl.Atoms {
			if at.Op == "builtin" && at.Sym == "cap" && len(at.Args) == 1 && at.Args[0].Op == "load" && isParam(at.Args[0].Args[0], 0) {
				ln := &Term{Op: "builtin", Sym: "len", Args: at.Args}
				if pl.Equal(ToPoly(at).Add(ToPoly(ln), -1)) { // cap - len > 0
					room, old = true, at.Args[0]
				}
			}
		}
	}
	_ = recv
	if !room {
		return false
	}
	lenOld := ToPoly(&Term{Op: "builtin", Sym: "len", Args: []*Term{old}})
	var ext *Term
	wrote := 0
	for i := range p.Events {
		e := &p.Events[i]
		switch {
		case e.Kind == "call" && (e.Name == "builtin.len" || e.Name == "builtin.cap"):
		case e.Kind == "store" && isParam(e.Addr, 0):
			v := e.Val
			if ext != nil || v.Op != "slice" || v.Args[0].Key() != old.Key() || !(v.Args[1].Op == "none" || v.Args[1].IsConst("0")) || v.Args[2].Op == "none" || !ToPoly(v.Args[2]).Equal(lenOld.Add(polyConst(1), 1)) {
				return false
			}
			if len(v.Args) > 3 && v.Args[3].Op != "none" {
				return false
			}
			ext = v
		case e.Kind == "store" && e.Addr.Op == "iaddr":
			if ext == nil || !(e.Addr.Args[0].Key() == ext.Key() || e.Addr.Args[0].Key() == old.Key()) || !ToPoly(e.Addr.Args[1]).Equal(lenOld) || !isParam(e.Val, 1) {
				return false
			}
			wrote++
		default:
			return false
		}
	}
	return ext != nil && wrote == 1
}

// c16PushPresized: the path knows the stack empty (cap(*s) == 0 or len(*s) == 0), replaces *s by a fresh empty slice
// (whatever its capacity) and appends the value to that: the stack then holds exactly the pushed value, which is
// what append(*s, value) gives on an empty stack.
func c16PushPresized(p *Path) bool {
	if p.End != EndReturn {
		return false
	}
	empty := false
	for _, cd := range p.Conds {
		pl, kind, isInt := cd.Rel().IntNorm()
		if !isInt || kind != "=" || len(pl.Atoms) != 1 {
			continue
		}
		for _, at := range pl.Atoms {
			if at.Op == "builtin" && (at.Sym == "cap" || at.Sym == "len") && len(at.Args) == 1 && at.Args[0].Op == "load" && isParam(at.Args[0].Args[0], 0) && pl.Equal(canonSign(ToPoly(at))) {
				empty = true
			}
		}
	}
	if !empty {
		return false
	}
	var fresh, app *Term
	holds := false
	for i := range p.Events {
		e := &p.Events[i]
		switch {
		case e.Kind == "call" && (e.Name == "builtin.len" || e.Name == "builtin.cap" || e.Name == "builtin.append"):
		case e.Kind == "store" && e.Addr.Op == "iaddr" && e.Addr.Args[0].Op == "alloc":
			if isParam(e.Val, 1) {
				holds = true
			}
		case e.Kind == "store" && isParam(e.Addr, 0):
			v := e.Val
			switch {
			case fresh == nil && app == nil && v.Op == "mkslice" && len(v.Args) >= 1 && v.Args[0].IsConst("0"):
				fresh = v
			case fresh == nil && app == nil && v.Op == "slice" && len(v.Args) == 4 && v.Args[0].Op == "alloc" && (v.Args[1].Op == "none" || v.Args[1].IsConst("0")) && v.Args[2].IsConst("0"):
				fresh = v // make with constant length and capacity: an empty window of a fresh array
			case fresh != nil && app == nil && v.Op == "builtin" && v.Sym == "append" && len(v.Args) == 2 && v.Args[0].Key() == fresh.Key():
				app = v
			default:
				return false
			}
		default:
			return false
		}
	}
	return fresh != nil && app != nil && holds
}
