package main

import (
	_ "embed"
	"fmt"
	"go/ast"
	"golang.org/x/tools/go/packages"
	"os"
	"strings"

	"golang.org/x/tools/go/ssa"
)

//go:embed baseline_funcs.txt
var baselineTxt string

// baselineFuncs: the function names the rules were written against (regenerate with `typcheck -listfuncs`).
// A function not in this list is a NEW helper; in inlining view 1 its unexported in-package calls are walked through.
func baselineFuncs() map[string]bool {
	m := map[string]bool{}
	for _, l := range strings.Split(baselineTxt, "\n") {
		if l = strings.TrimSpace(l); l != "" {
			m[l] = true
		}
	}
	return m
}

// newHelpers: functions that are not in the baseline, unexported (or methods of unexported types), and used only
// through static calls from their own package: their behaviour is fully accounted for at their (inlined) call sites.
func newHelpers(P *Program, baseline map[string]bool) map[*FuncInfo]bool {
	out := map[*FuncInfo]bool{}
	rec := NewAnalysis(P)
	for _, fi := range P.Funcs {
		if baseline[fi.Name] {
			continue
		}
		if rec.isRecursiveAmongNew(fi.SSA) {
			continue // never walked through: it has to satisfy the rules as a function of its own
		}
		if ast.IsExported(fi.Obj.Name()) {
			// an exported method of an unexported type is still internal
			internal := false
			if i := strings.Index(fi.Name, "("); i >= 0 {
				recv := strings.Trim(fi.Name[i:strings.Index(fi.Name, ")")+1], "(*)")
				internal = recv != "" && !ast.IsExported(recv)
			}
			if !internal {
				continue
			}
		}
		// every reference must be a static call from the same package
		ok := true
		uses := 0
		for _, g := range P.Funcs {
			for _, fn := range append([]*ssa.Function{g.SSA}, g.Closures...) {
				for _, b := range fn.Blocks {
					for _, in := range b.Instrs {
						if mc, isMC := in.(*ssa.MakeClosure); isMC {
							if t := boundTarget(mc.Fn.(*ssa.Function)); t != nil && t == fi.SSA && g.Pkg == fi.Pkg {
								uses++ // a method value x.helper: its calls are resolved to the method
								continue
							}
						}
						for _, op := range in.Operands(nil) {
							if op == nil || *op == nil {
								continue
							}
							f, isF := (*op).(*ssa.Function)
							if !isF {
								continue
							}
							if f.Origin() != nil {
								f = f.Origin()
							}
							if f != fi.SSA {
								continue
							}
							uses++
							call, isCall := in.(*ssa.Call)
							if !isCall || call.Call.Value != *op || g.Pkg != fi.Pkg {
								ok = false
							}
						}
					}
				}
			}
		}
		if ok && uses > 0 {
			out[fi] = true
		}
	}
	return out
}

// upgradeByInlining: an obligation that is not held on the plain view is re-derived on the inlining views
// (1: new helpers walked through; 2: every same-package function walked through). Inlining preserves behaviour,
// so a rule that holds on such a view holds for the code; the verdict of an obligation is 'held' if it is held
// on any view. Obligations of a new helper that is walked through at all its call sites are dropped.
func upgradeByInlining(c *Ctx, spec *propSpec) {
	bad := 0
	for _, o := range c.R.Obs {
		if o.Verdict != Held {
			bad++
		}
	}
	if c.P == nil {
		return
	}
	// Functions that call a new helper: on the plain view that call is opaque, and a rule that reads result rows or
	// effects off the caller's own paths has not seen what the helper does (it may panic, loop, or do the work the
	// rule is about). For these callers the view with the helpers walked through is the one that counts.
	viaHelper := callersOfNewHelpers(c.P)
	if bad == 0 && len(viaHelper) == 0 {
		return
	}
	type view struct {
		held     map[string]*Obligation
		counts   map[string]int
		skipped  map[string]bool
		obs      []*Obligation
		mode     int
		norm     bool
		taint    map[string]bool
		allTaint bool
	}
	var views []view
	// the views, in the order they are tried: new helpers walked through; every same-package function walked through;
	// then the same two readings with explicit panics that only spell out a runtime panic left out
	// (normalisePanicGuards) - for the plain view and for the fully walked-through one
	type vcfg struct {
		mode int
		norm bool
	}
	cfgs := []vcfg{{1, false}, {2, false}, {0, true}, {2, true}}
	if os.Getenv("TYPCHECK_NOVIEW2") != "" {
		cfgs = []vcfg{{1, false}, {0, true}} // experiment switch: how much rests on the view that walks through baseline helpers
	}
	for vi, cfg := range cfgs {
		mode := cfg.mode
		an := NewAnalysis(c.P)
		an.Mode = mode
		an.NormPanics = cfg.norm
		R2 := NewReport(spec.id, c.Tier)
		saved := c.P.Skip
		skip := map[*FuncInfo]bool{}
		if mode >= 1 {
			skip = newHelpers(c.P, an.Baseline)
		}
		c.P.Skip = skip
		c2 := &Ctx{R: R2, P: c.P, An: an, Tier: c.Tier, Verif: c.Verif, Repo: c.Repo}
		func() {
			defer func() {
				if r := recover(); r != nil {
					R2.Unproven("internal", "(checker)", "panic", "", fmt.Sprintf("checker panicked on inlining view %d: %v", mode, r))
				}
			}()
			spec.run(c2)
		}()
		c.P.Skip = saved
		v := view{held: map[string]*Obligation{}, counts: map[string]int{}, skipped: map[string]bool{}, obs: R2.Obs, mode: mode, norm: cfg.norm}
		// a view in which some function of a rule could not be summarised (or the checker failed) proves nothing for that rule
		tainted := map[string]bool{}
		allTainted := false
		for _, o := range R2.Obs {
			if o.Verdict == Unproven && (o.Instance == "paths" || o.Instance == "anchor" || o.Instance == "closures") {
				tainted[o.Rule] = true
			}
			if o.Rule == "internal" {
				allTainted = true
			}
		}
		if os.Getenv("TYPCHECK_TRACE") != "" {
			for _, o := range R2.Obs {
				if o.Verdict != Held {
					fmt.Printf("TRACE view %d: %s %s: %s\n", mode, o.Verdict, o.Key(), o.Msg)
				}
			}
			fmt.Printf("TRACE view %d tainted=%v all=%v\n", mode, tainted, allTainted)
		}
		for _, o := range R2.Obs {
			v.counts[o.Rule]++
			if o.Verdict == Held && !tainted[o.Rule] && !allTainted {
				v.held[o.Key()] = o
			}
		}
		for fi := range skip {
			v.skipped[fi.Name] = true
		}
		v.taint, v.allTaint = tainted, allTainted
		views = append(views, v)
		// stop early when everything is resolved
		if vi == 0 && bad == 0 {
			break
		}
		remaining := 0
		for _, o := range c.R.Obs {
			if o.Verdict != Held && v.held[o.Key()] == nil && !v.skipped[o.Construct] {
				remaining++
			}
		}
		if remaining == 0 {
			break
		}
	}
	var kept []*Obligation
	upgraded := 0
	usedForHelper := map[int]bool{}
	plainKeys := map[string]bool{}
	for _, o := range c.R.Obs {
		plainKeys[o.Key()] = true
	}
	demoted := 0
	for _, o := range c.R.Obs {
		if o.Verdict == Held {
			// held while a new helper's call was opaque: the view with the helper walked through decides
			if viaHelper[o.Construct] && len(views) > 0 {
				for _, w := range views[0].obs {
					if w.Key() == o.Key() && w.Verdict != Held {
						o.Verdict = w.Verdict
						o.Msg = w.Msg + " [with the new helper(s) it calls walked through; on the plain view, where those calls are opaque, the rule had nothing to object to]"
						o.Breaks = w.Breaks
						demoted++
					}
				}
			}
			kept = append(kept, o)
			continue
		}
		done := false
		// a caller of a new helper is decided on the view that walks the helper through: an objection of the plain view
		// (where the helper's result is an opaque value) that this view does not even raise - the rule ran there, for
		// this construct or others, untainted - has no object
		if viaHelper[o.Construct] && len(views) > 0 && views[0].mode == 1 && views[0].counts[o.Rule] > 0 && !views[0].taint[o.Rule] && !views[0].allTaint {
			present := false
			for _, w := range views[0].obs {
				if w.Key() == o.Key() {
					present = true
				}
			}
			if !present {
				upgraded++
				continue
			}
			// still objected to there: that view's wording is the one about the code as it is (on the plain view the
			// helper's result is opaque and the message describes that)
			for _, w := range views[0].obs {
				if w.Key() == o.Key() && w.Verdict != Held && w.Msg != o.Msg {
					o.Msg = w.Msg + " [with the new helper(s) it calls walked through; plain view: " + o.Msg + "]"
					o.Verdict = w.Verdict
				}
			}
		}
		if os.Getenv("TYPCHECK_TRACE") != "" {
			for i, v := range views {
				fmt.Printf("TRACE merge %s: view %d held=%v skipped=%v\n", o.Key(), i+1, v.held[o.Key()] != nil, v.skipped[o.Construct])
			}
		}
		for i, v := range views {
			// Rules that judge every CALL of certain helpers see nothing to judge once those helpers are walked through
			// (view 2 expands baseline functions too): a verdict reached there is vacuous for them.
			if v.mode >= 2 && callKeyedRules[strings.TrimPrefix(o.Rule, "map/")] {
				continue
			}
			if h := v.held[o.Key()]; h != nil {
				o.Verdict = Held
				what := fmt.Sprintf("inlining view %d", v.mode)
				if v.norm {
					what += " with explicit panics that spell out a runtime panic left out"
					if v.mode == 0 {
						what = "the plain view with explicit panics that spell out a runtime panic left out"
					}
				}
				o.Msg = h.Msg + fmt.Sprintf(" [established on %s; plain view: %s]", what, o.Msg)
				o.Facts = nil
				upgraded++
				done = true
				break
			}
			if v.skipped[o.Construct] {
				// a new helper accounted for at its call sites: whatever the view with the helper inlined reports
				// there, and the plain view has no obligation for, is imported below
				usedForHelper[i] = true
				upgraded++
				done = true
				o = nil
				break
			}
		}
		if o != nil {
			kept = append(kept, o)
		}
		_ = done
	}
	for i, v := range views {
		for _, o := range v.obs {
			if o.Verdict == Held || plainKeys[o.Key()] || v.skipped[o.Construct] {
				continue
			}
			if !usedForHelper[i] && !(i == 0 && viaHelper[o.Construct]) {
				continue
			}
			o.Msg += fmt.Sprintf(" [seen with the new helper(s) inlined, view %d]", i+1)
			plainKeys[o.Key()] = true
			kept = append(kept, o)
		}
	}
	c.R.Obs = kept
	// instance floors: the best count over the views
	if c.R.AltCounts == nil {
		c.R.AltCounts = map[string]int{}
	}
	for _, v := range views {
		for r, n := range v.counts {
			if n > c.R.AltCounts[r] {
				c.R.AltCounts[r] = n
			}
		}
	}
	c.R.Analysed["obligations_established_by_inlining"] = upgraded
	if demoted > 0 {
		c.R.Analysed["obligations_refuted_with_new_helpers_walked_through"] = demoted
	}
}

// callersOfNewHelpers: names of the functions (outside the new helpers themselves) that contain a static call of a
// new helper, in their body or in one of their closures.
func callersOfNewHelpers(P *Program) map[string]bool {
	// what view 1 walks through: any function of the caller's package that is not in the baseline and does not recurse
	// among new functions - exported or not (being exported matters for the helper's own obligations, not for what a
	// call of it does)
	baseline := baselineFuncs()
	out := map[string]bool{}
	if len(baseline) == 0 || P.ModPath != "gopkg.in/typ.v4" {
		return out
	}
	an := NewAnalysis(P)
	isHelper := map[*ssa.Function]bool{}
	pkgOf := map[*ssa.Function]*packages.Package{}
	for _, fi := range P.Funcs {
		if !baseline[fi.Name] && !an.isRecursiveAmongNew(fi.SSA) {
			isHelper[fi.SSA] = true
			pkgOf[fi.SSA] = fi.Pkg
		}
	}
	if len(isHelper) == 0 {
		return out
	}
	for _, g := range P.Funcs {
		if isHelper[g.SSA] {
			continue
		}
		for _, fn := range append([]*ssa.Function{g.SSA}, g.Closures...) {
			for _, b := range fn.Blocks {
				for _, in := range b.Instrs {
					ci, ok := in.(ssa.CallInstruction)
					if !ok {
						continue
					}
					sc := ci.Common().StaticCallee()
					if sc == nil {
						continue
					}
					if sc.Origin() != nil {
						sc = sc.Origin()
					}
					if isHelper[sc] && pkgOf[sc] == g.Pkg {
						out[g.Name] = true
					}
				}
			}
		}
	}
	return out
}

// callKeyedRules: rules whose obligations are "at every call of helper X, ...": not to be re-established on the view that
// walks through baseline helpers.
var callKeyedRules = map[string]bool{"lookup-justified": true, "callee-precondition": true, "sentinel-guard": true, "dirty-lookup-current": true, "dirty-write-exists": true}
