package main

import (
	"fmt"
	"go/types"
	"os"
	"sort"
	"strings"

	"golang.org/x/tools/go/ssa"
)

// Rule guard-precedes-use (run by every check after its own rules, like dep-closure).
//
// Go evaluates partial operations where they stand: x[i], x[lo:hi], make([]T, n), a/b, *p, p.f, f(). A function
// that tests the very condition under which such an operation is defined - i < len(x), n >= 0, p != nil - but only
// AFTER the operation on the same path contradicts itself: either the test is redundant or the operation can panic
// for inputs the function means to answer (Engler et al.'s use-then-check). The rule does not try to prove every
// access in range (most are by invariants of the data structure, which the property's own rules establish); it
// reports exactly the accesses whose definedness
//   - does not follow from the branch conditions the path has passed BEFORE the operation, and
//   - does follow once the conditions the same path passes AFTERWARDS are added.
// Paths are taken from the plain view and from the view with every same-package function walked through (so that
// s.Len() reads as len(s.slice)); a finding is reported once per operation.

type lgNeed struct {
	gt0  *Poly  // this polynomial must be > 0 ...
	ne0  *Poly  // ... or this one != 0
	ptr  *Term  // ... or this pointer/func/interface value must be non-nil
	what string // for the message
}

func lgPolyKeyTerms(p *Poly) []*Term {
	var out []*Term
	for k, a := range p.Atoms {
		if k != "" && a != nil {
			out = append(out, a)
		}
	}
	return out
}

// lgFacts: the P > 0 facts of a condition list (equalities give two), plus len(x) >= 0 for the len atoms in sight.
type lgFacts struct {
	gt    []*Poly
	ne    []*Poly
	nonil map[string]bool
	isnil map[string]bool
}

func lgCollect(conds []Cond) *lgFacts {
	f := &lgFacts{nonil: map[string]bool{}, isnil: map[string]bool{}}
	for _, cd := range conds {
		r := cd.Rel()
		if r.B != nil && r.B.IsNil() && r.Op == "!=" {
			f.nonil[stripConv(r.A).Key()] = true
			continue
		}
		if r.B != nil && r.B.IsNil() && r.Op == "==" {
			f.isnil[stripConv(stripIface(r.A)).Key()] = true
			continue
		}
		if pl, kind, ok := r.IntNorm(); ok {
			switch kind {
			case ">":
				f.gt = append(f.gt, pl)
			case "=":
				f.gt = append(f.gt, pl.Add(polyConst(1), 1), polyConst(1).Add(pl, -1))
			case "!=":
				f.ne = append(f.ne, pl)
			}
		}
	}
	return f
}

func lgLenFacts(q *Poly) []*Poly {
	var out []*Poly
	for k, a := range q.Atoms {
		if k != "" && a != nil && a.Op == "builtin" && (a.Sym == "len" || a.Sym == "cap") {
			out = append(out, polyAtom(a).Add(polyConst(1), 1)) // len(x) + 1 > 0
			if len(a.Args) == 1 {
				// cap(x) - len(x) + 1 > 0
				other := &Term{Op: "builtin", Sym: map[string]string{"len": "cap", "cap": "len"}[a.Sym], Args: a.Args, Typ: a.Typ}
				if a.Sym == "cap" {
					out = append(out, polyAtom(a).Add(polyAtom(other), -1).Add(polyConst(1), 1))
				} else {
					out = append(out, polyAtom(other).Add(polyAtom(a), -1).Add(polyConst(1), 1))
				}
			}
		}
	}
	return out
}

// impliedGt0: q > 0 follows from the facts: q is a positive constant; q - P is a constant >= 0 for a fact P > 0; or
// q - P1 - P2 + 1 is a constant >= 0 for two facts (integers: P1 + P2 >= 2).
func (f *lgFacts) impliedGt0(q *Poly) bool {
	if k, ok := q.IsConst(); ok {
		return k > 0
	}
	facts := append(append([]*Poly{}, f.gt...), lgLenFacts(q)...)
	for _, p := range f.gt {
		facts = append(facts, lgLenFacts(p)...)
	}
	for _, p := range facts {
		if k, ok := q.Add(p, -1).IsConst(); ok && k >= 0 {
			return true
		}
	}
	for i, p1 := range facts {
		for _, p2 := range facts[i:] {
			if k, ok := q.Add(p1, -1).Add(p2, -1).Add(polyConst(1), 1).IsConst(); ok && k >= 0 {
				return true
			}
		}
	}
	return false
}

func (f *lgFacts) impliedNe0(q *Poly) bool {
	if k, ok := q.IsConst(); ok {
		return k != 0
	}
	c := canonSign(q)
	for _, p := range f.ne {
		if p.Equal(c) {
			return true
		}
	}
	return f.impliedGt0(q) || f.impliedGt0(polyConst(0).Add(q, -1))
}

func (f *lgFacts) implied(n lgNeed) bool {
	switch {
	case n.gt0 != nil:
		return f.impliedGt0(n.gt0)
	case n.ne0 != nil:
		return f.impliedNe0(n.ne0)
	case n.ptr != nil:
		return f.nonil[n.ptr.Key()]
	}
	return true
}

func arrayOf(t types.Type) (*types.Array, bool) {
	if t == nil {
		return nil, false
	}
	a, ok := t.Underlying().(*types.Array)
	return a, ok
}

func lgIsNone(t *Term) bool { return t == nil || t.Op == "none" }

func lgLen(x *Term) *Term {
	if k := knownLen(x); k != nil {
		return k
	}
	return &Term{Op: "builtin", Sym: "len", Args: []*Term{x}, Typ: types.Typ[types.Int]}
}

func lgCap(x *Term) *Term {
	return &Term{Op: "builtin", Sym: "cap", Args: []*Term{x}, Typ: types.Typ[types.Int]}
}

// lgNeeds: what must hold for the partial operation to be defined.
func lgNeeds(kind string, t *Term, instr ssa.Instruction) []lgNeed {
	var out []lgNeed
	ge0 := func(p *Poly, what string) { out = append(out, lgNeed{gt0: p.Add(polyConst(1), 1), what: what}) }
	switch kind {
	case "index":
		if len(t.Args) != 2 {
			return nil
		}
		x, i := t.Args[0], stripConv(t.Args[1])
		// arrays and pointers to arrays have a constant length; strings and slices len(x)
		var ln *Poly
		xt := x.Typ
		if xt != nil {
			if pt, ok := xt.Underlying().(*types.Pointer); ok {
				xt = pt.Elem()
			}
		}
		if at, ok := arrayOf(xt); ok {
			ln = polyConst(at.Len())
		} else {
			ln = ToPoly(lgLen(x))
		}
		ip := ToPoly(i)
		ge0(ip, fmt.Sprintf("%s >= 0", i))
		out = append(out, lgNeed{gt0: ln.Add(ip, -1), what: fmt.Sprintf("%s < len(%s)", i, x)})
	case "slice":
		if len(t.Args) != 4 {
			return nil
		}
		x, lo, hi := t.Args[0], t.Args[1], t.Args[2]
		if x.Typ == nil {
			return nil
		}
		if _, isStr := x.Typ.Underlying().(*types.Basic); isStr {
			// strings: bounds against len
			if !lgIsNone(hi) {
				ge0(ToPoly(lgLen(x)).Add(ToPoly(hi), -1), fmt.Sprintf("%s <= len(%s)", hi, x))
			}
		} else if !lgIsNone(hi) {
			if _, isSlice := x.Typ.Underlying().(*types.Slice); isSlice {
				// a slice may be extended up to its capacity (a test against len implies it: len <= cap, see lgLenFacts)
				out = append(out, lgNeed{gt0: ToPoly(lgCap(x)).Add(ToPoly(hi), -1).Add(polyConst(1), 1), what: fmt.Sprintf("%s <= cap(%s)", hi, x)})
			}
		}
		if !lgIsNone(lo) {
			ge0(ToPoly(lo), fmt.Sprintf("%s >= 0", lo))
			if !lgIsNone(hi) {
				ge0(ToPoly(hi).Add(ToPoly(lo), -1), fmt.Sprintf("%s <= %s", lo, hi))
			} else {
				ge0(ToPoly(lgLen(x)).Add(ToPoly(lo), -1), fmt.Sprintf("%s <= len(%s)", lo, x))
			}
		} else if !lgIsNone(hi) {
			ge0(ToPoly(hi), fmt.Sprintf("%s >= 0", hi))
		}
	case "mkslice":
		if len(t.Args) >= 1 {
			ge0(ToPoly(stripConv(t.Args[0])), fmt.Sprintf("the length %s >= 0", t.Args[0]))
		}
		if len(t.Args) >= 2 && t.Args[1] != nil && t.Args[1] != t.Args[0] {
			ge0(ToPoly(stripConv(t.Args[1])).Add(ToPoly(stripConv(t.Args[0])), -1), fmt.Sprintf("the capacity %s >= the length", t.Args[1]))
		}
	case "div":
		out = append(out, lgNeed{ne0: ToPoly(stripConv(t)), what: fmt.Sprintf("the divisor %s != 0", t)})
	case "deref":
		out = append(out, lgNeed{ptr: t, what: fmt.Sprintf("%s != nil", t)})
	}
	return out
}

// lgBase: the pointer that an address computation dereferences (field addresses nest: p.a.b with a an embedded
// struct is one dereference of p).
func lgBase(addr *Term) *Term {
	for addr != nil && addr.Op == "faddr" && len(addr.Args) == 1 {
		addr = addr.Args[0]
	}
	if addr == nil {
		return nil
	}
	switch addr.Op {
	case "param", "load", "call", "extract", "phi", "lv", "freevar", "tassert", "lookup", "recv":
		if addr.Typ != nil {
			if _, ok := addr.Typ.Underlying().(*types.Pointer); ok {
				return addr
			}
		}
	}
	return nil
}

type lgOp struct {
	kind  string
	t     *Term
	instr ssa.Instruction
	ncond int
}

func lgOps(p *Path) []lgOp {
	var ops []lgOp
	for _, a := range p.Part {
		ops = append(ops, lgOp{a.Kind, a.Addr, a.Instr, a.NCond})
	}
	for _, a := range p.Acc {
		if a.Kind == "load" {
			if b := lgBase(a.Addr); b != nil {
				ops = append(ops, lgOp{"deref", b, a.Instr, a.NCond})
			}
		}
	}
	for i := range p.Events {
		e := &p.Events[i]
		switch e.Kind {
		case "store":
			if b := lgBase(e.Addr); b != nil {
				ops = append(ops, lgOp{"deref", b, e.Instr, e.NCond})
			}
		case "mapupdate":
			if e.Addr != nil && (e.Addr.Op == "load" || e.Addr.Op == "param") {
				ops = append(ops, lgOp{"deref", e.Addr, e.Instr, e.NCond})
			}
		case "call":
			// documented contract of sync/atomic.Value: Store, Swap and CompareAndSwap panic for a nil new value, before
			// they change anything
			if !e.Deferred && (e.Name == "sync/atomic.(*Value).Store" || e.Name == "sync/atomic.(*Value).Swap") && len(e.Args) == 2 && e.Args[1] != nil {
				ops = append(ops, lgOp{"deref", stripConv(stripIface(e.Args[1])), e.Instr, e.NCond})
			}
			if !e.Deferred && e.Name == "sync/atomic.(*Value).CompareAndSwap" && len(e.Args) == 3 && e.Args[2] != nil {
				ops = append(ops, lgOp{"deref", stripConv(stripIface(e.Args[2])), e.Instr, e.NCond})
			}
			if (e.Invoke || e.Fn == nil && e.SSAFn == nil && e.Callee != nil) && !e.Deferred {
				// a call of a function value or through an interface: the value must not be nil
				cal := e.Callee
				if e.Invoke {
					cal = nil
					if len(e.Args) > 0 {
						cal = stripIface(e.Args[0])
					}
				}
				if cal != nil && (cal.Op == "param" || cal.Op == "load" || cal.Op == "freevar") {
					ops = append(ops, lgOp{"deref", stripConv(cal), e.Instr, e.NCond})
				}
			}
		}
	}
	return ops
}

func runLateGuard(c *Ctx) {
	if c.P == nil {
		return
	}
	rule := "guard-precedes-use"
	c.R.Rule(rule, "no examined function evaluates a partial operation (index, slice, make, integer division, dereference, call of a function value) before the test, on the same path, under which that operation is defined: a guard that comes after what it guards lets the operation panic for inputs the function means to answer", 0)
	dirs := map[string]bool{}
	for _, f := range anchorFiles(c.Verif, c.R.Prop) {
		dir := "."
		if i := strings.LastIndex(f, "/"); i >= 0 {
			dir = f[:i]
		}
		dirs[dir] = true
	}
	ex := examinedFuncs(c)
	var roots []*FuncInfo
	for _, fi := range c.P.Funcs {
		pos := c.P.Pos(fi.Decl.Pos())
		if i := strings.LastIndex(pos, ":"); i > 0 {
			pos = pos[:i]
		}
		dir := "."
		if i := strings.LastIndex(pos, "/"); i >= 0 {
			dir = pos[:i]
		}
		if dirs[dir] && ex[fi] && fi.SSA != nil {
			roots = append(roots, fi)
		}
	}
	sort.Slice(roots, func(i, j int) bool { return roots[i].Name < roots[j].Name })
	an2 := NewAnalysis(c.P)
	an2.Mode = 2
	nOps, nLate := 0, 0
	seenNeed, seenBefore := map[string]bool{}, map[string]bool{}
	for _, fi := range roots {
		fns := append([]*ssa.Function{fi.SSA}, fi.Closures...)
		reported := map[string]bool{}
		var msgs []string
		for _, fn := range fns {
			for vi, an := range []*Analysis{c.An, an2} {
				var fp *FuncPaths
				func() {
					defer func() {
						if r := recover(); r != nil {
							fp = nil
						}
					}()
					fp = an.PathsOf(fn)
				}()
				if fp == nil || fp.Unproven != "" {
					continue // the property's own rules report a function that cannot be summarised
				}
				for _, p := range fp.Paths {
					if p.End == EndExit {
						continue
					}
					ops := lgOps(p)
					if len(ops) == 0 {
						continue
					}
					for _, op := range ops {
						needs := lgNeeds(op.kind, op.t, op.instr)
						if vi == 0 {
							for _, nd := range needs {
								seenNeed[c.ipos(op.instr)+" "+nd.what] = true
							}
						}
						if op.ncond > len(p.Conds) || op.instr == nil {
							continue
						}
						before := lgCollect(p.Conds[:op.ncond])
						// what the path knows in the end, counting only the tests that the operation's own function makes
						// afterwards: a test inside a callee that is walked through later is that callee's own caution, not a
						// statement of this function about its operation
						conds := append([]Cond{}, p.Conds[:op.ncond]...)
						for _, cd := range p.Conds[op.ncond:] {
							if cd.Instr == nil {
								continue
							}
							if cd.Instr.Parent() == op.instr.Parent() && lgAbout(cd.Instr, op) {
								conds = append(conds, cd)
								continue
							}
							// a test that the function has moved into a NEW helper of its package (not in the baseline the rules
							// were written against) is still the function's own test, made through the helper
							if op.instr.Parent() == fn && cd.Instr.Parent() != fn {
								if hi := c.P.BySSA[cd.Instr.Parent()]; hi != nil && hi.Pkg == fi.Pkg && !c.An.Baseline[hi.Name] && lgCallsDirectly(fn, cd.Instr.Parent()) {
									conds = append(conds, cd)
								}
							}
						}
						var all *lgFacts
						if len(conds) > op.ncond {
							all = lgCollect(conds)
						}
						for _, nd := range needs {
							// definitely undefined: what the path has established before the operation contradicts its need
							// (a constant index -1, a dereference right after `p == nil`): taking this path panics. Plain view only: with
							// callees walked through, paths that no input takes survive the pruning; and not for loop variables, whose
							// values are bounded by induction, not by the conditions of one iteration
							if vi == 0 && !lgMentionsLoopVar(nd) && before.violatedUnder(nd) && p.End != EndPanic {
								key := c.ipos(op.instr) + " !" + nd.what
								if !reported[key] {
									reported[key] = true
									msgs = append(msgs, fmt.Sprintf("%s: the operation needs %s, but the path (%s) has established the opposite before it: whenever this path is taken the operation panics", c.ipos(op.instr), nd.what, p.CondString()))
								}
								continue
							}
							if before.implied(nd) {
								if vi == 0 {
									seenBefore[c.ipos(op.instr)+" "+nd.what] = true
								}
								continue
							}
							if all == nil || !all.implied(nd) {
								continue // rests on an invariant or on the caller: not this rule's business
							}
							key := c.ipos(op.instr) + " " + nd.what
							if reported[key] {
								continue
							}
							reported[key] = true
							nLate++
							where := ""
							if op.instr != nil && op.instr.Parent() != fi.SSA && op.instr.Parent() != nil {
								where = " (in " + op.instr.Parent().Name() + ", walked through)"
							}
							if os.Getenv("TYPCHECK_TRACE") != "" {
								fmt.Printf("TRACE late-guard %s view %d op=%s %s ncond=%d\n", fi.Name, vi, op.kind, op.t, op.ncond)
								for i, cd := range p.Conds {
									par := "?"
									if cd.Instr != nil && cd.Instr.Parent() != nil {
										par = cd.Instr.Parent().Name()
									}
									fmt.Printf("TRACE   cond %d [%s] %s\n", i, par, cd.Rel())
								}
							}
							msgs = append(msgs, fmt.Sprintf("%s%s: the operation needs %s, which the path (%s) establishes only after it", c.ipos(op.instr), where, nd.what, p.CondString()))
						}
					}
				}
			}
		}
		// both sides of a test panic: past that test the function cannot do anything but panic (a guard whose condition
		// has become always true)
		if fp := c.An.PathsOf(fi.SSA); fp != nil && fp.Unproven == "" {
			for _, P := range fp.Paths {
				if P.End != EndPanic || len(P.Conds) == 0 {
					continue
				}
				k := len(P.Conds) - 1
				ck := P.Conds[k]
				if ck.Instr == nil {
					continue
				}
				sibs, allPanic := 0, true
				for _, Q := range fp.Paths {
					if Q == P || len(Q.Conds) <= k || Q.Conds[k].Instr != ck.Instr || Q.Conds[k].Pol == ck.Pol || Q.Conds[k].T.Key() != ck.T.Key() {
						continue
					}
					same := true
					for i := 0; i < k; i++ {
						if Q.Conds[i].Instr != P.Conds[i].Instr || Q.Conds[i].Pol != P.Conds[i].Pol {
							same = false
						}
					}
					if !same {
						continue
					}
					sibs++
					if !(Q.End == EndPanic && len(Q.Conds) == k+1) {
						allPanic = false
					}
				}
				if sibs > 0 && allPanic {
					key := c.ipos(ck.Instr) + " both"
					if !reported[key] {
						reported[key] = true
						msgs = append(msgs, fmt.Sprintf("%s: both outcomes of the test (%s) end in a panic at once: past it the function can only panic", c.ipos(ck.Instr), ck.Rel()))
					}
				}
			}
		}
		if len(msgs) > 0 {
			sort.Strings(msgs)
			c.R.Refuted(rule, fi.Name, "order", c.pos(fi), "a partial operation is evaluated where it is not (yet) known to be defined: "+strings.Join(msgs, "; "))
		} else {
			c.R.Held(rule, fi.Name, "order", c.pos(fi), "every partial operation whose definedness the function itself tests is evaluated after that test")
		}
	}
	nOps = len(seenNeed)
	c.R.Analysed["partial_operation_needs"] += nOps
	c.R.Analysed["partial_operation_needs_established_by_a_preceding_test"] += len(seenBefore)
	_ = nLate
}

// lgAbout: the later test is, as written, about the operation's operands - for a dereference it compares the very
// variable that was dereferenced with nil (a loaded value that merely happens to be the same pointer on this path
// does not count); for an arithmetic need it mentions one of the variables the operation's operands are computed
// from. The term-level implication says the test establishes the need on this path; this says the function wrote it
// about that operand.
func lgAbout(iff *ssa.If, op lgOp) bool {
	if op.kind == "deref" {
		base := lgDerefBase(op.instr)
		if base == nil {
			return false
		}
		b, ok := iff.Cond.(*ssa.BinOp)
		if !ok {
			return false
		}
		strip := func(v ssa.Value) ssa.Value {
			for {
				switch x := v.(type) {
				case *ssa.ChangeType:
					v = x.X
				case *ssa.MakeInterface:
					v = x.X
				default:
					return v
				}
			}
		}
		return strip(b.X) == base || strip(b.Y) == base
	}
	a, g := map[ssa.Value]bool{}, map[ssa.Value]bool{}
	for _, o := range op.instr.Operands(nil) {
		if *o != nil {
			lgLeaves(*o, a, 12)
		}
	}
	lgLeaves(iff.Cond, g, 12)
	for v := range a {
		if g[v] {
			return true
		}
	}
	return false
}

func lgDerefBase(in ssa.Instruction) ssa.Value {
	var addr ssa.Value
	switch x := in.(type) {
	case *ssa.UnOp:
		addr = x.X
	case *ssa.Store:
		addr = x.Addr
	case *ssa.Call:
		if x.Call.IsInvoke() {
			return x.Call.Value
		}
		return x.Call.Value
	default:
		return nil
	}
	for {
		fa, ok := addr.(*ssa.FieldAddr)
		if !ok {
			return addr
		}
		addr = fa.X
	}
}

// lgLeaves: the variables an expression is computed from - parameters, free variables, phis, results of calls and
// receives; loads contribute what their address is computed from, len/cap what their argument is.
func lgLeaves(v ssa.Value, out map[ssa.Value]bool, depth int) {
	if v == nil || depth == 0 {
		return
	}
	switch x := v.(type) {
	case *ssa.Const, *ssa.Function, *ssa.Builtin, *ssa.Global:
		return
	case *ssa.Parameter, *ssa.FreeVar, *ssa.Phi, *ssa.Alloc, *ssa.Extract, *ssa.Next, *ssa.Lookup, *ssa.TypeAssert, *ssa.MakeSlice:
		out[v] = true
		return
	case *ssa.Call:
		if b, ok := x.Call.Value.(*ssa.Builtin); ok && (b.Name() == "len" || b.Name() == "cap") {
			for _, a := range x.Call.Args {
				lgLeaves(a, out, depth-1)
			}
			return
		}
		out[v] = true
		return
	}
	if in, ok := v.(ssa.Instruction); ok {
		for _, o := range in.Operands(nil) {
			if *o != nil {
				lgLeaves(*o, out, depth-1)
			}
		}
	}
}

// violatedUnder: the facts (the condition of an explicit panic) make the need false - the operation is undefined
// exactly where the explicit panic fires.
func (f *lgFacts) violatedUnder(n lgNeed) bool {
	switch {
	case n.gt0 != nil: // q > 0 needed; violated when 1 - q > 0
		return f.impliedGt0(polyConst(1).Add(n.gt0, -1))
	case n.ne0 != nil: // q != 0 needed; violated when q == 0
		return f.impliedGt0(n.ne0.Add(polyConst(1), 1)) && f.impliedGt0(polyConst(1).Add(n.ne0, -1))
	case n.ptr != nil:
		return f.isnil[stripConv(stripIface(n.ptr)).Key()]
	}
	return false
}

// normalisePanicGuards removes, from a function's path summaries, explicit panics that only spell out a runtime
// panic: a path that ends in panic(...) right after its last branch condition C (nothing but the construction of the
// panic value in between), where every path that takes the other side of that branch starts, before any other effect,
// with a partial operation that is undefined under C - x.M() / *x / x.f / x() after `x == nil`, make([]T, n) after
// `n < 0`, a[lo:hi] after `lo > hi`, a / b after `b == 0`, m[k] = v after `m == nil`. For such a guard the function
// panics on exactly the same inputs with and without it, at the same point of its effects; the guard's condition is
// dropped from the continuing paths as well, so that the rules see the function as it would be without the guard.
func normalisePanicGuards(fp *FuncPaths) {
	pure := func(e *Event) bool {
		switch e.Kind {
		case "mkclosure":
			return true
		case "store":
			return rootOf(e.Addr) != nil && rootOf(e.Addr).Op == "alloc"
		case "call":
			return strings.HasPrefix(e.Name, "builtin.len") || strings.HasPrefix(e.Name, "builtin.cap") || strings.HasPrefix(e.Name, "fmt.Sprint") || strings.HasPrefix(e.Name, "fmt.Errorf") || e.Name == "errors.New"
		}
		return false
	}
	samePrefix := func(a, b *Path, k int) bool {
		if len(a.Conds) < k || len(b.Conds) < k {
			return false
		}
		for i := 0; i < k; i++ {
			if a.Conds[i].Instr != b.Conds[i].Instr || a.Conds[i].Pol != b.Conds[i].Pol || a.Conds[i].T.Key() != b.Conds[i].T.Key() {
				return false
			}
		}
		return true
	}
	for changed := true; changed; {
		changed = false
		for pi, P := range fp.Paths {
			if P.End != EndPanic || len(P.Conds) == 0 {
				continue
			}
			k := len(P.Conds) - 1
			ck := P.Conds[k]
			if ck.Instr == nil {
				continue
			}
			okP := true
			for i := ck.NEv; i < len(P.Events); i++ {
				if !pure(&P.Events[i]) {
					okP = false
				}
			}
			if !okP {
				continue
			}
			C := lgCollect([]Cond{ck})
			var conts []*Path
			good := true
			for qi, Q := range fp.Paths {
				if qi == pi || !samePrefix(P, Q, k) || len(Q.Conds) <= k {
					continue
				}
				qk := Q.Conds[k]
				if qk.Instr != ck.Instr || qk.T.Key() != ck.T.Key() {
					continue // a different branch at that depth: not a continuation of this guard
				}
				if qk.Pol == ck.Pol {
					good = false // another path on the panicking side that does not panic here
					break
				}
				// the first thing Q does after the guard: a partial operation undefined under C
				found := false
				for _, op := range lgOps(Q) {
					if op.ncond != k+1 {
						continue
					}
					// nothing but pure steps between the guard and the operation
					nev := len(Q.Events)
					switch in := op.instr.(type) {
					case ssa.Instruction:
						for ei := range Q.Events {
							if Q.Events[ei].Instr == in {
								nev = ei
							}
						}
					}
					for _, a := range Q.Part {
						if a.Instr == op.instr {
							nev = a.NEv
						}
					}
					for _, a := range Q.Acc {
						if a.Instr == op.instr {
							nev = a.NEv
						}
					}
					clean := true
					for ei := qk.NEv; ei < nev && ei < len(Q.Events); ei++ {
						if !pure(&Q.Events[ei]) {
							clean = false
						}
					}
					if !clean {
						continue
					}
					for _, nd := range lgNeeds(op.kind, op.t, op.instr) {
						if C.violatedUnder(nd) {
							found = true
						}
					}
				}
				if !found {
					good = false
					break
				}
				conts = append(conts, Q)
			}
			if !good || len(conts) == 0 {
				continue
			}
			// drop P; drop the guard's condition from the continuations
			for _, Q := range conts {
				Q.Conds = append(append([]Cond{}, Q.Conds[:k]...), Q.Conds[k+1:]...)
				for ei := range Q.Events {
					if Q.Events[ei].NCond > k {
						Q.Events[ei].NCond--
					}
				}
				for ai := range Q.Acc {
					if Q.Acc[ai].NCond > k {
						Q.Acc[ai].NCond--
					}
				}
				for ai := range Q.Part {
					if Q.Part[ai].NCond > k {
						Q.Part[ai].NCond--
					}
				}
			}
			fp.Paths = append(append([]*Path{}, fp.Paths[:pi]...), fp.Paths[pi+1:]...)
			changed = true
			break
		}
	}
}

func lgMentionsLoopVar(n lgNeed) bool {
	isLV := func(t *Term) bool { return t != nil && t.Contains(func(x *Term) bool { return x.Op == "loopvar" }) }
	for _, p := range []*Poly{n.gt0, n.ne0} {
		if p == nil {
			continue
		}
		for _, a := range p.Atoms {
			if isLV(a) {
				return true
			}
		}
	}
	return isLV(n.ptr)
}

// lgCallsDirectly: fn's own body contains a static call of callee (or of the generic function it instantiates).
func lgCallsDirectly(fn, callee *ssa.Function) bool {
	same := func(a, b *ssa.Function) bool {
		if a == nil || b == nil {
			return false
		}
		if a == b {
			return true
		}
		oa, ob := a.Origin(), b.Origin()
		if oa == nil {
			oa = a
		}
		if ob == nil {
			ob = b
		}
		return oa == ob
	}
	for _, b := range fn.Blocks {
		for _, in := range b.Instrs {
			if call, ok := in.(ssa.CallInstruction); ok {
				if same(call.Common().StaticCallee(), callee) {
					return true
				}
			}
		}
	}
	return false
}
