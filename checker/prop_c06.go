package main

import (
	"fmt"
	"go/ast"
	"go/token"
	"go/types"
	"os"
	"sort"
	"strings"

	"golang.org/x/tools/go/packages"
)

func init() {
	register(&propSpec{
		id:    "C06",
		level: "translation_validation",
		run:   runC06,
		explanation: "Translation validation of the fork lists.List/Element/Ring against its source, the standard library's container/list and container/ring, read from GOROOT on every run. " +
			"Each of the reference functions is paired with the fork's function of the same name (NewRing<->ring.New) and shown equal in a normal form: layer 1 compares the type-checked ASTs after erasing type parameters/arguments, mapping the element type parameter to any and alpha-renaming receiver, parameters and locals by binding order; " +
			"a pair that differs at layer 1 is compared at layer 2, the sets of canonical path summaries (branch conditions, ordered stores/calls, returned terms, loop back-edge updates) computed by the path engine over go/ssa. " +
			"Equal at either layer means the two functions are the same program modulo generic erasure, hence observationally identical for every operation sequence and handle choice; the struct declarations and the exported API surface are compared too. A pair equal at neither layer is reported (fails closed). " +
			"What is NOT decided separately: nothing beyond the equivalence - the reference in GOROOT is the specification the property names.",
		assumptions: []string{
			"the files in $(go env GOROOT)/src/container/{list,ring} are the reference implementation the property names",
			"the element type parameter has constraint any, so the type checker guarantees values of T are only copied (erasure is sound)",
			"go/parser, go/types and go/ssa represent both packages faithfully",
		},
	})
}

var c06Rename = map[string]string{"NewRing": "New"}

type c06Pair struct {
	refPkg  string // container/list
	refType []string
}

func runC06(c *Ctx) { runC06On(c, "", []string{"container/list", "container/ring"}, 32) }

// runC06On validates the fork against the given reference packages; C16 re-uses the container/list half (prefix
// "list/"), on which Queue rests.
func runC06On(c *Ctx, pfx string, patterns []string, minPairs int) {
	R := c.R
	R.Rule(pfx+"equiv", "each function of container/list and container/ring has a counterpart in lists that is equal in AST normal form (layer 1) or in canonical path summaries (layer 2)", minPairs)
	R.Rule(pfx+"struct-equiv", "the struct declarations Element, List, Ring equal the reference's modulo generic erasure", len(patterns)+1)
	R.Rule(pfx+"api-surface", "the fork's List/Element/Ring have exactly the reference's functions and methods (no function without a validated reference)", 2)

	ref, err := Load(LoadOpts{Dir: c.Repo, Patterns: patterns, MinPkgs: len(patterns)})
	if err != nil {
		R.Unproven(pfx+"equiv", "(reference)", "load", "", "cannot load the reference packages from GOROOT: "+err.Error())
		return
	}
	refAn := NewAnalysis(ref)
	fork := c.P.PkgByRel("lists")
	if fork == nil {
		R.Unproven(pfx+"equiv", "lists", "package", "", "package lists not found")
		return
	}
	// index fork declarations
	forkFuncs := map[string]*FuncInfo{}
	for _, fi := range c.P.FuncsOfPkg("lists") {
		forkFuncs[declName(fi.Decl)] = fi
	}
	forkTypes := typeSpecs(fork)
	refTypeNames := map[string]bool{}
	pairs, samples := 0, []interface{}{}
	layer1, layer2 := 0, 0
	matchedFork := map[string]bool{}
	var refPkgs []*packages.Package
	for _, p := range ref.Pkgs {
		refPkgs = append(refPkgs, p)
	}
	sort.Slice(refPkgs, func(i, j int) bool { return refPkgs[i].PkgPath < refPkgs[j].PkgPath })
	for _, rp := range refPkgs {
		for name, ts := range typeSpecs(rp) {
			refTypeNames[name] = true
			fts, ok := forkTypes[name]
			if !ok {
				R.Refuted(pfx+"struct-equiv", "lists."+name, "decl", "", "type "+name+" of "+rp.PkgPath+" has no counterpart in lists")
				continue
			}
			a, b := normaliseType(fork, fts), normaliseType(rp, ts)
			R.Decide(a == b, pfx+"struct-equiv", "lists."+name, "decl", c.P.Pos(fts.Pos()),
				"struct declaration equals "+rp.PkgPath+"."+name+" modulo erasure",
				"struct declaration differs from "+rp.PkgPath+"."+name, "fork: "+a, "reference: "+b)
		}
		for _, rf := range ref.Funcs {
			if rf.Pkg != rp {
				continue
			}
			rname := declName(rf.Decl)
			fname := rname
			for k, v := range c06Rename {
				if v == rname && rp.PkgPath == "container/ring" {
					fname = k
				}
			}
			pairs++
			ff, ok := forkFuncs[fname]
			construct := "lists." + fname
			if !ok {
				R.Refuted(pfx+"equiv", construct, "pair", "", fmt.Sprintf("%s.%s has no counterpart in package lists", rp.PkgPath, rname))
				continue
			}
			matchedFork[fname] = true
			rename := map[string]string{}
			if rp.PkgPath == "container/ring" {
				rename = c06Rename
			}
			a := normaliseFunc(fork, ff.Decl, rename)
			b := normaliseFunc(rp, rf.Decl, nil)
			if a == b {
				layer1++
				o := R.Held(pfx+"equiv", construct, "pair", c.P.Pos(ff.Decl.Pos()), fmt.Sprintf("equal to %s.%s at layer 1 (AST normal form)", rp.PkgPath, rname))
				if len(samples) < 3 {
					samples = append(samples, map[string]string{"pair": construct + " ~ " + rp.PkgPath + "." + rname, "layer": "1", "normal_form": a})
				}
				_ = o
				continue
			}
			// layer 2
			pa, ua := canonPaths(c.An, ff.SSA, rename)
			pb, ub := canonPaths(refAn, rf.SSA, nil)
			if os.Getenv("TYPCHECK_TRACE") != "" && strings.Join(pa, "|") != strings.Join(pb, "|") {
				for _, x := range pa {
					fmt.Println("TRACE refeq fork", ff.Name, x)
				}
				for _, x := range pb {
					fmt.Println("TRACE refeq ref ", rf.Name, x)
				}
			}
			if ua != "" || ub != "" {
				R.Unproven(pfx+"equiv", construct, "pair", c.P.Pos(ff.Decl.Pos()), "differs at layer 1 and cannot be summarised at layer 2: "+ua+ub, "fork: "+a, "reference: "+b)
				continue
			}
			// closures must agree as well
			same := strings.Join(pa, "\n") == strings.Join(pb, "\n") && len(ff.Closures) == len(rf.Closures)
			if same {
				for i := range ff.Closures {
					ca, u1 := canonPaths(c.An, ff.Closures[i], rename)
					cb, u2 := canonPaths(refAn, rf.Closures[i], nil)
					if u1 != "" || u2 != "" || strings.Join(ca, "\n") != strings.Join(cb, "\n") {
						same = false
					}
				}
			}
			if !same && len(ff.Closures) == 0 && len(rf.Closures) == 0 {
				// layer 2 under the distinct-parameter assumption, when both sides establish it at all their call sites
				okF, nF := distinctArgsAtAllCallSites(c.P, c.An, ff)
				okR, nR := distinctArgsAtAllCallSites(ref, refAn, rf)
				// ... or the function itself returns before its first store when the two coincide (move: if e == at { return })
				okF = okF || selfEstablishesDistinct(c.An, ff)
				okR = okR || selfEstablishesDistinct(refAn, rf)
				if okF && okR {
					da, u1 := canonPathsOpt(c.An, ff.SSA, rename, true)
					db, u2 := canonPathsOpt(refAn, rf.SSA, nil, true)
					if u1 == "" && u2 == "" && strings.Join(da, "\n") == strings.Join(db, "\n") {
						layer2++
						R.Held(pfx+"equiv", construct, "pair", c.P.Pos(ff.Decl.Pos()), fmt.Sprintf("differs textually from %s.%s but has the same %d canonical path summaries when its pointer parameters denote distinct elements, which all call sites establish (%d in the fork, %d in the reference)", rp.PkgPath, rname, len(da), nF, nR))
						samples = append(samples, map[string]interface{}{"pair": construct, "layer": "2 (distinct parameters)", "paths": da})
						continue
					}
				}
			}
			if same {
				layer2++
				R.Held(pfx+"equiv", construct, "pair", c.P.Pos(ff.Decl.Pos()), fmt.Sprintf("differs textually from %s.%s but has the same %d canonical path summaries (layer 2)", rp.PkgPath, rname, len(pa)))
				samples = append(samples, map[string]interface{}{"pair": construct, "layer": "2", "paths": pa})
				continue
			}
			facts := []string{"fork normal form: " + a, "reference normal form: " + b}
			facts = append(facts, diffSets("fork-only path", pa, pb)...)
			facts = append(facts, diffSets("reference-only path", pb, pa)...)
			R.Unproven(pfx+"equiv", construct, "pair", c.P.Pos(ff.Decl.Pos()),
				fmt.Sprintf("not shown equivalent to %s.%s: differs in AST normal form and in path summaries (the fork no longer is a validated translation of the reference here)", rp.PkgPath, rname), facts...)
		}
	}
	// API surface: functions of the fork on the reference's types (or returning them) without a reference
	extra := []string{}
	for name, fi := range forkFuncs {
		if matchedFork[name] {
			continue
		}
		onRefType := false
		if i := strings.Index(name, "."); i >= 0 {
			onRefType = refTypeNames[name[:i]]
		} else {
			// plain function: does it mention a reference type in its signature?
			sig := fi.Obj.Type().(*types.Signature)
			mention := func(t *types.Tuple) {
				for i := 0; i < t.Len(); i++ {
					s := typeStr(t.At(i).Type())
					for tn := range refTypeNames {
						if strings.Contains(s, "lists."+tn+"[") || strings.HasSuffix(s, "lists."+tn) {
							onRefType = true
						}
					}
				}
			}
			mention(sig.Params())
			mention(sig.Results())
		}
		if onRefType {
			// an addition that only reads (an accessor, a Slice, an iterator) cannot make the fork behave differently
			// from the reference on the reference's operations; anything that may write has no reference to be
			// validated against
			if es := c.An.FuncEffects(fi.SSA); !es.all && len(es.cls) == 0 {
				R.Held(pfx+"api-surface", "lists."+name, "read-only-addition", c.pos(fi), "not in the reference; writes nothing but its own locals")
				continue
			}
			extra = append(extra, name)
		}
	}
	sort.Strings(extra)
	R.Decide(len(extra) == 0, pfx+"api-surface", "lists", "no-unvalidated-functions", "",
		"every function on List/Element/Ring has a validated reference counterpart",
		"functions on the forked types without a reference to validate against: "+strings.Join(extra, ", "))
	R.Decide(pairs >= minPairs, pfx+"api-surface", "lists", "reference-size", "", fmt.Sprintf("%d reference functions paired", pairs), fmt.Sprintf("only %d reference functions found (expected %d)", pairs, minPairs))
	if pfx != "" {
		return
	}
	R.Extra["programs"] = pairs
	R.Extra["disagreements_checked"] = pairs - layer1
	R.Extra["equal_at_layer1"] = layer1
	R.Extra["equal_at_layer2"] = layer2
	R.Extra["pair_samples"] = samples
	R.Analysed["reference_functions"] = pairs
}

func typeSpecs(p *packages.Package) map[string]*ast.TypeSpec {
	out := map[string]*ast.TypeSpec{}
	for _, f := range p.Syntax {
		if strings.HasSuffix(p.Fset.Position(f.Pos()).Filename, "_test.go") {
			continue
		}
		for _, d := range f.Decls {
			gd, ok := d.(*ast.GenDecl)
			if !ok || gd.Tok != token.TYPE {
				continue
			}
			for _, s := range gd.Specs {
				ts := s.(*ast.TypeSpec)
				if _, ok := ts.Type.(*ast.StructType); ok {
					out[ts.Name.Name] = ts
				}
			}
		}
	}
	return out
}

func diffSets(label string, a, b []string) []string {
	in := map[string]bool{}
	for _, x := range b {
		in[x] = true
	}
	var out []string
	for _, x := range a {
		if !in[x] {
			out = append(out, label+": "+x)
		}
	}
	if len(out) > 6 {
		out = out[:6]
	}
	return out
}
