package main

import (
	"fmt"
	"go/token"
	"go/types"
	"sort"
	"strings"

	"golang.org/x/tools/go/ssa"
)

// Cond is one branch atom on a path.
type Cond struct {
	T     *Term
	Pol   bool
	Instr *ssa.If
	NEv   int // number of events before this branch
}

func (c Cond) Rel() Rel { return NormRel(c.T, c.Pol) }

// Event is one effectful instruction on a path, with operands as terms.
type Event struct {
	Kind     string // store mapupdate call go defer send recv select arm mkclosure range next
	Instr    ssa.Instruction
	Addr     *Term         // store: address; mapupdate: map; send/recv: channel
	Key      *Term         // mapupdate key
	Val      *Term         // stored / sent value; recv: result term
	Callee   *Term         // call/go/defer: callee term (func / dynamic value)
	Fn       *types.Func   // static callee origin (nil when dynamic)
	SSAFn    *ssa.Function // static callee SSA (closures too)
	Name     string        // callee display name: pkg.(*T).M, or builtin name, or "dyn"
	Args     []*Term       // call args, receiver first for methods
	Res      *Term         // call result term
	Deferred bool          // executed by rundefers
	NCond    int           // number of conds before this event
	Arm      int           // select arm index (Kind arm)
	Invoke   bool          // interface method call
}

// Access is a read of shared memory (not an effect): field/pointer loads and map reads, with the
// number of events before it so that lock state at the access can be recovered.
type Access struct {
	Kind  string // load lookup maprange maplen
	Addr  *Term  // load: address; map reads: the map value
	Instr ssa.Instruction
	NEv   int
	NCond int
}

type EndKind int

const (
	EndReturn EndKind = iota
	EndPanic
	EndLoopBack
	EndExit // os.Exit-like / unreachable
)

// Path is one summarised path through a function (E3).
type Path struct {
	Fn     *ssa.Function
	Conds  []Cond
	Events []Event
	End    EndKind
	Rets   []*Term
	Panic  *Term
	BackTo *ssa.BasicBlock                        // loop header for EndLoopBack
	Next   map[*ssa.Phi]*Term                     // values the header phis take on the back edge
	Blocks []int                                  // block indices visited
	Env    map[ssa.Value]*Term                    // final environment
	LoopIn map[*ssa.BasicBlock]map[*ssa.Phi]*Term // loopvar terms per header entered
	Acc    []Access
	Part   []Access                // partial operations in path order: Kind index|slice|mkslice|div, Addr = the operation's term
	LoopAt map[*ssa.BasicBlock]int // number of events when the header was entered
}

// FuncPaths holds all paths of one function.
type FuncPaths struct {
	Fn       *ssa.Function
	Paths    []*Path
	Unproven string // non-empty: enumeration failed (bound hit, unsupported instruction)
}

const maxPaths = 4096

type walker struct {
	an      *Analysis
	fn      *ssa.Function
	out     *FuncPaths
	headers map[*ssa.BasicBlock]bool
	loopW   map[*ssa.BasicBlock]*effectSet // classes written by the loop of a header
	subst   map[int]*Term                  // free variable cell contents (optional)
	substV  map[int]*Term                  // free variables bound by value (optional)
	cells   map[string]*Term               // contents of cells of the enclosing function, by alloc key
	hdrDone map[*ssa.Function]bool
	inlined int
}

// closureTarget: in the full inlining view, a dynamic call whose callee is a closure value created on this path (its
// MakeClosure is known) and whose body is small enough to walk through.
func (w *walker) closureTarget(st *pstate, call *ssa.Call) (*ssa.Function, *Term) {
	if w.an.Mode < 2 || call.Call.IsInvoke() {
		return nil, nil
	}
	if _, isFn := call.Call.Value.(*ssa.Function); isFn {
		return nil, nil
	}
	if _, isB := call.Call.Value.(*ssa.Builtin); isB {
		return nil, nil
	}
	t, ok := st.env[call.Call.Value]
	if !ok || t == nil || t.Op != "closure" {
		return nil, nil
	}
	mc, ok := t.Val.(*ssa.MakeClosure)
	if !ok {
		return nil, nil
	}
	f, ok := mc.Fn.(*ssa.Function)
	if !ok || len(f.Blocks) == 0 || len(f.Blocks) > 12 {
		return nil, nil
	}
	if f == w.fn || len(st.frames) >= 3 {
		return nil, nil
	}
	for _, fr := range st.frames {
		if fr.fn == f {
			return nil, nil
		}
	}
	// only closures of this package's functions (or bound method wrappers of them / of the standard library)
	if len(t.Args) != len(f.FreeVars) {
		return nil, nil
	}
	return f, t
}

// inlineTarget decides whether a static call is walked through (inlined) rather than kept as a call event.
func (w *walker) inlineTarget(st *pstate, call *ssa.Call) *ssa.Function {
	if w.an.Mode == 0 || call.Call.IsInvoke() {
		return nil
	}
	f, ok := call.Call.Value.(*ssa.Function)
	if !ok {
		return nil
	}
	if f.Origin() != nil {
		f = f.Origin()
	}
	if len(f.Blocks) == 0 || f.Parent() != nil || f.Synthetic != "" {
		return nil
	}
	fi := w.an.P.BySSA[f]
	if fi == nil || fi.SSA != f {
		return nil
	}
	outer := w.an.P.BySSA[w.fn]
	if outer == nil {
		// synthetic wrapper (bound method value): it belongs to its target's package
		if t := boundTarget(w.fn); t != nil {
			outer = w.an.P.BySSA[t]
		}
	}
	if outer == nil || outer.Pkg != fi.Pkg {
		return nil
	}
	// no recursion, bounded depth
	if f == w.fn || len(st.frames) >= 3 {
		return nil
	}
	for _, fr := range st.frames {
		if fr.fn == f {
			return nil
		}
	}
	if w.an.Mode == 1 {
		if w.an.isRecursiveAmongNew(f) {
			return nil
		}
	} else if w.an.isRecursive(f) {
		return nil
	}
	switch w.an.Mode {
	case 1:
		if w.an.Baseline[fi.Name] {
			return nil
		}
	case 2:
	}
	return f
}

// ensureHeaders computes loop headers and loop effects of a function (the outer one, or an inlined callee).
func (w *walker) ensureHeaders(fn *ssa.Function) {
	if w.hdrDone == nil {
		w.hdrDone = map[*ssa.Function]bool{}
	}
	if w.hdrDone[fn] {
		return
	}
	w.hdrDone[fn] = true
	for _, b := range fn.Blocks {
		for _, p := range b.Preds {
			if b.Dominates(p) {
				w.headers[b] = true
			}
		}
	}
	for _, b := range fn.Blocks {
		if w.headers[b] && w.loopW[b] == nil {
			w.loopW[b] = w.loopEffects(b)
		}
	}
}

type pstate struct {
	env    map[ssa.Value]*Term
	mem    map[string]*Term // address key -> value
	memCls map[string]string
	epoch  map[string]int
	global int
	conds  []Cond
	events []Event
	blocks []int
	onpath map[*ssa.BasicBlock]bool
	occ    map[string]int
	defers []Event
	loopIn map[*ssa.BasicBlock]map[*ssa.Phi]*Term
	acc    []Access
	part   []Access // partial operations (index, slice, make, division): see lateguard.go
	loopAt map[*ssa.BasicBlock]int
	frames []frame
}

// frame: an inlined call in progress
type frame struct {
	fn       *ssa.Function
	call     *ssa.Call
	retBlock *ssa.BasicBlock
	retIdx   int
	defers   []Event // the caller's pending defers
}

func (s *pstate) clone() *pstate {
	n := &pstate{
		env: make(map[ssa.Value]*Term, len(s.env)), mem: make(map[string]*Term, len(s.mem)),
		memCls: make(map[string]string, len(s.memCls)), epoch: make(map[string]int, len(s.epoch)),
		global: s.global, onpath: make(map[*ssa.BasicBlock]bool, len(s.onpath)), occ: make(map[string]int, len(s.occ)),
		loopIn: make(map[*ssa.BasicBlock]map[*ssa.Phi]*Term, len(s.loopIn)),
	}
	for k, v := range s.env {
		n.env[k] = v
	}
	for k, v := range s.mem {
		n.mem[k] = v
	}
	for k, v := range s.memCls {
		n.memCls[k] = v
	}
	for k, v := range s.epoch {
		n.epoch[k] = v
	}
	for k, v := range s.onpath {
		n.onpath[k] = v
	}
	for k, v := range s.occ {
		n.occ[k] = v
	}
	for k, v := range s.loopIn {
		n.loopIn[k] = v
	}
	n.conds = append([]Cond(nil), s.conds...)
	n.events = append([]Event(nil), s.events...)
	n.blocks = append([]int(nil), s.blocks...)
	n.defers = append([]Event(nil), s.defers...)
	n.acc = append([]Access(nil), s.acc...)
	n.part = append([]Access(nil), s.part...)
	n.frames = append([]frame(nil), s.frames...)
	n.loopAt = make(map[*ssa.BasicBlock]int, len(s.loopAt))
	for k, v := range s.loopAt {
		n.loopAt[k] = v
	}
	return n
}

// ---------------------------------------------------------------------------
// abstract location classes

const clsAll = "*"

func elemClass(t types.Type) string { return "e:" + typeStr(t) }

// classOf gives the may-alias class of an address term.
func classOf(addr *Term) string {
	switch addr.Op {
	case "faddr":
		return "f:" + objKey(addr.Obj)
	case "iaddr":
		if addr.Typ != nil {
			if p, ok := addr.Typ.Underlying().(*types.Pointer); ok {
				return elemClass(p.Elem())
			}
		}
		return "e:?"
	case "alloc":
		return "a:" + siteKey(addr.Val)
	case "global":
		return "g:" + objKey(addr.Obj)
	case "free":
		return "fv:" + addr.Key()
	}
	if addr.Typ != nil {
		if p, ok := addr.Typ.Underlying().(*types.Pointer); ok {
			return "d:" + typeStr(p.Elem())
		}
	}
	return "d:?"
}

func (s *pstate) invalidate(cls string) {
	if cls == clsAll {
		s.global++
		for k, c := range s.memCls {
			if strings.HasPrefix(c, "l:") { // non-escaping locals survive everything
				continue
			}
			delete(s.mem, k)
			delete(s.memCls, k)
		}
		return
	}
	s.epoch[cls]++
	for k, c := range s.memCls {
		if c == cls {
			delete(s.mem, k)
			delete(s.memCls, k)
		}
	}
}

func (s *pstate) ep(cls string) int { return s.global*1000 + s.epoch[cls] }

// ---------------------------------------------------------------------------

func (an *Analysis) PathsOf(fn *ssa.Function) *FuncPaths {
	if fp, ok := an.paths[fn]; ok {
		return fp
	}
	fp := an.computePaths(fn, nil)
	an.paths[fn] = fp
	return fp
}

// PathsDistinct enumerates fn's paths under the assumption that its pointer parameters denote distinct objects
// (not cached; the caller has checked the call sites).
func (an *Analysis) PathsDistinct(fn *ssa.Function) *FuncPaths {
	if an.DistinctParams == nil {
		an.DistinctParams = map[*ssa.Function]bool{}
	}
	an.DistinctParams[fn] = true
	fp := an.computePaths(fn, nil)
	delete(an.DistinctParams, fn)
	return fp
}

// PathsWithFree enumerates a closure's paths with free-variable cells replaced by known contents.
func (an *Analysis) PathsWithFree(fn *ssa.Function, subst, substV map[int]*Term) *FuncPaths {
	return an.computePaths2(fn, subst, substV)
}

// ClosurePaths enumerates the paths of the closure created by a mkclosure event, with its
// free variables replaced by what they were bound to at creation (cells whose content is known
// at that point and that the closure does not write; values bound directly).
func (an *Analysis) ClosurePaths(ev *Event) *FuncPaths {
	clo := ev.Val
	subst, substV := map[int]*Term{}, map[int]*Term{}
	cells := map[string]*Term{}
	for i, b := range clo.Args {
		// the free variable itself denotes what it was bound to (a cell's address, or a value)
		substV[i] = b
		if b.Op == "alloc" {
			if i < len(ev.Args) && ev.Args[i] != nil && !an.freeVarWritten(ev.SSAFn, i) && storesTo(b.Val) <= 1 {
				cells[b.Key()] = ev.Args[i]
			}
		}
	}
	fp := an.computePaths3(ev.SSAFn, subst, substV, cells)
	return fp
}

func (an *Analysis) computePaths(fn *ssa.Function, subst map[int]*Term) *FuncPaths {
	return an.computePaths2(fn, subst, nil)
}

func (an *Analysis) computePaths2(fn *ssa.Function, subst, substV map[int]*Term) *FuncPaths {
	return an.computePaths3(fn, subst, substV, nil)
}

func (an *Analysis) computePaths3(fn *ssa.Function, subst, substV map[int]*Term, cells map[string]*Term) *FuncPaths {
	w := &walker{an: an, fn: fn, out: &FuncPaths{Fn: fn}, headers: map[*ssa.BasicBlock]bool{}, loopW: map[*ssa.BasicBlock]*effectSet{}, subst: subst, substV: substV, cells: cells}
	if len(fn.Blocks) == 0 {
		w.out.Unproven = "no body"
		return w.out
	}
	w.ensureHeaders(fn)
	st := &pstate{env: map[ssa.Value]*Term{}, mem: map[string]*Term{}, memCls: map[string]string{}, epoch: map[string]int{},
		onpath: map[*ssa.BasicBlock]bool{}, occ: map[string]int{}, loopIn: map[*ssa.BasicBlock]map[*ssa.Phi]*Term{}, loopAt: map[*ssa.BasicBlock]int{}}
	func() {
		defer func() {
			if r := recover(); r != nil {
				if e, ok := r.(unprovenErr); ok {
					w.out.Unproven = string(e)
					return
				}
				panic(r)
			}
		}()
		w.walk(fn.Blocks[0], nil, st)
	}()
	if an.NormPanics && w.out.Unproven == "" {
		normalisePanicGuards(w.out)
	}
	return w.out
}

type unprovenErr string

func (w *walker) fail(format string, a ...interface{}) {
	panic(unprovenErr(fmt.Sprintf(format, a...)))
}

// loopEffects: classes written by the natural loop of header h (blocks dominated by h that reach a back edge).
// isDirectParamField: the memory key is faddr(p<n>[@fn],field).
func isDirectParamField(mk string) bool {
	if !strings.HasPrefix(mk, "faddr(p") {
		return false
	}
	rest := mk[len("faddr(p"):]
	i := 0
	for i < len(rest) && rest[i] >= '0' && rest[i] <= '9' {
		i++
	}
	return i > 0 && i < len(rest) && (rest[i] == ',' || rest[i] == '@')
}

func (w *walker) loopEffects(h *ssa.BasicBlock) *effectSet {
	body := map[*ssa.BasicBlock]bool{h: true}
	var stack []*ssa.BasicBlock
	for _, p := range h.Preds {
		if h.Dominates(p) {
			stack = append(stack, p)
		}
	}
	for len(stack) > 0 {
		b := stack[len(stack)-1]
		stack = stack[:len(stack)-1]
		if body[b] {
			continue
		}
		body[b] = true
		for _, p := range b.Preds {
			stack = append(stack, p)
		}
	}
	es := newEffectSet()
	for b := range body {
		for _, in := range b.Instrs {
			w.an.instrEffects(in, es)
		}
	}
	return es
}

func (w *walker) walk(b *ssa.BasicBlock, from *ssa.BasicBlock, st *pstate) {
	w.walkAt(b, 0, from, st)
}

// walkAt walks block b starting at instruction start (start > 0: resuming after an inlined call).
func (w *walker) walkAt(b *ssa.BasicBlock, start int, from *ssa.BasicBlock, st *pstate) {
	if len(w.out.Paths) > maxPaths {
		w.fail("more than %d paths", maxPaths)
	}
	if start == 0 {
		w.enterBlock(b, from, st)
		if st.blocks == nil {
			return
		}
	}
	w.runBlock(b, start, from, st)
}

// enterBlock handles back edges and loop-header bookkeeping; it signals a finished path by setting st.blocks to nil.
func (w *walker) enterBlock(b *ssa.BasicBlock, from *ssa.BasicBlock, st *pstate) {
	if st.onpath[b] {
		// back edge: terminal LoopBack
		p := w.finish(st, EndLoopBack)
		p.BackTo = b
		p.Next = map[*ssa.Phi]*Term{}
		for _, in := range b.Instrs {
			phi, ok := in.(*ssa.Phi)
			if !ok {
				break
			}
			for i, pred := range b.Preds {
				if pred == from {
					p.Next[phi] = w.val(st, phi.Edges[i])
				}
			}
		}
		st.blocks = nil
		return
	}
	st.onpath[b] = true
	if st.blocks == nil {
		st.blocks = []int{}
	}
	st.blocks = append(st.blocks, b.Index)
	if w.headers[b] {
		st.loopAt[b] = len(st.events)
		// entering a loop: forget what its body may write
		es := w.loopW[b]
		if es.all {
			st.invalidate(clsAll)
		}
		for c := range es.cls {
			if !es.nonFresh[c] {
				// written in the loop only through fields of objects allocated by this call: what is known about the
				// same fields of the objects the parameters point to stays valid
				type kept struct {
					k string
					v *Term
				}
				var keep []kept
				for mk, mc := range st.memCls {
					if mc == c && isDirectParamField(mk) {
						keep = append(keep, kept{mk, st.mem[mk]})
					}
				}
				st.invalidate(c)
				for _, kp := range keep {
					st.mem[kp.k] = kp.v
					st.memCls[kp.k] = c
				}
				continue
			}
			st.invalidate(c)
		}
		// local cells written in the loop
		for k, c := range st.memCls {
			if strings.HasPrefix(c, "l:") && es.locals[strings.TrimPrefix(c, "l:")] {
				delete(st.mem, k)
				delete(st.memCls, k)
			}
		}
		for c := range es.locals {
			st.epoch["l:"+c]++
		}
	}
}

func (w *walker) runBlock(b *ssa.BasicBlock, start int, from *ssa.BasicBlock, st *pstate) {
	for idx := start; idx < len(b.Instrs); idx++ {
		in := b.Instrs[idx]
		switch x := in.(type) {
		case *ssa.Phi:
			if w.headers[b] {
				var init *Term
				for i, pred := range b.Preds {
					if pred == from {
						init = w.val(st, x.Edges[i])
					}
				}
				lv := &Term{Op: "loopvar", Val: x, Typ: x.Type(), Hdr: b, Sym: x.Comment}
				if lv.Sym == "" {
					lv.Sym = x.Name()
				}
				if init != nil {
					lv.Args = []*Term{init}
				}
				st.env[x] = lv
				if st.loopIn[b] == nil {
					st.loopIn[b] = map[*ssa.Phi]*Term{}
				} else {
					m := map[*ssa.Phi]*Term{}
					for k, v := range st.loopIn[b] {
						m[k] = v
					}
					st.loopIn[b] = m
				}
				st.loopIn[b][x] = lv
			} else {
				found := false
				for i, pred := range b.Preds {
					if pred == from {
						st.env[x] = w.val(st, x.Edges[i])
						found = true
					}
				}
				if !found {
					w.fail("phi without matching predecessor in %s", w.fn.Name())
				}
			}
		case *ssa.If:
			c := w.val(st, x.Cond)
			// constant conditions are decided
			tb, fb := b.Succs[0], b.Succs[1]
			if c.Op == "const" && (c.Sym == "true" || c.Sym == "false") {
				if c.Sym == "true" {
					w.walk(tb, b, st)
				} else {
					w.walk(fb, b, st)
				}
				return
			}
			for _, pol := range []bool{true, false} {
				ns := st.clone()
				ns.conds = append(ns.conds, Cond{T: c, Pol: pol, Instr: x, NEv: len(ns.events)})
				if contradicts(ns.conds) {
					continue
				}
				// select arm bookkeeping
				if arm, ok := selectArm(c); ok && pol {
					ns.events = append(ns.events, Event{Kind: "arm", Instr: x, Arm: arm, Val: c.Args[0].Args[0], NCond: len(ns.conds)})
				}
				if pol {
					w.walk(tb, b, ns)
				} else {
					w.walk(fb, b, ns)
				}
			}
			return
		case *ssa.Jump:
			w.walk(b.Succs[0], b, st)
			return
		case *ssa.Return:
			if n := len(st.frames); n > 0 {
				// return from an inlined callee: bind the call's value and continue in the caller
				fr := st.frames[n-1]
				var rets []*Term
				for _, r := range x.Results {
					rets = append(rets, w.val(st, r))
				}
				st.frames = st.frames[:n-1]
				switch len(rets) {
				case 0:
				case 1:
					st.env[fr.call] = rets[0]
				default:
					st.env[fr.call] = &Term{Op: "tuple", Args: rets, Typ: fr.call.Type(), Val: fr.call}
				}
				st.defers = fr.defers
				for k := range st.onpath {
					if k.Parent() == fr.fn {
						delete(st.onpath, k)
					}
				}
				w.runBlock(fr.retBlock, fr.retIdx+1, nil, st)
				return
			}
			p := w.finish(st, EndReturn)
			for _, r := range x.Results {
				p.Rets = append(p.Rets, w.val(st, r))
			}
			return
		case *ssa.Panic:
			// the synthetic panic closing a blocking select is infeasible
			if w.syntheticSelectPanic(b) {
				return
			}
			p := w.finish(st, EndPanic)
			p.Panic = w.val(st, x.X)
			return
		case *ssa.Call:
			if callee := w.inlineTarget(st, x); callee != nil {
				w.ensureHeaders(callee)
				for i, par := range callee.Params {
					if i < len(x.Call.Args) {
						st.env[par] = w.val(st, x.Call.Args[i])
					}
				}
				st.frames = append(st.frames, frame{fn: callee, call: x, retBlock: b, retIdx: idx, defers: st.defers})
				st.defers = nil
				w.inlined++
				w.walkAt(callee.Blocks[0], 0, nil, st)
				return
			}
			if callee, clo := w.closureTarget(st, x); callee != nil {
				// a call of a closure whose creation this path has seen (typically a function-typed argument of an
				// inlined helper): walk through its body with its free variables bound as at creation
				w.ensureHeaders(callee)
				for i, par := range callee.Params {
					if i < len(x.Call.Args) {
						st.env[par] = w.val(st, x.Call.Args[i])
					}
				}
				for i, fv := range callee.FreeVars {
					if i < len(clo.Args) {
						st.env[fv] = clo.Args[i]
					}
				}
				st.frames = append(st.frames, frame{fn: callee, call: x, retBlock: b, retIdx: idx, defers: st.defers})
				st.defers = nil
				w.inlined++
				w.walkAt(callee.Blocks[0], 0, nil, st)
				return
			}
			w.step(st, in, b, idx)
		default:
			w.step(st, in, b, idx)
		}
	}
	// block without terminator (should not happen)
	w.fail("block %d of %s has no terminator", b.Index, w.fn.Name())
}

// syntheticSelectPanic recognises go/ssa's "blocking select matched no case" block.
func (w *walker) syntheticSelectPanic(b *ssa.BasicBlock) bool {
	if len(b.Instrs) == 0 {
		return false
	}
	p, ok := b.Instrs[len(b.Instrs)-1].(*ssa.Panic)
	if !ok {
		return false
	}
	if mi, ok := p.X.(*ssa.MakeInterface); ok {
		if c, ok := mi.X.(*ssa.Const); ok && c.Value != nil && strings.Contains(c.Value.ExactString(), "blocking select matched no case") {
			return true
		}
	}
	return false
}

func selectArm(c *Term) (int, bool) {
	if c.Op == "bin" && c.Sym == "==" && c.Args[0].Op == "extract" && c.Args[0].N == 0 && c.Args[0].Args[0].Op == "select" {
		if v, ok := c.Args[1].IntVal(); ok {
			return int(v), true
		}
	}
	return 0, false
}

// contradicts: the last condition contradicts an earlier identical term.
func contradicts(cs []Cond) bool {
	if len(cs) == 0 {
		return false
	}
	last := cs[len(cs)-1]
	// a comparison whose normal form is a constant is decided by arithmetic (x == x+1 is infeasible)
	if pl, kind, ok := last.Rel().IntNorm(); ok {
		if k, isC := pl.IsConst(); isC {
			switch kind {
			case ">":
				return !(k > 0)
			case "=":
				return k != 0
			case "!=":
				return k == 0
			}
		}
	}
	// two integer facts P > 0 and Q > 0 need P + Q >= 2: x <= 0 together with x > 1 is infeasible
	if pl, kind, ok := last.Rel().IntNorm(); ok && kind == ">" {
		for _, c := range cs[:len(cs)-1] {
			if ql, k2, ok2 := c.Rel().IntNorm(); ok2 && k2 == ">" {
				if k, isC := pl.Add(ql, 1).IsConst(); isC && k <= 1 {
					return true
				}
			}
		}
	}
	// a select arm on a nil channel is never chosen: "index == k" is infeasible when arm k's channel is the nil constant
	if r := last.Rel(); r.B != nil && r.Op == "==" {
		a, b := r.A, r.B
		if b.Op == "extract" {
			a, b = b, a
		}
		if a.Op == "extract" && a.N == 0 && len(a.Args) == 1 && a.Args[0].Op == "select" {
			if kv, okc := b.IntVal(); okc && kv >= 0 && int(kv) < len(a.Args[0].Args) && a.Args[0].Args[kv].IsNil() {
				return true
			}
		}
	}
	lt, lp := stripNot(last.T, last.Pol)
	k := lt.Key()
	for _, c := range cs[:len(cs)-1] {
		t, p := stripNot(c.T, c.Pol)
		if t.Key() == k && p != lp {
			return true
		}
	}
	return false
}

func stripNot(t *Term, pol bool) (*Term, bool) {
	for t.Op == "un" && t.Sym == "!" {
		t = t.Args[0]
		pol = !pol
	}
	return t, pol
}

func (w *walker) finish(st *pstate, end EndKind) *Path {
	p := &Path{Fn: w.fn, Conds: st.conds, Events: st.events, End: end, Blocks: st.blocks, Env: st.env, LoopIn: st.loopIn, Acc: st.acc, LoopAt: st.loopAt, Part: st.part}
	w.out.Paths = append(w.out.Paths, p)
	return p
}

// val evaluates an SSA value to a term in the current state.
func (w *walker) val(st *pstate, v ssa.Value) *Term {
	if t, ok := st.env[v]; ok {
		return t
	}
	switch x := v.(type) {
	case *ssa.Const:
		return constTerm(x)
	case *ssa.Parameter:
		for i, p := range w.fn.Params {
			if p == x {
				t := &Term{Op: "param", N: i, Sym: x.Name(), Typ: x.Type(), Fn: w.fn, Val: x}
				st.env[v] = t
				return t
			}
		}
	case *ssa.FreeVar:
		for i, p := range w.fn.FreeVars {
			if p == x {
				if w.substV != nil {
					if sv, ok := w.substV[i]; ok {
						st.env[v] = sv
						return sv
					}
				}
				t := &Term{Op: "free", N: i, Sym: x.Name(), Typ: x.Type(), Fn: w.fn, Val: x}
				st.env[v] = t
				return t
			}
		}
	case *ssa.Global:
		return &Term{Op: "global", Obj: x.Object(), Typ: x.Type(), Sym: x.Name(), Val: x}
	case *ssa.Function:
		name := x.Name()
		if obj, ok := x.Object().(*types.Func); ok && obj != nil {
			name = funcName(obj.Origin(), w.an.P.ModPath)
		}
		return &Term{Op: "func", Sym: name, Obj: x.Object(), Typ: x.Type(), Val: x}
	case *ssa.Builtin:
		return &Term{Op: "func", Sym: "builtin." + x.Name(), Typ: x.Type(), Val: x}
	}
	w.fail("value %s (%T) used before definition on path in %s", v.Name(), v, w.fn.Name())
	return nil
}

func (w *walker) load(st *pstate, addr *Term, typ types.Type) *Term {
	k := addr.Key()
	if v, ok := st.mem[k]; ok {
		return v
	}
	// cells of the enclosing function with known contents
	if addr.Op == "alloc" && w.cells != nil {
		if c, ok := w.cells[addr.Key()]; ok {
			return c
		}
	}
	// free-variable cells with known contents
	if addr.Op == "free" && w.subst != nil {
		if c, ok := w.subst[addr.N]; ok {
			return c
		}
	}
	// field of a local whose whole value is known
	if addr.Op == "faddr" {
		base := addr.Args[0]
		if whole, ok := st.mem[base.Key()]; ok {
			return fieldOf(whole, addr.Obj.(*types.Var), typ)
		}
	}
	// whole value of an allocated struct with field-level entries: rebuild
	if addr.Op == "alloc" {
		if stt, ok := derefStruct(addr.Typ); ok {
			var fs []*Term
			any := false
			for i := 0; i < stt.NumFields(); i++ {
				f := stt.Field(i)
				fa := &Term{Op: "faddr", Args: []*Term{addr}, Obj: f.Origin(), Typ: types.NewPointer(f.Type())}
				if _, ok := st.mem[fa.Key()]; ok {
					any = true
				}
			}
			if any {
				for i := 0; i < stt.NumFields(); i++ {
					f := stt.Field(i)
					fa := &Term{Op: "faddr", Args: []*Term{addr}, Obj: f.Origin(), Typ: types.NewPointer(f.Type())}
					fs = append(fs, w.load(st, fa, f.Type()))
				}
				return &Term{Op: "struct", Typ: typ, Args: fs, Val: addr.Val}
			}
		}
	}
	cls := w.memClass(addr)
	t := &Term{Op: "load", Args: []*Term{addr}, Typ: typ, Ep: st.ep(cls)}
	st.mem[k] = t
	st.memCls[k] = cls
	return t
}

func isFreshLocal(addr *Term) bool {
	a, ok := addr.Val.(*ssa.Alloc)
	return ok && a != nil
}

func derefStruct(t types.Type) (*types.Struct, bool) {
	if t == nil {
		return nil, false
	}
	p, ok := t.Underlying().(*types.Pointer)
	if !ok {
		return nil, false
	}
	s, ok := p.Elem().Underlying().(*types.Struct)
	return s, ok
}

func zeroOf(t types.Type) *Term {
	switch u := t.Underlying().(type) {
	case *types.Basic:
		switch {
		case u.Info()&types.IsBoolean != 0:
			return &Term{Op: "const", Sym: "false", Typ: t}
		case u.Info()&types.IsNumeric != 0:
			return &Term{Op: "const", Sym: "0", Typ: t}
		case u.Info()&types.IsString != 0:
			return &Term{Op: "const", Sym: `""`, Typ: t}
		}
	}
	if isNillable(t) {
		return &Term{Op: "const", Sym: "nil", Typ: t}
	}
	return &Term{Op: "zero", Typ: t}
}

func fieldOf(whole *Term, f *types.Var, typ types.Type) *Term {
	if whole.Op == "struct" {
		if st, ok := whole.Typ.Underlying().(*types.Struct); ok {
			for i := 0; i < st.NumFields(); i++ {
				if st.Field(i).Origin() == f.Origin() && i < len(whole.Args) {
					return whole.Args[i]
				}
			}
		}
	}
	if whole.Op == "zero" {
		return zeroOf(typ)
	}
	return &Term{Op: "field", Args: []*Term{whole}, Obj: f, Typ: typ}
}

// memClass: class used for invalidation; non-escaping locals get a private class.
func (w *walker) memClass(addr *Term) string {
	root := addr
	for root.Op == "faddr" || root.Op == "iaddr" {
		if root.Op == "iaddr" {
			break
		}
		root = root.Args[0]
	}
	if root.Op == "alloc" {
		if a, ok := root.Val.(*ssa.Alloc); ok && !w.an.escapes(a) {
			return "l:" + siteKey(a)
		}
	}
	return classOf(addr)
}

func (w *walker) store(st *pstate, addr, val *Term) {
	cls := w.memClass(addr)
	k := addr.Key()
	// whole-value store into a local: drop field-level entries below it
	prefix := "faddr(" + k + ","
	for mk := range st.mem {
		if strings.HasPrefix(mk, prefix) {
			delete(st.mem, mk)
			delete(st.memCls, mk)
		}
	}
	if addr.Op == "iaddr" && addr.Args[0].Op == "alloc" {
		// an element store makes a cached whole-array value stale
		delete(st.mem, addr.Args[0].Key())
		delete(st.memCls, addr.Args[0].Key())
	}
	if addr.Op == "faddr" {
		// a field store makes a cached whole-value stale: fold it into field entries
		base := addr.Args[0]
		if whole, ok := st.mem[base.Key()]; ok {
			if stt, ok2 := derefStruct(base.Typ); ok2 {
				for i := 0; i < stt.NumFields(); i++ {
					f := stt.Field(i).Origin()
					fa := &Term{Op: "faddr", Args: []*Term{base}, Obj: f, Typ: types.NewPointer(f.Type())}
					if _, has := st.mem[fa.Key()]; !has {
						st.mem[fa.Key()] = fieldOf(whole, f, f.Type())
						st.memCls[fa.Key()] = w.memClass(fa)
					}
				}
			}
			delete(st.mem, base.Key())
			delete(st.memCls, base.Key())
		}
	}
	// distinct-parameter assumption: the same field of the other pointer parameters survives
	type kept struct {
		k, cls string
		v      *Term
	}
	var keep []kept
	if w.an.DistinctParams[w.fn] && addr.Op == "faddr" && addr.Args[0].Op == "param" && addr.Args[0].Fn == w.fn {
		for i, prm := range w.fn.Params {
			if i == addr.Args[0].N {
				continue
			}
			if _, isPtr := prm.Type().Underlying().(*types.Pointer); !isPtr {
				continue
			}
			other := &Term{Op: "faddr", Args: []*Term{{Op: "param", N: i, Fn: w.fn}}, Obj: addr.Obj}
			if v, ok := st.mem[other.Key()]; ok {
				keep = append(keep, kept{other.Key(), st.memCls[other.Key()], v})
			}
		}
	}
	// an object allocated by this call is not the object a pointer parameter refers to: a field store into the one
	// leaves what is known about the same-class fields of the other intact
	if addr.Op == "faddr" && !strings.HasPrefix(cls, "l:") {
		keepPrefix := ""
		switch addr.Args[0].Op {
		case "alloc":
			keepPrefix = "faddr(p"
		case "param":
			keepPrefix = "faddr(alloc("
		}
		if keepPrefix != "" {
			for mk, mc := range st.memCls {
				if mc == cls && strings.HasPrefix(mk, keepPrefix) && mk != k {
					if keepPrefix == "faddr(p" {
						// only direct fields of a parameter: faddr(p<digits>[@fn],...)
						rest := mk[len("faddr(p"):]
						i := 0
						for i < len(rest) && rest[i] >= '0' && rest[i] <= '9' {
							i++
						}
						if i == 0 || i >= len(rest) || (rest[i] != ',' && rest[i] != '@') {
							continue
						}
					}
					keep = append(keep, kept{mk, mc, st.mem[mk]})
				}
			}
		}
	}
	if strings.HasPrefix(cls, "l:") {
		st.epoch[cls]++
	} else {
		st.invalidate(cls)
	}
	for _, kp := range keep {
		st.mem[kp.k] = kp.v
		st.memCls[kp.k] = kp.cls
	}
	st.mem[k] = val
	st.memCls[k] = cls
}

func (w *walker) step(st *pstate, in ssa.Instruction, b *ssa.BasicBlock, idx int) {
	switch x := in.(type) {
	case *ssa.DebugRef:
	case *ssa.Alloc:
		t := &Term{Op: "alloc", Val: x, Typ: x.Type(), Sym: "local"}
		if x.Heap {
			t.Sym = "heap"
		}
		st.env[x] = t
		// a fresh cell holds the zero value
		if p, ok := x.Type().Underlying().(*types.Pointer); ok {
			st.mem[t.Key()] = zeroOf(p.Elem())
			st.memCls[t.Key()] = w.memClass(t)
		}
	case *ssa.MakeSlice:
		c := w.val(st, x.Cap)
		st.env[x] = &Term{Op: "mkslice", Val: x, Typ: x.Type(), Args: []*Term{w.val(st, x.Len), c}}
		st.part = append(st.part, Access{Kind: "mkslice", Addr: st.env[x], Instr: x, NEv: len(st.events), NCond: len(st.conds)})
	case *ssa.MakeMap:
		st.env[x] = &Term{Op: "mkmap", Val: x, Typ: x.Type()}
	case *ssa.MakeChan:
		st.env[x] = &Term{Op: "mkchan", Val: x, Typ: x.Type(), Args: []*Term{w.val(st, x.Size)}}
	case *ssa.MakeClosure:
		var bs []*Term
		for _, bv := range x.Bindings {
			bs = append(bs, w.val(st, bv))
		}
		fn := x.Fn.(*ssa.Function)
		t := &Term{Op: "closure", Val: x, Typ: x.Type(), Args: bs, Sym: fn.Name()}
		st.env[x] = t
		// snapshot of the bound cells' contents, for rules that look inside the closure
		var vals []*Term
		for _, bt := range bs {
			if v, ok := st.mem[bt.Key()]; ok {
				vals = append(vals, v)
			} else {
				vals = append(vals, nil)
			}
		}
		st.events = append(st.events, Event{Kind: "mkclosure", Instr: x, Val: t, Args: vals, SSAFn: fn, NCond: len(st.conds)})
	case *ssa.MakeInterface:
		st.env[x] = &Term{Op: "iface", Args: []*Term{w.val(st, x.X)}, Typ: x.Type(), Val: x, Sym: typeStr(x.X.Type())}
	case *ssa.ChangeType:
		st.env[x] = w.val(st, x.X)
	case *ssa.ChangeInterface:
		st.env[x] = w.val(st, x.X)
	case *ssa.Convert:
		st.env[x] = &Term{Op: "conv", Args: []*Term{w.val(st, x.X)}, Typ: x.Type(), Val: x}
	case *ssa.MultiConvert:
		st.env[x] = &Term{Op: "conv", Args: []*Term{w.val(st, x.X)}, Typ: x.Type(), Val: x}
	case *ssa.SliceToArrayPointer:
		st.env[x] = &Term{Op: "conv", Args: []*Term{w.val(st, x.X)}, Typ: x.Type(), Val: x}
	case *ssa.BinOp:
		if (x.Op == token.QUO || x.Op == token.REM) && isIntegerType(x.Type()) {
			st.part = append(st.part, Access{Kind: "div", Addr: w.val(st, x.Y), Instr: x, NEv: len(st.events), NCond: len(st.conds)})
		}
		st.env[x] = simplifyBin(&Term{Op: "bin", Sym: x.Op.String(), Args: []*Term{w.val(st, x.X), w.val(st, x.Y)}, Typ: x.Type(), Val: x})
	case *ssa.UnOp:
		a := w.val(st, x.X)
		switch x.Op {
		case token.MUL:
			lt := w.load(st, a, x.Type())
			if lt.Op == "load" && lt.Val == nil {
				lt.Val = x
			}
			st.env[x] = lt
			if !strings.HasPrefix(w.memClass(a), "l:") {
				st.acc = append(st.acc, Access{Kind: "load", Addr: a, Instr: x, NEv: len(st.events), NCond: len(st.conds)})
			}
		case token.ARROW:
			k := "recv " + a.Key()
			st.occ[k]++
			t := &Term{Op: "recv", Args: []*Term{a}, Typ: x.Type(), Ep: st.occ[k], Val: x}
			if x.CommaOk {
				t.Sym = "commaok"
			}
			st.env[x] = t
			st.events = append(st.events, Event{Kind: "recv", Instr: x, Addr: a, Val: t, NCond: len(st.conds)})
			st.invalidate(clsAll)
		default:
			st.env[x] = &Term{Op: "un", Sym: x.Op.String(), Args: []*Term{a}, Typ: x.Type(), Val: x}
		}
	case *ssa.FieldAddr:
		base := w.val(st, x.X)
		f := fieldVar(x.X.Type(), x.Field)
		st.env[x] = &Term{Op: "faddr", Args: []*Term{base}, Obj: f, Typ: x.Type(), Val: x}
	case *ssa.Field:
		base := w.val(st, x.X)
		f := fieldVarStruct(x.X.Type(), x.Field)
		st.env[x] = fieldOf(base, f, x.Type())
	case *ssa.IndexAddr:
		st.env[x] = &Term{Op: "iaddr", Args: []*Term{w.val(st, x.X), w.val(st, x.Index)}, Typ: x.Type(), Val: x}
		st.part = append(st.part, Access{Kind: "index", Addr: st.env[x], Instr: x, NEv: len(st.events), NCond: len(st.conds)})
	case *ssa.Index:
		st.env[x] = &Term{Op: "index", Args: []*Term{w.val(st, x.X), w.val(st, x.Index)}, Typ: x.Type(), Val: x}
		st.part = append(st.part, Access{Kind: "index", Addr: st.env[x], Instr: x, NEv: len(st.events), NCond: len(st.conds)})
	case *ssa.Lookup:
		m := w.val(st, x.X)
		cls := "m:" + typeStr(x.X.Type())
		t := &Term{Op: "lookup", Args: []*Term{m, w.val(st, x.Index)}, Typ: x.Type(), Ep: st.ep(cls), Val: x}
		if x.CommaOk {
			t.Sym = "commaok"
		} else {
			// a partial operation: it panics when the dynamic type differs, on whatever path executes it
			st.acc = append(st.acc, Access{Kind: "tassert", Addr: t, Instr: x, NEv: len(st.events), NCond: len(st.conds)})
		}
		st.env[x] = t
		if _, isMap := x.X.Type().Underlying().(*types.Map); isMap {
			st.acc = append(st.acc, Access{Kind: "lookup", Addr: m, Instr: x, NEv: len(st.events), NCond: len(st.conds)})
		}
	case *ssa.Slice:
		arg := func(v ssa.Value) *Term {
			if v == nil {
				return noneTerm
			}
			return w.val(st, v)
		}
		st.env[x] = &Term{Op: "slice", Args: []*Term{w.val(st, x.X), arg(x.Low), arg(x.High), arg(x.Max)}, Typ: x.Type(), Val: x}
		st.part = append(st.part, Access{Kind: "slice", Addr: st.env[x], Instr: x, NEv: len(st.events), NCond: len(st.conds)})
	case *ssa.Extract:
		tup := w.val(st, x.Tuple)
		if tup.Op == "tuple" && x.Index < len(tup.Args) {
			st.env[x] = tup.Args[x.Index]
		} else {
			st.env[x] = &Term{Op: "extract", Args: []*Term{tup}, N: x.Index, Typ: x.Type(), Val: x}
		}
	case *ssa.TypeAssert:
		t := &Term{Op: "tassert", Args: []*Term{w.val(st, x.X)}, Typ: x.AssertedType, Val: x}
		if x.CommaOk {
			t.Sym = "commaok"
		} else {
			// a partial operation: it panics when the dynamic type differs, on whatever path executes it
			st.acc = append(st.acc, Access{Kind: "tassert", Addr: t, Instr: x, NEv: len(st.events), NCond: len(st.conds)})
		}
		st.env[x] = t
	case *ssa.Range:
		st.env[x] = &Term{Op: "range", Val: x, Args: []*Term{w.val(st, x.X)}, Typ: x.Type()}
		st.events = append(st.events, Event{Kind: "range", Instr: x, Addr: w.val(st, x.X), NCond: len(st.conds)})
		if _, isMap := x.X.Type().Underlying().(*types.Map); isMap {
			st.acc = append(st.acc, Access{Kind: "maprange", Addr: w.val(st, x.X), Instr: x, NEv: len(st.events), NCond: len(st.conds)})
		}
	case *ssa.Next:
		it := w.val(st, x.Iter)
		k := "next " + it.Key()
		st.occ[k]++
		t := &Term{Op: "next", Args: []*Term{it}, Ep: st.occ[k], Typ: x.Type(), Val: x}
		st.env[x] = t
		st.events = append(st.events, Event{Kind: "next", Instr: x, Addr: it, Val: t, NCond: len(st.conds)})
	case *ssa.Select:
		t := &Term{Op: "select", Val: x, Typ: x.Type()}
		if !x.Blocking {
			t.Sym = "nonblocking"
		}
		ev := Event{Kind: "select", Instr: x, Val: t, NCond: len(st.conds)}
		for _, s := range x.States {
			ch := w.val(st, s.Chan)
			t.Args = append(t.Args, ch)
			if s.Send != nil {
				ev.Args = append(ev.Args, w.val(st, s.Send))
			} else {
				ev.Args = append(ev.Args, nil)
			}
		}
		st.env[x] = t
		st.events = append(st.events, ev)
		st.invalidate(clsAll)
	case *ssa.Store:
		addr := w.val(st, x.Addr)
		val := w.val(st, x.Val)
		w.store(st, addr, val)
		st.events = append(st.events, Event{Kind: "store", Instr: x, Addr: addr, Val: val, NCond: len(st.conds)})
	case *ssa.MapUpdate:
		m := w.val(st, x.Map)
		st.events = append(st.events, Event{Kind: "mapupdate", Instr: x, Addr: m, Key: w.val(st, x.Key), Val: w.val(st, x.Value), NCond: len(st.conds)})
		st.invalidate("m:" + typeStr(x.Map.Type()))
	case *ssa.Send:
		ch := w.val(st, x.Chan)
		st.events = append(st.events, Event{Kind: "send", Instr: x, Addr: ch, Val: w.val(st, x.X), NCond: len(st.conds)})
		st.invalidate(clsAll)
	case *ssa.Call:
		ev := w.callEvent(st, &x.Call, x, "call")
		st.env[x] = ev.Res
		st.events = append(st.events, ev)
		w.applyCallEffects(st, &ev)
	case *ssa.Go:
		ev := w.callEvent(st, &x.Call, x, "go")
		st.events = append(st.events, ev)
	case *ssa.Defer:
		ev := w.callEvent(st, &x.Call, x, "defer")
		st.events = append(st.events, ev)
		st.defers = append(st.defers, ev)
	case *ssa.RunDefers:
		for i := len(st.defers) - 1; i >= 0; i-- {
			ev := st.defers[i]
			ev.Kind = "call"
			ev.Deferred = true
			ev.NCond = len(st.conds)
			st.events = append(st.events, ev)
			w.applyCallEffects(st, &ev)
		}
	default:
		w.fail("unsupported instruction %T in %s", in, w.fn.Name())
	}
}

func fieldVar(ptrType types.Type, idx int) *types.Var {
	p, ok := ptrType.Underlying().(*types.Pointer)
	if !ok {
		// type parameter with pointer core type
		if tp, ok2 := ptrType.(*types.TypeParam); ok2 {
			_ = tp
		}
		return nil
	}
	return fieldVarStruct(p.Elem(), idx)
}

func fieldVarStruct(t types.Type, idx int) *types.Var {
	st, ok := t.Underlying().(*types.Struct)
	if !ok || idx >= st.NumFields() {
		return nil
	}
	return st.Field(idx).Origin()
}

func (w *walker) callEvent(st *pstate, c *ssa.CallCommon, in ssa.Instruction, kind string) Event {
	ev := Event{Kind: kind, Instr: in, NCond: len(st.conds)}
	var resTyp types.Type
	if v, ok := in.(ssa.Value); ok {
		resTyp = v.Type()
	}
	if c.IsInvoke() {
		ev.Invoke = true
		ev.Fn = c.Method
		ev.Name = "iface." + recvTypeName(c.Value.Type()) + "." + c.Method.Name()
		ev.Args = append(ev.Args, w.val(st, c.Value))
		ev.Callee = &Term{Op: "func", Sym: ev.Name, Obj: c.Method}
	} else {
		switch f := c.Value.(type) {
		case *ssa.Builtin:
			ev.Name = "builtin." + f.Name()
			ev.Callee = &Term{Op: "func", Sym: ev.Name}
		case *ssa.Function:
			ev.SSAFn = f
			if f.Origin() != nil {
				ev.SSAFn = f.Origin()
			}
			if obj, ok := f.Object().(*types.Func); ok && obj != nil {
				ev.Fn = obj.Origin()
				ev.Name = funcName(ev.Fn, w.an.P.ModPath)
			} else {
				ev.Name = f.Name()
			}
			ev.Callee = &Term{Op: "func", Sym: ev.Name, Obj: f.Object(), Val: f}
		case *ssa.MakeClosure:
			fn := f.Fn.(*ssa.Function)
			ev.SSAFn = fn
			ev.Name = fn.Name()
			ev.Callee = w.val(st, f)
		default:
			ev.Callee = w.val(st, c.Value)
			ev.Name = "dyn"
			// a bound method value or closure whose target is known
			if ev.Callee.Op == "closure" {
				if mc, ok := ev.Callee.Val.(*ssa.MakeClosure); ok {
					ev.SSAFn = mc.Fn.(*ssa.Function)
					ev.Name = ev.SSAFn.Name()
					// a bound method value x.M: the call is x.M(args)
					if target := boundTarget(ev.SSAFn); target != nil && len(ev.Callee.Args) == 1 {
						ev.SSAFn = target
						if obj, ok := target.Object().(*types.Func); ok && obj != nil {
							ev.Fn = obj.Origin()
							ev.Name = funcName(ev.Fn, w.an.P.ModPath)
						}
						ev.Args = append([]*Term{ev.Callee.Args[0]}, ev.Args...)
						ev.Callee = &Term{Op: "func", Sym: ev.Name, Obj: target.Object(), Val: target}
					}
				}
			}
		}
	}
	for _, a := range c.Args {
		ev.Args = append(ev.Args, w.val(st, a))
	}
	// result term
	switch {
	case ev.Name == "builtin.len" || ev.Name == "builtin.cap":
		ev.Res = &Term{Op: "builtin", Sym: strings.TrimPrefix(ev.Name, "builtin."), Args: ev.Args, Typ: resTyp}
		// len of a make with known length
		if ev.Name == "builtin.len" && len(ev.Args) == 1 && ev.Args[0].Op == "mkslice" {
			ev.Res = ev.Args[0].Args[0]
		}
	case ev.Name == "builtin.copy" && len(ev.Args) == 2 && knownLen(ev.Args[0]) != nil && knownLen(ev.Args[1]) != nil && ToPoly(knownLen(ev.Args[0])).Equal(ToPoly(knownLen(ev.Args[1]))):
		// copy returns min(len(dst), len(src)); when the two are the same expression that is the count
		ev.Res = knownLen(ev.Args[1])
	case ev.Name == "builtin.append" || ev.Name == "builtin.min" || ev.Name == "builtin.max":
		ev.Res = &Term{Op: "builtin", Sym: strings.TrimPrefix(ev.Name, "builtin."), Args: ev.Args, Typ: resTyp, Val: valueOf(in)}
	default:
		key := ev.Name
		if ev.Name == "dyn" {
			key = "dyn " + ev.Callee.Key()
		}
		for _, a := range ev.Args {
			key += "," + a.Key()
		}
		st.occ[key]++
		t := &Term{Op: "call", Sym: ev.Name, Args: ev.Args, Typ: resTyp, Ep: st.occ[key], Val: valueOf(in), Obj: objOrNil(ev.Fn)}
		if ev.Name == "dyn" {
			t.Args = append([]*Term{ev.Callee}, ev.Args...)
		}
		ev.Res = t
	}
	return ev
}

func objOrNil(f *types.Func) types.Object {
	if f == nil {
		return nil
	}
	return f
}

func valueOf(in ssa.Instruction) ssa.Value {
	v, _ := in.(ssa.Value)
	return v
}

func recvTypeName(t types.Type) string {
	switch x := t.(type) {
	case *types.Named:
		return x.Obj().Name()
	case *types.Alias:
		return x.Obj().Name()
	case *types.TypeParam:
		return x.Obj().Name()
	}
	return typeStr(t)
}

func (w *walker) applyCallEffects(st *pstate, ev *Event) {
	es := w.an.callEffects(ev)
	if es.all {
		st.invalidate(clsAll)
		// cells written by closures may change at any unknown call
		return
	}
	for c := range es.cls {
		st.invalidate(c)
	}
	// locals whose address is passed to the callee may be written
	for _, a := range ev.Args {
		if a == nil {
			continue
		}
		root := a
		for root.Op == "faddr" {
			root = root.Args[0]
		}
		if root.Op == "alloc" && es.writesArgs {
			cls := "a:" + siteKey(root.Val)
			st.invalidate(cls)
			pre := root.Key()
			for k := range st.mem {
				if k == pre || strings.HasPrefix(k, "faddr("+pre+",") {
					delete(st.mem, k)
					delete(st.memCls, k)
				}
			}
		}
	}
}

// ---------------------------------------------------------------------------
// dump (debugging / replay)

func (p *Path) CondString() string {
	var cs []string
	for _, c := range p.Conds {
		cs = append(cs, c.Rel().String())
	}
	return strings.Join(cs, " ∧ ")
}

func (e Event) String() string {
	switch e.Kind {
	case "store":
		return fmt.Sprintf("STORE %s ← %s", e.Addr, e.Val)
	case "mapupdate":
		return fmt.Sprintf("MAPSET %s[%s] ← %s", e.Addr, e.Key, e.Val)
	case "send":
		return fmt.Sprintf("SEND %s ← %s", e.Addr, e.Val)
	case "recv":
		return fmt.Sprintf("RECV %s", e.Val)
	case "call", "go", "defer":
		var as []string
		for _, a := range e.Args {
			as = append(as, a.String())
		}
		k := strings.ToUpper(e.Kind)
		if e.Deferred {
			k = "DEFERRED-CALL"
		}
		n := e.Name
		if n == "dyn" {
			n = "dyn:" + e.Callee.String()
		}
		return fmt.Sprintf("%s %s(%s)", k, n, strings.Join(as, ", "))
	case "arm":
		return fmt.Sprintf("ARM %d", e.Arm)
	case "select":
		return fmt.Sprintf("SELECT %s", e.Val.Sym)
	case "mkclosure":
		return fmt.Sprintf("CLOSURE %s", e.Val.Sym)
	case "range":
		return fmt.Sprintf("RANGE %s", e.Addr)
	case "next":
		return fmt.Sprintf("NEXT %s", e.Addr)
	}
	return e.Kind
}

func (p *Path) String() string {
	var sb strings.Builder
	ci := 0
	for i, e := range p.Events {
		for ci < len(p.Conds) && p.Conds[ci].NEv <= i {
			fmt.Fprintf(&sb, "  [%s]\n", p.Conds[ci].Rel())
			ci++
		}
		fmt.Fprintf(&sb, "  %s\n", e)
	}
	for ; ci < len(p.Conds); ci++ {
		fmt.Fprintf(&sb, "  [%s]\n", p.Conds[ci].Rel())
	}
	switch p.End {
	case EndReturn:
		var rs []string
		for _, r := range p.Rets {
			rs = append(rs, r.String())
		}
		fmt.Fprintf(&sb, "  RETURN %s\n", strings.Join(rs, ", "))
	case EndPanic:
		fmt.Fprintf(&sb, "  PANIC %s\n", p.Panic)
	case EndLoopBack:
		var ns []string
		for phi, t := range p.Next {
			ns = append(ns, fmt.Sprintf("%s←%s", phiName(phi), t))
		}
		sort.Strings(ns)
		fmt.Fprintf(&sb, "  LOOPBACK b%d {%s}\n", p.BackTo.Index, strings.Join(ns, "; "))
	}
	return sb.String()
}

func phiName(p *ssa.Phi) string {
	if p.Comment != "" {
		return p.Comment
	}
	return p.Name()
}

// storesTo counts the store instructions whose address is exactly v (within v's function).
func storesTo(v ssa.Value) int {
	if v == nil || v.Referrers() == nil {
		return 99
	}
	n := 0
	for _, r := range *v.Referrers() {
		if st, ok := r.(*ssa.Store); ok && st.Addr == v {
			n++
		}
	}
	return n
}

// simplifyBin folds comparisons with boolean constants (b == true -> b, b != true -> !b) and of two integer constants.
func simplifyBin(t *Term) *Term {
	if t.Sym != "==" && t.Sym != "!=" && t.Sym != "<" && t.Sym != "<=" && t.Sym != ">" && t.Sym != ">=" {
		return t
	}
	a, b := t.Args[0], t.Args[1]
	isBoolConst := func(x *Term) (bool, bool) {
		if x.Op == "const" && (x.Sym == "true" || x.Sym == "false") {
			return x.Sym == "true", true
		}
		return false, false
	}
	if t.Sym == "==" || t.Sym == "!=" {
		for k := 0; k < 2; k++ {
			if v, ok := isBoolConst(b); ok {
				if _, both := isBoolConst(a); !both {
					same := v == (t.Sym == "==")
					if same {
						return a
					}
					return &Term{Op: "un", Sym: "!", Args: []*Term{a}, Typ: t.Typ, Val: t.Val}
				}
			}
			a, b = b, a
		}
	}
	x, okx := a.IntVal()
	y, oky := b.IntVal()
	if okx && oky {
		var r bool
		switch t.Sym {
		case "==":
			r = x == y
		case "!=":
			r = x != y
		case "<":
			r = x < y
		case "<=":
			r = x <= y
		case ">":
			r = x > y
		case ">=":
			r = x >= y
		}
		return &Term{Op: "const", Sym: fmt.Sprint(r), Typ: t.Typ}
	}
	return t
}

// boundTarget: for a bound-method wrapper (x.M as a value) the method M; nil otherwise.
func boundTarget(f *ssa.Function) *ssa.Function {
	if f == nil || !strings.HasSuffix(f.Name(), "$bound") || len(f.Blocks) != 1 {
		return nil
	}
	for _, in := range f.Blocks[0].Instrs {
		if c, ok := in.(*ssa.Call); ok {
			if sc := c.Call.StaticCallee(); sc != nil {
				if sc.Origin() != nil {
					sc = sc.Origin()
				}
				return sc
			}
		}
	}
	return nil
}

// knownLen: the length of a slice-valued term as an integer term (nil when it is not a slice).
func knownLen(t *Term) *Term {
	if t == nil {
		return nil
	}
	intT := types.Typ[types.Int]
	switch t.Op {
	case "mkslice":
		return t.Args[0]
	case "slice":
		if len(t.Args) < 3 {
			return nil
		}
		var hi *Term
		if t.Args[2].Op == "none" {
			hi = knownLen(t.Args[0])
		} else {
			hi = t.Args[2]
		}
		if hi == nil {
			return nil
		}
		if t.Args[1].Op == "none" {
			return hi
		}
		return &Term{Op: "bin", Sym: "-", Args: []*Term{hi, t.Args[1]}, Typ: intT}
	}
	if t.Typ != nil {
		if _, ok := t.Typ.Underlying().(*types.Slice); ok {
			return &Term{Op: "builtin", Sym: "len", Args: []*Term{t}, Typ: intT}
		}
		if tp, ok := t.Typ.(*types.TypeParam); ok {
			_ = tp
			return &Term{Op: "builtin", Sym: "len", Args: []*Term{t}, Typ: intT}
		}
	}
	return nil
}
