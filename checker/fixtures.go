package main

func runFixtures(c *Ctx, spec *propSpec) {}
func runThorough(c *Ctx, spec *propSpec) {}
