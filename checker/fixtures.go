package main

import (
	"bytes"
	"fmt"
	"os"
	"os/exec"
	"path/filepath"
	"sort"
	"strings"
	"sync"
)

// patchOverlay applies a unified diff to copies of the affected files (in a temporary directory outside
// the tree, removed before returning) and returns the patched contents keyed by their path in the tree.
func patchOverlay(repo, patchFile string) (map[string][]byte, error) {
	diff, err := os.ReadFile(patchFile)
	if err != nil {
		return nil, err
	}
	var files []string
	for _, l := range strings.Split(string(diff), "\n") {
		if strings.HasPrefix(l, "+++ b/") {
			files = append(files, strings.TrimSpace(strings.TrimPrefix(l, "+++ b/")))
		}
	}
	if len(files) == 0 {
		return nil, fmt.Errorf("no files in patch")
	}
	tmp, err := os.MkdirTemp("", "typcheck-overlay-")
	if err != nil {
		return nil, err
	}
	defer os.RemoveAll(tmp)
	newFile := map[string]bool{}
	{
		lines := strings.Split(string(diff), "\n")
		for i, l := range lines {
			if strings.HasPrefix(l, "+++ b/") && i > 0 && strings.HasPrefix(lines[i-1], "--- /dev/null") {
				newFile[strings.TrimSpace(strings.TrimPrefix(l, "+++ b/"))] = true
			}
		}
	}
	for _, f := range files {
		if newFile[f] {
			if _, err := os.Stat(filepath.Join(repo, f)); err == nil {
				return nil, fmt.Errorf("patch creates %s which the tree already has", f)
			}
			os.MkdirAll(filepath.Dir(filepath.Join(tmp, f)), 0o755)
			continue // patch creates it
		}
		src, err := os.ReadFile(filepath.Join(repo, f))
		if err != nil {
			return nil, fmt.Errorf("patch names %s which the tree does not have", f)
		}
		dst := filepath.Join(tmp, f)
		os.MkdirAll(filepath.Dir(dst), 0o755)
		if err := os.WriteFile(dst, src, 0o644); err != nil {
			return nil, err
		}
	}
	cmd := exec.Command("patch", "-p1", "-s", "-f", "-F0", "--no-backup-if-mismatch", "-d", tmp, "-i", patchFile)
	var out bytes.Buffer
	cmd.Stdout, cmd.Stderr = &out, &out
	if err := cmd.Run(); err != nil {
		return nil, fmt.Errorf("patch does not apply to the current tree: %s", strings.TrimSpace(out.String()))
	}
	ov := map[string][]byte{}
	for _, f := range files {
		b, err := os.ReadFile(filepath.Join(tmp, f))
		if err != nil {
			return nil, err
		}
		abs, _ := filepath.Abs(filepath.Join(repo, f))
		ov[abs] = b
	}
	return ov, nil
}

type control struct {
	file string
	want string // fire | silent
	kind string // mutant | seeded | refactor
}

func controlsFor(verif, prop, tier string) []control {
	var out []control
	muts, _ := filepath.Glob(filepath.Join(verif, "mutants", prop+"-*.diff"))
	sort.Strings(muts)
	if tier != "thorough" && len(muts) > 3 {
		// quick: the reverse-of-fix mutants first (they sort after the design mutants: prefer them), then fill up
		var pick []string
		for _, m := range muts {
			if strings.Contains(m, "-revertD") {
				pick = append(pick, m)
			}
		}
		for _, m := range muts {
			if len(pick) >= 3 {
				break
			}
			if !strings.Contains(m, "-revertD") {
				pick = append(pick, m)
			}
		}
		if len(pick) > 3 {
			pick = pick[:3]
		}
		muts = pick
	}
	for _, m := range muts {
		out = append(out, control{m, "fire", "mutant"})
	}
	if tier == "thorough" {
		seeds, _ := filepath.Glob(filepath.Join(verif, "seeded", prop+"-*", "patch.diff"))
		sort.Strings(seeds)
		for _, s := range seeds {
			out = append(out, control{s, "fire", "seeded"})
		}
	}
	refs, _ := filepath.Glob(filepath.Join(verif, "fixtures", "refactors", prop+"-*.diff"))
	sort.Strings(refs)
	if tier != "thorough" && len(refs) > 2 {
		refs = refs[:2]
	}
	for _, r := range refs {
		out = append(out, control{r, "silent", "refactor"})
	}
	if tier == "thorough" {
		// additions elsewhere in the tree that leave every property alone: each check must stay silent on them
		ben, _ := filepath.Glob(filepath.Join(verif, "fixtures", "benign-additions*.diff"))
		sort.Strings(ben)
		for _, b := range ben {
			out = append(out, control{b, "silent", "refactor"})
		}
	}
	return out
}

// runFixtures: both-ways self-check of the rules on every run. Each control is a patch analysed in memory
// (overlay) by a sub-process of this binary: breaking changes must make the check fire, behaviour-preserving
// refactorings must leave it silent. A control that no longer applies to the tree is recorded as stale.
func runFixtures(c *Ctx, spec *propSpec) {
	ctrls := controlsFor(c.Verif, spec.id, c.Tier)
	if len(ctrls) == 0 {
		return
	}
	self, err := os.Executable()
	if err != nil {
		c.R.Notes = append(c.R.Notes, "controls skipped: cannot locate own executable")
		return
	}
	results := make([]FixtureResult, len(ctrls))
	sem := make(chan struct{}, 8)
	var wg sync.WaitGroup
	for i, ct := range ctrls {
		wg.Add(1)
		go func(i int, ct control) {
			defer wg.Done()
			sem <- struct{}{}
			defer func() { <-sem }()
			tmp, err := os.MkdirTemp("", "typcheck-ctl-")
			if err != nil {
				results[i] = FixtureResult{Rule: "(controls)", Fixture: ct.file, Want: ct.want, Got: "error: " + err.Error(), OK: false}
				return
			}
			defer os.RemoveAll(tmp)
			if b, err := os.ReadFile(filepath.Join(c.Verif, "known_findings.json")); err == nil {
				os.WriteFile(filepath.Join(tmp, "known_findings.json"), b, 0o644)
			}
			if b, err := os.ReadFile(propertiesFile(c.Verif)); err == nil {
				os.WriteFile(filepath.Join(tmp, "properties.jsonl"), b, 0o644)
			}
			cmd := exec.Command(self, "-prop", spec.id, "-tier", "quick", "-repo", c.Repo, "-verif", tmp, "-nofixtures", "-patch", ct.file)
			var out bytes.Buffer
			cmd.Stdout, cmd.Stderr = &out, &out
			err = cmd.Run()
			code := 0
			if ee, ok := err.(*exec.ExitError); ok {
				code = ee.ExitCode()
			} else if err != nil {
				code = -1
			}
			rel, _ := filepath.Rel(c.Verif, ct.file)
			fr := FixtureResult{Rule: ct.kind, Fixture: rel, Want: ct.want}
			switch code {
			case 0:
				fr.Got = "silent"
			case 1:
				fr.Got = "fire"
				// the first reported obligation, for the evidence
				for _, l := range strings.Split(out.String(), "\n") {
					if strings.HasPrefix(l, "REFUTED") || strings.HasPrefix(l, "UNPROVEN") {
						if len(l) > 200 {
							l = l[:200]
						}
						fr.Got = "fire: " + l
						break
					}
				}
			case 3:
				fr.Got = "stale (the patch no longer applies to the tree)"
			case 4:
				fr.Got = "stale (with the patch applied the tree no longer type-checks: the tree has changed under the control)"
			default:
				fr.Got = fmt.Sprintf("error (exit %d)", code)
			}
			fr.OK = strings.HasPrefix(fr.Got, ct.want) || strings.HasPrefix(fr.Got, "stale")
			results[i] = fr
		}(i, ct)
	}
	wg.Wait()
	c.R.Fixtures = append(c.R.Fixtures, results...)
	n, stale := 0, 0
	for _, r := range results {
		if strings.HasPrefix(r.Got, "stale") {
			stale++
		} else if r.OK {
			n++
		}
	}
	c.R.Analysed["controls_run"] = len(results)
	c.R.Analysed["controls_ok"] = n
	c.R.Analysed["controls_stale"] = stale
}

func runThorough(c *Ctx, spec *propSpec) {
	// second build configuration: 32-bit target and test variants loaded; the verdicts must be identical
	P2, err := Load(LoadOpts{Dir: c.Repo, Tags: "verif", MinPkgs: 10, GOARCH: "386", Tests: true})
	if err != nil {
		c.R.Unproven("second-config", "(tree)", "GOARCH=386+tests", "", "the tree does not load in the second configuration: "+err.Error())
		return
	}
	R2 := NewReport(spec.id, c.Tier)
	c2 := &Ctx{R: R2, P: P2, An: NewAnalysis(P2), Tier: c.Tier, Verif: c.Verif, Repo: c.Repo}
	func() {
		defer func() {
			if r := recover(); r != nil {
				R2.Unproven("internal", "(checker)", "panic", "", fmt.Sprintf("checker panicked in the second configuration: %v", r))
			}
		}()
		spec.run(c2)
		runDepClosure(c2)
		runLateGuard(c2)
	}()
	v1, v2 := map[string]Verdict{}, map[string]Verdict{}
	for _, o := range c.R.Obs {
		v1[o.Rule+"/"+o.Construct+"/"+o.Instance] = o.Verdict
	}
	for _, o := range R2.Obs {
		v2[o.Rule+"/"+o.Construct+"/"+o.Instance] = o.Verdict
	}
	var diffs []string
	for k, v := range v1 {
		if strings.HasPrefix(k, "internal/") {
			continue
		}
		if w, ok := v2[k]; !ok {
			diffs = append(diffs, k+" missing in second configuration")
		} else if w != v {
			diffs = append(diffs, fmt.Sprintf("%s: %s vs %s", k, v, w))
		}
	}
	for k := range v2 {
		if _, ok := v1[k]; !ok {
			diffs = append(diffs, k+" only in second configuration")
		}
	}
	sort.Strings(diffs)
	c.R.Rule("second-config", "the same obligations with the same verdicts result for GOARCH=386 with test variants loaded", 1)
	if len(diffs) == 0 {
		c.R.Held("second-config", "(tree)", "GOARCH=386+tests", "", fmt.Sprintf("%d obligations identical in both configurations", len(v2)))
	} else {
		if len(diffs) > 8 {
			diffs = diffs[:8]
		}
		c.R.Unproven("second-config", "(tree)", "GOARCH=386+tests", "", "verdicts differ between build configurations", diffs...)
	}
	c.R.Analysed["second_config_packages"] = len(P2.Pkgs)
	if spec.id == "C04" {
		gorootControl(c)
	}
}

// gorootControl: independent negative control for the map protocol rules. The standard library's own sync.Map
// (read/dirty design, written independently of the fork: atomic.Pointer, loadReadOnly, Swap, CompareAndSwap, Clear)
// is correct; the rules that are not tied to the fork's function set must report nothing on it.
func gorootControl(c *Ctx) {
	P, err := Load(LoadOpts{Dir: c.Repo, Patterns: []string{"sync"}, MinPkgs: 1})
	c.R.Rule("goroot-control", "the protocol rules report nothing on GOROOT's own sync.Map (a second, independently written, correct implementation)", 1)
	if err != nil {
		c.R.Notes = append(c.R.Notes, "GOROOT control skipped: "+err.Error())
		c.R.Held("goroot-control", "sync.Map", "rules-silent", "", "skipped: GOROOT's sync package could not be loaded ("+err.Error()+")")
		return
	}
	if P.FieldOf("", "Map", "dirty") == nil || P.FieldOf("", "entry", "p") == nil {
		c.R.Held("goroot-control", "sync.Map", "rules-silent", "", "skipped: this GOROOT's sync.Map is not the read/dirty design (no dirty/entry.p fields)")
		return
	}
	R2 := NewReport("C04", c.Tier)
	c2 := &Ctx{R: R2, P: P, An: NewAnalysis(P), Tier: c.Tier, Verif: c.Verif, Repo: c.Repo}
	func() {
		defer func() {
			if r := recover(); r != nil {
				R2.Unproven("internal", "(checker)", "panic", "", fmt.Sprintf("checker panicked on GOROOT sync.Map: %v", r))
			}
		}()
		runMapProtocolOn(c2, "", "", "sync", false)
	}()
	var bad []string
	held := 0
	for _, o := range R2.Obs {
		if o.Verdict == Held {
			held++
		} else {
			bad = append(bad, fmt.Sprintf("%s [%s]: %s", o.Key(), o.Verdict, o.Msg))
		}
	}
	sort.Strings(bad)
	if len(bad) == 0 {
		c.R.Held("goroot-control", "sync.Map", "rules-silent", "", fmt.Sprintf("%d obligations on GOROOT's sync/map.go, all held", held))
	} else {
		if len(bad) > 30 {
			bad = bad[:30]
		}
		c.R.Unproven("goroot-control", "sync.Map", "rules-silent", "", fmt.Sprintf("the rules report %d problems on GOROOT's correct sync.Map: they are over-fitted to the fork", len(bad)), bad...)
	}
	c.R.Analysed["goroot_control_obligations"] = len(R2.Obs)
}
