package main

import (
	"fmt"
	"go/types"
	"sort"
	"strings"

	"golang.org/x/tools/go/ssa"
)

func init() {
	register(&propSpec{
		id:    "C03",
		level: "other",
		run:   runC03,
		explanation: "Both implementations of sets.Set are read, from their go/ssa path summaries (loops and Range-closures alike), as lists of passes (set enumerated, membership test on which operand with which polarity, sink). Decided: " +
			"(operator-table) Clone = one unconditional pass over the receiver; Intersect = receiver filtered by other.Has; SetDiff = receiver filtered by !other.Has; SymDiff = SetDiff plus a pass over other filtered by !receiver.Has; Union = clone of the receiver plus every element of other - for maps.Set and sync2.Set alike (sibling agreement is then immediate), every enumeration complete (callbacks return true; no early exit); " +
			"(operands-readonly / result-fresh) every mutating call or raw map write in the read-only and binary operations targets storage created in the same call, and the returned set is that fresh storage on EVERY path (a shortcut returning an operand is refuted); " +
			"(change-reporting) maps.Set.Add/Remove store/delete exactly on the path that reports true, guarded by (non-)membership of the same value; AddSet/RemoveSet perform one Add/Remove per enumerated value, count exactly the successes, never cut the enumeration short; " +
			"(range-stops) each Range leaves its loop when the callback returns false (sync2: hands the result to Map.Range); (enumeration-source) sync2.Set's Len/Slice/String/Clone enumerate through Map.Range - the only enumeration that skips deleted and expunged entries - once on every returning path, and no sync2.Set method touches a field of the Map itself - and maps.Set's through range/len of the map; (ctor) NewSetFrom* add every element/key/value of their argument to a fresh set; CartesianProduct appends one Product per (a,b) in nested complete enumerations. " +
			"The concurrent set's layouts (read map / dirty map / deleted entries) are covered through the C04 map protocol rules, re-run here as map/*. NOT decided: element-level equality of results for all operand pairs (follows from the pass table plus Go map / Map.Range semantics, which are assumed).",
		assumptions: []string{"Go map semantics; sync2.Map.Range visits each live key once (C04 range rule covers the necessary shape)", "callbacks given to Range are the closures analysed"},
	})
}

type setPass struct {
	iter string // A (receiver) | B (argument)
	test string // "" | A | B
	pol  bool
}

func (p setPass) String() string {
	if p.test == "" {
		return "all of " + p.iter
	}
	return fmt.Sprintf("%s where %s%s.Has", p.iter, map[bool]string{true: "", false: "!"}[p.pol], p.test)
}

type setImpl struct {
	pkg, typ, prefix string // maps / Set / "maps.(Set)."
	ptr              bool
}

func runC03(c *Ctx) {
	R := c.R
	R.Rule("operator-table", "Clone/Intersect/SetDiff/SymDiff/Union of both implementations are the defining passes (enumerated set, membership test, polarity), every enumeration complete", 10)
	R.Rule("operands-readonly", "in the read-only and binary operations every mutation targets storage created in the same call", 20)
	R.Rule("result-fresh", "the returned set is freshly created storage on every path", 10)
	R.Rule("change-reporting", "Add/Remove mutate exactly on the path that reports true, guarded by (non-)membership; AddSet/RemoveSet count exactly the per-element successes over a complete enumeration", 4)
	R.Rule("range-stops", "Range leaves the loop when the callback returns false", 2)
	R.Rule("enumeration-source", "Len/Slice/String/Has enumerate or look up through the right primitive (sync2: Map.Range / Map.Load, on every path, never the Map's fields; maps: the map itself)", 19)
	R.Rule("ctor", "NewSetFromSlice/Keys/Values add every element of the argument to a fresh set; CartesianProduct = nested complete enumerations appending one Product per pair", 7)

	impls := []setImpl{{"maps", "Set", "maps.(Set).", false}, {"sync2", "Set", "sync2.(*Set).", true}}
	R.Rule("string-format", "String prints every enumerated member exactly once, a separator exactly before each member but the first; first-ness is a flag advanced by the enumeration, not read back from the output", 2)
	for _, im := range impls {
		c03Impl(c, im)
		c03StringFormat(c, im)
	}
	c03Ctors(c)
	runMapProtocol(c, "map/")
}

// c03SetCore: maps.Set's Has and Add rows only, recorded under a helper rule (used where another property's code
// builds on a maps.Set).
func c03SetCore(c *Ctx, rule string) {
	savedOnly, savedAlias := c.Only, c.R.Alias
	c.Only = map[string]bool{"maps.(Set).Has": true, "maps.(Set).Add": true}
	c.R.Alias = map[string]string{"change-reporting": rule, "enumeration-source": rule, "operator-table": rule, "operands-readonly": rule, "result-fresh": rule, "range-stops": rule}
	defer func() { c.Only, c.R.Alias = savedOnly, savedAlias }()
	c03Impl(c, setImpl{"maps", "Set", "maps.(Set).", false})
}

// c03SliceHelper: the Slice rows of both implementations, recorded under a helper rule.
func c03SliceHelper(c *Ctx, rule string) {
	savedOnly, savedAlias := c.Only, c.R.Alias
	c.Only = map[string]bool{"maps.(Set).Slice": true, "sync2.(*Set).Slice": true}
	c.R.Alias = map[string]string{"change-reporting": rule, "enumeration-source": rule, "operator-table": rule, "operands-readonly": rule, "result-fresh": rule, "range-stops": rule}
	defer func() { c.Only, c.R.Alias = savedOnly, savedAlias }()
	c03Impl(c, setImpl{"maps", "Set", "maps.(Set).", false})
	c03Impl(c, setImpl{"sync2", "Set", "sync2.(*Set).", true})
}

// isSetMutator: call names that change a set
func isSetMutatorName(n string) bool {
	for _, s := range []string{".Add", ".AddSet", ".Remove", ".RemoveSet", ".Store", ".LoadOrStore", ".LoadAndDelete", ".Delete"} {
		if strings.HasSuffix(n, s) {
			return true
		}
	}
	return n == "builtin.delete"
}

func c03Impl(c *Ctx, im setImpl) {
	R := c.R
	A := func(fi *FuncInfo) *Term { return paramOf(fi, 0) }
	B := func(fi *FuncInfo) *Term { return paramOf(fi, 1) }
	which := func(fi *FuncInfo, t *Term) string {
		t = stripIface(t)
		if t == nil {
			return ""
		}
		if t.Key() == A(fi).Key() {
			return "A"
		}
		if len(fi.SSA.Params) > 1 && t.Key() == B(fi).Key() {
			return "B"
		}
		return ""
	}
	isFreshSet := func(t *Term) bool {
		t = stripIface(t)
		if t == nil {
			return false
		}
		if t.Op == "mkmap" || t.Op == "alloc" {
			return true
		}
		// methods of the two implementations (or of the interface) that are themselves decided to return fresh sets;
		// a package-level helper that happens to be called Clone is not one of them
		isSetMethod := strings.HasPrefix(t.Sym, "maps.(Set).") || strings.HasPrefix(t.Sym, "sync2.(*Set).") || strings.HasPrefix(t.Sym, "iface.Set.")
		if t.Op == "call" && t.Sym == "maps.Clone" {
			// the package's generic map copier: decided under this check by C14's rules (dependency closure)
			return true
		}
		if t.Op == "call" && isSetMethod && (strings.HasSuffix(t.Sym, ".Clone") || strings.HasSuffix(t.Sym, ".SetDiff") || strings.HasSuffix(t.Sym, ".Intersect") || strings.HasSuffix(t.Sym, ".Union") || strings.HasSuffix(t.Sym, ".SymDiff")) {
			return true
		}
		return false
	}

	type opRow struct {
		name string
		want [][]setPass // acceptable pass lists (as sorted string sets)
	}
	pa := func(iter, test string, pol bool) setPass { return setPass{iter, test, pol} }
	ops := []opRow{
		{"Clone", [][]setPass{{pa("A", "", false)}}},
		{"Intersect", [][]setPass{{pa("A", "B", true)}, {pa("B", "A", true)}}},
		{"SetDiff", [][]setPass{{pa("A", "B", false)}}},
		{"SymDiff", [][]setPass{{pa("A", "B", false), pa("B", "A", false)}}},
		{"Union", [][]setPass{{pa("A", "", false), pa("B", "", false)}}},
	}
	for _, op := range ops {
		fi := c.fn("operator-table", im.prefix+op.name)
		ps := c.paths("operator-table", fi)
		if ps == nil {
			continue
		}
		passes, result, why := c03Passes(c, fi, ps, which, isFreshSet)
		// result-fresh on every returning path
		fresh, whyF := true, ""
		for _, p := range ps {
			if p.End != EndReturn {
				continue
			}
			if len(p.Rets) != 1 || !isFreshSet(p.Rets[0]) {
				fresh, whyF = false, fmt.Sprintf("a path (%s) returns %s, which is not storage created by this call", p.CondString(), p.Rets[0])
			} else if result != nil && stripIface(p.Rets[0]).Key() != result.Key() {
				fresh, whyF = false, "a path returns a different set than the one the passes fill"
			}
		}
		o := R.Decide(fresh, "result-fresh", fi.Name, "result", c.pos(fi), "returns the set built in this call", whyF)
		if !fresh {
			o.Breaks = "the result is an operand: changing one changes the other"
		}
		if why != "" {
			R.Unproven("operator-table", fi.Name, "passes", c.pos(fi), "cannot read the operation as passes over its operands: "+why)
			continue
		}
		got := passStrings(passes)
		match := false
		var wants []string
		for _, w := range op.want {
			ws := passStrings(w)
			wants = append(wants, strings.Join(ws, " + "))
			if strings.Join(ws, "|") == strings.Join(got, "|") {
				match = true
			}
		}
		o = R.Decide(match, "operator-table", fi.Name, "passes", c.pos(fi), strings.Join(got, " + "),
			fmt.Sprintf("the operation is {%s}; the definition of %s is {%s}", strings.Join(got, " + "), op.name, strings.Join(wants, "} or {")))
		if !match {
			o.Breaks = "the result is not the mathematical " + op.name
		}
	}
	// ---- operands-readonly: all read-only and binary operations
	for _, name := range []string{"Union", "Intersect", "SetDiff", "SymDiff", "Clone", "Slice", "Len", "Has", "Range", "String"} {
		fi := c.fn("operands-readonly", im.prefix+name)
		if fi == nil {
			continue
		}
		bad := ""
		check := func(p *Path, subst func(*Term) *Term) {
			for i := range p.Events {
				e := &p.Events[i]
				var target *Term
				switch {
				case e.Kind == "mapupdate":
					target = e.Addr
				case e.Kind == "call" && isSetMutatorName(e.Name) && len(e.Args) > 0:
					target = e.Args[0]
				case e.Kind == "store" && e.Addr.Op != "alloc" && !(e.Addr.Op == "iaddr" && e.Addr.Args[0].Op == "alloc") && e.Addr.Op != "free":
					target = e.Addr
				default:
					continue
				}
				root := rootOf(stripIface(target))
				if root == nil {
					continue
				}
				if root.Op == "param" && root.Fn == fi.SSA && root.N <= 1 {
					bad = fmt.Sprintf("%s mutates its %s: %s", name, map[int]string{0: "receiver", 1: "argument"}[root.N], e.String())
				}
			}
		}
		ps := c.paths("operands-readonly", fi)
		for _, p := range ps {
			check(p, nil)
			for i := range p.Events {
				if p.Events[i].Kind == "mkclosure" {
					cp := c.An.ClosurePaths(&p.Events[i])
					for _, q := range cp.Paths {
						check(q, nil)
						for j := range q.Events {
							if q.Events[j].Kind == "mkclosure" {
								cp2 := c.An.ClosurePaths(&q.Events[j])
								for _, q2 := range cp2.Paths {
									check(q2, nil)
								}
							}
						}
					}
				}
			}
		}
		o := R.Decide(bad == "", "operands-readonly", fi.Name, "mutations", c.pos(fi), "no mutation of receiver or argument", bad)
		if bad != "" {
			o.Breaks = "an operand changes as a side effect of a read-only operation"
		}
	}
	// ---- change-reporting: bulk
	for _, rw := range []struct{ method, elem string }{{"AddSet", "Add"}, {"RemoveSet", "Remove"}} {
		fi := c.fn("change-reporting", im.prefix+rw.method)
		ps := c.paths("change-reporting", fi)
		if ps == nil {
			continue
		}
		c5BulkCount(c, "change-reporting", fi, ps, im.prefix+rw.elem, paramOf(fi, 0))
	}
	if im.pkg == "maps" {
		for _, rw := range []struct {
			method string
			add    bool
		}{{"Add", true}, {"Remove", false}} {
			fi := c.fn("change-reporting", im.prefix+rw.method)
			ps := c.paths("change-reporting", fi)
			if ps == nil {
				continue
			}
			s, v := paramOf(fi, 0), paramOf(fi, 1)
			ok, why := true, ""
			sawT, sawF := false, false
			for _, p := range ps {
				if p.End != EndReturn || len(p.Rets) != 1 {
					ok, why = false, "path does not return a flag"
					continue
				}
				// membership decision
				member := ""
				for _, cd := range p.Conds {
					t, pol := stripNot(cd.T, cd.Pol)
					isHas := (t.Op == "call" && strings.HasSuffix(t.Sym, "(Set).Has") && t.Args[0].Key() == s.Key() && t.Args[1].Key() == v.Key()) ||
						(t.Op == "extract" && t.N == 1 && t.Args[0].Op == "lookup" && t.Args[0].Args[0].Key() == s.Key() && t.Args[0].Args[1].Key() == v.Key())
					if isHas {
						member = map[bool]string{true: "yes", false: "no"}[pol]
					}
				}
				var muts []*Event
				for i := range p.Events {
					e := &p.Events[i]
					if e.Kind == "mapupdate" || (e.Kind == "call" && e.Name == "builtin.delete") {
						muts = append(muts, e)
					}
				}
				// the flag returned may be the membership test itself (`return exists`): on a path that knows its value it
				// is that constant
				ret := p.Rets[0]
				if !ret.IsConst("true") && !ret.IsConst("false") {
					// ... or its negation (`added := !s.Has(value) ... return added`)
					inner, neg := ret, false
					for inner.Op == "un" && inner.Sym == "!" && len(inner.Args) == 1 {
						inner, neg = inner.Args[0], !neg
					}
					isHas := (inner.Op == "call" && strings.HasSuffix(inner.Sym, "(Set).Has") && inner.Args[0].Key() == s.Key() && inner.Args[1].Key() == v.Key()) ||
						(inner.Op == "extract" && inner.N == 1 && inner.Args[0].Op == "lookup" && inner.Args[0].Args[0].Key() == s.Key() && inner.Args[0].Args[1].Key() == v.Key())
					if isHas && member != "" {
						ret = &Term{Op: "const", Sym: map[bool]string{true: "true", false: "false"}[(member == "yes") != neg], Typ: ret.Typ}
					}
				}
				p = &Path{End: p.End, Rets: []*Term{ret}, Conds: p.Conds, Events: p.Events}
				changes := (rw.add && member == "no") || (!rw.add && member == "yes")
				switch {
				case member == "":
					ok, why = false, "a path is not decided by membership of the value"
				case changes:
					sawT = true
					good := len(muts) == 1
					if good {
						if rw.add {
							good = muts[0].Kind == "mapupdate" && muts[0].Addr.Key() == s.Key() && muts[0].Key.Key() == v.Key()
						} else {
							good = muts[0].Kind == "call" && muts[0].Args[0].Key() == s.Key() && muts[0].Args[1].Key() == v.Key()
						}
					}
					if !good || !p.Rets[0].IsConst("true") {
						ok, why = false, "membership changes but the path does not perform exactly that change and report true"
					}
				default:
					sawF = true
					if len(muts) != 0 || !p.Rets[0].IsConst("false") {
						ok, why = false, "membership does not change but the path mutates or reports true"
					}
				}
			}
			if ok && !(sawT && sawF) {
				ok, why = false, "missing the changed or the unchanged row"
			}
			R.Decide(ok, "change-reporting", fi.Name, "rows", c.pos(fi), "mutates and reports true exactly when membership changes", why)
		}
	}
	// ---- range-stops
	if fi := c.fn("range-stops", im.prefix+"Range"); fi != nil {
		ps := c.paths("range-stops", fi)
		ok, why := true, ""
		cb := paramOf(fi, 1)
		if im.pkg == "maps" {
			stop := false
			for _, p := range ps {
				for i := range p.Events {
					e := &p.Events[i]
					if e.Kind == "range" && e.Addr.Key() != paramOf(fi, 0).Key() {
						ok, why = false, "ranges over something other than the set"
					}
					if e.Kind == "call" && e.Name == "dyn" && e.Callee.Key() == cb.Key() {
						for _, cd := range p.Conds {
							t, pol := stripNot(cd.T, cd.Pol)
							if t.Key() == e.Res.Key() && !pol {
								if p.End == EndLoopBack {
									ok, why = false, "keeps iterating after the callback returned false"
								} else {
									stop = true
								}
							}
							if t.Key() == e.Res.Key() && pol && p.End != EndLoopBack {
								ok, why = false, "stops although the callback returned true: the remaining members are never visited"
							}
						}
						if !(len(e.Args) == 1 && e.Args[0].Op == "extract" && e.Args[0].N == 1) {
							ok, why = false, "the callback does not get the member"
						}
					}
				}
			}
			if ok && !stop {
				ok, why = false, "the callback's result is ignored"
			}
		} else {
			// sync2: s.m.Range(func(v, _) bool { return f(v) })
			ok = len(ps) == 1
			if ok {
				p := ps[0]
				var mk *Event
				var rng *Event
				for i := range p.Events {
					e := &p.Events[i]
					if e.Kind == "mkclosure" {
						mk = e
					}
					if e.Kind == "call" && e.Name == "sync2.(*Map).Range" {
						rng = e
					}
				}
				ok = mk != nil && rng != nil && rng.Args[1].Key() == mk.Val.Key()
				if ok {
					cp := c.An.ClosurePaths(mk)
					ok = cp.Unproven == "" && len(cp.Paths) == 1 && len(cp.Paths[0].Rets) == 1
					if ok {
						r := cp.Paths[0].Rets[0]
						ok = r.Op == "call" && r.Sym == "dyn" && r.Args[0].Key() == cb.Key() && len(r.Args) == 2 && isParam(r.Args[1], 0)
					}
				}
				if !ok {
					why = "does not hand the callback's result to Map.Range for each key"
				}
			}
		}
		R.Decide(ok, "range-stops", fi.Name, "stop", c.pos(fi), "a false result ends the enumeration", why)
	}
	// ---- enumeration-source
	if im.pkg == "sync2" {
		for _, name := range []string{"Len", "Slice", "String"} {
			fi := c.fn("enumeration-source", im.prefix+name)
			ps := c.paths("enumeration-source", fi)
			if ps == nil {
				continue
			}
			ok, why := true, ""
			enum := 0
			var mapFields []*types.Var
			for _, fn := range []string{"read", "dirty", "misses", "mu"} {
				if f := c.P.FieldOf("sync2", "Map", fn); f != nil {
					mapFields = append(mapFields, f)
				}
			}
			for _, p := range ps {
				onPath := 0
				for i := range p.Events {
					e := &p.Events[i]
					// the Map's own fields are its business: a Set that reads them directly sees deleted entries and misses dirty ones
					for _, t := range append(append([]*Term{e.Addr, e.Val}, e.Args...), p.Rets...) {
						for _, f := range mapFields {
							if t != nil && mentionsField(t, f) {
								ok, why = false, name+" reads the Map's field "+f.Name()+" directly instead of enumerating with Range: deleted (nil/expunged) entries are counted, entries only in dirty are missed"
							}
						}
					}
					if e.Kind != "call" {
						continue
					}
					switch {
					case e.Name == "sync2.(*Set).Range" || e.Name == "sync2.(*Map).Range":
						enum++
						onPath++
						// the closure must return true on every path and do its work unconditionally
						foundClosure := false
						for j := range p.Events {
							if p.Events[j].Kind == "mkclosure" && p.Events[j].Val.Key() == e.Args[1].Key() {
								foundClosure = true
								cp := c.An.ClosurePaths(&p.Events[j])
								for _, q := range cp.Paths {
									if len(q.Rets) != 1 || !q.Rets[0].IsConst("true") {
										ok, why = false, "the enumeration can stop early"
									}
								}
								if name == "Slice" {
									// the result is assembled by appending each enumerated key, once, to a slice that starts empty:
									// a slice pre-sized by an earlier count and filled by index keeps zero values (non-members)
									// when the set shrinks between the count and the enumeration
									for _, q := range cp.Paths {
										appends := 0
										for k := range q.Events {
											ev := &q.Events[k]
											if ev.Kind != "store" {
												continue
											}
											if ev.Addr.Op == "iaddr" && ev.Addr.Args[0].Op == "alloc" {
												continue // the variadic argument array of append
											}
											v := ev.Val
											if (ev.Addr.Op == "free" || ev.Addr.Op == "alloc") && v.Op == "builtin" && v.Sym == "append" && len(v.Args) == 2 &&
												v.Args[0].Op == "load" && v.Args[0].Args[0].Key() == ev.Addr.Key() {
												if el, single := appendedElem(q, v.Args[0], v); single && isParam(el, 0) {
													appends++
													continue
												}
											}
											appends = -99
										}
										if appends != 1 || len(q.Conds) != 0 {
											ok, why = false, "the result is not built by appending every enumerated member exactly once (a pre-sized or index-filled result can hold values that are not members)"
										}
									}
									// the cell starts out empty in the enclosing function
									for k := range p.Events {
										ev := &p.Events[k]
										if ev.Kind == "store" && ev.Addr.Op == "alloc" && len(p.Rets) == 1 && p.Rets[0].Op == "load" && p.Rets[0].Args[0].Key() == ev.Addr.Key() {
											v := ev.Val
											empty := v.IsNil() || v.Op == "zero" || (v.Op == "mkslice" && len(v.Args) >= 1 && v.Args[0].IsConst("0"))
											if !empty {
												ok, why = false, "the result does not start out empty: "+v.String()
											}
										}
									}
								}
								if name == "Len" {
									var cell *Term
									for _, q := range cp.Paths {
										incs := 0
										for k := range q.Events {
											ev := &q.Events[k]
											if ev.Kind == "store" && (ev.Addr.Op == "free" || ev.Addr.Op == "alloc") {
												incs++
												// counter = counter + 1, nothing else
												d := ToPoly(ev.Val).Add(ToPoly(&Term{Op: "load", Args: []*Term{ev.Addr}}), -1)
												if k1, isC := d.IsConst(); !isC || k1 != 1 {
													ok, why = false, "the counter does not go up by exactly one per enumerated member: "+ev.String()
												}
												cell = ev.Addr
											}
										}
										if incs != 1 || len(q.Conds) != 0 {
											ok, why = false, "the count is not incremented once per enumerated member"
										}
									}
									// the counter starts at zero in the enclosing function and is what is returned
									if cell != nil && ok {
										var outer *Term
										for bi, b := range p.Events[j].Val.Args {
											_ = bi
											if b.Op == "alloc" {
												outer = b
											}
										}
										if outer == nil || len(p.Rets) != 1 || p.Rets[0].Op != "load" || p.Rets[0].Args[0].Key() != outer.Key() || len(p.Events[j].Val.Args) != 1 {
											ok, why = false, "the counted cell is not what Len returns"
										} else {
											for k := range p.Events {
												ev := &p.Events[k]
												if ev.Kind == "store" && ev.Addr.Key() == outer.Key() && !(ev.Val.IsConst("0") || ev.Val.Op == "zero") {
													ok, why = false, "the counter does not start at zero: "+ev.String()
												}
											}
										}
									}
								}
							}
						}
						if !foundClosure && len(e.Args) >= 2 {
							// a callback that captures nothing of this call counts, collects or writes nothing for it
							ok, why = false, "the callback handed to Range captures nothing of this call: the enumeration cannot contribute to what "+name+" returns"
						}
					case strings.HasPrefix(e.Name, "sync2.(*Map)."):
						ok, why = false, name+" reads the map through "+e.Name+" instead of enumerating with Range: deleted or not-yet-promoted entries are counted/missed"
					}
				}
				if p.End == EndReturn && onPath != 1 && ok {
					ok, why = false, fmt.Sprintf("a path (%s) answers after %d enumerations through Range", p.CondString(), onPath)
				}
			}
			if ok && enum < 1 {
				ok, why = false, fmt.Sprintf("%d enumerations through Range", enum)
			}
			o := R.Decide(ok, "enumeration-source", fi.Name, "range", c.pos(fi), "one complete enumeration through Range", why)
			if !ok {
				o.Breaks = name + " disagrees with Has/Range after deletions or promotions"
			}
		}
		// no Set method looks inside the Map: membership is what the Map's methods say it is
		{
			var mapFields []*types.Var
			for _, fn := range []string{"read", "dirty", "misses", "mu"} {
				if f := c.P.FieldOf("sync2", "Map", fn); f != nil {
					mapFields = append(mapFields, f)
				}
			}
			for _, fi := range c.P.FuncsOfPkg("sync2") {
				if !strings.HasPrefix(fi.Name, im.prefix) || c.P.Skip[fi] {
					continue
				}
				bad := ""
				for _, fn := range append([]*ssa.Function{fi.SSA}, fi.Closures...) {
					for _, b := range fn.Blocks {
						for _, in := range b.Instrs {
							var fld *types.Var
							switch x := in.(type) {
							case *ssa.FieldAddr:
								if st, isS := x.X.Type().Underlying().(*types.Pointer).Elem().Underlying().(*types.Struct); isS {
									fld = st.Field(x.Field)
								}
							case *ssa.Field:
								if st, isS := x.X.Type().Underlying().(*types.Struct); isS {
									fld = st.Field(x.Field)
								}
							}
							for _, f := range mapFields {
								if fld != nil && sameField(fld, f) {
									bad = f.Name()
								}
							}
						}
					}
				}
				o := R.Decide(bad == "", "enumeration-source", fi.Name, "map-internals", c.pos(fi), "uses the Map through its methods only", "reads or writes the Map's field "+bad+" directly: the read map holds deleted (nil/expunged) entries and lacks the ones only in dirty, so membership seen this way differs from Has")
				if bad != "" {
					o.Breaks = "a Set method disagrees with the membership model after deletions or before a promotion"
				}
			}
		}
		// Has is covered by C05.single-op; repeat the essential row here
		if fi := c.fn("enumeration-source", im.prefix+"Has"); fi != nil {
			ps := c.paths("enumeration-source", fi)
			ok := len(ps) == 1 && len(ps[0].Rets) == 1 && ps[0].Rets[0].Op == "extract" && ps[0].Rets[0].N == 1 && ps[0].Rets[0].Args[0].Op == "call" && ps[0].Rets[0].Args[0].Sym == "sync2.(*Map).Load"
			R.Decide(ok, "enumeration-source", fi.Name, "lookup", c.pos(fi), "Map.Load's presence flag", "Has is not the presence flag of Map.Load")
		}
	} else {
		if fi := c.fn("enumeration-source", im.prefix+"Len"); fi != nil {
			ps := c.paths("enumeration-source", fi)
			ok := len(ps) == 1 && len(ps[0].Rets) == 1 && isLenOf(ps[0].Rets[0], paramOf(fi, 0))
			R.Decide(ok, "enumeration-source", fi.Name, "len", c.pos(fi), "len of the map", "Len is not len(s)")
		}
		if fi := c.fn("enumeration-source", im.prefix+"Has"); fi != nil {
			ps := c.paths("enumeration-source", fi)
			ok := len(ps) == 1 && len(ps[0].Rets) == 1
			if ok {
				r := ps[0].Rets[0]
				ok = r.Op == "extract" && r.N == 1 && r.Args[0].Op == "lookup" && isParam(r.Args[0].Args[0], 0) && isParam(r.Args[0].Args[1], 1)
				// or the package's HasKey helper on the same map and value (decided by C14's rules, dependency closure)
				if !ok && r.Op == "call" && r.Sym == "maps.HasKey" && len(r.Args) == 2 && isParam(stripConv(r.Args[0]), 0) && isParam(r.Args[1], 1) {
					ok = true
				}
			}
			R.Decide(ok, "enumeration-source", fi.Name, "lookup", c.pos(fi), "presence flag of s[value]", "Has is not the presence flag of s[value]")
		}
		if fi := c.fn("enumeration-source", im.prefix+"Slice"); fi != nil {
			ps := c.paths("enumeration-source", fi)
			ok, why := true, ""
			loops := findLoops(ps)
			viaKeys := len(ps) == 1 && len(ps[0].Rets) == 1 && ps[0].Rets[0].Op == "call" && ps[0].Rets[0].Sym == "maps.Keys" &&
				len(ps[0].Rets[0].Args) == 1 && isParam(stripConv(ps[0].Rets[0].Args[0]), 0)
			if viaKeys {
				// the package's Keys helper on the set's own map (decided by C14's rules, dependency closure)
			} else if len(loops) != 1 {
				ok, why = false, "expected one loop"
			} else {
				it := c14IterOf(loops[0])
				if it == nil || it.kind != "map" || !isParam(it.over, 0) || len(it.li.Phis) != 1 {
					ok, why = false, "does not range over the set with one accumulator"
				} else {
					acc := it.li.Phis[0]
					if isIntegerType(acc.Type()) {
						// make([]T, len(s)) filled at a counter: result[next] = v; next++
						var res *Term
						for _, p := range it.li.Exit {
							if p.End == EndReturn && len(p.Rets) == 1 {
								res = p.Rets[0]
							}
						}
						if in := it.li.Init[acc]; in == nil || !in.IsConst("0") {
							ok, why = false, "the fill position does not start at 0"
						}
						if res == nil || res.Op != "mkslice" || !isLenOf(res.Args[0], paramOf(fi, 0)) {
							ok, why = false, "the result is not a fresh slice of len(set)"
						}
						for _, p := range it.li.Back {
							stores := 0
							for i := p.LoopAt[it.li.Hdr]; i < len(p.Events); i++ {
								e := &p.Events[i]
								if e.Kind == "store" && e.Addr.Op == "iaddr" && res != nil && e.Addr.Args[0].Key() == res.Key() {
									if ToPoly(e.Addr.Args[1]).Equal(ToPoly(it.li.LV[acc])) && it.isKey(e.Val) {
										stores++
									} else {
										stores = -99
									}
								}
							}
							if stores != 1 || len(p.Conds) != 1 || !ToPoly(p.Next[acc]).Equal(ToPoly(it.li.LV[acc]).Add(polyConst(1), 1)) {
								ok, why = false, "does not store every member at the next position"
							}
						}
					} else {
						for _, p := range it.li.Back {
							v, single := appendedElem(p, it.li.LV[acc], p.Next[acc])
							if !single || !it.isKey(v) || len(p.Conds) != 1 {
								ok, why = false, "does not append every member"
							}
						}
						if !isFreshAccInit(it.li.Init[acc]) {
							ok, why = false, "does not build a fresh slice"
						}
					}
				}
			}
			R.Decide(ok, "enumeration-source", fi.Name, "range", c.pos(fi), "appends every member to a fresh slice", why)
		}
	}
}

func passStrings(ps []setPass) []string {
	var out []string
	for _, p := range ps {
		out = append(out, p.String())
	}
	sort.Strings(out)
	return out
}

// c03Passes extracts the passes of a binary/clone operation.
func c03Passes(c *Ctx, fi *FuncInfo, ps []*Path, which func(*FuncInfo, *Term) string, isFreshSet func(*Term) bool) (passes []setPass, result *Term, why string) {
	// the result set: what the main (longest) returning path returns
	var main *Path
	for _, p := range ps {
		if p.End == EndReturn && (main == nil || len(p.Events) > len(main.Events)) {
			main = p
		}
	}
	if main == nil || len(main.Rets) != 1 {
		return nil, nil, "no returning path"
	}
	result = stripIface(main.Rets[0])
	if !isFreshSet(result) {
		return nil, result, "the result is not built in this call: " + result.String()
	}
	// every way out performs the same passes: a returning path that enumerates, adds or delegates differently from the
	// main one (a fast path around a pass) is a different operation for the inputs that take it
	sig := func(p *Path) string {
		var parts []string
		for i := range p.Events {
			e := &p.Events[i]
			if e.Kind == "range" {
				parts = append(parts, "range "+e.Addr.Key())
			}
			if e.Kind != "call" {
				continue
			}
			for _, suf := range []string{".Range", ".AddSet", ".RemoveSet", ".Add", ".Remove", ".Clone", ".SetDiff", ".Union", ".Intersect", ".SymDiff"} {
				if strings.HasSuffix(e.Name, suf) && len(e.Args) > 0 {
					a := e.Name
					for _, x := range e.Args {
						if x != nil && (which(fi, x) != "" || stripIface(x).Key() == result.Key()) {
							a += " " + stripIface(x).Key()
						}
					}
					parts = append(parts, a)
				}
			}
		}
		return strings.Join(parts, ";")
	}
	mainSig := sig(main)
	for _, p := range ps {
		if p.End == EndReturn && p != main && sig(p) != mainSig {
			return nil, result, fmt.Sprintf("a returning path (%s) does not perform the passes of the main path: it is a different operation for the inputs that take it", p.CondString())
		}
	}
	// base passes from delegation
	if result.Op == "call" {
		switch {
		case strings.HasSuffix(result.Sym, ".Clone") && which(fi, result.Args[0]) != "":
			passes = append(passes, setPass{which(fi, result.Args[0]), "", false})
		case strings.HasSuffix(result.Sym, ".SetDiff") && len(result.Args) == 2 && which(fi, result.Args[0]) != "" && which(fi, result.Args[1]) != "":
			passes = append(passes, setPass{which(fi, result.Args[0]), which(fi, result.Args[1]), false})
		default:
			return nil, result, "delegates to " + result.Sym + " in a way these rules do not know"
		}
	}
	// element decision inside a body: (test set, polarity on the adding path), ok
	type body struct {
		conds  []Cond
		events []Event
		end    EndKind
		rets   []*Term
	}
	analyseBodies := func(bodies []body, elem func(*Term) bool, needTrue bool) (test string, pol bool, why string) {
		added, notAdded := 0, 0
		test = ""
		for _, b := range bodies {
			dec := ""
			decSet := ""
			for _, cd := range b.conds {
				t, p := stripNot(cd.T, cd.Pol)
				if t.Op == "call" && strings.HasSuffix(t.Sym, ".Has") && len(t.Args) == 2 && elem(t.Args[1]) {
					w := which(fi, t.Args[0])
					if w == "" {
						return "", false, "membership is tested on something that is neither operand"
					}
					decSet = w
					dec = map[bool]string{true: "t", false: "f"}[p]
				}
				// the comma-ok form on a map-backed operand: _, ok := s[v]
				if t.Op == "extract" && t.N == 1 && t.Args[0].Op == "lookup" && len(t.Args[0].Args) == 2 && elem(t.Args[0].Args[1]) {
					if w := which(fi, t.Args[0].Args[0]); w != "" {
						decSet = w
						dec = map[bool]string{true: "t", false: "f"}[p]
					}
				}
			}
			adds := 0
			for i := range b.events {
				e := &b.events[i]
				if e.Kind == "call" && strings.HasSuffix(e.Name, ".Add") && len(e.Args) == 2 {
					if stripIface(e.Args[0]).Key() != result.Key() {
						return "", false, "adds to something other than the result"
					}
					if !elem(e.Args[1]) {
						return "", false, "adds something other than the enumerated element"
					}
					adds++
				} else if e.Kind == "call" && isSetMutatorName(e.Name) {
					return "", false, "unexpected mutation " + e.Name
				} else if e.Kind == "mapupdate" && e.Addr != nil && stripIface(e.Addr).Key() == result.Key() {
					// a direct store into the (map-backed, still private) result: the same as Add
					if !elem(e.Key) {
						return "", false, "stores something other than the enumerated element into the result"
					}
					adds++
				}
			}
			if needTrue && b.end == EndReturn && !(len(b.rets) == 1 && b.rets[0].IsConst("true")) {
				return "", false, "the enumeration callback can stop early"
			}
			if adds > 1 {
				return "", false, "adds twice per element"
			}
			if adds == 1 {
				added++
				if decSet != "" {
					if test != "" && (test != decSet || pol != (dec == "t")) {
						return "", false, "inconsistent membership tests"
					}
					test, pol = decSet, dec == "t"
				}
			} else {
				notAdded++
				if decSet == "" {
					return "", false, "an element is skipped without a membership test"
				}
			}
		}
		if added == 0 {
			return "", false, "no element is ever added"
		}
		if test == "" && notAdded > 0 {
			return "", false, "elements are skipped"
		}
		return test, pol, ""
	}
	// loops directly in the function (maps.Set idiom)
	for _, li := range findLoops(ps) {
		it := c14IterOf(li)
		if it == nil || it.kind != "map" {
			return nil, result, "a loop that is not a range over a set"
		}
		w := which(fi, it.over)
		if w == "" {
			return nil, result, "ranges over something that is neither operand"
		}
		var bodies []body
		for _, p := range li.Back {
			b := body{end: EndLoopBack}
			for _, cd := range p.Conds {
				if cd.NEv >= p.LoopAt[li.Hdr] {
					b.conds = append(b.conds, cd)
				}
			}
			b.events = p.Events[p.LoopAt[li.Hdr]:]
			bodies = append(bodies, b)
		}
		// early exits out of the loop body (break/return inside) make the enumeration incomplete
		for _, p := range li.Exit {
			for _, cd := range p.Conds {
				if cd.NEv >= p.LoopAt[li.Hdr] {
					t, pol := stripNot(cd.T, cd.Pol)
					if !(t.Op == "extract" && t.N == 0 && t.Args[0].Op == "next" && !pol) {
						return nil, result, "the loop can be left before the set is exhausted"
					}
				}
			}
		}
		test, pol, w2 := analyseBodies(bodies, it.isKey, false)
		if w2 != "" {
			return nil, result, w2
		}
		passes = append(passes, setPass{w, test, pol})
	}
	// Range(S, closure) and AddSet(R, S) calls on the main path
	for i := range main.Events {
		e := &main.Events[i]
		if e.Kind != "call" {
			continue
		}
		switch {
		case strings.HasSuffix(e.Name, ".Range") && len(e.Args) == 2:
			w := which(fi, e.Args[0])
			if w == "" {
				return nil, result, "enumerates something that is neither operand"
			}
			var mk *Event
			for j := range main.Events {
				if main.Events[j].Kind == "mkclosure" && main.Events[j].Val.Key() == e.Args[1].Key() {
					mk = &main.Events[j]
				}
			}
			if mk == nil {
				return nil, result, "the enumeration callback is not a local closure"
			}
			cp := c.An.ClosurePaths(mk)
			if cp.Unproven != "" {
				return nil, result, "cannot summarise the callback"
			}
			var bodies []body
			for _, q := range cp.Paths {
				bodies = append(bodies, body{conds: q.Conds, events: q.Events, end: q.End, rets: q.Rets})
			}
			val := &Term{Op: "param", N: 0, Fn: mk.SSAFn}
			test, pol, w2 := analyseBodies(bodies, func(t *Term) bool { return t != nil && t.Key() == val.Key() }, true)
			if w2 != "" {
				return nil, result, w2
			}
			passes = append(passes, setPass{w, test, pol})
		case strings.HasSuffix(e.Name, ".AddSet") && len(e.Args) == 2:
			if stripIface(e.Args[0]).Key() != result.Key() {
				return nil, result, "AddSet on something other than the result"
			}
			w := which(fi, e.Args[1])
			if w == "" {
				return nil, result, "adds a set that is neither operand"
			}
			passes = append(passes, setPass{w, "", false})
		case strings.HasSuffix(e.Name, ".RemoveSet") || strings.HasSuffix(e.Name, ".Remove"):
			return nil, result, "removes from a set while building the result"
		}
	}
	if len(passes) == 0 {
		return nil, result, "no pass over an operand found"
	}
	return passes, result, ""
}

func c03Ctors(c *Ctx) {
	R := c.R
	for _, pkg := range []string{"maps", "sync2"} {
		for _, row := range []struct{ name, what string }{{"NewSetFromSlice", "elem"}, {"NewSetFromKeys", "key"}, {"NewSetFromValues", "value"}} {
			fi := c.fn("ctor", pkg+"."+row.name)
			ps := c.paths("ctor", fi)
			if ps == nil {
				continue
			}
			ok, why := true, ""
			loops := findLoops(ps)
			if len(loops) != 1 {
				ok, why = false, "expected one loop over the argument"
			} else {
				it := c14IterOf(loops[0])
				if it == nil || !isParam(it.over, 0) || !(it.full || it.fullRev) { // a set does not care about the order of insertion
					ok, why = false, "does not iterate over the whole argument"
				} else {
					var set *Term
					for _, p := range it.li.Back {
						adds := 0
						for i := p.LoopAt[it.li.Hdr]; i < len(p.Events); i++ {
							e := &p.Events[i]
							if e.Kind == "mapupdate" && e.Addr != nil && e.Addr.Op == "mkmap" {
								// a direct store into the fresh, still private map: the same as Add
								adds++
								set = stripIface(e.Addr)
								good := false
								switch row.what {
								case "elem", "value":
									good = it.isElem(e.Key)
								case "key":
									good = it.isKey(e.Key)
								}
								if !good {
									ok, why = false, "stores something other than the current "+row.what
								}
							}
							if e.Kind == "call" && strings.HasSuffix(e.Name, ".Add") && len(e.Args) == 2 {
								adds++
								set = stripIface(e.Args[0])
								good := false
								switch row.what {
								case "elem", "value":
									good = it.isElem(e.Args[1])
								case "key":
									good = it.isKey(e.Args[1])
								}
								if !good {
									ok, why = false, "adds something other than the current "+row.what
								}
							}
						}
						n := 0
						for _, cd := range p.Conds {
							if cd.NEv >= p.LoopAt[it.li.Hdr] {
								n++
							}
						}
						if adds != 1 || n > 1 {
							ok, why = false, "does not add every "+row.what+" unconditionally"
						}
					}
					if ok && (set == nil || !(set.Op == "mkmap" || set.Op == "alloc")) {
						ok, why = false, "the set is not freshly created"
					}
					// every returning path - also one that never reaches the loop (an early return for an empty argument) -
					// hands out the set this call created: a nil or shared set is not "a set with the argument's elements"
					// for a caller that goes on to use it
					for _, p := range ps {
						if p.End == EndReturn && (len(p.Rets) != 1 || set == nil || stripIface(p.Rets[0]).Key() != set.Key()) {
							ok, why = false, "a path ("+p.CondString()+") does not return the set it filled"
						}
					}
				}
			}
			R.Decide(ok, "ctor", fi.Name, "adds-all", c.pos(fi), "every "+row.what+" of the argument added to a fresh set, which is returned", why)
		}
	}
	// CartesianProduct
	if fi := c.fn("ctor", "sets.CartesianProduct"); fi != nil {
		ps := c.paths("ctor", fi)
		ok, why := len(ps) == 1, "branches"
		if ok {
			p := ps[0]
			var outer, mk *Event
			nOuter := 0
			for i := range p.Events {
				e := &p.Events[i]
				if e.Kind == "call" && strings.HasSuffix(e.Name, ".Range") {
					outer = e
					nOuter++
				}
				if e.Kind == "mkclosure" {
					mk = e
				}
			}
			if outer == nil || mk == nil || !isParam(stripIface(outer.Args[0]), 0) {
				ok, why = false, "does not enumerate a with a closure"
			} else if nOuter != 1 {
				ok, why = false, fmt.Sprintf("a is enumerated %d times: every pair is appended more than once", nOuter)
			} else {
				cp := c.An.ClosurePaths(mk)
				if cp.Unproven != "" || len(cp.Paths) != 1 || !cp.Paths[0].Rets[0].IsConst("true") {
					ok, why = false, "the outer enumeration can stop early or branches"
				} else {
					q := cp.Paths[0]
					var inner, mk2 *Event
					nInner := 0
					for i := range q.Events {
						e := &q.Events[i]
						if e.Kind == "call" && strings.HasSuffix(e.Name, ".Range") {
							inner = e
							nInner++
						}
						if e.Kind == "mkclosure" {
							mk2 = e
						}
					}
					if inner == nil || mk2 == nil || !isParam(stripIface(inner.Args[0]), 1) {
						ok, why = false, "the inner enumeration is not over b"
					} else if nInner != 1 {
						ok, why = false, fmt.Sprintf("b is enumerated %d times per element of a: every pair is appended more than once", nInner)
					} else {
						cp2 := c.An.PathsOf(mk2.SSAFn)
						if len(cp2.Paths) != 1 || !cp2.Paths[0].Rets[0].IsConst("true") {
							ok, why = false, "the inner enumeration can stop early or branches"
						} else {
							apps := 0
							for i := range cp2.Paths[0].Events {
								e := &cp2.Paths[0].Events[i]
								if e.Kind == "store" && e.Addr.Op == "free" && e.Val.Op == "builtin" && e.Val.Sym == "append" {
									apps++
								}
							}
							if apps != 1 {
								ok, why = false, "does not append exactly one product per pair"
							}
						}
					}
				}
			}
		}
		R.Decide(ok, "ctor", fi.Name, "pairs", c.pos(fi), "nested complete enumerations, one Product{a,b} appended per pair", why)
	}
}

// ---------------------------------------------------------------------------
// string-format: String prints each enumerated member exactly once, with a separator before every
// member but the first; "first" is decided by a flag that only the enumeration itself advances, never by
// what has been printed so far (a member that prints as "" would then swallow a separator).

type c3Step struct {
	conds  []Cond
	events []Event
	next   *Term // value of the flag after the step (nil: unchanged)
}

func c03StringFormat(c *Ctx, im setImpl) {
	rule := "string-format"
	fi := c.fn(rule, im.prefix+"String")
	if fi == nil {
		return
	}
	ps := c.paths(rule, fi)
	if ps == nil {
		return
	}
	R := c.R
	fail := func(why string) {
		R.Refuted(rule, fi.Name, "step", c.pos(fi), why).Breaks = "String no longer lists exactly the members (a member is dropped, doubled, or glued to its neighbour)"
	}
	var steps []c3Step
	var member, flag, init *Term
	isFlag := func(t *Term) bool { return flag != nil && t != nil && t.Key() == flag.Key() }
	if im.ptr {
		if len(ps) != 1 {
			fail("String branches outside the enumeration")
			return
		}
		p := ps[0]
		var mk *Event
		for i := range p.Events {
			e := &p.Events[i]
			if e.Kind == "call" && strings.HasSuffix(e.Name, ".Range") && len(e.Args) == 2 {
				for j := range p.Events {
					if p.Events[j].Kind == "mkclosure" && p.Events[j].Val.Key() == e.Args[1].Key() {
						mk = &p.Events[j]
					}
				}
			}
		}
		if mk == nil {
			R.Unproven(rule, fi.Name, "step", c.pos(fi), "String does not enumerate through Range with a local closure")
			return
		}
		cp := c.An.ClosurePaths(mk)
		if cp.Unproven != "" {
			R.Unproven(rule, fi.Name, "step", c.pos(fi), "cannot summarise the closure: "+cp.Unproven)
			return
		}
		member = &Term{Op: "param", N: 0, Fn: mk.SSAFn}
		// the flag: the cell the closure branches on
		for _, q := range cp.Paths {
			for _, cd := range q.Conds {
				t := stripNotTerm(cd.T)
				if r := cd.Rel(); r.B != nil && r.B.IsConst("0") && r.A.Op == "load" {
					t = r.A
				}
				if t.Op == "load" && len(t.Args) == 1 && t.Args[0].Op == "alloc" {
					flag = t.Args[0]
				}
			}
		}
		for _, q := range cp.Paths {
			st := c3Step{conds: q.Conds, events: q.Events}
			for i := range q.Events {
				e := &q.Events[i]
				if e.Kind == "store" && isFlag(e.Addr) {
					st.next = e.Val
				}
			}
			steps = append(steps, st)
		}
		if flag != nil {
			for i := range p.Events {
				e := &p.Events[i]
				if e.Kind == "mkclosure" && e == mk {
					break
				}
				if e.Kind == "store" && isFlag(e.Addr) {
					init = e.Val
				}
			}
			if init == nil {
				init = &Term{Op: "const", Sym: "false"}
			}
		}
	} else {
		loops := findLoops(ps)
		if len(loops) != 1 {
			R.Unproven(rule, fi.Name, "step", c.pos(fi), fmt.Sprintf("expected one enumeration loop, found %d", len(loops)))
			return
		}
		li := loops[0]
		it := c14IterOf(li)
		if it == nil || it.kind != "map" || !isParam(it.over, 0) {
			fail("String does not range over the set itself")
			return
		}
		member = &Term{Op: "extract", N: 1, Args: []*Term{it.next}}
		var fphi *ssa.Phi
		for _, q := range li.Back {
			for _, cd := range q.Conds {
				if cd.NEv < q.LoopAt[li.Hdr] {
					continue
				}
				t := stripNotTerm(cd.T)
				if r := cd.Rel(); r.B != nil && r.B.IsConst("0") && r.A.Op == "loopvar" {
					t = r.A // a counter compared with 0
				}
				for phi, lv := range li.LV {
					if t.Key() == lv.Key() {
						fphi, flag = phi, lv
					}
				}
			}
		}
		for _, q := range li.Back {
			st := c3Step{}
			at := q.LoopAt[li.Hdr]
			for _, cd := range q.Conds {
				if cd.NEv >= at && !(cd.T.Op == "extract" && cd.T.N == 0) {
					st.conds = append(st.conds, cd)
				}
			}
			for i := at; i < len(q.Events); i++ {
				if k := q.Events[i].Kind; k == "next" || k == "range" {
					continue
				}
				st.events = append(st.events, q.Events[i])
			}
			if fphi != nil {
				st.next = q.Next[fphi]
				if st.next != nil && st.next.Key() == flag.Key() {
					st.next = nil
				}
			}
			steps = append(steps, st)
		}
		if fphi != nil {
			init = li.Init[fphi]
		}
	}
	if flag != nil && init != nil && init.IsConst("0") && isIntegerType(flag.Typ) {
		// a counter of members written so far: first <=> counter == 0; every step adds one
		good := len(steps) == 2
		for _, st := range steps {
			if len(st.conds) != 1 {
				good = false
				continue
			}
			r := st.conds[0].Rel()
			fl := flag
			if im.ptr {
				fl = &Term{Op: "load", Args: []*Term{flag}}
			}
			if r.B == nil || !r.B.IsConst("0") || !(r.A.Key() == fl.Key() || (r.A.Op == "load" && im.ptr && r.A.Args[0].Key() == flag.Key())) {
				good = false
				continue
			}
			first := r.Op == "==" || r.Op == "<="
			if !(first || r.Op == "!=" || r.Op == ">") {
				good = false
			}
			if st.next == nil || !ToPoly(st.next).Equal(ToPoly(r.A).Add(polyConst(1), 1)) {
				good = false
			}
			seps, prints := 0, 0
			for i := range st.events {
				e := &st.events[i]
				switch {
				case e.Kind == "call" && strings.HasPrefix(e.Name, "strings.(*Builder).Write") && len(e.Args) == 2 && isConstLike(e.Args[1]):
					seps++
				case e.Kind == "call" && (e.Name == "fmt.Fprint" || e.Name == "fmt.Fprintf"):
					prints++
				case e.Kind == "call":
					good = false
				}
			}
			if prints != 1 || (first && seps != 0) || (!first && seps != 1) {
				good = false
			}
		}
		if good {
			R.Held(rule, fi.Name, "step", c.pos(fi), "each member printed once; separator exactly before every member but the first, decided by a count of members written")
			return
		}
	}
	if flag == nil || init == nil || !(init.IsConst("false") || init.IsConst("true")) {
		R.Unproven(rule, fi.Name, "step", c.pos(fi), "the per-member step is not decided by a boolean first-member flag with a constant initial value (a decision read from what has been printed so far depends on how members format)")
		return
	}
	v0 := init.IsConst("true")
	if len(steps) != 2 {
		fail(fmt.Sprintf("the per-member step has %d paths; expected first / not-first", len(steps)))
		return
	}
	for _, st := range steps {
		if len(st.conds) != 1 {
			fail("the per-member step tests more than the first-member flag")
			return
		}
		t, pol := stripNot(st.conds[0].T, st.conds[0].Pol)
		if im.ptr {
			if !(t.Op == "load" && isFlag(t.Args[0])) {
				fail("the per-member step is decided by " + t.String() + ", not by the flag")
				return
			}
		} else if !isFlag(t) {
			fail("the per-member step is decided by " + t.String() + ", not by the flag")
			return
		}
		first := pol == v0
		seps, prints := 0, 0
		sepIdx, printIdx := -1, -1
		for i := range st.events {
			e := &st.events[i]
			switch {
			case e.Kind == "store" && (isFlag(e.Addr) || (e.Addr.Op == "iaddr" && e.Addr.Args[0].Op == "alloc")):
			case e.Kind == "call" && strings.HasPrefix(e.Name, "strings.(*Builder).Write") && len(e.Args) == 2 && isConstLike(e.Args[1]):
				seps++
				sepIdx = i
			case e.Kind == "call" && (e.Name == "fmt.Fprint" || e.Name == "fmt.Fprintf") && len(e.Args) >= 2:
				// the variadic array must hold exactly the member
				holds := 0
				for j := range st.events {
					s := &st.events[j]
					if s.Kind == "store" && s.Addr.Op == "iaddr" && e.Args[len(e.Args)-1].ContainsKey(s.Addr.Args[0].Key()) {
						if stripIface(s.Val).Key() == member.Key() {
							holds++
						} else {
							holds = -99
						}
					}
				}
				if holds != 1 {
					fail("the print call is not given exactly the member")
					return
				}
				prints++
				printIdx = i
			default:
				fail("unexpected effect in the per-member step: " + e.String())
				return
			}
		}
		if prints != 1 {
			fail(fmt.Sprintf("a step prints the member %d times", prints))
			return
		}
		if first {
			if seps != 0 {
				fail("a separator is written before the first member")
				return
			}
			if st.next == nil || !st.next.IsConst(map[bool]string{true: "false", false: "true"}[v0]) {
				fail("the first-member step does not advance the flag: every member is treated as the first")
				return
			}
		} else {
			if seps != 1 || sepIdx > printIdx {
				fail(fmt.Sprintf("a later member is preceded by %d separators", seps))
				return
			}
			if st.next != nil && !st.next.IsConst(map[bool]string{true: "false", false: "true"}[v0]) {
				fail("a later member resets the flag")
				return
			}
		}
	}
	R.Held(rule, fi.Name, "step", c.pos(fi), "each member printed once; separator exactly before every member but the first, decided by a flag the enumeration advances")
}
