package main

import (
	"fmt"
	"strings"

	"golang.org/x/tools/go/ssa"
)

func init() {
	register(&propSpec{
		id:    "C13",
		level: "other",
		run:   runC13,
		explanation: "Chunk/Windowed/Pairs and their ...Func variants are read as 'emitters': a guard row that emits nothing, one counted loop that emits one piece per iteration (stored into the result or passed to the callback), and an optional tail emission. From the path summaries (index relations as polynomial normal forms, divisions kept as opaque atoms) the check decides: " +
			"(partition-shape) Chunk*: pieces are slice[j:j+size] for j = 0, size, 2*size, ... while j < R with R = (len/size)*size, and the tail slice[R:] is emitted exactly on the paths where R != len (so every piece is non-empty, consecutive, and their concatenation is the input); an empty input emits nothing. Windowed*: nothing when len < size, else slice[i:i+size] for i = 0..len-size. Pairs*: nothing when len < 2, else (slice[i], slice[i+1]) for i = 0..len-2; " +
			"(alloc-equals-writes) the slice-returning variants allocate exactly as many elements as they write (loop trip count, +1 exactly under the tail guard), write index i in iteration i and the tail at the last index, and return that slice; (sibling-agreement) each ...Func variant has the same guard, loop bounds, step, piece expressions and tail guard as its slice-returning sibling. " +
			"NOT decided: ceil(n/size) as arithmetic over all n beyond what the normal forms equate (the trip count of 'j from 0 step size while j < (len/size)*size' is taken to be len/size - a one-line lemma).",
		assumptions: []string{"lemma: for size >= 1 the loop j = 0; j < q*size; j += size runs exactly q times", "Go slicing semantics"},
	})
}

// emitter: the summary of one piece-emitting function
type emitter struct {
	fi        *FuncInfo
	guardNone []string // normalised guard(s) of the rows that emit nothing before the loop
	loopFirst string   // first value of the piece index
	loopStep  string
	loopCond  string   // normalised continue condition  P > 0
	pieces    []string // piece terms, rendered position-free
	tailGuard string   // normalised condition under which the tail is emitted ("" = no tail)
	tailPiece string
	ok        bool
	why       string
	// slice-returning variants
	allocLen    *Poly
	loopWrites  string // index expression written in the loop
	tailIndex   *Poly
	idxFirst    string
	resultRet   bool
	appendAcc   *ssa.Phi // result grown by append (no indexed stores)
	writeLV     *Term    // the loop variable that indexes the result in the loop (offset 0)
	appendDeleg bool     // collector closure around the callback sibling that appends each piece to an empty result
}

// canonical rendering of a term independent of the enclosing function (params by index, loop vars by role)
func c13Render(t *Term, idx *Term, fn *ssa.Function) string {
	if t == nil {
		return "_"
	}
	if idx != nil && t.Key() == idx.Key() {
		return "IDX"
	}
	switch t.Op {
	case "param":
		return fmt.Sprintf("p%d", t.N)
	case "const":
		return t.Sym
	case "none":
		return ""
	case "loopvar":
		return "lv?"
	}
	var as []string
	for _, a := range t.Args {
		as = append(as, c13Render(a, idx, fn))
	}
	return t.Op + ":" + t.Sym + "(" + strings.Join(as, ",") + ")"
}

// c13Shift: when the loop's real index is lv + k (rotated range loops), polynomials are rewritten with lv = IDX - k.
var c13ShiftKey string
var c13ShiftK int64

func c13Poly(p *Poly, idx *Term, fn *ssa.Function) string {
	// render a polynomial with atoms rendered position-free
	if idx != nil && c13ShiftKey != "" && c13ShiftK != 0 && idx.Key() == c13ShiftKey {
		// substitute lv := lv - k (degree-1 occurrences)
		adj := p.clone()
		for k, cf := range p.M {
			if k == c13ShiftKey {
				adj.M[""] -= cf * c13ShiftK
			}
		}
		p = adj.norm()
	}
	q := newPoly()
	for k, c := range p.M {
		if k == "" {
			q.M[""] += c
			continue
		}
		parts := strings.Split(k, monoSep)
		var rs []string
		for _, a := range parts {
			rs = append(rs, c13Render(p.Atoms[a], idx, fn))
		}
		// sort for commutativity
		for i := range rs {
			for j := i + 1; j < len(rs); j++ {
				if rs[j] < rs[i] {
					rs[i], rs[j] = rs[j], rs[i]
				}
			}
		}
		q.M[strings.Join(rs, "*")] += c
	}
	var keys []string
	for k := range q.M {
		keys = append(keys, k)
	}
	for i := range keys {
		for j := i + 1; j < len(keys); j++ {
			if keys[j] < keys[i] {
				keys[i], keys[j] = keys[j], keys[i]
			}
		}
	}
	var out []string
	for _, k := range keys {
		out = append(out, fmt.Sprintf("%d·%s", q.M[k], k))
	}
	return strings.Join(out, " + ")
}

func c13Cond(cd Cond, idx *Term, fn *ssa.Function) string {
	r := cd.Rel()
	if pl, kind, ok := r.IntNorm(); ok {
		return c13Poly(pl, idx, fn) + " " + kind + " 0"
	}
	return c13Render(cd.T, idx, fn) + fmt.Sprint(cd.Pol)
}

// analyseEmitter extracts the emitter summary. callbackParam < 0 for slice-returning variants.
func analyseEmitter(c *Ctx, rule string, fi *FuncInfo, callbackParam int) *emitter {
	em := &emitter{fi: fi, ok: true}
	ps := c.paths(rule, fi)
	if ps == nil {
		em.ok, em.why = false, "no paths"
		return em
	}
	fn := fi.SSA
	fail := func(f string, a ...interface{}) { em.ok, em.why = false, fmt.Sprintf(f, a...) }
	loops := findLoops(ps)
	if len(loops) != 1 {
		fail("expected exactly one loop, found %d (a different iteration scheme must be shown to emit the same pieces, which these rules cannot do)", len(loops))
		return em
	}
	li := loops[0]
	// emissions on a path segment
	type emission struct {
		piece []*Term
		index *Term // result index for stores
		res   *Term
		pos   int
	}
	var emissionsOf func(p *Path, from, to int) []emission
	emissionsOf = func(p *Path, from, to int) []emission {
		var out []emission
		if em.appendAcc != nil && p.End == EndLoopBack && to == len(p.Events) {
			lv := li.LV[em.appendAcc]
			if nx := p.Next[em.appendAcc]; nx != nil && nx.Key() != lv.Key() {
				if v, single := appendedElem(p, lv, nx); single {
					piece := []*Term{v}
					// composite literal elements
					var cell *Term
					v.Walk(func(x *Term) bool {
						if x.Op == "alloc" && cell == nil {
							cell = x
						}
						return true
					})
					if cell != nil && v.Op != "slice" {
						var elems []*Term
						for k := 0; k < 8; k++ {
							var got *Term
							for j := from; j < to; j++ {
								f := &p.Events[j]
								if f.Kind == "store" && f.Addr.Op == "iaddr" && f.Addr.Args[0].Key() == cell.Key() && f.Addr.Args[1].IsConst(fmt.Sprint(k)) {
									got = f.Val
								}
							}
							if got == nil {
								break
							}
							elems = append(elems, got)
						}
						if len(elems) > 0 {
							piece = elems
						}
					}
					return []emission{{piece: piece, pos: to}}
				}
			}
		}
		for i := from; i < to && i < len(p.Events); i++ {
			e := &p.Events[i]
			if callbackParam >= 0 {
				if e.Kind == "call" && e.Name == "dyn" && isParam(e.Callee, callbackParam) {
					out = append(out, emission{piece: e.Args, pos: i})
				}
			} else if e.Kind == "store" && e.Addr.Op == "iaddr" && e.Addr.Args[0].Op == "mkslice" {
				piece := []*Term{e.Val}
				// a composite literal built in a local array: its elements are the pieces
				var cell *Term
				e.Val.Walk(func(x *Term) bool {
					if x.Op == "alloc" && cell == nil {
						cell = x
					}
					return true
				})
				if cell != nil && e.Val.Op != "slice" {
					var elems []*Term
					for k := 0; k < 8; k++ {
						var got *Term
						for j := from; j < i; j++ {
							f := &p.Events[j]
							if f.Kind == "store" && f.Addr.Op == "iaddr" && f.Addr.Args[0].Key() == cell.Key() && f.Addr.Args[1].IsConst(fmt.Sprint(k)) {
								got = f.Val
							}
						}
						if got == nil {
							break
						}
						elems = append(elems, got)
					}
					if len(elems) > 0 {
						piece = elems
					}
				}
				out = append(out, emission{piece: piece, index: e.Addr.Args[1], res: e.Addr.Args[0], pos: i})
			}
		}
		return out
	}
	// which loop variable indexes the pieces: the one occurring in the piece on the back path
	if len(li.Back) == 0 {
		fail("the loop has no body path")
		return em
	}
	back := li.Back[0]
	// a result grown by append instead of indexed stores
	if callbackParam < 0 && len(emissionsOf(back, back.LoopAt[li.Hdr], len(back.Events))) == 0 {
		for _, phi := range li.Phis {
			lv := li.LV[phi]
			nx := back.Next[phi]
			if nx == nil || nx.Key() == lv.Key() {
				continue
			}
			if v, single := appendedElem(back, lv, nx); single && isFreshAccInit(li.Init[phi]) {
				em.appendAcc = phi
				_ = v
			}
		}
	}
	// several back paths are fine when they differ only in what was decided before the loop
	for _, other := range li.Back[1:] {
		a := emissionsOf(back, back.LoopAt[li.Hdr], len(back.Events))
		b := emissionsOf(other, other.LoopAt[li.Hdr], len(other.Events))
		same := len(a) == len(b)
		if same {
			for i := range a {
				if len(a[i].piece) != len(b[i].piece) {
					same = false
					break
				}
				for k := range a[i].piece {
					if c13PieceString(a[i].piece[k], nil, fn) != c13PieceString(b[i].piece[k], nil, fn) {
						same = false
					}
				}
			}
		}
		nIn := func(p *Path) int {
			n := 0
			for _, cd := range p.Conds {
				if cd.NEv >= p.LoopAt[li.Hdr] {
					n++
				}
			}
			return n
		}
		if !same || nIn(back) != nIn(other) {
			fail("the loop body branches")
			return em
		}
	}
	bodyEm := emissionsOf(back, back.LoopAt[li.Hdr], len(back.Events))
	if len(bodyEm) != 1 {
		fail("the loop emits %d pieces per iteration", len(bodyEm))
		return em
	}
	var pieceLV *ssa.Phi
	for _, phi := range li.Phis {
		lv := li.LV[phi]
		for _, pc := range bodyEm[0].piece {
			if pc.ContainsKey(lv.Key()) {
				pieceLV = phi
			}
		}
	}
	if pieceLV == nil {
		fail("the emitted piece does not depend on a loop variable")
		return em
	}
	idx := li.LV[pieceLV]
	c13ShiftKey, c13ShiftK = "", 0
	if ct := counted(li); ct != nil && ct.Phi == pieceLV {
		if k, isC := ToPoly(ct.Idx).Add(ToPoly(idx), -1).IsConst(); isC && k != 0 {
			c13ShiftKey, c13ShiftK = idx.Key(), k
		}
	}
	em.loopFirst = c13Poly(ToPoly(li.Init[pieceLV]).Add(polyConst(c13ShiftK), 1), nil, fn)
	em.loopStep = c13Poly(ToPoly(back.Next[pieceLV]).Add(ToPoly(idx), -1), nil, fn)
	for _, pc := range bodyEm[0].piece {
		em.pieces = append(em.pieces, c13PieceString(pc, idx, fn))
	}
	// the continue condition: the cond on the back path that mentions a loop variable
	for _, cd := range back.Conds {
		if cd.NEv >= back.LoopAt[li.Hdr] {
			mentions := false
			for _, phi := range li.Phis {
				if cd.T.ContainsKey(li.LV[phi].Key()) {
					mentions = true
				}
			}
			if mentions {
				if em.loopCond != "" {
					fail("more than one loop condition")
				}
				em.loopCond = c13Cond(cd, idx, fn)
			}
		}
	}
	if bodyEm[0].index != nil {
		// the written index must be its own induction variable starting at 0 stepping 1, or the piece index itself
		w := bodyEm[0].index
		var wPhi *ssa.Phi
		var wOff int64
		for _, phi := range li.Phis {
			if k, isC := ToPoly(w).Add(ToPoly(li.LV[phi]), -1).IsConst(); isC {
				wPhi, wOff = phi, k
			}
		}
		if wPhi == nil {
			fail("the result index written in the loop is not a loop variable (plus a constant): %s", w)
			return em
		}
		em.idxFirst = c13Poly(ToPoly(li.Init[wPhi]).Add(polyConst(wOff), 1), nil, fn)
		em.loopWrites = c13Poly(ToPoly(back.Next[wPhi]).Add(ToPoly(li.LV[wPhi]), -1), nil, fn)
		em.allocLen = ToPoly(bodyEm[0].res.Args[0])
		if wOff == 0 {
			em.writeLV = li.LV[wPhi]
		}
	}
	// rows before the loop, and exit rows
	var guardRows, tailRows [][]string
	_ = guardRows
	_ = tailRows
	for _, p := range ps {
		if p.End == EndLoopBack {
			continue
		}
		inLoop := p.LoopIn[li.Hdr] != nil
		if !inLoop && p.End == EndPanic && c13UnreachableRoundedGuard(p, fn) {
			continue // a guard on (len/size)*size outside [0, len]: cannot fire (lemma chunk_rounded_in_range)
		}
		if !inLoop {
			if len(emissionsOf(p, 0, len(p.Events))) != 0 {
				fail("a row before the loop emits a piece")
			}
			var cs []string
			for _, cd := range p.Conds {
				cs = append(cs, c13Cond(cd, nil, fn))
			}
			em.guardNone = append(em.guardNone, strings.Join(cs, " & "))
			// returns nil / nothing
			if callbackParam < 0 && !(len(p.Rets) == 1 && (p.Rets[0].IsNil() || (p.Rets[0].Op == "mkslice" && p.Rets[0].Args[0].IsConst("0")))) {
				fail("the nothing-to-emit row returns %v", p.Rets)
			}
			continue
		}
		// exit path: pre-loop conds must be the negation of the guard rows (checked by sibling comparison); tail emissions
		tail := emissionsOf(p, p.LoopAt[li.Hdr], len(p.Events))
		pre := emissionsOf(p, 0, p.LoopAt[li.Hdr])
		if len(pre) != 0 {
			fail("a piece is emitted before the loop")
		}
		// conds after the loop exit that do not mention loop vars
		var post []string
		for _, cd := range p.Conds {
			if cd.NEv < p.LoopAt[li.Hdr] {
				continue
			}
			mentions := false
			for _, phi := range li.Phis {
				if cd.T.ContainsKey(li.LV[phi].Key()) {
					mentions = true
				}
			}
			if !mentions {
				post = append(post, c13Cond(cd, nil, fn))
			}
		}
		// conds before the loop that are not part of the guard (e.g. lim selection)
		var preC []string
		for _, cd := range p.Conds {
			if cd.NEv < p.LoopAt[li.Hdr] {
				preC = append(preC, c13Cond(cd, nil, fn))
			}
		}
		switch len(tail) {
		case 0:
			if callbackParam < 0 {
				if em.appendAcc != nil {
					if len(p.Rets) != 1 || p.Rets[0].Key() != li.LV[em.appendAcc].Key() {
						fail("does not return the appended result")
					} else {
						em.resultRet = true
					}
				} else if len(p.Rets) != 1 || p.Rets[0].Op != "mkslice" {
					fail("does not return the result slice")
				} else {
					em.resultRet = true
				}
			}
		case 1:
			g := strings.Join(append(append([]string{}, preC...), post...), " & ")
			if em.tailGuard != "" && em.tailGuard != g {
				// several tail rows: keep the first, mark mismatch
			}
			em.tailGuard = g
			em.tailPiece = c13PieceString(tail[0].piece[0], nil, fn)
			if tail[0].index != nil {
				em.tailIndex = ToPoly(tail[0].index)
				if len(p.Rets) != 1 || p.Rets[0].Key() != tail[0].res.Key() {
					fail("the tail is written into a slice that is not returned")
				}
			}
		default:
			fail("more than one tail emission")
		}
	}
	return em
}

func c13PieceString(pc *Term, idx *Term, fn *ssa.Function) string {
	// slices: base[lo:hi] with lo/hi as polynomials ; composite [2]E{a,b}: element loads
	if pc.Op == "slice" {
		lo, hi := "", ""
		if pc.Args[1].Op != "none" {
			lo = c13Poly(ToPoly(pc.Args[1]), idx, fn)
		}
		if pc.Args[2].Op != "none" {
			hi = c13Poly(ToPoly(pc.Args[2]), idx, fn)
		}
		return c13Render(pc.Args[0], idx, fn) + "[" + lo + " : " + hi + "]"
	}
	if pc.Op == "load" && pc.Args[0].Op == "iaddr" {
		return c13Render(pc.Args[0].Args[0], idx, fn) + "[" + c13Poly(ToPoly(pc.Args[0].Args[1]), idx, fn) + "]"
	}
	if pc.Op == "struct" || pc.Op == "load" {
		return c13Render(pc, idx, fn)
	}
	return c13Render(pc, idx, fn)
}

func runC13(c *Ctx) {
	R := c.R
	R.Rule("partition-shape", "pieces, step, bound, guard and tail of each emitter are those of the definition (Chunk: consecutive size-steps plus a non-empty tail; Windowed: all windows; Pairs: all adjacent pairs)", 6)
	R.Rule("alloc-equals-writes", "the slice-returning variants allocate exactly the number of elements they write, write index i in iteration i, the tail last, and return that slice", 3)
	R.Rule("sibling-agreement", "each ...Func variant has the same guard, loop first/step/condition, piece expressions and tail guard as its sibling", 3)

	type pair struct {
		name, fn string
		cb       int
	}
	ems := map[string]*emitter{}
	for _, pr := range []pair{{"slices.Chunk", "slices.ChunkFunc", 2}, {"slices.Windowed", "slices.WindowedFunc", 2}, {"slices.Pairs", "slices.PairsFunc", 1}} {
		a := c.fn("partition-shape", pr.name)
		b := c.fn("partition-shape", pr.fn)
		if a == nil || b == nil {
			continue
		}
		ea := analyseEmitter(c, "partition-shape", a, -1)
		eb := analyseEmitter(c, "partition-shape", b, pr.cb)
		if !ea.ok && eb.ok && pr.name != "slices.Chunk" {
			// the slice-returning variant written as a collector around its callback sibling
			if d := c13Delegate(c, "partition-shape", a, b, eb, pr.cb); d != nil {
				ea = d
			}
		}
		ems[pr.name], ems[pr.fn] = ea, eb
		// sibling agreement
		if !ea.ok || !eb.ok {
			why := ea.why
			who := pr.name
			if ea.ok {
				why, who = eb.why, pr.fn
			}
			R.Unproven("sibling-agreement", pr.fn, "vs-"+a.Obj.Name(), c.pos(b), who+" cannot be read as an emitter: "+why)
			continue
		}
		var diffs []string
		cmp := func(what, x, y string) {
			if x != y {
				diffs = append(diffs, fmt.Sprintf("%s: %s has %q, %s has %q", what, a.Obj.Name(), x, b.Obj.Name(), y))
			}
		}
		cmp("first index", ea.loopFirst, eb.loopFirst)
		cmp("step", ea.loopStep, eb.loopStep)
		cmp("loop condition", ea.loopCond, eb.loopCond)
		cmp("nothing-to-emit guard", strings.Join(ea.guardNone, " | "), strings.Join(eb.guardNone, " | "))
		// pieces: Pairs stores a composite, PairsFunc passes two args
		pa, pb := strings.Join(ea.pieces, ","), strings.Join(eb.pieces, ",")
		cmp("piece", pa, pb)
		cmp("tail piece", ea.tailPiece, eb.tailPiece)
		// tail guards: the slice variant's guard may contain the allocation-size selection as well; compare as sets, sibling's must be included
		if (ea.tailGuard == "") != (eb.tailGuard == "") {
			diffs = append(diffs, "one of the two emits a tail, the other does not")
		} else if eb.tailGuard != "" {
			for _, g := range strings.Split(eb.tailGuard, " & ") {
				if !strings.Contains(ea.tailGuard, g) {
					diffs = append(diffs, fmt.Sprintf("tail guard: %s emits its tail under %q, %s under %q", b.Obj.Name(), eb.tailGuard, a.Obj.Name(), ea.tailGuard))
				}
			}
		}
		if len(diffs) == 0 {
			R.Held("sibling-agreement", pr.fn, "vs-"+a.Obj.Name(), c.pos(b), "same guard, bounds, step, pieces and tail")
		} else {
			o := R.Refuted("sibling-agreement", pr.fn, "vs-"+a.Obj.Name(), c.pos(b), strings.Join(diffs, "; "))
			o.Breaks = "the callback sees a different sequence of pieces than the slice-returning variant returns"
		}
	}
	// ---- partition-shape per function against the definition
	shape := func(name string, want func(em *emitter, fi *FuncInfo) string) {
		em := ems[name]
		if em == nil {
			return
		}
		if !em.ok {
			R.Unproven("partition-shape", name, "table", c.pos(em.fi), "cannot be read as guard + counted loop + tail: "+em.why)
			return
		}
		if why := want(em, em.fi); why != "" {
			o := R.Refuted("partition-shape", name, "table", c.pos(em.fi), why)
			o.Breaks = "pieces are missing, duplicated, empty or of the wrong size for some (n, size)"
		} else {
			R.Held("partition-shape", name, "table", c.pos(em.fi), "guard, loop and tail match the definition")
		}
	}
	chunkShape := func(em *emitter, fi *FuncInfo) string {
		// first 0, step size(p1), cond R - j > 0 with R = (len(p0)/p1)*p1, piece p0[j : j+size], tail p0[R:] under R != len
		if em.loopFirst != "" && em.loopFirst != "0·" && em.loopFirst != "" {
			if em.loopFirst != "" {
				return "the first chunk does not start at 0: " + em.loopFirst
			}
		}
		if em.loopStep != "1·p1" {
			return "the chunk start does not advance by size: " + em.loopStep
		}
		R1 := "1·builtin:len(p0)*p1" // not used: the rounded atom is bin:/ times p1
		_ = R1
		if !strings.Contains(em.loopCond, "-1·IDX") || !strings.Contains(em.loopCond, "bin:/(builtin:len(p0),p1)*p1") || !strings.HasSuffix(em.loopCond, "> 0") {
			return "the loop does not run while j < (len/size)*size: " + em.loopCond
		}
		if len(em.pieces) != 1 || em.pieces[0] != "p0[1·IDX : 1·IDX + 1·p1]" {
			return "the piece is not slice[j : j+size]: " + strings.Join(em.pieces, ",")
		}
		if em.tailPiece != "p0[1·bin:/(builtin:len(p0),p1)*p1 : ]" {
			return "the tail is not slice[(len/size)*size:]: " + em.tailPiece
		}
		// tail guard contains R != len
		wantNe := "-1·bin:/(builtin:len(p0),p1)*p1 + 1·builtin:len(p0) != 0"
		wantNe2 := "1·bin:/(builtin:len(p0),p1)*p1 + -1·builtin:len(p0) != 0"
		if !strings.Contains(em.tailGuard, wantNe) && !strings.Contains(em.tailGuard, wantNe2) {
			return "the tail is not emitted exactly when (len/size)*size != len: " + em.tailGuard
		}
		// empty guard: either the explicit row, or none at all - with the loop bound (len/size)*size and the tail guard
		// (len/size)*size != len established above, an empty input runs the loop zero times and has no tail anyway
		if len(em.guardNone) == 0 {
			return ""
		}
		if len(em.guardNone) != 1 || !(strings.Contains(em.guardNone[0], "builtin:len(p0) = 0") || em.guardNone[0] == "1· + -1·builtin:len(p0) > 0") {
			return "no 'empty input emits nothing' row: " + strings.Join(em.guardNone, "|")
		}
		return ""
	}
	shape("slices.Chunk", chunkShape)
	shape("slices.ChunkFunc", chunkShape)
	windowShape := func(em *emitter, fi *FuncInfo) string {
		if em.loopStep != "1·" {
			return "windows do not advance by one: " + em.loopStep
		}
		if em.loopFirst != "" {
			return "the first window does not start at 0: " + em.loopFirst
		}
		// cond: len - size + 1 - i > 0
		if em.loopCond != "1· + -1·IDX + 1·builtin:len(p0) + -1·p1 > 0" {
			return "the loop does not run while i < len-size+1: " + em.loopCond
		}
		if len(em.pieces) != 1 || em.pieces[0] != "p0[1·IDX : 1·IDX + 1·p1]" {
			return "the window is not slice[i : i+size]: " + strings.Join(em.pieces, ",")
		}
		if em.tailGuard != "" {
			return "unexpected tail emission"
		}
		if len(em.guardNone) != 1 || em.guardNone[0] != "-1·builtin:len(p0) + 1·p1 > 0" {
			return "the 'no windows' guard is not exactly len < size: " + strings.Join(em.guardNone, "|")
		}
		return ""
	}
	shape("slices.Windowed", windowShape)
	shape("slices.WindowedFunc", windowShape)
	pairShape := func(em *emitter, fi *FuncInfo) string {
		if em.loopStep != "1·" || em.loopFirst != "" {
			return "pairs do not start at 0 and advance by one"
		}
		if em.loopCond != "-1· + -1·IDX + 1·builtin:len(p0) > 0" {
			return "the loop does not run while i < len-1: " + em.loopCond
		}
		if em.tailGuard != "" {
			return "unexpected tail emission"
		}
		if len(em.guardNone) != 1 || em.guardNone[0] != "2· + -1·builtin:len(p0) > 0" {
			return "the 'no pairs' guard is not exactly len < 2: " + strings.Join(em.guardNone, "|")
		}
		return ""
	}
	shape("slices.Pairs", pairShape)
	shape("slices.PairsFunc", pairShape)
	// pair contents
	if em := ems["slices.PairsFunc"]; em != nil && em.ok {
		ok := len(em.pieces) == 2 && em.pieces[0] == "p0[1·IDX]" && em.pieces[1] == "p0[1· + 1·IDX]"
		R.Decide(ok, "partition-shape", "slices.PairsFunc", "pair", c.pos(em.fi), "(slice[i], slice[i+1])", "the pair is not (slice[i], slice[i+1]): "+strings.Join(em.pieces, ","))
	}
	if em := ems["slices.Pairs"]; em != nil && em.ok {
		ok := len(em.pieces) == 2 && em.pieces[0] == "p0[1·IDX]" && em.pieces[1] == "p0[1· + 1·IDX]"
		R.Decide(ok, "partition-shape", "slices.Pairs", "pair", c.pos(em.fi), "[2]E{slice[i], slice[i+1]}", "the stored pair is not {slice[i], slice[i+1]}: "+strings.Join(em.pieces, ","))
	}
	// ---- alloc-equals-writes
	for _, name := range []string{"slices.Chunk", "slices.Windowed", "slices.Pairs"} {
		em := ems[name]
		if em == nil {
			continue
		}
		if em.ok && (em.appendAcc != nil || em.appendDeleg) {
			R.Held("alloc-equals-writes", name, "count", c.pos(em.fi), "the result starts empty and grows by exactly one element per emitted piece (append)")
			continue
		}
		if !em.ok || em.allocLen == nil {
			R.Unproven("alloc-equals-writes", name, "count", c.pos(em.fi), "not an emitter into an allocated result: "+em.why)
			continue
		}
		why := ""
		if em.idxFirst != "" || em.loopWrites != "1·" {
			why = "the loop does not write result[0], result[1], ... consecutively"
		}
		fn := em.fi.SSA
		alloc := c13Poly(em.allocLen, nil, fn)
		switch name {
		case "slices.Chunk":
			div := "1·bin:/(builtin:len(p0),p1)"
			if em.tailIndex == nil {
				why = "no tail write"
				break
			}
			// On the tail path the allocation must be div+1 and the tail index div; the no-tail allocation is checked through the path-specific make term:
			ps := c.An.PathsOf(fn).Paths
			for _, p := range ps {
				if p.End != EndReturn || len(p.Rets) != 1 || p.Rets[0].Op != "mkslice" {
					continue
				}
				L := c13Poly(ToPoly(p.Rets[0].Args[0]), nil, fn)
				hasTail := false
				var tIdx *Poly
				for i := range p.Events {
					e := &p.Events[i]
					if e.Kind == "store" && e.Addr.Op == "iaddr" && e.Addr.Args[0].Key() == p.Rets[0].Key() && e.Val.Op == "slice" && e.Val.Args[2].Op == "none" {
						hasTail = true
						tIdx = ToPoly(e.Addr.Args[1])
					}
				}
				if hasTail {
					if L != "1· + "+div {
						why = "with a remainder the result has " + L + " elements, the loop writes len/size and the tail one more"
					} else if em.writeLV != nil && em.idxFirst == "" && em.loopWrites == "1·" && tIdx.Equal(ToPoly(em.writeLV)) {
						// the tail goes where the write counter stands after the loop: it started at 0 and went up
						// by one per written piece, and the loop writes len/size pieces (partition-shape; trip
						// count lemma chunk_loop_trip)
					} else if c13Poly(tIdx, nil, fn) != div {
						why = "the tail is written at index " + c13Poly(tIdx, nil, fn) + ", expected len/size"
					}
				} else if L != div {
					why = "without a remainder the result has " + L + " elements but the loop writes len/size: spurious empty chunks (or an out-of-range write)"
				}
			}
		case "slices.Windowed":
			if alloc != "1· + 1·builtin:len(p0) + -1·p1" {
				why = "allocates " + alloc + " windows, the loop writes len-size+1"
			}
		case "slices.Pairs":
			if alloc != "-1· + 1·builtin:len(p0)" {
				why = "allocates " + alloc + " pairs, the loop writes len-1"
			}
		}
		o := R.Decide(why == "", "alloc-equals-writes", name, "count", c.pos(em.fi), "allocation = loop trip count (+1 under the tail guard); consecutive indices; result returned", why)
		if why != "" {
			o.Breaks = "spurious empty pieces at the end of the result, or an index-out-of-range panic"
		}
	}
}

// c13Delegate reads a slice-returning variant that has no loop of its own but hands a collecting closure to its
// callback sibling: result := make(.., n); i := 0; Sibling(slice[, size], func(piece...) { result[i] = piece; i++ });
// return result. The pieces, bounds and step are then the sibling's (decided on the sibling), the allocation is this
// function's, and the closure must store every piece it is given, once, at a counter that starts at 0 and goes up
// by one. nil when the function is not of that form.
func c13Delegate(c *Ctx, rule string, a, b *FuncInfo, eb *emitter, cbParam int) *emitter {
	ps := c.paths(rule, a)
	if ps == nil || len(findLoops(ps)) != 0 {
		return nil
	}
	fn := a.SSA
	em := &emitter{fi: a, ok: true}
	em.loopFirst, em.loopStep, em.loopCond = eb.loopFirst, eb.loopStep, eb.loopCond
	em.pieces = append([]string(nil), eb.pieces...)
	em.tailGuard, em.tailPiece = eb.tailGuard, eb.tailPiece
	mains := 0
	for _, p := range ps {
		calls := callsNamed(p, b.Name)
		if len(calls) == 0 {
			// a nothing-to-emit row
			if p.End != EndReturn || len(p.Rets) != 1 || !(p.Rets[0].IsNil() || (p.Rets[0].Op == "mkslice" && p.Rets[0].Args[0].IsConst("0"))) {
				return nil
			}
			for i := range p.Events {
				if e := &p.Events[i]; !(e.Kind == "call" && e.Name == "builtin.len") {
					return nil
				}
			}
			var cs []string
			for _, cd := range p.Conds {
				cs = append(cs, c13Cond(cd, nil, fn))
			}
			em.guardNone = append(em.guardNone, strings.Join(cs, " & "))
			continue
		}
		mains++
		if len(calls) == 1 && p.End == EndReturn && len(p.Rets) == 1 && p.Rets[0].Op == "load" && p.Rets[0].Args[0].Op == "alloc" {
			if c13AppendDelegate(c, a, p, calls[0], cbParam) {
				em.appendDeleg = true
				em.resultRet = true
				continue
			}
			return nil
		}
		if len(calls) != 1 || p.End != EndReturn || len(p.Rets) != 1 || p.Rets[0].Op != "mkslice" {
			return nil
		}
		call := calls[0]
		res := p.Rets[0]
		// arguments handed on unchanged, the closure last
		if len(call.Args) != cbParam+1 {
			return nil
		}
		for k := 0; k < cbParam; k++ {
			if !isParam(call.Args[k], k) {
				return nil
			}
		}
		var mk *Event
		var counter *Term
		for i := range p.Events {
			e := &p.Events[i]
			switch {
			case e.Kind == "mkclosure" && e.Val.Key() == call.Args[cbParam].Key():
				mk = e
			case e.Kind == "mkclosure":
				return nil
			case e.Kind == "store" && e.Addr.Op == "alloc" && e.Val.Key() == res.Key():
				// the result kept in a cell the closure shares
			case e.Kind == "store" && e.Addr.Op == "alloc":
				if !e.Val.IsConst("0") || counter != nil {
					return nil
				}
				counter = e.Addr
			case e.Kind == "call" && (e == call || e.Name == "builtin.len"):
			default:
				return nil
			}
		}
		if mk == nil {
			return nil
		}
		cp := c.An.ClosurePaths(mk)
		if cp.Unproven != "" || len(cp.Paths) != 1 || len(cp.Paths[0].Conds) != 0 {
			return nil
		}
		q := cp.Paths[0]
		// which free variables are the result and the counter
		var cell *Term
		for _, bnd := range mk.Val.Args {
			if bnd.Op == "alloc" && counter != nil && bnd.Key() == counter.Key() {
				cell = bnd
			}
		}
		if cell == nil {
			return nil
		}
		writes, steps := 0, 0
		var stored []*Term
		var lit *Term
		for i := range q.Events {
			e := &q.Events[i]
			if e.Kind != "store" {
				return nil
			}
			switch {
			case e.Addr.Op == "iaddr" && e.Addr.Args[0].Op == "alloc" && e.Addr.Args[0].Key() != cell.Key():
				// an element of a composite literal built in a local array
				lit = e.Addr.Args[0]
				stored = append(stored, e.Val)
			case e.Addr.Op == "iaddr":
				// result[i] = piece
				base, idx := e.Addr.Args[0], e.Addr.Args[1]
				if base.Key() != res.Key() {
					return nil
				}
				if !(idx.Op == "load" && idx.Args[0].Key() == cell.Key()) {
					return nil
				}
				writes++
				if lit == nil {
					stored = []*Term{e.Val}
				} else if !(e.Val.Op == "load" && e.Val.Args[0].Key() == lit.Key()) {
					return nil
				}
			case e.Addr.Key() == cell.Key():
				d := ToPoly(e.Val).Add(ToPoly(&Term{Op: "load", Args: []*Term{e.Addr}}), -1)
				if k, isC := d.IsConst(); !isC || k != 1 {
					return nil
				}
				steps++
			default:
				return nil
			}
		}
		if writes != 1 || steps != 1 {
			return nil
		}
		// the piece stored is what the sibling handed over: the closure's parameters, in order
		np := len(mk.SSAFn.Params)
		if len(stored) != np {
			return nil
		}
		for k, v := range stored {
			if !(v.Op == "param" && v.N == k) {
				return nil
			}
		}
		em.allocLen = ToPoly(res.Args[0])
		em.idxFirst, em.loopWrites = "", "1·"
		em.resultRet = true
	}
	if mains == 0 {
		return nil
	}
	return em
}

// c13AppendDelegate: result := make(.., 0, n) kept in a cell; Sibling(args..., func(piece...) { result = append(result,
// piece) }); return result - every piece the sibling hands over is appended once, to a result that starts empty.
func c13AppendDelegate(c *Ctx, a *FuncInfo, p *Path, call *Event, cbParam int) bool {
	cell := p.Rets[0].Args[0]
	if len(call.Args) != cbParam+1 {
		return false
	}
	for k := 0; k < cbParam; k++ {
		if !isParam(call.Args[k], k) {
			return false
		}
	}
	var mk *Event
	inits := 0
	for i := range p.Events {
		e := &p.Events[i]
		switch {
		case e.Kind == "mkclosure" && e.Val.Key() == call.Args[cbParam].Key():
			mk = e
		case e.Kind == "mkclosure":
			return false
		case e.Kind == "store" && e.Addr.Key() == cell.Key():
			if !isFreshAccInit(e.Val) {
				return false
			}
			inits++
		case e.Kind == "call" && (e == call || e.Name == "builtin.len"):
		default:
			return false
		}
	}
	if mk == nil || inits > 1 {
		return false
	}
	captured := false
	for _, b := range mk.Val.Args {
		if b.Key() == cell.Key() {
			captured = true
		}
	}
	if !captured {
		return false
	}
	cp := c.An.ClosurePaths(mk)
	if cp.Unproven != "" || len(cp.Paths) != 1 || len(cp.Paths[0].Conds) != 0 {
		return false
	}
	q := cp.Paths[0]
	grows := 0
	var elem *Term
	for i := range q.Events {
		e := &q.Events[i]
		switch {
		case e.Kind == "store" && e.Addr.Op == "iaddr" && e.Addr.Args[0].Op == "alloc" && e.Addr.Args[0].Key() != cell.Key():
		case e.Kind == "call" && e.Name == "builtin.append":
		case e.Kind == "store" && e.Addr.Key() == cell.Key():
			base := &Term{Op: "load", Args: []*Term{cell}}
			el, single := appendedElem(q, base, e.Val)
			if !single {
				return false
			}
			elem = el
			grows++
		default:
			return false
		}
	}
	if grows != 1 || elem == nil {
		return false
	}
	// the appended element is what the sibling handed over: the parameter itself, or a composite of the parameters in order
	np := len(mk.SSAFn.Params)
	if np == 1 && elem.Op == "param" && elem.N == 0 {
		return true
	}
	if elem.Op == "load" && elem.Args[0].Op == "alloc" {
		lit := elem.Args[0]
		got := map[int]*Term{}
		for i := range q.Events {
			e := &q.Events[i]
			if e.Kind == "store" && e.Addr.Op == "iaddr" && e.Addr.Args[0].Key() == lit.Key() {
				if k, ok := e.Addr.Args[1].IntVal(); ok {
					got[int(k)] = e.Val
				}
			}
		}
		if len(got) != np {
			return false
		}
		for k := 0; k < np; k++ {
			if v := got[k]; v == nil || v.Op != "param" || v.N != k {
				return false
			}
		}
		return true
	}
	return false
}

// c13UnreachableRoundedGuard: a panicking row decided by R < 0 or R > len(slice) with R = (len(slice)/size)*size. For
// every size >= 1 (the property's domain) 0 <= R <= len, so the row is never taken; the sizes below 1 are outside the
// property. The path must do nothing before it panics.
func c13UnreachableRoundedGuard(p *Path, fn *ssa.Function) bool {
	for i := range p.Events {
		if e := &p.Events[i]; !(e.Kind == "call" && e.Name == "builtin.len") {
			return false
		}
	}
	const R = "1·bin:/(builtin:len(p0),p1)*p1"
	for _, cd := range p.Conds {
		pl, kind, isInt := cd.Rel().IntNorm()
		if !isInt || kind != ">" {
			continue
		}
		got := c13Poly(pl, nil, fn)
		// R < 0  <=>  -R > 0 ;  R > len  <=>  R - len > 0
		if got == "-1·bin:/(builtin:len(p0),p1)*p1" || got == R+" + -1·builtin:len(p0)" || got == "-1·builtin:len(p0) + "+R {
			return true
		}
	}
	return false
}
