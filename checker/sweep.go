package main

import (
	"bytes"
	"encoding/json"
	"fmt"
	"go/ast"
	"go/format"
	"go/parser"
	"go/token"
	"math/rand"
	"os"
	"os/exec"
	"path/filepath"
	"sort"
	"strings"
	"sync"
)

// Mutation-sensitivity sweep (thorough tier, informational): AST operators applied to the files the
// property is anchored in, each mutant analysed in memory (overlay) by a sub-process. It never changes
// the exit status; it tells how much of the neighbourhood of the code the static rules separate.

type sweepMutant struct {
	file string // relative to the tree
	desc string
	src  []byte
}

var siblingSwaps = map[string]string{
	"width": "height", "height": "width", "left": "right", "right": "left", "next": "prev", "prev": "next",
	"Lock": "RLock", "RLock": "Lock", "Unlock": "RUnlock", "RUnlock": "Unlock", "Front": "Back", "Back": "Front",
	"PushFront": "PushBack", "PushBack": "PushFront", "Sort": "Stable", "Stable": "Sort", "forward": "reverse", "reverse": "forward",
	"leftHeight": "rightHeight", "rightHeight": "leftHeight", "rotateLeft": "rotateRight", "rotateRight": "rotateLeft",
	"Load": "LoadOrStore", "Add": "Remove", "Remove": "Add", "dirty": "read",
}

func genMutants(repo string, files []string, ranges map[string][][2]int, max int, seed int64) []sweepMutant {
	var all []sweepMutant
	const slack = 6
	// anchored files without line ranges: only the functions that the ranged code calls (by name)
	if len(ranges) > 0 {
		called := map[string]bool{}
		for _, rel := range files {
			if len(ranges[rel]) == 0 {
				continue
			}
			fs := token.NewFileSet()
			f, err := parser.ParseFile(fs, filepath.Join(repo, rel), nil, 0)
			if err != nil {
				continue
			}
			ast.Inspect(f, func(n ast.Node) bool {
				call, ok := n.(*ast.CallExpr)
				if !ok {
					return true
				}
				ln := fs.Position(call.Pos()).Line
				in := false
				for _, r := range ranges[rel] {
					if ln >= r[0]-slack && ln <= r[1]+slack {
						in = true
					}
				}
				if !in {
					return true
				}
				switch fn := call.Fun.(type) {
				case *ast.Ident:
					called[fn.Name] = true
				case *ast.SelectorExpr:
					called[fn.Sel.Name] = true
				case *ast.IndexExpr:
					if id, ok := fn.X.(*ast.Ident); ok {
						called[id.Name] = true
					}
				}
				return true
			})
		}
		for _, rel := range files {
			if len(ranges[rel]) > 0 {
				continue
			}
			fs := token.NewFileSet()
			f, err := parser.ParseFile(fs, filepath.Join(repo, rel), nil, 0)
			if err != nil {
				continue
			}
			for _, d := range f.Decls {
				if fd, ok := d.(*ast.FuncDecl); ok && called[fd.Name.Name] && fd.Body != nil {
					ranges[rel] = append(ranges[rel], [2]int{fs.Position(fd.Pos()).Line + slack, fs.Position(fd.End()).Line - slack})
				}
			}
			if len(ranges[rel]) == 0 {
				ranges[rel] = [][2]int{{-100, -100}}
			}
		}
	}
	inRange := func(rel string, line int) bool {
		if os.Getenv("SWEEP_WHOLE") != "" {
			return true // the cross-property sweep looks at the whole anchored files
		}
		rs := ranges[rel]
		if len(rs) == 0 {
			return true
		}
		for _, r := range rs {
			if line >= r[0]-slack && line <= r[1]+slack {
				return true
			}
		}
		return false
	}
	for _, rel := range files {
		path := filepath.Join(repo, rel)
		src, err := os.ReadFile(path)
		if err != nil {
			continue
		}
		// count sites first, then regenerate per site (re-parse each time: simple and safe)
		type site struct {
			kind string
			n    int
		}
		fset := token.NewFileSet()
		f, err := parser.ParseFile(fset, path, src, parser.ParseComments)
		if err != nil {
			continue
		}
		counts := map[string]int{}
		ast.Inspect(f, func(n ast.Node) bool {
			switch x := n.(type) {
			case *ast.IfStmt:
				counts["negate-if"]++
			case *ast.BinaryExpr:
				switch x.Op {
				case token.LSS, token.LEQ, token.GTR, token.GEQ, token.EQL, token.NEQ:
					counts["swap-cmp"]++
				case token.ADD, token.SUB:
					counts["swap-arith"]++
				}
			case *ast.BasicLit:
				if x.Kind == token.INT {
					counts["int-lit"]++
				}
			case *ast.ExprStmt:
				if _, ok := x.X.(*ast.CallExpr); ok {
					counts["del-call"]++
				}
			case *ast.AssignStmt:
				if x.Tok == token.ASSIGN {
					counts["del-assign"]++
				}
			case *ast.Ident:
				if _, ok := siblingSwaps[x.Name]; ok {
					counts["sibling"]++
				}
				if x.Name == "true" || x.Name == "false" {
					counts["bool-lit"]++
				}
				if x.Name == "len" || x.Name == "cap" {
					counts["len-cap"]++
				}
			case *ast.IncDecStmt:
				counts["incdec"]++
			case *ast.BranchStmt:
				if x.Tok == token.BREAK || x.Tok == token.CONTINUE {
					counts["branch"]++
				}
			case *ast.SliceExpr:
				counts["slice-lo"]++
				counts["slice-hi"]++
			case *ast.IndexExpr:
				counts["index"]++
			case *ast.CallExpr:
				if len(x.Args) >= 2 {
					counts["swap-args"]++
				}
			case *ast.DeferStmt:
				counts["undefer"]++
			}
			if bl := stmtList(n); bl != nil {
				if len(*bl) >= 2 {
					counts["swap-stmt"] += len(*bl) - 1
				}
				for _, st := range *bl {
					switch st.(type) {
					case *ast.IncDecStmt, *ast.GoStmt, *ast.DeferStmt, *ast.SendStmt:
						counts["del-stmt"]++
					}
					if dupable(st) {
						counts["dup-stmt"]++
					}
					if _, ok := st.(*ast.GoStmt); ok {
						counts["go-inline"]++
					}
				}
			}
			if _, ok := n.(*ast.IfStmt); ok {
				counts["cond-true"]++
			}
			if be, ok := n.(*ast.BinaryExpr); ok && (be.Op == token.MUL || be.Op == token.QUO || be.Op == token.REM) {
				counts["mul-div"]++
			}
			if be, ok := n.(*ast.BinaryExpr); ok && (be.Op == token.LAND || be.Op == token.LOR) {
				counts["logic"]++
			}
			if is, ok := n.(*ast.IfStmt); ok && is.Else == nil && is.Init == nil && len(is.Body.List) == 1 {
				switch is.Body.List[0].(type) {
				case *ast.ReturnStmt, *ast.BranchStmt:
					counts["del-guard"]++
				case *ast.ExprStmt:
					counts["del-guard"]++
				}
			}
			if as, ok := n.(*ast.AssignStmt); ok && (as.Tok == token.ADD_ASSIGN || as.Tok == token.SUB_ASSIGN) {
				counts["assign-op"]++
			}
			if is, ok := n.(*ast.IfStmt); ok && is.Else != nil {
				counts["del-else"]++
			}
			if rs, ok := n.(*ast.ReturnStmt); ok && len(rs.Results) >= 2 {
				counts["ret-swap"]++
			}
			if fd, ok := n.(*ast.FuncDecl); ok && fd.Body != nil {
				counts["param-swap"] += len(paramSwapSites(fd))
			}
			return true
		})
		var kinds []string
		for k := range counts {
			kinds = append(kinds, k)
		}
		sort.Strings(kinds)
		for _, kind := range kinds {
			for i := 0; i < counts[kind]; i++ {
				fs := token.NewFileSet()
				g, err := parser.ParseFile(fs, path, src, parser.ParseComments)
				if err != nil {
					continue
				}
				idx := -1
				desc := ""
				var undefer *ast.DeferStmt
				ast.Inspect(g, func(n ast.Node) bool {
					if desc != "" {
						return false
					}
					hit := func() bool { idx++; return idx == i }
					switch x := n.(type) {
					case *ast.IfStmt:
						if kind == "negate-if" && hit() {
							x.Cond = &ast.UnaryExpr{Op: token.NOT, X: &ast.ParenExpr{X: x.Cond}}
							desc = fmt.Sprintf("%s:%d negate if condition", rel, fs.Position(x.Pos()).Line)
						}
					case *ast.BinaryExpr:
						if kind == "swap-cmp" {
							switch x.Op {
							case token.LSS, token.LEQ, token.GTR, token.GEQ, token.EQL, token.NEQ:
								if hit() {
									old := x.Op
									x.Op = map[token.Token]token.Token{token.LSS: token.LEQ, token.LEQ: token.LSS, token.GTR: token.GEQ, token.GEQ: token.GTR, token.EQL: token.NEQ, token.NEQ: token.EQL}[old]
									desc = fmt.Sprintf("%s:%d %s -> %s", rel, fs.Position(x.Pos()).Line, old, x.Op)
								}
							}
						}
						if kind == "swap-arith" && (x.Op == token.ADD || x.Op == token.SUB) && hit() {
							old := x.Op
							x.Op = map[token.Token]token.Token{token.ADD: token.SUB, token.SUB: token.ADD}[old]
							desc = fmt.Sprintf("%s:%d %s -> %s", rel, fs.Position(x.Pos()).Line, old, x.Op)
						}
					case *ast.BasicLit:
						if kind == "int-lit" && x.Kind == token.INT && hit() {
							old := x.Value
							switch old {
							case "0":
								x.Value = "1"
							case "1":
								x.Value = "0"
							default:
								x.Value = old + "+1"
							}
							desc = fmt.Sprintf("%s:%d literal %s -> %s", rel, fs.Position(x.Pos()).Line, old, x.Value)
						}
					case *ast.ExprStmt:
						if _, ok := x.X.(*ast.CallExpr); ok && kind == "del-call" && hit() {
							desc = fmt.Sprintf("%s:%d delete call statement", rel, fs.Position(x.Pos()).Line)
							x.X = &ast.CallExpr{Fun: &ast.FuncLit{Type: &ast.FuncType{Params: &ast.FieldList{}}, Body: &ast.BlockStmt{}}}
						}
					case *ast.AssignStmt:
						if kind == "del-assign" && x.Tok == token.ASSIGN && hit() {
							desc = fmt.Sprintf("%s:%d delete assignment", rel, fs.Position(x.Pos()).Line)
							// keep it type-correct: assign the left side to itself
							x.Rhs = nil
							for _, l := range x.Lhs {
								x.Rhs = append(x.Rhs, l)
							}
						}
					case *ast.Ident:
						if to, ok := siblingSwaps[x.Name]; ok && kind == "sibling" && hit() {
							desc = fmt.Sprintf("%s:%d %s -> %s", rel, fs.Position(x.Pos()).Line, x.Name, to)
							x.Name = to
						}
						if kind == "bool-lit" && (x.Name == "true" || x.Name == "false") && hit() {
							to := map[string]string{"true": "false", "false": "true"}[x.Name]
							desc = fmt.Sprintf("%s:%d %s -> %s", rel, fs.Position(x.Pos()).Line, x.Name, to)
							x.Name = to
						}
						if kind == "len-cap" && (x.Name == "len" || x.Name == "cap") && hit() {
							to := map[string]string{"len": "cap", "cap": "len"}[x.Name]
							desc = fmt.Sprintf("%s:%d %s -> %s", rel, fs.Position(x.Pos()).Line, x.Name, to)
							x.Name = to
						}
					case *ast.IncDecStmt:
						if kind == "incdec" && hit() {
							old := x.Tok
							x.Tok = map[token.Token]token.Token{token.INC: token.DEC, token.DEC: token.INC}[old]
							desc = fmt.Sprintf("%s:%d %s -> %s", rel, fs.Position(x.Pos()).Line, old, x.Tok)
						}
					case *ast.BranchStmt:
						if kind == "branch" && (x.Tok == token.BREAK || x.Tok == token.CONTINUE) && hit() {
							old := x.Tok
							x.Tok = map[token.Token]token.Token{token.BREAK: token.CONTINUE, token.CONTINUE: token.BREAK}[old]
							desc = fmt.Sprintf("%s:%d %s -> %s", rel, fs.Position(x.Pos()).Line, old, x.Tok)
						}
					case *ast.SliceExpr:
						if kind == "slice-lo" && hit() {
							if x.Low == nil {
								x.Low = &ast.BasicLit{Kind: token.INT, Value: "1"}
							} else {
								x.Low = &ast.BinaryExpr{X: &ast.ParenExpr{X: x.Low}, Op: token.ADD, Y: &ast.BasicLit{Kind: token.INT, Value: "1"}}
							}
							desc = fmt.Sprintf("%s:%d slice low bound +1", rel, fs.Position(x.Pos()).Line)
						}
						if kind == "slice-hi" && hit() {
							if x.High != nil {
								x.High = &ast.BinaryExpr{X: &ast.ParenExpr{X: x.High}, Op: token.SUB, Y: &ast.BasicLit{Kind: token.INT, Value: "1"}}
								desc = fmt.Sprintf("%s:%d slice high bound -1", rel, fs.Position(x.Pos()).Line)
							}
						}
					case *ast.IndexExpr:
						if kind == "index" && hit() {
							x.Index = &ast.BinaryExpr{X: &ast.ParenExpr{X: x.Index}, Op: token.ADD, Y: &ast.BasicLit{Kind: token.INT, Value: "1"}}
							desc = fmt.Sprintf("%s:%d index +1", rel, fs.Position(x.Pos()).Line)
						}
					case *ast.CallExpr:
						if kind == "swap-args" && len(x.Args) >= 2 && hit() {
							x.Args[0], x.Args[1] = x.Args[1], x.Args[0]
							desc = fmt.Sprintf("%s:%d swap the first two call arguments", rel, fs.Position(x.Pos()).Line)
						}
					case *ast.DeferStmt:
						if kind == "undefer" && hit() {
							desc = fmt.Sprintf("%s:%d defer -> immediate call", rel, fs.Position(x.Pos()).Line)
							x.Call = &ast.CallExpr{Fun: &ast.FuncLit{Type: &ast.FuncType{Params: &ast.FieldList{}}, Body: &ast.BlockStmt{List: []ast.Stmt{&ast.ExprStmt{X: x.Call}}}}}
							// defer func(){ call }() keeps the deferral; the mutant is the immediate call: rewrite below
							undefer = x
						}
					}
					if bl := stmtList(n); bl != nil && desc == "" {
						if kind == "swap-stmt" {
							for k := 0; k+1 < len(*bl); k++ {
								if hit() {
									desc = fmt.Sprintf("%s:%d swap this statement with the next", rel, fs.Position((*bl)[k].Pos()).Line)
									(*bl)[k], (*bl)[k+1] = (*bl)[k+1], (*bl)[k]
									break
								}
							}
						}
						if kind == "dup-stmt" {
						for k, st := range *bl {
							if dupable(st) && hit() {
								desc = fmt.Sprintf("%s:%d statement executed twice", rel, fs.Position(st.Pos()).Line)
								nl := append([]ast.Stmt{}, (*bl)[:k+1]...)
								nl = append(nl, st)
								nl = append(nl, (*bl)[k+1:]...)
								*bl = nl
								break
							}
						}
					}
					if kind == "del-stmt" || kind == "go-inline" {
							for k, st := range *bl {
								_, isGo := st.(*ast.GoStmt)
								ok := false
								switch st.(type) {
								case *ast.IncDecStmt, *ast.GoStmt, *ast.DeferStmt, *ast.SendStmt:
									ok = kind == "del-stmt"
								}
								if kind == "go-inline" {
									ok = isGo
								}
								if ok && hit() {
									if kind == "go-inline" {
										desc = fmt.Sprintf("%s:%d go f() -> f()", rel, fs.Position(st.Pos()).Line)
										(*bl)[k] = &ast.ExprStmt{X: st.(*ast.GoStmt).Call}
									} else {
										desc = fmt.Sprintf("%s:%d delete statement (%T)", rel, fs.Position(st.Pos()).Line, st)
										(*bl)[k] = &ast.EmptyStmt{Semicolon: st.Pos()}
									}
									break
								}
							}
						}
					}
					if is, ok := n.(*ast.IfStmt); ok && kind == "cond-true" && desc == "" && hit() {
						desc = fmt.Sprintf("%s:%d if condition -> true", rel, fs.Position(is.Pos()).Line)
						is.Cond = &ast.BinaryExpr{X: &ast.ParenExpr{X: is.Cond}, Op: token.LOR, Y: &ast.Ident{Name: "true"}}
					}
					if be, ok := n.(*ast.BinaryExpr); ok && kind == "mul-div" && desc == "" && (be.Op == token.MUL || be.Op == token.QUO || be.Op == token.REM) && hit() {
						old := be.Op
						be.Op = map[token.Token]token.Token{token.MUL: token.QUO, token.QUO: token.MUL, token.REM: token.QUO}[old]
						desc = fmt.Sprintf("%s:%d %s -> %s", rel, fs.Position(be.Pos()).Line, old, be.Op)
					}
					if be, ok := n.(*ast.BinaryExpr); ok && kind == "logic" && (be.Op == token.LAND || be.Op == token.LOR) && hit() {
						old := be.Op
						be.Op = map[token.Token]token.Token{token.LAND: token.LOR, token.LOR: token.LAND}[old]
						desc = fmt.Sprintf("%s:%d %s -> %s", rel, fs.Position(be.Pos()).Line, old, be.Op)
					}
					if is, ok := n.(*ast.IfStmt); ok && kind == "del-guard" && is.Else == nil && is.Init == nil && len(is.Body.List) == 1 {
						switch is.Body.List[0].(type) {
						case *ast.ReturnStmt, *ast.BranchStmt, *ast.ExprStmt:
							if hit() {
								desc = fmt.Sprintf("%s:%d delete guard (if with a single return/branch/call)", rel, fs.Position(is.Pos()).Line)
								is.Cond = &ast.Ident{Name: "false"}
							}
						}
					}
					if is, ok := n.(*ast.IfStmt); ok && kind == "del-else" && is.Else != nil && hit() {
						desc = fmt.Sprintf("%s:%d delete else branch", rel, fs.Position(is.Else.Pos()).Line)
						is.Else = nil
					}
					if rs, ok := n.(*ast.ReturnStmt); ok && kind == "ret-swap" && len(rs.Results) >= 2 && hit() {
						rs.Results[0], rs.Results[1] = rs.Results[1], rs.Results[0]
						desc = fmt.Sprintf("%s:%d swap the first two results", rel, fs.Position(rs.Pos()).Line)
					}
					if fd, ok := n.(*ast.FuncDecl); ok && kind == "param-swap" && fd.Body != nil {
						for _, st := range paramSwapSites(fd) {
							if hit() {
								desc = fmt.Sprintf("%s:%d %s -> %s (another parameter of the same type)", rel, fs.Position(st.id.Pos()).Line, st.id.Name, st.to)
								st.id.Name = st.to
								break
							}
						}
					}
					if as, ok := n.(*ast.AssignStmt); ok && kind == "assign-op" && (as.Tok == token.ADD_ASSIGN || as.Tok == token.SUB_ASSIGN) && hit() {
						old := as.Tok
						as.Tok = map[token.Token]token.Token{token.ADD_ASSIGN: token.SUB_ASSIGN, token.SUB_ASSIGN: token.ADD_ASSIGN}[old]
						desc = fmt.Sprintf("%s:%d %s -> %s", rel, fs.Position(as.Pos()).Line, old, as.Tok)
					}
					return true
				})
				if undefer != nil {
					// replace the defer statement by the call itself, executed at once
					inner := undefer.Call.Fun.(*ast.FuncLit).Body.List[0]
					ast.Inspect(g, func(n ast.Node) bool {
						if bl, ok := n.(*ast.BlockStmt); ok {
							for k, st := range bl.List {
								if st == ast.Stmt(undefer) {
									bl.List[k] = inner
								}
							}
						}
						return true
					})
				}
				if desc == "" {
					continue
				}
				var ln int
				if i := strings.Index(desc, ":"); i >= 0 {
					fmt.Sscanf(desc[i+1:], "%d", &ln)
				}
				if !inRange(rel, ln) {
					continue
				}
				var buf bytes.Buffer
				if err := format.Node(&buf, fs, g); err != nil {
					continue
				}
				all = append(all, sweepMutant{file: rel, desc: kind + ": " + desc, src: buf.Bytes()})
			}
		}
	}
	// deterministic sample
	rng := rand.New(rand.NewSource(seed))
	rng.Shuffle(len(all), func(i, j int) { all[i], all[j] = all[j], all[i] })
	if len(all) > max {
		all = all[:max]
	}
	sort.Slice(all, func(i, j int) bool { return all[i].desc < all[j].desc })
	return all
}

// dupable: statements whose repetition is a plausible slip and compiles: calls, sends, ++/--, compound assignments,
// go statements (a := declaration would not compile twice, a plain assignment twice is idempotent)
func dupable(st ast.Stmt) bool {
	switch x := st.(type) {
	case *ast.ExprStmt:
		_, ok := x.X.(*ast.CallExpr)
		return ok
	case *ast.IncDecStmt, *ast.SendStmt, *ast.GoStmt:
		return true
	case *ast.AssignStmt:
		if x.Tok == token.ASSIGN && len(x.Rhs) == 1 {
			_, isCall := x.Rhs[0].(*ast.CallExpr) // x = append(x, v), n.root = n.root.add(v): twice is not once
			return isCall
		}
		return x.Tok != token.ASSIGN && x.Tok != token.DEFINE
	}
	return false
}

// stmtList: the statement list of a block, case clause or select clause
func stmtList(n ast.Node) *[]ast.Stmt {
	switch x := n.(type) {
	case *ast.BlockStmt:
		if x != nil {
			return &x.List
		}
	case *ast.CaseClause:
		return &x.Body
	case *ast.CommClause:
		return &x.Body
	}
	return nil
}

// propertiesFile: properties.jsonl of the verif directory in use, else the one beside the checker binary's parent
// directory (sub-processes run with a scratch verif directory).
func propertiesFile(verif string) string {
	p := filepath.Join(verif, "properties.jsonl")
	if _, err := os.Stat(p); err == nil {
		return p
	}
	if self, err := os.Executable(); err == nil {
		q := filepath.Join(filepath.Dir(filepath.Dir(self)), "properties.jsonl")
		if _, err := os.Stat(q); err == nil {
			return q
		}
	}
	return p
}

func anchorFiles(verif, prop string) []string {
	b, err := os.ReadFile(propertiesFile(verif))
	if err != nil {
		return nil
	}
	for _, l := range strings.Split(string(b), "\n") {
		if strings.TrimSpace(l) == "" {
			continue
		}
		var p struct {
			ID      string `json:"id"`
			Anchors struct {
				Files []string `json:"files"`
			} `json:"anchors"`
		}
		if json.Unmarshal([]byte(l), &p) == nil && p.ID == prop {
			return p.Anchors.Files
		}
	}
	return nil
}

// anchorRanges: the line ranges of the property's mechanism and state anchors, per file ("f.go:10-20,30" forms).
// The numbers refer to the pinned tree; later commits shift them a little, hence the slack at use.
func anchorRanges(verif, prop string) map[string][][2]int {
	out := map[string][][2]int{}
	b, err := os.ReadFile(propertiesFile(verif))
	if err != nil {
		return out
	}
	for _, l := range strings.Split(string(b), "\n") {
		if strings.TrimSpace(l) == "" {
			continue
		}
		var p struct {
			ID      string `json:"id"`
			Anchors struct {
				Mechanism []struct {
					Where string `json:"where"`
				} `json:"mechanism"`
				State []struct {
					Where string `json:"where"`
				} `json:"state"`
			} `json:"anchors"`
		}
		if json.Unmarshal([]byte(l), &p) != nil || p.ID != prop {
			continue
		}
		add := func(w string) {
			i := strings.LastIndex(w, ":")
			if i < 0 {
				return
			}
			file := w[:i]
			for _, r := range strings.Split(w[i+1:], ",") {
				var a, b int
				if n, _ := fmt.Sscanf(r, "%d-%d", &a, &b); n == 2 {
					out[file] = append(out[file], [2]int{a, b})
				} else if n, _ := fmt.Sscanf(r, "%d", &a); n == 1 {
					out[file] = append(out[file], [2]int{a, a})
				}
			}
		}
		for _, m := range p.Anchors.Mechanism {
			add(m.Where)
		}
		for _, m := range p.Anchors.State {
			add(m.Where)
		}
	}
	return out
}

func runSweep(c *Ctx, spec *propSpec, seed int64) {
	files := anchorFiles(c.Verif, spec.id)
	muts := genMutants(c.Repo, files, anchorRanges(c.Verif, spec.id), 150, seed)
	if len(muts) == 0 {
		return
	}
	self, err := os.Executable()
	if err != nil {
		return
	}
	type outcome struct{ code int }
	res := make([]int, len(muts))
	sem := make(chan struct{}, 8)
	var wg sync.WaitGroup
	for i, m := range muts {
		wg.Add(1)
		go func(i int, m sweepMutant) {
			defer wg.Done()
			sem <- struct{}{}
			defer func() { <-sem }()
			tmp, err := os.MkdirTemp("", "typcheck-sweep-")
			if err != nil {
				res[i] = -1
				return
			}
			defer os.RemoveAll(tmp)
			mf := filepath.Join(tmp, "mutant.go")
			os.WriteFile(mf, m.src, 0o644)
			if b, err := os.ReadFile(filepath.Join(c.Verif, "known_findings.json")); err == nil {
				os.WriteFile(filepath.Join(tmp, "known_findings.json"), b, 0o644)
			}
			if b, err := os.ReadFile(propertiesFile(c.Verif)); err == nil {
				os.WriteFile(filepath.Join(tmp, "properties.jsonl"), b, 0o644)
			}
			cmd := exec.Command(self, "-prop", spec.id, "-tier", "quick", "-repo", c.Repo, "-verif", tmp, "-nofixtures", "-overlay", m.file+"="+mf)
			var out bytes.Buffer
			cmd.Stdout, cmd.Stderr = &out, &out
			err = cmd.Run()
			code := 0
			if ee, ok := err.(*exec.ExitError); ok {
				code = ee.ExitCode()
			} else if err != nil {
				code = -1
			}
			res[i] = code
		}(i, m)
	}
	wg.Wait()
	killed, survived, invalid := 0, 0, 0
	var survivors []string
	for i, code := range res {
		switch code {
		case 1:
			killed++
		case 0:
			survived++
			survivors = append(survivors, muts[i].desc)
		default:
			invalid++
		}
	}
	c.R.Extra["mutation_sweep"] = map[string]interface{}{
		"note":      "informational: AST mutants of the anchored files analysed in memory; 'killed' = the check reports the mutant, 'survived' = it stays silent (the mutant is equivalent, lies outside the property, or is a gap), 'invalid' = does not type-check",
		"generated": len(muts),
		"killed":    killed,
		"survived":  survived,
		"invalid":   invalid,
		"survivors": survivors,
		"files":     files,
	}
}

type paramSwapSite struct {
	id *ast.Ident
	to string
}

// paramSwapSites: uses of a parameter (or named result) in the body of a function that has another parameter declared
// with the same type expression; the use is replaced by that other parameter. Shadowing is ignored: a mutant that
// does not compile is dropped by the type check of the analysis (it counts as killed by the compiler, not by a rule).
func paramSwapSites(fd *ast.FuncDecl) []paramSwapSite {
	group := map[string][]string{}
	typeOf := map[string]string{}
	add := func(fl *ast.FieldList) {
		if fl == nil {
			return
		}
		for _, f := range fl.List {
			var buf bytes.Buffer
			format.Node(&buf, token.NewFileSet(), f.Type)
			ts := buf.String()
			for _, nm := range f.Names {
				if nm.Name == "_" {
					continue
				}
				group[ts] = append(group[ts], nm.Name)
				typeOf[nm.Name] = ts
			}
		}
	}
	add(fd.Type.Params)
	var out []paramSwapSite
	ast.Inspect(fd.Body, func(n ast.Node) bool {
		if sel, ok := n.(*ast.SelectorExpr); ok {
			// only the operand of a selector can be a parameter
			ast.Inspect(sel.X, func(m ast.Node) bool {
				if id, ok := m.(*ast.Ident); ok {
					if ts, isP := typeOf[id.Name]; isP && len(group[ts]) > 1 {
						for k, nm := range group[ts] {
							if nm == id.Name {
								out = append(out, paramSwapSite{id, group[ts][(k+1)%len(group[ts])]})
							}
						}
					}
				}
				return true
			})
			return false
		}
		if kv, ok := n.(*ast.KeyValueExpr); ok {
			ast.Inspect(kv.Value, func(m ast.Node) bool { return true })
		}
		id, ok := n.(*ast.Ident)
		if !ok {
			return true
		}
		ts, isP := typeOf[id.Name]
		if !isP || len(group[ts]) < 2 {
			return true
		}
		for k, nm := range group[ts] {
			if nm == id.Name {
				out = append(out, paramSwapSite{id, group[ts][(k+1)%len(group[ts])]})
			}
		}
		return true
	})
	return out
}
