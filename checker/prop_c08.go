package main

import (
	"fmt"
	"go/ast"
	"go/types"
	"sort"
	"strings"

	"golang.org/x/tools/go/ssa"
)

func init() {
	register(&propSpec{
		id:    "C08",
		level: "other",
		run:   runC08,
		explanation: "The cell mapping of Array2D is decided completely from the address arithmetic: every index or slice bound applied to the backing slice is rendered as a polynomial over opaque atoms and split as Q1*width + Q0; the rule requires, on every path reaching the access, 0 <= Q1 < height and 0 <= Q0 < width (element) resp. 0 <= Q0lo <= Q0hi <= width (span), with the bounds derived from the path's own guard conditions, loop headers and, for unexported helpers and internally called exported methods, from obligations at every call site. " +
			"For 0<=x<W, 0<=y<H the map (x,y) -> x + y*S is injective with image in [0,W*H) for all W,H iff S = W (arithmetic lemma, machine-checked with Lean 4 + Mathlib in /verif/lemmas/C08_cell.lean), so a stride of height, a guard against the wrong dimension, a non-strict guard, an open-ended span or an unordered span are all refuted. " +
			"Also decided: New2D/New2DFilled allocate width*height and store the dimensions unswapped; Fill writes the span of its first row and copies it to exactly the following rows up to the last (after establishing the order of both coordinate pairs); Clone's backing slice is a fresh allocation of the same length. " +
			"NOT decided: String's formatting; truncation of over-long jagged rows relies on copy's semantics (language).",
		assumptions: []string{"arithmetic lemma: x + y*W is a bijection from [0,W)x[0,H) to [0,W*H)", "Go bounds checks panic on slice expressions outside capacity; copy copies min(len) elements", "width and height are non-negative whenever an in-range coordinate exists (make panics on a negative product; a negative width with a positive height cannot be constructed)"},
	})
}

type c08 struct {
	c          *Ctx
	fW, fH, fS *types.Var
	ctor       map[string][3]int // constructor name -> param indices of width, height (and -1)
}

type bounds struct {
	facts []*Poly // each P > 0 on the path
	eq    []*Poly // each P == 0
	loops map[string]*Counted
	inits map[string]*Term
	c8    *c08
	owner *Term
}

func (b *bounds) gt0(q *Poly) bool {
	// q > 0 follows from a fact P > 0 when q - P is a constant >= 0
	if k, ok := q.IsConst(); ok {
		return k > 0
	}
	for _, p := range b.facts {
		if k, ok := q.Add(p, -1).IsConst(); ok && k >= 0 {
			return true
		}
	}
	return false
}

// ge0: q >= 0
func (b *bounds) ge0(q *Poly, depth int) bool {
	if k, ok := q.IsConst(); ok {
		return k >= 0
	}
	if b.gt0(q.Add(polyConst(1), 1)) {
		return true
	}
	// len(x) and dimension fields of a constructed array are non-negative... only len is assumed
	if len(q.M) == 1 {
		for k, c := range q.M {
			if c > 0 && k != "" {
				if a := q.Atoms[k]; a != nil && a.Op == "builtin" && a.Sym == "len" {
					return true
				}
				// dimensions of a constructed array are non-negative where a row or column exists (assumption, see evidence)
				if a := q.Atoms[k]; a != nil && a.Op == "field" && (sameField(a.Obj, b.c8.fW) || sameField(a.Obj, b.c8.fH)) {
					return true
				}
			}
		}
	}
	// loop index: q = lv + c, lv starts at First and steps upwards
	if depth > 0 {
		for key, ct := range b.loops {
			if q.M[key] == 1 && ct.Step > 0 {
				rest := q.clone()
				delete(rest.M, key)
				// idx = lv + k ; First is the first value of Idx = init + k  => lv >= First - k ... use init directly
				initT := ct.Loop.Init[ct.Phi]
				if it, ok := b.inits[key]; ok {
					initT = it
				}
				init := ToPoly(initT)
				if b.ge0(rest.Add(init, 1), depth-1) {
					return true
				}
			}
		}
		// sum of two non-negative parts
		if len(q.M) == 2 {
			parts := []*Poly{}
			for k, c := range q.M {
				p := newPoly()
				p.M[k] = c
				if k != "" {
					p.Atoms[k] = q.Atoms[k]
				}
				parts = append(parts, p)
			}
			if b.ge0(parts[0], depth-1) && b.ge0(parts[1], depth-1) {
				return true
			}
		}
	}
	return false
}

// lt: q < d  (d - q > 0), with one transitive step through an upper bound B: q <= B < d
func (b *bounds) lt(q, d *Poly, depth int) bool {
	if b.gt0(d.Add(q, -1)) {
		return true
	}
	if depth > 0 {
		for _, p := range b.facts {
			// p = B - q + 1 + k (k<=0)  i.e. q <= B ; try every atom B of p
			for key, coef := range p.M {
				if key == "" || coef != 1 {
					continue
				}
				B := polyAtom(p.Atoms[key])
				if k, ok := p.Add(B, -1).Add(q, 1).Add(polyConst(1), -1).IsConst(); ok && k <= 0 {
					if b.lt(B, d, depth-1) {
						return true
					}
					// q < B (strictly) and B <= d
					if k <= -1 && b.ge0(d.Add(B, -1), depth-1) {
						return true
					}
				}
			}
		}
	}
	return false
}

// le: q <= d
func (b *bounds) le(q, d *Poly, depth int) bool {
	if q.Equal(d) {
		return true
	}
	if b.ge0(d.Add(q, -1), depth) {
		return true
	}
	return b.lt(q, d.Add(polyConst(1), 1), depth)
}

func (x *c08) boundsOf(p *Path, owner *Term) *bounds {
	b := &bounds{loops: map[string]*Counted{}, inits: map[string]*Term{}, c8: x, owner: owner}
	for _, lvs := range p.LoopIn {
		for _, lv := range lvs {
			if len(lv.Args) > 0 {
				b.inits[lv.Key()] = lv.Args[0]
			}
		}
	}
	for _, cd := range p.Conds {
		r := cd.Rel()
		r.A, r.B = x.resolve(r.A), x.resolve(r.B)
		if pl, kind, ok := r.IntNorm(); ok {
			switch kind {
			case ">":
				b.facts = append(b.facts, pl)
			case "=":
				b.eq = append(b.eq, pl)
			}
		}
	}
	return b
}

// resolve replaces field(call Ctor(w,h), width|height) by the constructor's argument.
func (x *c08) resolve(t *Term) *Term {
	if t == nil {
		return nil
	}
	if t.Op == "field" && len(t.Args) == 1 && t.Args[0].Op == "call" {
		if idx, ok := x.ctor[t.Args[0].Sym]; ok {
			call := t.Args[0]
			if sameField(t.Obj, x.fW) && idx[0] >= 0 && idx[0] < len(call.Args) {
				return call.Args[idx[0]]
			}
			if sameField(t.Obj, x.fH) && idx[1] >= 0 && idx[1] < len(call.Args) {
				return call.Args[idx[1]]
			}
		}
	}
	if len(t.Args) == 0 {
		return t
	}
	changed := false
	na := make([]*Term, len(t.Args))
	for i, a := range t.Args {
		na[i] = x.resolve(a)
		if na[i] != a {
			changed = true
		}
	}
	if !changed {
		return t
	}
	cp := *t
	cp.Args = na
	cp.key = ""
	return &cp
}

// splitByWidth: poly = q1*W + q0 ; also reports whether a height atom of the same owner multiplies something (wrong stride)
func splitBy(pl *Poly, wKey string) (q1, q0 *Poly) {
	q1, q0 = newPoly(), newPoly()
	for k, c := range pl.M {
		if k == "" {
			q0.M[""] += c
			continue
		}
		parts := strings.Split(k, monoSep)
		idx := -1
		for i, a := range parts {
			if a == wKey {
				idx = i
				break
			}
		}
		if idx < 0 {
			q0.M[k] += c
			for _, a := range parts {
				q0.Atoms[a] = pl.Atoms[a]
			}
			continue
		}
		rest := append(append([]string{}, parts[:idx]...), parts[idx+1:]...)
		rk := strings.Join(rest, monoSep)
		q1.M[rk] += c
		for _, a := range rest {
			q1.Atoms[a] = pl.Atoms[a]
		}
	}
	return q1.norm(), q0.norm()
}

type c08Site struct {
	kind         string // index | span
	owner        *Term
	idx, lo, hi  *Term
	instr        ssa.Instruction
	openLo, open bool
}

// ownerOfSlice: t is the backing slice of some Array2D value
func (x *c08) ownerOfSlice(t *Term) *Term {
	if t == nil {
		return nil
	}
	if t.Op == "field" && sameField(t.Obj, x.fS) {
		return t.Args[0]
	}
	if t.Op == "load" && t.Args[0].Op == "faddr" && sameField(t.Args[0].Obj, x.fS) {
		return &Term{Op: "load", Args: []*Term{t.Args[0].Args[0]}, Ep: t.Ep}
	}
	return nil
}

func (x *c08) sitesOf(p *Path) []c08Site {
	var out []c08Site
	seen := map[string]bool{}
	visit := func(t *Term, in ssa.Instruction) {
		t.Walk(func(s *Term) bool {
			if seen[s.Key()] {
				return true
			}
			switch s.Op {
			case "iaddr", "index":
				if o := x.ownerOfSlice(s.Args[0]); o != nil {
					seen[s.Key()] = true
					out = append(out, c08Site{kind: "index", owner: o, idx: s.Args[1], instr: valInstr(s, in)})
				}
			case "slice":
				if o := x.ownerOfSlice(s.Args[0]); o != nil {
					seen[s.Key()] = true
					st := c08Site{kind: "span", owner: o, lo: s.Args[1], hi: s.Args[2], instr: valInstr(s, in)}
					if s.Args[1].Op == "none" {
						st.openLo = true
					}
					if s.Args[2].Op == "none" {
						st.open = true
					}
					out = append(out, st)
				}
			}
			return true
		})
	}
	for i := range p.Events {
		e := &p.Events[i]
		for _, t := range append([]*Term{e.Addr, e.Key, e.Val}, e.Args...) {
			if t != nil {
				visit(t, e.Instr)
			}
		}
	}
	for _, cd := range p.Conds {
		visit(cd.T, cd.Instr)
	}
	for _, r := range p.Rets {
		visit(r, nil)
	}
	return out
}

func valInstr(t *Term, fallback ssa.Instruction) ssa.Instruction {
	if in, ok := t.Val.(ssa.Instruction); ok && in != nil {
		return in
	}
	return fallback
}

func runC08(c *Ctx) {
	R := c.R
	R.Rule("row-major", "every index/span on the backing slice is Q1*width + Q0 with 0<=Q1<height and 0<=Q0<width (spans: 0<=Q0lo<=Q0hi<=width, same row), established on the path by guards, loop bounds or call-site obligations", 6)
	R.Rule("callee-precondition", "internal callers of helpers/methods that need in-range coordinates establish them", 1)
	R.Rule("alloc-size", "New2D/New2DFilled allocate width*height and store width/height in the matching fields", 2)
	R.Rule("fill-rectangle", "Fill: first-row span, then copies to rows first+1..last inclusive, with first<=last and lo<=hi established", 1)
	R.Rule("clone-detached", "Clone's backing slice is freshly allocated with the same length and dimensions", 1)
	R.Rule("accessors", "Get returns the cell at (x,y) and Set stores the value there (through the unchecked helpers, called once with the method's own arguments); New2DFilled fills the new slice with the value; every panic path rejects a coordinate that really is out of range (the guards are exact)", 5)

	R.Rule("fill-helper", "slices.Fill, through which New2DFilled and Array2D.Fill write the value, sets every element (C12's row, re-run here)", 1)
	c12Fill(c, "fill-helper")
	R.Rule("guards-complete", "every returning path of an exported method has bounded each integer coordinate parameter from below (>= 0) and above (< a dimension)", 5)
	R.Rule("span-exact", "Row(y) = slice[y*W : (y+1)*W]; RowSpan(x1,x2,y) = slice[x1+y*W : x2+1+y*W]", 2)
	R.Rule("jagged-ctor", "New2DFromJagged = New2D(width, height) + copy(Row(y), jagged[y]) for y < height", 1)
	R.Rule("string-cells", "String prints cell (x,y) exactly once for every 0<=y<height, 0<=x<width", 1)
	x := &c08{c: c, ctor: map[string][3]int{}}
	x.fW = c.P.FieldOf("arrays", "Array2D", "width")
	x.fH = c.P.FieldOf("arrays", "Array2D", "height")
	x.fS = c.P.FieldOf("arrays", "Array2D", "slice")
	if x.fW == nil || x.fH == nil || x.fS == nil {
		R.Unproven("row-major", "arrays.Array2D", "anchor", "", "fields width/height/slice not found")
		return
	}
	funcs := c.P.FuncsOfPkg("arrays")
	allPaths := map[*FuncInfo][]*Path{}
	for _, fi := range funcs {
		ps := c.paths("row-major", fi)
		if ps == nil {
			return
		}
		allPaths[fi] = ps
	}
	// ---- alloc-size (also yields the constructor summaries)
	for _, name := range []string{"arrays.New2D", "arrays.New2DFilled"} {
		fi := c.fn("alloc-size", name)
		if fi == nil {
			continue
		}
		ps := allPaths[fi]
		ok, why := len(ps) == 1 && len(ps[0].Rets) == 1 && ps[0].Rets[0].Op == "struct", "does not return a literal Array2D on a single path"
		wi, hi := -1, -1
		if ok {
			st := ps[0].Rets[0]
			stt := st.Typ.Underlying().(*types.Struct)
			var wT, hT, sT *Term
			for i := 0; i < stt.NumFields(); i++ {
				switch {
				case sameField(stt.Field(i), x.fW):
					wT = st.Args[i]
				case sameField(stt.Field(i), x.fH):
					hT = st.Args[i]
				case sameField(stt.Field(i), x.fS):
					sT = st.Args[i]
				}
			}
			if wT == nil || hT == nil || sT == nil || wT.Op != "param" || hT.Op != "param" {
				ok, why = false, "dimensions are not taken from the parameters"
			} else {
				wi, hi = wT.N, hT.N
				if wi == hi {
					ok, why = false, "width and height are both taken from parameter "+fi.SSA.Params[wi].Name()+": the array is square whatever the second dimension says"
				}
				pw := fi.SSA.Params[wi].Name()
				ph := fi.SSA.Params[hi].Name()
				if pw != "width" || ph != "height" {
					// documented parameter order (width, height): the field named width must receive the first dimension parameter
					if wi > hi {
						ok, why = false, fmt.Sprintf("field width receives parameter %q and height receives %q: dimensions swapped", pw, ph)
					}
				}
				if ok {
					if sT.Op != "mkslice" || !ToPoly(sT.Args[0]).Equal(ToPoly(wT).Mul(ToPoly(hT))) {
						ok, why = false, "the backing slice is not make([]T, width*height): "+sT.String()
					}
				}
			}
		}
		R.Decide(ok, "alloc-size", name, "ctor", c.pos(fi), "width*height cells, dimensions stored unswapped", why)
		if ok {
			x.ctor[name] = [3]int{wi, hi, -1}
		}
	}
	// ---- requirements of helpers: param -> dimension, discovered from their own sites
	type req struct {
		param int
		dim   string
	}
	reqs := map[*FuncInfo][]req{}
	panicPre := map[*FuncInfo][]req{}
	isExported := func(fi *FuncInfo) bool { return ast.IsExported(fi.Obj.Name()) }

	type siteRes struct {
		ok   bool
		why  string
		pos  ssa.Instruction
		form string
	}
	results := map[string]*siteRes{}
	var order []string
	record := func(fi *FuncInfo, st c08Site, ok bool, why, form string) {
		k := fi.Name + "\x00" + instrOrdinal(st.instr)
		r, has := results[k]
		if !has {
			r = &siteRes{ok: true, pos: st.instr, form: form}
			results[k] = r
			order = append(order, k)
		}
		if !ok && r.ok {
			r.ok, r.why = false, why
		}
	}
	// in-range test for a coordinate polynomial, allowing parameters of unexported helpers (recorded as requirements)
	for _, fi := range funcs {
		for _, p := range allPaths[fi] {
			if p.End == EndPanic {
				continue
			}
			sites := x.sitesOf(p)
			if len(sites) == 0 {
				continue
			}
			loops := findLoops(allPaths[fi])
			for _, st := range sites {
				b := x.boundsOf(p, st.owner)
				for _, li := range loops {
					if ct := counted(li); ct != nil {
						b.loops[li.LV[ct.Phi].Key()] = ct
					}
				}
				W := x.resolve(&Term{Op: "field", Args: []*Term{st.owner}, Obj: x.fW, Typ: types.Typ[types.Int]})
				H := x.resolve(&Term{Op: "field", Args: []*Term{st.owner}, Obj: x.fH, Typ: types.Typ[types.Int]})
				Wp, Hp := ToPoly(W), ToPoly(H)
				wKey, hKey := W.Key(), H.Key()
				inRange := func(q *Poly, dim *Poly, dimName string, strict bool) (bool, string) {
					// parameters of an unexported helper become requirements
					if !isExported(fi) && len(q.M) == 1 {
						for k, cf := range q.M {
							if a := q.Atoms[k]; a != nil && a.Op == "param" && cf == 1 && a.N > 0 {
								reqs[fi] = append(reqs[fi], req{a.N, dimName})
								return true, ""
							}
						}
					}
					if !b.ge0(q, 2) {
						return false, fmt.Sprintf("%s is not shown >= 0 on this path", q)
					}
					if strict {
						if !b.lt(q, dim, 2) {
							return false, fmt.Sprintf("%s is not shown < %s on this path", q, dimName)
						}
					} else if !b.le(q, dim, 2) {
						return false, fmt.Sprintf("%s is not shown <= %s on this path", q, dimName)
					}
					return true, ""
				}
				analyse := func(t *Term) (q1, q0 *Poly, err string) {
					pl := ToPoly(x.resolve(t))
					// wrong stride: the height atom multiplies a coordinate
					for k := range pl.M {
						if k == "" {
							continue
						}
						parts := strings.Split(k, monoSep)
						if len(parts) >= 2 {
							hasH, hasW := false, false
							for _, a := range parts {
								if a == hKey {
									hasH = true
								}
								if a == wKey {
									hasW = true
								}
							}
							if hasH && !hasW && hKey != wKey {
								return nil, nil, "the row stride is the height: cells are addressed as x + y*height, which is only right for square arrays"
							}
						}
					}
					q1, q0 = splitBy(pl, wKey)
					if len(q1.M) == 0 {
						return nil, nil, "the address does not have the form x + y*width: " + pl.String()
					}
					return q1, q0, ""
				}
				switch st.kind {
				case "index":
					q1, q0, err := analyse(st.idx)
					if err != "" {
						record(fi, st, false, err, "")
						continue
					}
					if ok, why := inRange(q1, Hp, "height", true); !ok {
						record(fi, st, false, "row coordinate: "+why, "")
						continue
					}
					if ok, why := inRange(q0, Wp, "width", true); !ok {
						record(fi, st, false, "column coordinate: "+why, "")
						continue
					}
					record(fi, st, true, "", fmt.Sprintf("cell %s + (%s)*width", q0, q1))
				case "span":
					if st.open || st.openLo {
						// whole-slice forms are fine only for [:] of the entire backing slice
						if st.open && st.openLo {
							record(fi, st, true, "", "whole backing slice")
						} else {
							record(fi, st, false, "open-ended span of the backing slice: it reaches beyond the row", "")
						}
						continue
					}
					l1, l0, err := analyse(st.lo)
					if err != "" {
						record(fi, st, false, err, "")
						continue
					}
					h1, h0, err2 := analyse(st.hi)
					if err2 != "" {
						record(fi, st, false, err2, "")
						continue
					}
					if d, isC := h1.Add(l1, -1).IsConst(); isC && d == 1 && len(h0.M) == 0 {
						// (row+1)*width + 0 is the end of row `row`
						h1, h0 = l1, Wp
					}
					if !l1.Equal(h1) {
						record(fi, st, false, fmt.Sprintf("span starts in row %s and ends in row %s", l1, h1), "")
						continue
					}
					if ok, why := inRange(l1, Hp, "height", true); !ok {
						record(fi, st, false, "row coordinate: "+why, "")
						continue
					}
					if ok, why := inRange(l0, Wp, "width", false); !ok {
						record(fi, st, false, "span start: "+why, "")
						continue
					}
					if ok, why := inRange(h0, Wp, "width", false); !ok {
						record(fi, st, false, "span end: "+why, "")
						continue
					}
					// ordered: l0 <= h0 ; RowSpan documents x1 <= x2 as precondition
					if !b.le(l0, h0, 2) {
						if fi.Obj.Name() == "RowSpan" {
							record(fi, st, true, "", fmt.Sprintf("span [%s, %s) of row %s (x1 <= x2 is the documented precondition)", l0, h0, l1))
							continue
						}
						record(fi, st, false, fmt.Sprintf("span start %s is not shown <= span end %s on this path (corners given in the other order are not handled)", l0, h0), "")
						continue
					}
					record(fi, st, true, "", fmt.Sprintf("span [%s, %s) of row %s", l0, h0, l1))
				}
			}
		}
	}
	sort.Strings(order)
	for _, k := range order {
		r := results[k]
		parts := strings.SplitN(k, "\x00", 2)
		if r.ok {
			R.Held("row-major", parts[0], parts[1], c.ipos(r.pos), r.form)
		} else {
			o := R.Refuted("row-major", parts[0], parts[1], c.ipos(r.pos), r.why)
			o.Breaks = "two different cells share storage, or an in-bounds coordinate indexes out of range, for some non-square shape or coordinate"
		}
	}
	// ---- panic preconditions of exported methods: params that are range-checked on every non-panicking path
	for _, fi := range funcs {
		if !isExported(fi) || len(fi.SSA.Params) < 2 {
			continue
		}
		sig := fi.Obj.Type().(*types.Signature)
		if sig.Recv() == nil {
			continue
		}
		owner := paramOf(fi, 0)
		for pi := 1; pi < len(fi.SSA.Params); pi++ {
			if !isIntegerType(fi.SSA.Params[pi].Type()) {
				continue
			}
			for _, dim := range []string{"width", "height"} {
				f := x.fW
				if dim == "height" {
					f = x.fH
				}
				D := ToPoly(&Term{Op: "field", Args: []*Term{owner}, Obj: f, Typ: types.Typ[types.Int]})
				all, any := true, false
				for _, p := range allPaths[fi] {
					if p.End == EndPanic {
						continue
					}
					any = true
					b := x.boundsOf(p, owner)
					q := ToPoly(paramOf(fi, pi))
					if !(b.ge0(q, 0) && b.lt(q, D, 0)) {
						all = false
					}
				}
				if all && any {
					panicPre[fi] = append(panicPre[fi], req{pi, dim})
				}
			}
		}
	}
	// ---- callee-precondition: every internal call site of a helper with requirements / an exported method with a panic precondition
	type csRes struct {
		ok  bool
		why string
		pos ssa.Instruction
	}
	csResults := map[string]*csRes{}
	var csOrder []string
	for _, fi := range funcs {
		for _, p := range allPaths[fi] {
			if p.End == EndPanic {
				continue
			}
			for i := range p.Events {
				e := &p.Events[i]
				if e.Kind != "call" {
					continue
				}
				callee := c.P.BySSA[e.SSAFn]
				if callee == nil || e.SSAFn != callee.SSA {
					continue
				}
				need := append(append([]req{}, reqs[callee]...), panicPre[callee]...)
				if len(need) == 0 {
					continue
				}
				owner := e.Args[0]
				b := x.boundsOf(p, owner)
				for _, li := range findLoops(allPaths[fi]) {
					if ct := counted(li); ct != nil {
						b.loops[li.LV[ct.Phi].Key()] = ct
					}
				}
				k := fi.Name + "\x00" + "call-" + callee.Obj.Name() + "/" + instrOrdinal(e.Instr)
				r, has := csResults[k]
				if !has {
					r = &csRes{ok: true, pos: e.Instr}
					csResults[k] = r
					csOrder = append(csOrder, k)
				}
				seenReq := map[string]bool{}
				for _, rq := range need {
					key := fmt.Sprintf("%d/%s", rq.param, rq.dim)
					if seenReq[key] || rq.param >= len(e.Args) {
						continue
					}
					seenReq[key] = true
					f := x.fW
					if rq.dim == "height" {
						f = x.fH
					}
					D := ToPoly(x.resolve(&Term{Op: "field", Args: []*Term{owner}, Obj: f, Typ: types.Typ[types.Int]}))
					q := ToPoly(x.resolve(e.Args[rq.param]))
					// a forwarded parameter of an unexported helper is judged at ITS call sites
					if !isExported(fi) && len(q.M) == 1 {
						fw := false
						for kk, cf := range q.M {
							if a := q.Atoms[kk]; a != nil && a.Op == "param" && cf == 1 {
								reqs[fi] = append(reqs[fi], req{a.N, rq.dim})
								fw = true
							}
						}
						if fw {
							continue
						}
					}
					if !(b.ge0(q, 2) && b.lt(q, D, 2)) {
						r.ok = false
						r.why = fmt.Sprintf("argument %s of %s must lie in [0,%s) but this path does not establish it", e.Args[rq.param], callee.Obj.Name(), rq.dim)
					}
				}
			}
		}
	}
	sort.Strings(csOrder)
	for _, k := range csOrder {
		r := csResults[k]
		parts := strings.SplitN(k, "\x00", 2)
		if r.ok {
			R.Held("callee-precondition", parts[0], parts[1], c.ipos(r.pos), "coordinates passed are within the callee's dimensions on every path")
		} else {
			o := R.Refuted("callee-precondition", parts[0], parts[1], c.ipos(r.pos), r.why)
			o.Breaks = "the callee panics (or addresses a wrong cell) for inputs the caller must accept"
		}
	}
	// ---- accessors
	cellIdx := func(p *Path, idx *Term, owner *Term) bool {
		W := &Term{Op: "field", Args: []*Term{owner}, Obj: x.fW, Typ: types.Typ[types.Int]}
		q1, q0 := splitBy(ToPoly(idx), W.Key())
		return q1.Equal(ToPoly(&Term{Op: "param", N: 2, Fn: p.Fn})) && q0.Equal(ToPoly(&Term{Op: "param", N: 1, Fn: p.Fn}))
	}
	if fi := c.P.Func("arrays.(Array2D).getUnchecked"); fi != nil { // optional helper: Get may address the cell itself
		ps := allPaths[fi]
		ok := len(ps) == 1 && len(ps[0].Rets) == 1
		if ok {
			r := ps[0].Rets[0]
			ok = r.Op == "load" && r.Args[0].Op == "iaddr" && x.ownerOfSlice(r.Args[0].Args[0]) != nil && cellIdx(ps[0], r.Args[0].Args[1], paramOf(fi, 0))
		}
		R.Decide(ok, "accessors", fi.Name, "cell", c.pos(fi), "returns slice[x + y*width]", "does not return the cell at (x, y)")
	}
	if fi := c.P.Func("arrays.(Array2D).setUnchecked"); fi != nil { // optional helper
		ps := allPaths[fi]
		ok := len(ps) == 1
		if ok {
			n := 0
			for i := range ps[0].Events {
				e := &ps[0].Events[i]
				if e.Kind == "store" && e.Addr.Op == "iaddr" && x.ownerOfSlice(e.Addr.Args[0]) != nil {
					n++
					if !cellIdx(ps[0], e.Addr.Args[1], paramOf(fi, 0)) || !isParam(e.Val, 3) {
						ok = false
					}
				}
			}
			ok = ok && n == 1
		}
		R.Decide(ok, "accessors", fi.Name, "cell", c.pos(fi), "stores the value at slice[x + y*width]", "does not store the value at the cell (x, y)")
	}
	for _, acc := range []struct {
		name, helper string
		nargs        int
	}{{"arrays.(Array2D).Get", "arrays.(Array2D).getUnchecked", 3}, {"arrays.(Array2D).Set", "arrays.(Array2D).setUnchecked", 4}} {
		fi := c.fn("accessors", acc.name)
		if fi == nil {
			continue
		}
		ok, why := true, ""
		saw := false
		for _, p := range allPaths[fi] {
			if p.End == EndPanic {
				continue
			}
			saw = true
			calls := callsNamed(p, acc.helper)
			if len(calls) == 0 {
				// the cell addressed directly: slice[x + y*width] of the receiver
				owner := paramOf(fi, 0)
				if acc.nargs == 3 {
					good := len(p.Rets) == 1
					if good {
						r := p.Rets[0]
						good = r.Op == "load" && r.Args[0].Op == "iaddr" && x.ownerOfSlice(r.Args[0].Args[0]) != nil && cellIdx(p, x.resolve(r.Args[0].Args[1]), owner)
					}
					if !good {
						ok, why = false, "does not return the cell at (x, y) (neither through "+acc.helper+" nor directly)"
					}
				} else {
					n := 0
					for i := range p.Events {
						e := &p.Events[i]
						if e.Kind == "store" && e.Addr.Op == "iaddr" && x.ownerOfSlice(e.Addr.Args[0]) != nil {
							n++
							if !cellIdx(p, x.resolve(e.Addr.Args[1]), owner) || !isParam(e.Val, 3) {
								n = -99
							}
						}
					}
					if n != 1 {
						ok, why = false, "does not store the value at the cell (x, y) (neither through "+acc.helper+" nor directly)"
					}
				}
				continue
			}
			if len(calls) != 1 || len(calls[0].Args) != acc.nargs {
				ok, why = false, "does not call "+acc.helper+" exactly once"
				continue
			}
			for k := 0; k < acc.nargs; k++ {
				if !isParam(calls[0].Args[k], k) {
					ok, why = false, "does not pass its own arguments through"
				}
			}
			if acc.nargs == 3 && !(len(p.Rets) == 1 && p.Rets[0].Key() == calls[0].Res.Key()) {
				ok, why = false, "does not return the cell's value"
			}
		}
		R.Decide(ok && saw, "accessors", fi.Name, "delegates", c.pos(fi), "in range: the cell (x, y), through "+acc.helper+" or directly", why)
	}
	if fi := c.fn("accessors", "arrays.New2DFilled"); fi != nil {
		ok := false
		for _, p := range allPaths[fi] {
			if len(p.Rets) != 1 || p.Rets[0].Op != "struct" {
				continue
			}
			for i := range p.Events {
				e := &p.Events[i]
				if e.Kind == "call" && e.Name == "slices.Fill" && isParam(e.Args[1], 2) {
					for _, a := range p.Rets[0].Args {
						if a.Key() == e.Args[0].Key() {
							ok = true
						}
					}
				}
			}
		}
		R.Decide(ok, "accessors", fi.Name, "filled", c.pos(fi), "the new backing slice is filled with the value", "the new array is not filled with the value")
	}
	// exact guards: every panic path of an exported method must contain a condition that puts one of its
	// integer parameters outside [0, dim)
	for _, fi := range funcs {
		if !isExported(fi) {
			continue
		}
		sig := fi.Obj.Type().(*types.Signature)
		if sig.Recv() == nil {
			continue
		}
		owner := paramOf(fi, 0)
		Wp := ToPoly(&Term{Op: "field", Args: []*Term{owner}, Obj: x.fW, Typ: types.Typ[types.Int]})
		Hp := ToPoly(&Term{Op: "field", Args: []*Term{owner}, Obj: x.fH, Typ: types.Typ[types.Int]})
		nPanic := 0
		ok, why := true, ""
		for _, p := range allPaths[fi] {
			if p.End != EndPanic {
				continue
			}
			nPanic++
			justified := false
			for _, cd := range p.Conds {
				pl, kind, isInt := cd.Rel().IntNorm()
				if !isInt || kind != ">" {
					continue
				}
				for pi := 1; pi < len(fi.SSA.Params); pi++ {
					if !isIntegerType(fi.SSA.Params[pi].Type()) {
						continue
					}
					q := ToPoly(paramOf(fi, pi))
					// q < 0  <=>  -q > 0 (or stronger: -q - k > 0, k >= 0)
					if k, isC := polyConst(0).Add(q, -1).Add(pl, -1).IsConst(); isC && k >= 0 {
						justified = true
					}
					// q >= dim  <=> q - dim + 1 > 0 (or stronger)
					for _, D := range []*Poly{Wp, Hp} {
						if k, isC := q.Add(D, -1).Add(polyConst(1), 1).Add(pl, -1).IsConst(); isC && k >= 0 {
							justified = true
						}
					}
				}
			}
			// a guard on the representation invariant len(slice) == width*height: every constructor establishes it
			// (alloc-size, clone-detached), the fields are unexported and every method has a value receiver, so no
			// array that exists violates it - the path is never taken
			if !justified {
				Lp := ToPoly(&Term{Op: "builtin", Sym: "len", Args: []*Term{{Op: "field", Args: []*Term{owner}, Obj: x.fS}}})
				for _, cd := range p.Conds {
					if pl, kind, isInt := cd.Rel().IntNorm(); isInt && kind == "!=" && pl.Equal(canonSign(Lp.Add(Wp.Mul(Hp), -1))) {
						valueRecv := true
						for _, g := range funcs {
							if sg := g.Obj.Type().(*types.Signature); sg.Recv() != nil {
								if _, isPtr := sg.Recv().Type().(*types.Pointer); isPtr {
									valueRecv = false
								}
							}
						}
						if valueRecv {
							justified = true
						}
					}
				}
			}
			if !justified {
				ok, why = false, "a panic path is not justified by a coordinate being < 0 or >= its dimension ("+p.CondString()+"): in-range coordinates are rejected"
			}
		}
		if nPanic > 0 {
			o := R.Decide(ok, "accessors", fi.Name, "guards-exact", c.pos(fi), fmt.Sprintf("all %d panic paths reject a coordinate that is out of range", nPanic), why)
			if !ok {
				o.Breaks = "a coordinate inside the bounds panics"
			}
		}
	}
	c08Extra(x, funcs, allPaths)
	// ---- fill-rectangle
	if fi := c.fn("fill-rectangle", "arrays.(Array2D).Fill"); fi != nil {
		ps := allPaths[fi]
		ok, why := true, ""
		loops := findLoops(ps)
		if len(loops) != 1 {
			ok, why = false, fmt.Sprintf("expected one row loop, found %d", len(loops))
		} else {
			li := loops[0]
			ct := counted(li)
			if ct == nil || ct.Step != 1 {
				ok, why = false, "the row loop is not an upward counted loop"
			} else {
				W := &Term{Op: "field", Args: []*Term{paramOf(fi, 0)}, Obj: x.fW, Typ: types.Typ[types.Int]}
				for _, p := range ps {
					if p.End == EndPanic || p.LoopIn[li.Hdr] == nil {
						if p.End != EndPanic {
							ok, why = false, "a non-panicking path skips the rows"
						}
						continue
					}
					// the first-row fill before the loop
					var fill *Event
					for i := range p.Events {
						e := &p.Events[i]
						if e.Kind == "call" && e.Name == "slices.Fill" && i < p.LoopAt[li.Hdr] {
							fill = e
						}
					}
					if fill == nil || fill.Args[0].Op != "slice" {
						ok, why = false, "the first row is not filled with slices.Fill on a span"
						continue
					}
					first := fill.Args[0]
					f1, f0 := splitBy(ToPoly(first.Args[1]), W.Key())
					_, fh0 := splitBy(ToPoly(first.Args[2]), W.Key())
					if !isParam(fill.Args[1], 5) {
						ok, why = false, "the first row is not filled with the given value"
					}
					// the first row's span is the rectangle's column range: from one x corner to the other, inclusive - in
					// the order this path has established (the copies below repeat whatever span the first row has)
					{
						px1, px2 := ToPoly(paramOf(fi, 1)), ToPoly(paramOf(fi, 3))
						lo, hi := f0, fh0.Add(polyConst(1), -1)
						if !(lo.Equal(px1) && hi.Equal(px2) || lo.Equal(px2) && hi.Equal(px1)) {
							ok, why = false, fmt.Sprintf("the first row spans columns %s..%s, not the rectangle's x1..x2 inclusive", lo, hi)
						}
					}
					// loop starts at first row + 1
					init := ToPoly(p.LoopIn[li.Hdr][ct.Phi].Args[0])
					if !init.Equal(f1.Add(polyConst(1), 1)) {
						ok, why = false, fmt.Sprintf("rows are copied starting at %s, expected first row + 1 = %s", init, f1.Add(polyConst(1), 1))
					}
					b := x.boundsOf(p, paramOf(fi, 0))
					// the loop condition as it reads on THIS path (the corners may have been swapped)
					lvKey := li.LV[ct.Phi].Key()
					var last *Poly
					for _, cd := range p.Conds {
						if !cd.T.ContainsKey(lvKey) {
							continue
						}
						r := cd.Rel()
						if r.B == nil {
							continue
						}
						idx, bound, op := r.A, r.B, r.Op
						if !idx.ContainsKey(lvKey) {
							idx, bound, op = r.B, r.A, flipOp(r.Op)
						}
						// continue condition idx<=bound / idx<bound, or its negation on the exit path
						switch op {
						case "<=", ">":
							last = ToPoly(bound)
						case "<", ">=":
							last = ToPoly(bound).Add(polyConst(1), -1)
						}
						break
					}
					if last == nil {
						ok, why = false, "no loop condition on the row index"
						continue
					}
					if !b.le(f1, last, 2) {
						ok, why = false, fmt.Sprintf("first row %s is not shown <= last row %s on this path: when the corners are given in the other order only part of the rectangle is filled", f1, last)
					}
					if p.End == EndLoopBack {
						// the body copies the first row to the same span of row idx
						var cp *Event
						for i := range p.Events {
							e := &p.Events[i]
							if e.Kind == "call" && e.Name == "builtin.copy" {
								cp = e
							}
						}
						if cp == nil || cp.Args[0].Op != "slice" || cp.Args[1].Key() != first.Key() {
							ok, why = false, "the loop body does not copy the first row's span"
						} else {
							d1, d0 := splitBy(ToPoly(cp.Args[0].Args[1]), W.Key())
							_, dh0 := splitBy(ToPoly(cp.Args[0].Args[2]), W.Key())
							if !d1.Equal(ToPoly(ct.Idx)) || !d0.Equal(f0) || !dh0.Equal(fh0) {
								ok, why = false, "the copied span differs from the first row's span or is not in the loop's row"
							}
						}
					}
				}
			}
		}
		R.Decide(ok, "fill-rectangle", fi.Name, "rows", c.pos(fi), "first row filled, copied to rows first+1..last, order of both corner pairs established", why)
	}
	// ---- clone-detached
	if fi := c.fn("clone-detached", "arrays.(Array2D).Clone"); fi != nil {
		ps := allPaths[fi]
		// panicking paths return nothing; whether they are justified is the business of guards-exact
		{
			var rest []*Path
			for _, p := range ps {
				if p.End != EndPanic {
					rest = append(rest, p)
				}
			}
			ps = rest
		}
		ok, why := len(ps) == 1 && len(ps[0].Rets) == 1 && ps[0].Rets[0].Op == "struct", "does not return a literal Array2D on a single path"
		if ok {
			st := ps[0].Rets[0]
			stt := st.Typ.Underlying().(*types.Struct)
			a := paramOf(fi, 0)
			for i := 0; i < stt.NumFields(); i++ {
				v := st.Args[i]
				switch {
				case sameField(stt.Field(i), x.fW):
					if !isFieldLoad(v, x.fW, a) {
						ok, why = false, "width not copied"
					}
				case sameField(stt.Field(i), x.fH):
					if !isFieldLoad(v, x.fH, a) {
						ok, why = false, "height not copied"
					}
				case sameField(stt.Field(i), x.fS):
					src := &Term{Op: "field", Args: []*Term{a}, Obj: x.fS}
					if v.Op == "call" && v.Sym == "slices.Clone" && len(v.Args) == 1 && v.Args[0].Key() == src.Key() {
						// the library's own copying helper, decided by the clone-helper rule (dependency closure)
					} else if v.Op != "mkslice" || !isLenOf(v.Args[0], src) {
						ok, why = false, "the clone's backing slice is not a fresh make of the same length: "+v.String()
					} else {
						copied := false
						for j := range ps[0].Events {
							e := &ps[0].Events[j]
							if e.Kind == "call" && e.Name == "builtin.copy" && e.Args[0].Key() == v.Key() && e.Args[1].Key() == src.Key() {
								copied = true
							}
						}
						if !copied {
							ok, why = false, "the contents are not copied into the fresh slice"
						}
					}
				}
			}
		}
		R.Decide(ok, "clone-detached", fi.Name, "fresh", c.pos(fi), "fresh backing slice of the same length, contents copied, dimensions kept", why)
	}
}

// c08Extra: rules added after the mutation sweep - guards that are complete (not only exact), the exact windows of
// Row/RowSpan, the constructor from jagged rows, and String as one print per cell.
func c08Extra(x *c08, funcs []*FuncInfo, allPaths map[*FuncInfo][]*Path) {
	c := x.c
	R := c.R
	isExported := func(fi *FuncInfo) bool { return ast.IsExported(fi.Obj.Name()) }
	// ---- guards-complete
	for _, fi := range funcs {
		sig := fi.Obj.Type().(*types.Signature)
		if !isExported(fi) || sig.Recv() == nil {
			continue
		}
		owner := paramOf(fi, 0)
		Wp := ToPoly(&Term{Op: "field", Args: []*Term{owner}, Obj: x.fW, Typ: types.Typ[types.Int]})
		Hp := ToPoly(&Term{Op: "field", Args: []*Term{owner}, Obj: x.fH, Typ: types.Typ[types.Int]})
		var ints []int
		for pi := 1; pi < len(fi.SSA.Params); pi++ {
			if isIntegerType(fi.SSA.Params[pi].Type()) {
				ints = append(ints, pi)
			}
		}
		if len(ints) == 0 {
			continue
		}
		// a method that never reaches the cells - no access to the backing slice, no call of another function of the
		// tree - has nothing to guard (a predicate such as InBounds, an accessor): the rule is about cell accesses
		reaches := false
		for _, p := range allPaths[fi] {
			for i := range p.Events {
				e := &p.Events[i]
				if (e.Kind == "call" || e.Kind == "go" || e.Kind == "defer") && e.SSAFn != nil && c.P.BySSA[e.SSAFn] != nil {
					reaches = true
				}
				for _, t := range append([]*Term{e.Addr, e.Val, e.Key}, e.Args...) {
					if t != nil && mentionsField(t, x.fS) {
						reaches = true
					}
				}
			}
			for _, ac := range p.Acc {
				if ac.Addr != nil && mentionsField(ac.Addr, x.fS) {
					reaches = true
				}
			}
			for _, r := range p.Rets {
				if r != nil && mentionsField(r, x.fS) {
					reaches = true
				}
			}
		}
		if !reaches {
			continue
		}
		ok, why := true, ""
		nret := 0
		for _, p := range allPaths[fi] {
			if p.End != EndReturn {
				continue
			}
			nret++
			for _, pi := range ints {
				q := ToPoly(paramOf(fi, pi))
				lo, hi := false, false
				for _, cd := range p.Conds {
					pl, kind, isInt := cd.Rel().IntNorm()
					if !isInt || kind != ">" {
						continue
					}
					if k, isC := q.Add(polyConst(1), 1).Add(pl, -1).IsConst(); isC && k >= 0 { // pl = q + 1 - k
						lo = true
					}
					for _, D := range []*Poly{Wp, Hp} {
						if k, isC := D.Add(q, -1).Add(pl, -1).IsConst(); isC && k >= 0 { // pl = D - q - k
							hi = true
						}
					}
				}
				if !lo || !hi {
					ok, why = false, fmt.Sprintf("a path (%s) proceeds without having established 0 <= %s < dimension: an out-of-range coordinate is accepted", p.CondString(), fi.SSA.Params[pi].Name())
				}
			}
		}
		if nret == 0 {
			continue
		}
		o := R.Decide(ok, "guards-complete", fi.Name, "coordinates", c.pos(fi), fmt.Sprintf("every returning path has bounded its %d coordinate parameters from both sides", len(ints)), why)
		if !ok {
			o.Breaks = "a coordinate outside the bounds does not panic: it reads or writes another row's cell (or past the slice)"
		}
	}
	// ---- dimension accessors
	for _, acc := range []struct {
		name string
		f    *types.Var
	}{{"arrays.(Array2D).Width", x.fW}, {"arrays.(Array2D).Height", x.fH}} {
		fi := c.P.Func(acc.name)
		if fi == nil {
			continue
		}
		ps := allPaths[fi]
		ok := len(ps) == 1 && len(ps[0].Rets) == 1
		if ok {
			r := x.resolve(ps[0].Rets[0])
			ok = isFieldLoad(r, acc.f, nil) || (r.Op == "field" && sameField(r.Obj, acc.f))
			for i := range ps[0].Events {
				if e := &ps[0].Events[i]; !(e.Kind == "store" && e.Addr.Op == "alloc") {
					ok = false // anything but the spill of the value receiver
				}
			}
		}
		R.Decide(ok, "accessors", fi.Name, "dimension", c.pos(fi), "returns the "+acc.f.Name()+" field", "does not return the "+acc.f.Name()+" of the array")
	}
	// ---- span-exact
	for _, row := range []struct {
		name   string
		lo, hi func(fi *FuncInfo, W *Poly) (*Poly, *Poly)
	}{
		{"arrays.(Array2D).Row", func(fi *FuncInfo, W *Poly) (*Poly, *Poly) {
			y := ToPoly(paramOf(fi, 1))
			return y.Mul(W), y.Mul(W).Add(W, 1)
		}, nil},
		{"arrays.(Array2D).RowSpan", func(fi *FuncInfo, W *Poly) (*Poly, *Poly) {
			x1, x2, y := ToPoly(paramOf(fi, 1)), ToPoly(paramOf(fi, 2)), ToPoly(paramOf(fi, 3))
			return x1.Add(y.Mul(W), 1), x2.Add(polyConst(1), 1).Add(y.Mul(W), 1)
		}, nil},
	} {
		fi := c.fn("span-exact", row.name)
		if fi == nil {
			continue
		}
		owner := paramOf(fi, 0)
		W := ToPoly(&Term{Op: "field", Args: []*Term{owner}, Obj: x.fW, Typ: types.Typ[types.Int]})
		wantLo, wantHi := row.lo(fi, W)
		ok, why := true, ""
		n := 0
		for _, p := range allPaths[fi] {
			if p.End != EndReturn || len(p.Rets) != 1 {
				continue
			}
			n++
			r := p.Rets[0]
			if r.Op != "slice" || len(r.Args) < 3 || !(isFieldLoad(r.Args[0], x.fS, owner)) {
				ok, why = false, "does not return a window of the backing slice: "+r.String()
				continue
			}
			lo, hi := r.Args[1], r.Args[2]
			lop := polyConst(0)
			if lo.Op != "none" {
				lop = ToPoly(x.resolve(lo))
			}
			if hi.Op == "none" {
				ok, why = false, "the window has no upper bound"
				continue
			}
			hip := ToPoly(x.resolve(hi))
			if !lop.Equal(wantLo) || !hip.Equal(wantHi) {
				ok, why = false, fmt.Sprintf("the window is [%s : %s], expected [%s : %s]", lop, hip, wantLo, wantHi)
			}
		}
		if n == 0 {
			ok, why = false, "no returning path"
		}
		o := R.Decide(ok, "span-exact", fi.Name, "window", c.pos(fi), "returns exactly the cells asked for (inclusive of x2 / the whole row)", why)
		if !ok {
			o.Breaks = "the live window is one cell short or long, or lies in another row"
		}
	}
	// ---- jagged-ctor
	if fi := c.fn("jagged-ctor", "arrays.New2DFromJagged"); fi != nil {
		ps := allPaths[fi]
		ok, why := true, ""
		sawCopy := false
		for _, p := range ps {
			var mk *Event
			for i := range p.Events {
				e := &p.Events[i]
				if e.Kind == "call" && (e.Name == "arrays.New2D" || e.Name == "arrays.New2DFilled") {
					mk = e
				}
			}
			if mk == nil || len(mk.Args) < 2 || !isParam(mk.Args[0], 0) || !isParam(mk.Args[1], 1) {
				ok, why = false, "the array is not created as New2D(width, height) from the constructor's own dimensions"
				continue
			}
			if p.End == EndReturn && (len(p.Rets) != 1 || p.Rets[0].Key() != mk.Res.Key()) {
				ok, why = false, "does not return the array it created"
			}
			for i := range p.Events {
				e := &p.Events[i]
				if e.Kind != "call" || e.Name != "builtin.copy" {
					continue
				}
				sawCopy = true
				dst, src := e.Args[0], e.Args[1]
				good := dst.Op == "call" && dst.Sym == "arrays.(Array2D).Row" && dst.Args[0].Key() == mk.Res.Key() &&
					(src.Op == "load" || src.Op == "index") && rootOf(src).Key() == paramOf(fi, 2).Key()
				if good {
					// same row index on both sides
					var si, sbase *Term
					if src.Op == "load" && src.Args[0].Op == "iaddr" {
						si, sbase = src.Args[0].Args[1], src.Args[0].Args[0]
					} else if src.Op == "index" {
						si, sbase = src.Args[1], src.Args[0]
					}
					good = si != nil && ToPoly(si).Equal(ToPoly(dst.Args[1]))
					// the row is an element of the input itself: a window jagged[:n] may reach beyond the input's length
					// (into its spare capacity, or panic), which "ignoring rows outside the bounds" does not cover
					if good && sbase != nil && sbase.Key() != paramOf(fi, 2).Key() {
						inWindow := false
						if sbase.Op == "slice" && len(sbase.Args) == 4 && sbase.Args[0].Key() == paramOf(fi, 2).Key() && (sbase.Args[1].Op == "none" || sbase.Args[1].IsConst("0")) && sbase.Args[2].Op != "none" {
							lenJ := ToPoly(&Term{Op: "builtin", Sym: "len", Args: []*Term{paramOf(fi, 2)}})
							inWindow = x.boundsOf(p, mk.Res).le(ToPoly(sbase.Args[2]), lenJ, 2)
						}
						if !inWindow {
							good = false
						}
					}
					// and that index is below height on this path
					below := false
					if si != nil {
						below = x.boundsOf(p, mk.Res).lt(ToPoly(si), ToPoly(paramOf(fi, 1)), 2)
					}
					if good && !below {
						good = false
					}
				}
				if !good {
					ok, why = false, "a jagged row is not copied into the row of the same index (below height): "+e.String()
				}
				// every row from the first: when the row index is driven by a loop counter, the counter starts at row 0,
				// goes up by one, and the row it reads exists (the range form has all three by construction)
				if good {
					var si *Term
					if src.Op == "load" && src.Args[0].Op == "iaddr" {
						si = src.Args[0].Args[1]
					} else if src.Op == "index" {
						si = src.Args[1]
					}
					for _, li := range findLoops(ps) {
						for phi, lv := range li.LV {
							if si == nil || !si.ContainsKey(lv.Key()) || ToPoly(si).Coef(lv.Key()) != 1 {
								continue
							}
							in := li.Init[phi]
							if in == nil {
								ok, why = false, "cannot read the first row index of the copy loop"
								continue
							}
							first := ToPoly(si).Add(ToPoly(lv), -1).Add(ToPoly(in), 1)
							if k, isC := first.IsConst(); !isC || k != 0 {
								ok, why = false, "the copy loop does not start at row 0: the first row copied is "+first.String()
							}
							for _, q := range li.Back {
								if nx := q.Next[phi]; nx == nil || !ToPoly(nx).Add(ToPoly(lv), -1).Equal(polyConst(1)) {
									ok, why = false, "the copy loop does not advance by one row"
								}
							}
							// ... and the loop ends only when the rows of the array or of the input are used up
							if !strings.Contains(lv.String(), "rangeindex") && ToPoly(si).Equal(ToPoly(lv)) {
								lenJ := ToPoly(&Term{Op: "builtin", Sym: "len", Args: []*Term{paramOf(fi, 2)}})
								hgt := ToPoly(paramOf(fi, 1))
								for _, q := range li.Exit {
									bq := x.boundsOf(q, mk.Res)
									if !(bq.le(hgt, ToPoly(lv), 2) || bq.le(lenJ, ToPoly(lv), 2)) {
										ok, why = false, "the copy loop can end ("+q.CondString()+") before the rows of the array or of the input are used up"
									}
								}
							}
							// a hand-written counter must be tested against the number of input rows before it indexes them
							if _, isRange := phi.Comment, false; !isRange && p.End == EndLoopBack && !strings.Contains(lv.String(), "rangeindex") {
								lenJ := ToPoly(&Term{Op: "builtin", Sym: "len", Args: []*Term{paramOf(fi, 2)}})
								inRange := x.boundsOf(p, mk.Res).lt(ToPoly(si), lenJ, 2)
								for _, cd := range p.Conds {
									if pl, kind, isInt := cd.Rel().IntNorm(); isInt && kind == ">" && pl.Equal(lenJ.Add(ToPoly(si), -1)) {
										inRange = true
									}
								}
								if !inRange {
									ok, why = false, "the input row "+si.String()+" is read without having been found below len(jagged)"
								}
							}
						}
					}
				}
			}
		}
		if ok && !sawCopy {
			ok, why = false, "the jagged rows are never copied"
		}
		R.Decide(ok, "jagged-ctor", fi.Name, "rows", c.pos(fi), "New2D(width, height); row y of the input copied into Row(y) for y < height", why)
	}
	// ---- string-cells
	if fi := c.fn("string-cells", "arrays.(Array2D).String"); fi != nil {
		ps := allPaths[fi]
		owner := paramOf(fi, 0)
		ok, why := true, ""
		loops := findLoops(ps)
		var xs, ys *Counted
		xFirst := int64(0)
		for _, li := range loops {
			ct := counted(li)
			if ct == nil || ct.Step != 1 || ct.Op != "<" {
				continue
			}
			f, isC := ct.First.IsConst()
			if !isC {
				continue
			}
			b := x.resolve(ct.Bound)
			switch {
			case (isFieldLoad(b, x.fW, nil) || (b.Op == "field" && sameField(b.Obj, x.fW))) && (f == 0 || f == 1):
				xs, xFirst = ct, f
			case (isFieldLoad(b, x.fH, nil) || (b.Op == "field" && sameField(b.Obj, x.fH))) && f == 0:
				ys = ct
			}
		}
		Wt := &Term{Op: "field", Args: []*Term{owner}, Obj: x.fW, Typ: types.Typ[types.Int]}
		// cellPrinted: event i of p reads cell (cx, cy) and that value is what a later fmt.Fprint* prints
		cellPrinted := func(p *Path, i int, cx, cy *Poly) (isCell, good bool) {
			e := &p.Events[i]
			var val *Term
			switch {
			case e.Kind == "call" && (strings.HasSuffix(e.Name, ".getUnchecked") || strings.HasSuffix(e.Name, "(Array2D).Get")) && len(e.Args) == 3:
				isCell = true
				if !ToPoly(e.Args[1]).Equal(cx) || !ToPoly(e.Args[2]).Equal(cy) {
					return true, false
				}
				val = e.Res
			case e.Kind == "store" && e.Addr.Op == "iaddr" && e.Addr.Args[0].Op == "alloc" && e.Val != nil:
				v := stripIface(e.Val)
				if v.Op == "load" && v.Args[0].Op == "iaddr" && x.ownerOfSlice(v.Args[0].Args[0]) != nil {
					isCell = true
					q1, q0 := splitBy(ToPoly(x.resolve(v.Args[0].Args[1])), Wt.Key())
					if !q1.Equal(cy) || !q0.Equal(cx) {
						return true, false
					}
					// this store is the variadic slot itself
					for k := i; k < len(p.Events); k++ {
						g := &p.Events[k]
						if g.Kind == "call" && strings.HasPrefix(g.Name, "fmt.Fprint") && g.Args[len(g.Args)-1].ContainsKey(e.Addr.Args[0].Key()) {
							return true, true
						}
					}
					return true, false
				}
				return false, false
			default:
				return false, false
			}
			for j := i; j < len(p.Events); j++ {
				f := &p.Events[j]
				if f.Kind == "store" && f.Addr.Op == "iaddr" && stripIface(f.Val).Key() == val.Key() {
					for k := j; k < len(p.Events); k++ {
						g := &p.Events[k]
						if g.Kind == "call" && strings.HasPrefix(g.Name, "fmt.Fprint") && g.Args[len(g.Args)-1].ContainsKey(f.Addr.Args[0].Key()) {
							return true, true
						}
					}
				}
			}
			return true, false
		}
		if xs == nil || ys == nil {
			ok, why = false, "String is not a loop over 0 <= y < height around a loop over x < width (from 0, or from 1 with the first column printed before it)"
		} else {
			for _, p := range xs.Loop.Back {
				n := 0
				for i := p.LoopAt[xs.Loop.Hdr]; i < len(p.Events); i++ {
					if isCell, good := cellPrinted(p, i, ToPoly(xs.Idx), ToPoly(ys.Idx)); isCell {
						if good {
							n++
						} else {
							ok, why = false, "a cell other than (x, y) of the two loops is read, or it is not what gets printed: "+p.Events[i].String()
						}
					}
				}
				if n != 1 {
					ok, why = false, fmt.Sprintf("an iteration of the inner loop prints %d cells (%s)", n, p.CondString())
				}
			}
			if xFirst == 1 {
				// the first column is printed before the inner loop, exactly when the array has a column
				for _, p := range ps {
					at, entered := p.LoopAt[xs.Loop.Hdr]
					yat, inY := p.LoopAt[ys.Loop.Hdr]
					if !entered || !inY {
						continue
					}
					n := 0
					for i := yat; i < at && i < len(p.Events); i++ {
						if isCell, good := cellPrinted(p, i, polyConst(0), ToPoly(ys.Idx)); isCell {
							if good {
								n++
							} else {
								n = -99
							}
						}
					}
					hasCol := x.boundsOf(p, owner).gt0(ToPoly(Wt))
					if (hasCol && n != 1) || (!hasCol && n != 0) {
						ok, why = false, "the first column is not printed exactly when width > 0 before the loop over the remaining columns"
					}
				}
			}
		}
		R.Decide(ok, "string-cells", fi.Name, "cells", c.pos(fi), "for y in [0,height), x in [0,width): prints cell (x, y) exactly once", why)
	}
	// A span computation moved into an unchecked helper turns several row-major sites into one site in the helper plus one
	// callee-precondition per caller: the floor of row-major is about "the spans are still being looked at" and counts both.
	{
		n := 0
		for _, o := range R.Obs {
			if o.Rule == "row-major" || o.Rule == "callee-precondition" {
				n++
			}
		}
		if R.AltCounts == nil {
			R.AltCounts = map[string]int{}
		}
		if n > R.AltCounts["row-major"] {
			R.AltCounts["row-major"] = n
		}
	}
}
